import Crv.Driver.Mode
import Crv.Driver.Rd
import Crv.Driver.Kv
import Crv.Driver.Repo
import Crv.Driver.Ocsp
import Crv.Driver.Conf
import Crv.Driver.Path
import Crv.Driver.Sched
import Crv.Driver.Lock
import Crv.Driver.Disk
import Crv.Driver.Pem
import Crv.Driver.Chunk
import Crv.Driver.Loader
import Crv.Driver.Cache
open Crv.Driver

/-- One model state per stream kind (DESIGN.md Appendix A). -/
structure DriverState where
  rd : Rd.State := Rd.init
  kv : Kv.State := Kv.init
  repo : Repo.State := Repo.init
  ocsp : Ocsp.State := Ocsp.init
  conf : Conf.State := Conf.init
  path : Path.State := Path.init
  sched : Sched.State := Sched.init
  lock : Lock.State := Lock.init
  disk : Disk.State := Disk.init
  chunk : Chunk.State := Chunk.init

def stepLine (st : DriverState) (line : String) : DriverState × String :=
  match words line with
  | "mode" :: rest => (st, stepMode rest)
  | "rd" :: rest => let (s', out) := Rd.step st.rd rest; ({ st with rd := s' }, out)
  | "kv" :: rest => let (s', out) := Kv.step st.kv rest; ({ st with kv := s' }, out)
  | "repo" :: rest => let (s', out) := Repo.step st.repo rest; ({ st with repo := s' }, out)
  | "ocsp" :: rest => let (s', out) := Ocsp.step st.ocsp rest; ({ st with ocsp := s' }, out)
  | "conf" :: rest => let (s', out) := Conf.step st.conf rest; ({ st with conf := s' }, out)
  | "path" :: rest => let (s', out) := Path.step st.path rest; ({ st with path := s' }, out)
  | "sched" :: rest => let (s', out) := Sched.step st.sched rest; ({ st with sched := s' }, out)
  | "lock" :: rest => let (s', out) := Lock.step st.lock rest; ({ st with lock := s' }, out)
  | "disk" :: rest => let (s', out) := Disk.step st.disk rest; ({ st with disk := s' }, out)
  | "pem" :: rest => (st, stepPem rest)
  | "chunk" :: rest => let (s', out) := Chunk.step st.chunk rest; ({ st with chunk := s' }, out)
  | "ld" :: rest => (st, stepLoader rest)
  | "ct" :: rest => (st, stepCache rest)
  | _ => (st, "bad-op")

partial def loop (h : IO.FS.Stream) (out : IO.FS.Stream) (st : DriverState) : IO Unit := do
  let line ← h.getLine
  if line.isEmpty then return ()
  let l := if line.endsWith "\n" then (line.dropEnd 1).toString else line
  let (st', ans) := stepLine st l
  out.putStrLn ans
  out.flush
  loop h out st'

def main : IO Unit := do
  let out ← IO.getStdout
  loop (← IO.getStdin) out {}
  out.flush
