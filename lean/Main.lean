import Crv.Driver.Mode
open Crv.Driver

def step (line : String) : String :=
  match words line with
  | "mode" :: rest => stepMode rest
  | _ => "bad-op"

partial def loop (h : IO.FS.Stream) (out : IO.FS.Stream) : IO Unit := do
  let line ← h.getLine
  if line.isEmpty then return ()
  let l := if line.endsWith "\n" then (line.dropEnd 1).toString else line
  out.putStrLn (step l)
  loop h out

def main : IO Unit := do
  let out ← IO.getStdout
  loop (← IO.getStdin) out
  out.flush
