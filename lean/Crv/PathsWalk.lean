import Crv.Paths
import Crv.Generated.Paths
/-!
# Crv.PathsWalk — the start-up clean-up with the callback shape regenerated from the source (C20, C12)

`Crv.Paths.walkSweep` is the `filepath.Walk` over the direct children of work_dir for an arbitrary callback shape; here it
is instantiated with the two guards the translator reads from `DeleteTempFilesIfExist` on every run
(`Crv.Generated.walkDeleteGuard`, `Crv.Generated.walkSkipGuard`). `Crv.Proofs.PathsWalk.startup_walk_is_sweep` shows that
with these guards the walk is the idealised filter `Crv.Paths.sweep` that the lifecycle machine and the crash model use.
-/
namespace Crv.Paths
open Crv.Generated

/-- `DeleteTempFilesIfExist` as written in the source: the walk with the regenerated delete and skip guards. -/
def startupSweep (F : Facts) (fs : Fs) : Fs := walkSweep walkDeleteGuard walkSkipGuard F fs

end Crv.Paths
