import Crv.Paths
/-!
# Crv.Disk — crash points and restart on the work_dir listing (C12)

The operations themselves (`loadSteps`, `refreshSteps`: lists of atomic file-system / database steps compiled from
the regenerated programs) live in `Crv.Paths`. A crash keeps a prefix of the step list (process death: every
completed step is visible, nothing else — LevelDB `Put`, `rename`, `mkdir`, `RemoveAll` of one name are taken as
atomic and durable against process death). Restart is what `Provision` and the first `AddCRL` for the location do:
sweep the names matching the temp pattern, open (create if absent) the live store, and infer `Loaded` from the
presence of the meta record (`addNewEmptyEntry`: `Loaded := !IsEmpty()`).
-/
namespace Crv.Disk
open Crv.Paths

/-- Process death after `k` steps. -/
def crashAt (k : Nat) (steps : List Step) (fs : Fs) : Fs := run (steps.take k) fs

/-- Startup on what the crash left: `DeleteTempFilesIfExist`, then `CreateStore(id, false)` for the location. -/
def restart (F : Facts) (id : Name) (fs : Fs) : Fs := (Step.openStore id).apply (sweep F fs)

def image (fs : Fs) (id : Name) : Option DbImage :=
  match fs.get id with
  | some (.dir img) => some img
  | _ => none

/-- `Loaded` as inferred at startup: the meta record is present (`IsEmpty` = meta key absent). -/
def loaded (fs : Fs) (id : Name) : Bool := imageLoaded fs id

def listed (img : DbImage) (serial : Nat) : Bool := (img.get (.entry serial)).isSome

/-- What a handshake observes for a certificate whose distribution point is this location, origin down, strict on. -/
inductive Verdict | revoked | good | notLoaded
  deriving DecidableEq, Repr

def probe (fs : Fs) (id : Name) (serial : Nat) : Verdict :=
  if loaded fs id then
    match image fs id with
    | some img => if listed img serial then .revoked else .good
    | none => .notLoaded
  else .notLoaded

/-- The complete on-disk image of an accepted document (as staged by a refresh: locations, all records, signer if verified). -/
def fullImage (loc : Nat) (d : Doc) (signed : Bool) : DbImage :=
  let i1 := (readWrites d).foldl (fun img w => img.put w.1 w.2) (DbImage.put [] .locations loc)
  if signed then i1.put .signer loc else i1

/-- Steps up to and including the `k`-th hook hit (`k ≥ 1`); the whole list if there are fewer hits. -/
def uptoHit : List Step → Nat → List Step
  | [], _ => []
  | _, 0 => []
  | Step.hit n :: rest, k + 1 => if k = 0 then [Step.hit n] else Step.hit n :: uptoHit rest k
  | st :: rest, k + 1 => st :: uptoHit rest (k + 1)

def hitNames : List Step → List String
  | [] => []
  | Step.hit n :: rest => n :: hitNames rest
  | _ :: rest => hitNames rest

end Crv.Disk
