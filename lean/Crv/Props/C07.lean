import Crv.Proofs.ReaderSafe
import Crv.Proofs.Skeleton
import Crv.Props.C04
/-!
C07 — Parser totality. Statements about the reader model (`Crv/Reader.lean`) instantiated with the
caps, masks and guards the translator regenerates from core/asn1parser and crl/crlreader on every run.
They quantify over **every** byte string and **every** behaviour of the trusted leaf decoders (`Oracle`).

Beyond the reader: the CRL-signer candidate search (`FindCertificateIssuerCandidates`), which runs on the parsed authority key
identifier of every CRL, never hits its nil-pointer dereference (`candidate_search_never_panics`, from C04).

Termination: every model function is a total Lean function (structural recursion, or well-founded
recursion on the length of the unread input for the entry loop), accepted by Lean's termination checker.
-/
namespace Crv.Props.C07
open Crv Crv.Generated

/-- The translator found a cap in front of every length-driven allocation. -/
theorem caps_present :
    structCap = some 81920 ∧ utcTimeCap = some 81920 ∧ bitStringCap = some 81920 ∧
    bigIntCap = some 81920 ∧ octetStringCap = some 81920 := by decide

/-- At most 15 length bytes are ever read for one length field. -/
theorem length_bytes_bounded (b : UInt8) : (b &&& lengthCountMask).toNat ≤ 15 := mask_le b

/-- Reading a CRL never panics, whatever the bytes and whatever the leaf decoders answer. -/
theorem no_panic (O : Oracle) (file : Bytes) : ¬ (match (readCRL O file).outcome with | .panic => True | _ => False) := by
  have h := (readCRL_safe O file).2
  cases hres : (readCRL O file).outcome with
  | panic => simp only [hres] at h
  | err e => simp
  | ok r => simp

/-- Every allocation the reader requests (`make([]byte, n)`) is bounded by a constant (80 KiB cap + header),
independently of any length field in the input. -/
theorem alloc_bounded (O : Oracle) (file : Bytes) :
    ∀ a ∈ (readCRL O file).allocs, a.size ≤ 81937 :=
  (readCRL_safe O file).1

/-- The entry loop consumes input in every iteration: its `stalled` exit is unreachable. -/
theorem entry_loop_never_stalls (O : Oracle) (file : Bytes) :
    ∀ e, (readCRL O file).outcome = .err e → e ≠ .stalled := by
  intro e he
  have h := (readCRL_safe O file).2
  rw [he] at h
  exact h

/-- Key identifiers reaching the chain matcher (`ParseOctetString` on an extension value): safe on every value. -/
theorem ski_value_safe (value : Bytes) :
    match parseOctetString { rest := value } with
    | .panic _ => False
    | .ok _ r => ∀ a ∈ r.allocs, a.size ≤ 81937
    | .err _ r => ∀ a ∈ r.allocs, a.size ≤ 81937 := by
  have h := holds_parseOctetString { rest := value } (allocOK_init value)
  cases hres : parseOctetString { rest := value } with
  | ok a r => simp only [hres] at h ⊢; exact h.1
  | err e r => simp only [hres] at h ⊢; exact h.1
  | panic r => simp only [hres] at h

/-- Name bytes reaching the chain matcher (`ParseRDNSequence` = `ReadStruct` on the raw name): safe on every value. -/
theorem rdn_value_safe (ok : Bytes → Bool) (value : Bytes) :
    match readStruct .rdn ok { rest := value } with
    | .panic _ => False
    | .ok _ r => ∀ a ∈ r.allocs, a.size ≤ 81937
    | .err _ r => ∀ a ∈ r.allocs, a.size ≤ 81937 := by
  have h := holds_readStruct .rdn ok { rest := value } (allocOK_init value)
  cases hres : readStruct .rdn ok { rest := value } with
  | ok a r => simp only [hres] at h ⊢; exact h.1
  | err e r => simp only [hres] at h ⊢; exact h.1
  | panic r => simp only [hres] at h

/-- CRL number value (`ReadBigInt` on the extension value): safe on every value. -/
theorem crl_number_value_safe (value : Bytes) :
    match readBigInt { rest := value } with
    | .panic _ => False
    | .ok _ r => ∀ a ∈ r.allocs, a.size ≤ 81937
    | .err _ r => ∀ a ∈ r.allocs, a.size ≤ 81937 := by
  have h := holds_readBigInt { rest := value } (allocOK_init value)
  cases hres : readBigInt { rest := value } with
  | ok a r => simp only [hres] at h ⊢; exact h.1
  | err e r => simp only [hres] at h ⊢; exact h.1
  | panic r => simp only [hres] at h

/-- A successfully read structure consumed at least one byte (progress of every loop built on it). -/
theorem struct_read_consumes (r : Rd) (f : Bytes) (r' : Rd) (h : readStructFrame r = .ok f r') :
    r'.rest.length < r.rest.length := by
  have := shrinks_readStructFrame r f r' h
  omega

/-- Re-export (`Crv.Props.C04.candidate_search_never_panics`): the CRL-signer candidate search never panics, for every CRL
issuer, every form of the authority key identifier (absent; any combination of key identifier, serial, issuer), every key
algorithm and every list of available certificates. It rests on the regenerated rule chain `candRules`: the issuer+serial rule,
whose loop calls `SerialNumber.Cmp(AuthorityCertSerialNumber)`, only fires when the serial is present. -/
theorem candidate_search_never_panics (crlIssuer : Nat) (aki : Option Cand.AKI) (alg : KeyAlg) (av : List Cand.Avail) :
    Cand.findCandidates crlIssuer aki alg av ≠ .panic :=
  Crv.Props.C04.candidate_search_never_panics crlIssuer aki alg av

-- Non-vacuity: the candidate search's panic outcome exists in the model and is reached by a rule chain whose issuer+serial
-- rule is not guarded by the serial (`Crv.Props.C04.unguarded_serial_rule_panics`).
example : Cand.findCandidatesWith [("serial+issuer", ["issuer"]), ("keyid", ["keyid"])] true 7 (some ⟨some 9, none, some 7⟩) .ecdsa
    [⟨⟨1, 7, 7, 1, some 9, .ecdsa, some true⟩, .trusted⟩] = .panic :=
  Crv.Props.C04.unguarded_serial_rule_panics 7 (some 9) 7 .ecdsa _ (by simp)

-- Non-vacuity: the panic outcome exists in the model (negative `make` size) and hostile inputs are rejected.
example : (match readN (-1) { rest := [] } with | .panic _ => true | _ => false) = true := by decide
example : narrow64 (2 ^ 63) < 0 := by decide

/-- The hand-written `Reader` model this property rests on was transcribed from exactly these sources: the fingerprints are
recomputed from /repo on every run (tools/extract/skeleton.go), so any change to one of the functions breaks this obligation. -/
theorem reader_sources_as_transcribed : Crv.Generated.skeletonReader = Crv.Skeleton.expectedReader :=
  Crv.Skeleton.reader_sources_as_transcribed

/-- The hand-written `Pem` model this property rests on was transcribed from exactly these sources: the fingerprints are
recomputed from /repo on every run (tools/extract/skeleton.go), so any change to one of the functions breaks this obligation. -/
theorem pem_sources_as_transcribed : Crv.Generated.skeletonPem = Crv.Skeleton.expectedPem :=
  Crv.Skeleton.pem_sources_as_transcribed

/-- The hand-written `Chunk` model this property rests on was transcribed from exactly these sources: the fingerprints are
recomputed from /repo on every run (tools/extract/skeleton.go), so any change to one of the functions breaks this obligation. -/
theorem chunk_sources_as_transcribed : Crv.Generated.skeletonChunk = Crv.Skeleton.expectedChunk :=
  Crv.Skeleton.chunk_sources_as_transcribed

end Crv.Props.C07
