import Crv.Proofs.Repo
import Crv.Generated.Config
/-!
C16 — the signature policy means the same at provisioning, first load, refresh and after restart.
One predicate `acceptable mode doc candidates` decides every intake path of the repository model:
`verify` needs a candidate signer that verifies; `verify_log` and `none` accept every parseable CRL.
The flags `firstLoadHonoursMode` / `refreshHonoursMode` are regenerated from loadCRL / updateCrlEntry.
-/
namespace Crv.Props.C16
open Crv Crv.Repo Crv.Generated

/-- Both intake functions consult the configured mode (translator facts). -/
theorem both_paths_honour_mode : firstLoadHonoursMode = true ∧ refreshHonoursMode = true := by decide

/-- An unset mode means `verify`; the three documented names parse to themselves; anything else is rejected. -/
theorem unset_is_verify : parseSignatureValidationMode "" = some .verify := by decide
theorem mode_names : parseSignatureValidationMode "none" = some .none ∧
    parseSignatureValidationMode "verify_log" = some .verifyLog ∧ parseSignatureValidationMode "verify" = some .verify := by decide

/-- First load (first CDP fetch, background first load, first half of provisioning): succeeds exactly when a parseable
document is served and it is acceptable under the policy against the candidates of that intake. -/
theorem first_load_accepts_iff (s : State) (loc : Loc) (e : Entry) (cands : List Signer)
    (hopen : loadRefused s e = false) :
    (loadCRL s loc e cands).2 = .ok ↔ ∃ d, servedAt s loc = .doc d ∧ acceptable s.cfg.sigMode d cands = true := by
  unfold loadCRL
  simp only [hopen, Bool.false_eq_true, ↓reduceIte, firstLoadHonoursMode]
  cases hsv : servedAt s loc with
  | down => simp [stage]
  | garbage => simp [stage]
  | doc d =>
    have := stage_honour_iff s.cfg.sigMode d cands
    constructor
    · intro h
      cases hst : stage s.cfg.sigMode true (.doc d) cands with
      | ok st d' v =>
        obtain ⟨hsv', _, _, hacc, _⟩ := stage_ok _ _ _ _ _ _ _ hst
        cases hsv'
        exact ⟨d, rfl, hacc⟩
      | fetchFail => rw [hst] at h; cases h
      | parseFail => rw [hst] at h; cases h
      | sigFail d' => rw [hst] at h; cases h
    · rintro ⟨d', hd', hacc⟩
      cases hd'
      obtain ⟨st, v, hst⟩ := this.mpr hacc
      rw [hst]

/-- Refresh (periodic tick, second half of provisioning, refresh after restart): same predicate, against the given
chains or else the persisted signer certificate. -/
theorem refresh_accepts_iff (s : State) (loc : Loc) (e : Entry) (nc : Option (List Signer))
    (hopen : refreshRefused s e = false) (hlocs : e.store.hasLocs = true) :
    (updateCrlEntry s loc e nc).2 = .ok ↔
      ∃ d, servedAt s loc = .doc d ∧ acceptable s.cfg.sigMode d (refreshCands e nc) = true := by
  unfold updateCrlEntry
  simp only [hopen, Bool.false_eq_true, ↓reduceIte, hlocs, Bool.not_true, refreshHonoursMode]
  cases hsv : servedAt s loc with
  | down => simp [stage]
  | garbage => simp [stage]
  | doc d =>
    have := stage_honour_iff s.cfg.sigMode d (refreshCands e nc)
    constructor
    · intro h
      cases hst : stage s.cfg.sigMode true (.doc d) (refreshCands e nc) with
      | ok st d' v =>
        obtain ⟨hsv', _, _, hacc, _⟩ := stage_ok _ _ _ _ _ _ _ hst
        cases hsv'
        exact ⟨d, rfl, hacc⟩
      | fetchFail => rw [hst] at h; cases h
      | parseFail => rw [hst] at h; cases h
      | sigFail d' => rw [hst] at h; cases h
    · rintro ⟨d', hd', hacc⟩
      cases hd'
      obtain ⟨st, v, hst⟩ := this.mpr hacc
      rw [hst]

/-- Under `verify_log` and `none` a parseable CRL is accepted and keeps being refreshed even when its signer cannot be verified. -/
theorem parseable_keeps_refreshing (s : State) (loc : Loc) (e : Entry) (nc : Option (List Signer)) (d : DocA)
    (hm : s.cfg.sigMode = .none ∨ s.cfg.sigMode = .verifyLog)
    (hopen : refreshRefused s e = false) (hlocs : e.store.hasLocs = true) (hsv : servedAt s loc = .doc d) :
    (updateCrlEntry s loc e nc).2 = .ok := by
  rw [refresh_accepts_iff s loc e nc hopen hlocs]
  refine ⟨d, hsv, ?_⟩
  rcases hm with hm | hm <;> rw [hm] <;> rfl

/-- Under `verify` a CRL that fails verification is never in force — in no state reachable by any history of
provisioning, first loads, refreshes, restarts and shutdowns: whatever is in force was verified against the
candidates of the intake that installed it. -/
theorem verify_in_force_was_verified (cfg : Cfg) (ops : List Op) (hm : cfg.sigMode = .verify) (loc : Loc) (d : DocA)
    (hf : inForce (run cfg ops) loc d) :
    ∃ a ∈ (run cfg ops).log, a.loc = loc ∧ a.doc = d ∧ verifies d a.cands = true := by
  obtain ⟨e, hmem, _, _, hdoc⟩ := hf
  obtain ⟨a, ha, h1, h2, h3⟩ := ((inv_run cfg ops).1 (loc, e) hmem).1 d hdoc
  rw [cfg_run, hm] at h3
  exact ⟨a, ha, h1, h2, h3⟩

/-- The same for what restart finds on disk: a persisted store that holds a document holds an accepted one. -/
theorem persisted_was_accepted (cfg : Cfg) (ops : List Op) (loc : Loc) (st : Store) (d : DocA)
    (hmem : (loc, st) ∈ (run cfg ops).disk) (hdoc : st.doc = some d) : Accepted (run cfg ops) loc d :=
  (inv_run cfg ops).2 (loc, st) hmem d hdoc

-- Non-vacuity: unknown signer (9) under the three modes, first load then refresh.
def hist (m : SigMode) : List Op :=
  [.serve 1 (.doc ⟨7, [10], 9, 1⟩), .handshake ⟨7, 10, some 1⟩ [1], .serve 1 (.doc ⟨7, [11], 9, 2⟩), .tick [1],
   .handshake ⟨7, 11, some 1⟩ [1]]
example : isRevoked (run { sigMode := .verify } (hist .verify)) (run { sigMode := .verify } (hist .verify)).entries ⟨7, 11, none⟩ = .notRevoked := by decide
example : isRevoked (run { sigMode := .verifyLog } (hist .verifyLog)) (run { sigMode := .verifyLog } (hist .verifyLog)).entries ⟨7, 11, none⟩ = .revoked := by decide
example : isRevoked (run { sigMode := .none } (hist .none)) (run { sigMode := .none } (hist .none)).entries ⟨7, 11, none⟩ = .revoked := by decide

end Crv.Props.C16
