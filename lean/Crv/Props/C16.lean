import Crv.Proofs.Repo
import Crv.Proofs.Skeleton
import Crv.Generated.Config
/-!
C16 — the signature policy means the same at provisioning, first load, refresh and after restart.
One predicate `acceptable mode doc candidates` decides every intake path of the repository model:
`verify` needs a candidate signer that verifies; `verify_log` and `none` accept every parseable CRL.
The flags `firstLoadHonoursMode` / `refreshHonoursMode` are regenerated from loadCRL / updateCrlEntry,
`persistedNeedsSignerUnderVerify` from addNewEmptyEntry.
Histories may restart the process with another signature mode (`Op.reconfigure`); "the mode" of a theorem over
histories is the current one, `(run cfg ops).cfg.sigMode`, or the one configured at the intake (`Accept.mode`).
-/
namespace Crv.Props.C16
open Crv Crv.Repo Crv.Generated

/-- Both intake functions consult the configured mode (translator facts). -/
theorem both_paths_honour_mode : firstLoadHonoursMode = true ∧ refreshHonoursMode = true := by decide

/-- An unset mode means `verify`; the three documented names parse to themselves; anything else is rejected. -/
theorem unset_is_verify : parseSignatureValidationMode "" = some .verify := by decide
theorem mode_names : parseSignatureValidationMode "none" = some .none ∧
    parseSignatureValidationMode "verify_log" = some .verifyLog ∧ parseSignatureValidationMode "verify" = some .verify := by decide

/-- First load (first CDP fetch, background first load, first half of provisioning): succeeds exactly when a parseable
document is served and it is acceptable under the policy against the candidates of that intake. -/
theorem first_load_accepts_iff (s : State) (loc : Loc) (e : Entry) (cands : List Signer)
    (hopen : loadRefused s e = false) :
    (loadCRL s loc e cands).2 = .ok ↔ ∃ d, servedAt s loc = .doc d ∧ acceptable s.cfg.sigMode d cands = true := by
  unfold loadCRL
  simp only [hopen, Bool.false_eq_true, ↓reduceIte, firstLoadHonoursMode]
  cases hsv : servedAt s loc with
  | down => simp [stage]
  | garbage => simp [stage]
  | doc d =>
    have := stage_honour_iff s.cfg.sigMode d cands
    constructor
    · intro h
      cases hst : stage s.cfg.sigMode true (.doc d) cands with
      | ok st d' v =>
        obtain ⟨hsv', _, _, hacc, _⟩ := stage_ok _ _ _ _ _ _ _ hst
        cases hsv'
        exact ⟨d, rfl, hacc⟩
      | fetchFail => rw [hst] at h; cases h
      | parseFail => rw [hst] at h; cases h
      | sigFail d' => rw [hst] at h; cases h
    · rintro ⟨d', hd', hacc⟩
      cases hd'
      obtain ⟨st, v, hst⟩ := this.mpr hacc
      rw [hst]

/-- Refresh (periodic tick, second half of provisioning, refresh after restart): same predicate, against the given
chains or else the persisted signer certificate. -/
theorem refresh_accepts_iff (s : State) (loc : Loc) (e : Entry) (nc : Option (List Signer))
    (hopen : refreshRefused s e = false) (hlocs : e.store.hasLocs = true) :
    (updateCrlEntry s loc e nc).2 = .ok ↔
      ∃ d, servedAt s loc = .doc d ∧ acceptable s.cfg.sigMode d (refreshCands e nc) = true := by
  unfold updateCrlEntry
  simp only [hopen, Bool.false_eq_true, ↓reduceIte, hlocs, Bool.not_true, refreshHonoursMode]
  cases hsv : servedAt s loc with
  | down => simp [stage]
  | garbage => simp [stage]
  | doc d =>
    have := stage_honour_iff s.cfg.sigMode d (refreshCands e nc)
    constructor
    · intro h
      cases hst : stage s.cfg.sigMode true (.doc d) (refreshCands e nc) with
      | ok st d' v =>
        obtain ⟨hsv', _, _, hacc, _⟩ := stage_ok _ _ _ _ _ _ _ hst
        cases hsv'
        exact ⟨d, rfl, hacc⟩
      | fetchFail => rw [hst] at h; cases h
      | parseFail => rw [hst] at h; cases h
      | sigFail d' => rw [hst] at h; cases h
    · rintro ⟨d', hd', hacc⟩
      cases hd'
      obtain ⟨st, v, hst⟩ := this.mpr hacc
      rw [hst]

/-- Under `verify_log` and `none` a parseable CRL is accepted and keeps being refreshed even when its signer cannot be verified. -/
theorem parseable_keeps_refreshing (s : State) (loc : Loc) (e : Entry) (nc : Option (List Signer)) (d : DocA)
    (hm : s.cfg.sigMode = .none ∨ s.cfg.sigMode = .verifyLog)
    (hopen : refreshRefused s e = false) (hlocs : e.store.hasLocs = true) (hsv : servedAt s loc = .doc d) :
    (updateCrlEntry s loc e nc).2 = .ok := by
  rw [refresh_accepts_iff s loc e nc hopen hlocs]
  refine ⟨d, hsv, ?_⟩
  rcases hm with hm | hm <;> rw [hm] <;> rfl

/-- **Under `verify` a CRL that fails verification is never in force — neither now nor after a restart**, for ALL histories,
including those that change the signature mode across restarts (`Op.reconfigure`): whatever is in force while the process
runs under `verify` was verified against the candidates presented at some intake — possibly in an earlier run under another
mode, by a load, a refresh or a signature-certificate retry that presented the signer.
(Until repair 1160255 this needed a hypothesis on provisioning steps; see `former_counterexample_now_harmless` below.) -/
theorem verify_in_force_was_verified (cfg : Cfg) (ops : List Op)
    (hm : (run cfg ops).cfg.sigMode = .verify) (loc : Loc) (d : DocA)
    (hf : inForce (run cfg ops) loc d) :
    ∃ a ∈ (run cfg ops).log, a.loc = loc ∧ a.doc = d ∧ verifies d a.cands = true := by
  obtain ⟨e, hmem, hl, _, hdoc⟩ := hf
  have he := (inv_run cfg ops).1 (loc, e) hmem
  exact he.store.verified d hdoc (he.verifySigner hm hl)

/-- The statement of the previous model (mode never changes: histories without `reconfigure`, initial mode `verify`) is the
special case. -/
theorem verify_in_force_was_verified_constant_mode (cfg : Cfg) (ops : List Op) (hm : cfg.sigMode = .verify)
    (hnr : ∀ op ∈ ops, ∀ m', op ≠ .reconfigure m') (loc : Loc) (d : DocA) (hf : inForce (run cfg ops) loc d) :
    ∃ a ∈ (run cfg ops).log, a.loc = loc ∧ a.doc = d ∧ verifies d a.cands = true :=
  verify_in_force_was_verified cfg ops (by rw [cfg_run_of_no_reconfigure cfg ops hnr]; exact hm) loc d hf

/-- Whatever is in force under `verify` carries a stored signer certificate, and that signer verified some list of this
location against presented candidates (after a signature-certificate retry it is the signer of the newer list whose
refresh had failed verification, not necessarily of the list in force — which was verified by its own signer). -/
theorem verify_in_force_has_seen_signer (cfg : Cfg) (ops : List Op)
    (hm : (run cfg ops).cfg.sigMode = .verify) (loc : Loc) (d : DocA) (hf : inForce (run cfg ops) loc d) :
    ∃ e sg, (loc, e) ∈ (run cfg ops).entries ∧ e.store.doc = some d ∧ e.store.signer = some sg ∧
      ∃ a ∈ (run cfg ops).log, a.loc = loc ∧ a.doc.signer = sg ∧ verifies a.doc a.cands = true := by
  obtain ⟨e, hmem, hl, _, hdoc⟩ := hf
  have he := (inv_run cfg ops).1 (loc, e) hmem
  have hs := he.verifySigner hm hl
  cases hsg : e.store.signer with
  | none => rw [hsg] at hs; cases hs
  | some sg => exact ⟨e, sg, hmem, hdoc, hsg, he.store.signer sg hsg⟩

/-- What restart finds on disk: a persisted store that holds a document holds one that was accepted — under the mode
configured at the time of its intake (`Accepted` now reads the mode from the log record; `accepted_at_intake` spells it
out as the mode of the run after a prefix of the history). All histories. -/
theorem persisted_was_accepted (cfg : Cfg) (ops : List Op) (loc : Loc) (st : Store) (d : DocA)
    (hmem : (loc, st) ∈ (run cfg ops).disk) (hdoc : st.doc = some d) : Accepted (run cfg ops) loc d :=
  ((inv_run cfg ops).2 (loc, st) hmem).accepted d hdoc

theorem persisted_was_accepted_at_intake (cfg : Cfg) (ops : List Op) (loc : Loc) (st : Store) (d : DocA)
    (hmem : (loc, st) ∈ (run cfg ops).disk) (hdoc : st.doc = some d) :
    ∃ pre suf cands, ops = pre ++ suf ∧ acceptable (run cfg pre).cfg.sigMode d cands = true :=
  accepted_at_intake cfg ops loc d (persisted_was_accepted cfg ops loc st d hmem hdoc)

/-- A persisted store that carries a signer certificate holds a verified list, in every reachable state. This is what makes
`addNewEmptyEntry`'s test "signer certificate stored" a sound criterion after a restart under `verify`. -/
theorem persisted_with_signer_was_verified (cfg : Cfg) (ops : List Op)
    (loc : Loc) (st : Store) (d : DocA) (hmem : (loc, st) ∈ (run cfg ops).disk) (hdoc : st.doc = some d)
    (hs : st.signer.isSome = true) :
    ∃ a ∈ (run cfg ops).log, a.loc = loc ∧ a.doc = d ∧ verifies d a.cands = true :=
  ((inv_run cfg ops).2 (loc, st) hmem).verified d hdoc hs

/-- The repaired `addNewEmptyEntry`: in any state whose mode is `verify` (e.g. after `reconfigure s .verify`), the entry opened
for a location whose persisted store has no signer certificate is not loaded. -/
theorem unverified_persisted_not_loaded_under_verify (s : State) (loc : Loc) (cands : List Signer)
    (hm : s.cfg.sigMode = .verify) (hs : ∀ st, lookup s.disk loc = some st → st.signer = none) :
    (newEntry s loc cands).loaded = false := by
  unfold newEntry
  by_cases hd : s.cfg.disk = true
  · simp only [hd, ↓reduceIte]
    cases hl : lookup s.disk loc with
    | none => simp
    | some st => simp [hs st hl, hm, persistedNeedsSignerUnderVerify]
  · simp [hd]

theorem unverified_persisted_not_loaded_after_reconfigure (s : State) (loc : Loc) (cands : List Signer)
    (hs : ∀ st, lookup s.disk loc = some st → st.signer = none) :
    (newEntry (reconfigure s .verify) loc cands).loaded = false :=
  unverified_persisted_not_loaded_under_verify (reconfigure s .verify) loc cands rfl hs

/-- The regenerated fact the two theorems above rest on (crlrepository.go:addNewEmptyEntry). -/
theorem persisted_fact : persistedNeedsSignerUnderVerify = true := by decide

-- Non-vacuity: unknown signer (9) under the three modes, first load then refresh.
def hist (m : SigMode) : List Op :=
  [.serve 1 (.doc ⟨7, [10], 9, 1⟩), .handshake ⟨7, 10, some 1⟩ [1], .serve 1 (.doc ⟨7, [11], 9, 2⟩), .tick [1],
   .handshake ⟨7, 11, some 1⟩ [1]]
example : isRevoked (run { sigMode := .verify } (hist .verify)) (run { sigMode := .verify } (hist .verify)).entries ⟨7, 11, none⟩ = .notRevoked := by decide
example : isRevoked (run { sigMode := .verifyLog } (hist .verifyLog)) (run { sigMode := .verifyLog } (hist .verifyLog)).entries ⟨7, 11, none⟩ = .revoked := by decide
example : isRevoked (run { sigMode := .none } (hist .none)) (run { sigMode := .none } (hist .none)).entries ⟨7, 11, none⟩ = .revoked := by decide

/-! ### Restart with another mode -/

/-- A list signed by an unknown signer (9) is taken in under `none` (it is on disk, no signer certificate), then the process is
restarted under `verify` and a handshake arrives: the persisted list is not loaded, loading again fails verification —
nothing is in force, the certificate it lists is not revoked. -/
def unverifiedThenVerify : List Op :=
  [.serve 1 (.doc ⟨7, [10], 9, 1⟩), .handshake ⟨7, 10, some 1⟩ [1], .reconfigure .verify, .handshake ⟨7, 10, some 1⟩ [1]]
-- before the restart it is in force …
example : inForce (run { sigMode := .none } (unverifiedThenVerify.take 2)) 1 ⟨7, [10], 9, 1⟩ := by decide
-- … and it is still on disk afterwards, without signer certificate
example : lookup (run { sigMode := .none } unverifiedThenVerify).disk 1 = some ⟨some ⟨7, [10], 9, 1⟩, true, none⟩ := by decide
example : (run { sigMode := .none } unverifiedThenVerify).cfg.sigMode = .verify := by decide
example : ¬ inForce (run { sigMode := .none } unverifiedThenVerify) 1 ⟨7, [10], 9, 1⟩ := by decide
example : presentAndLoaded (run { sigMode := .none } unverifiedThenVerify) 1 = false := by decide
example : isRevoked (run { sigMode := .none } unverifiedThenVerify) (run { sigMode := .none } unverifiedThenVerify).entries
    ⟨7, 10, some 1⟩ = .notRevoked := by decide

/-- Contrast: under `verify_log` a handshake presented the signer (9) before the restart; its certificate was stored with the
list, so after the restart under `verify` the list is still in force. -/
def verifiedThenVerify : List Op :=
  [.serve 1 (.doc ⟨7, [10], 9, 1⟩), .handshake ⟨7, 10, some 1⟩ [9], .reconfigure .verify, .handshake ⟨7, 10, some 1⟩ [1]]
example : (run { sigMode := .verifyLog } verifiedThenVerify).cfg.sigMode = .verify := by decide
example : inForce (run { sigMode := .verifyLog } verifiedThenVerify) 1 ⟨7, [10], 9, 1⟩ := by decide
example : isRevoked (run { sigMode := .verifyLog } verifiedThenVerify) (run { sigMode := .verifyLog } verifiedThenVerify).entries
    ⟨7, 10, some 1⟩ = .revoked := by decide

/-- Contrast, through the signature-certificate retry: under `verify_log` the list is installed unverified (candidates [1]),
the next refresh cannot verify it either (failure flag), a later handshake presents the signer (9): the retry stores its
certificate (ghost: the verification is logged). After the restart under `verify` the list is in force, and it was verified. -/
def retryThenVerify : List Op :=
  [.serve 1 (.doc ⟨7, [10], 9, 1⟩), .handshake ⟨7, 10, some 1⟩ [1], .tick [1], .handshake ⟨7, 10, some 1⟩ [9],
   .reconfigure .verify, .handshake ⟨7, 10, some 1⟩ [1]]
example : inForce (run { sigMode := .verifyLog } retryThenVerify) 1 ⟨7, [10], 9, 1⟩ := by decide
example : ∃ a ∈ (run { sigMode := .verifyLog } retryThenVerify).log, a.loc = 1 ∧ a.doc = ⟨7, [10], 9, 1⟩ ∧
    verifies ⟨7, [10], 9, 1⟩ a.cands = true := by decide
-- the same history without the handshake that presented the signer: nothing in force after the restart
example : ¬ inForce (run { sigMode := .verifyLog } [.serve 1 (.doc ⟨7, [10], 9, 1⟩), .handshake ⟨7, 10, some 1⟩ [1], .tick [1],
    .reconfigure .verify, .handshake ⟨7, 10, some 1⟩ [1]]) 1 ⟨7, [10], 9, 1⟩ := by decide

/-! ### The history that refuted the first version of `verify_in_force_was_verified` -/

/-- The story. The proof of `verify_in_force_was_verified` for histories with `reconfigure` failed at one place: the
signature-certificate retry of `AddCRL` (`tryUpdateSignatureCertFromChain`) on a *not loaded* entry. From the failed proof
obligation this history was read off, and it was a genuine counterexample in the model: (1) under `none`, fetch mode
`background`, a list signed by the unknown signer 9 is taken in (handshake adds the entry, the tick loads it) — on disk, no
signer certificate. (2) Restart under `verify`. (3) The origin now serves a newer list signed by 5. Provisioning of location 1
with trusted signers [1]: `AddCRL` opens the entry over the persisted list — not loaded (`addNewEmptyEntry`, repair 45060a8),
no active load in background mode; `UpdateCRL` refreshes whatever the loaded flag, the new list fails verification: failure
flag set, `LastUpdateSignature` = the NEW list, the store still holds the OLD unverified list. (4) A handshake presents signer
5: the retry verified the NEW list and stored 5's certificate with the OLD store. (5) Restart (still `verify`), handshake: the
persisted store had a signer certificate, so the old list — signed by 9, never verified by anything — was loaded and in
force, and `revoked` was answered from it. Replayed on the real code it behaved the same; the code was repaired (1160255: the
retry only runs for loaded entries; regenerated fact `retryOnlyWhenLoaded`, lemma `Crv.Repo.retry_needs_loaded`).
Now the same history is harmless: step (4) leaves the store without signer certificate, after step (5) the old list is
not loaded, not in force, nothing is answered from it, and it is still on disk without signer certificate. -/
def cexCfg : Cfg := { sigMode := .none, fetch := .background }
def cexOps : List Op :=
  [.serve 1 (.doc ⟨7, [10], 9, 1⟩), .handshake ⟨7, 10, some 1⟩ [1], .tick [1],
   .reconfigure .verify,
   .serve 1 (.doc ⟨7, [11], 5, 2⟩), .provision 1 [1],
   .handshake ⟨7, 10, some 1⟩ [5],
   .restart, .handshake ⟨7, 10, some 1⟩ [1]]

theorem former_counterexample_now_harmless :
    (run cexCfg cexOps).cfg.sigMode = .verify ∧
    ¬ inForce (run cexCfg cexOps) 1 ⟨7, [10], 9, 1⟩ ∧
    presentAndLoaded (run cexCfg cexOps) 1 = false ∧
    isRevoked (run cexCfg cexOps) (run cexCfg cexOps).entries ⟨7, 10, some 1⟩ = .notRevoked ∧
    lookup (run cexCfg cexOps).disk 1 = some ⟨some ⟨7, [10], 9, 1⟩, true, none⟩ := by
  decide

-- after step (4): the failure flag is still set, the retry did not run, no signer certificate was stored
example : lookup (run cexCfg (cexOps.take 7)).entries 1 =
    some { store := ⟨some ⟨7, [10], 9, 1⟩, true, none⟩, loaded := false, sigFailed := true,
           lastDoc := some ⟨7, [11], 5, 2⟩, chains := [1] } := by decide
-- with strict CDP checking the certificate naming this distribution point is denied at the end
example : isRevoked (run { cexCfg with strict := true } cexOps) (run { cexCfg with strict := true } cexOps).entries
    ⟨7, 10, some 1⟩ = .error := by decide
-- the retry still works where it is meant to: a LOADED entry whose refresh failed verification (list 2 signed by 5, candidates [1]),
-- then a handshake presenting 5 stores 5's certificate; list 1 (verified at its intake) stays in force
example : lookup (run { sigMode := .verify } [.serve 1 (.doc ⟨7, [10], 1, 1⟩), .handshake ⟨7, 10, some 1⟩ [1],
    .serve 1 (.doc ⟨7, [11], 5, 2⟩), .tick [1], .handshake ⟨7, 10, some 1⟩ [5]]).disk 1 =
    some ⟨some ⟨7, [10], 1, 1⟩, true, some 5⟩ := by decide

/-- The hand-written `Repo` model this property rests on was transcribed from exactly these sources: the fingerprints are
recomputed from /repo on every run (tools/extract/skeleton.go), so any change to one of the functions breaks this obligation. -/
theorem repo_sources_as_transcribed : Crv.Generated.skeletonRepo = Crv.Skeleton.expectedRepo :=
  Crv.Skeleton.repo_sources_as_transcribed

end Crv.Props.C16
