import Crv.Ocsp
import Crv.Proofs.Skeleton
import Crv.Generated.Ocsp
import Crv.Proofs.OcspDecide
/-!
C05 — OCSP authenticity: only an issuer-authorised answer for this certificate counts.

`parseOcsp ocspFacts` is `parseOcspResponse` (interpreted over the regenerated facts: which library function is
called, with which arguments, per candidate, followed by `isAuthorizedResponder`) on top of `parseForCert`, the
transcription of `ocsp.ParseResponseForCert` (x/crypto v0.23.0). `V key signedObject` is the opaque signature
predicate; nothing about cryptographic strength is proved — a response whose bytes were altered is a different
`Resp` (different content and/or a `signed` object that no longer verifies) and the theorems apply to it as to any other.
-/
namespace Crv.Props.C05
open Crv Crv.Ocsp Crv.Generated

theorem facts_canonical : ocspFacts = canon ocspFacts.maxClockSkew := by decide

private theorem transfer {P : Facts → Prop} (h : ∀ k, P (canon k)) : P ocspFacts := by
  have := h ocspFacts.maxClockSkew
  rwa [← facts_canonical] at this

variable (V : Key → Signed → Bool)

/-- Main statement. Whatever `parseOcspResponse` accepts is a successful response (`respStatus = 0`) that contains a
single response for exactly the certificate's serial and is signed by an issuer candidate, or by an embedded responder
certificate which that candidate signed and which is the candidate itself or carries the OCSPSigning EKU, the response
being signed by the embedded certificate's key. The status handed on is that of the first single response for the serial. -/
theorem ocsp_accept_sound (cert : Cert) (cands : List Cand) (b : Body) (p : Parsed)
    (h : parseOcsp ocspFacts V cert cands b = some p) :
    ∃ r s, b = .resp r ∧ Authentic V cert cands r ∧ firstFor r cert.serial = some s ∧
      p.status = s.status ∧ p.nextUpdate = s.nextUpdate := by
  revert h
  refine transfer (P := fun F => parseOcsp F V cert cands b = some p →
    ∃ r s, b = .resp r ∧ Authentic V cert cands r ∧ firstFor r cert.serial = some s ∧
      p.status = s.status ∧ p.nextUpdate = s.nextUpdate) ?_
  intro k h
  obtain ⟨r, s, hb, ha, _, hs, h1, h2⟩ := parseOcsp_sound V h
  exact ⟨r, s, hb, ha, hs, h1, h2⟩

/-- Exact characterisation: accepted iff authentic and syntactically well-formed. -/
theorem ocsp_accept_iff (cert : Cert) (cands : List Cand) (r : Resp) :
    (∃ p, parseOcsp ocspFacts V cert cands (.resp r) = some p) ↔
      (Authentic V cert cands r ∧ WellFormed r cert.serial) := by
  refine transfer (P := fun F => (∃ p, parseOcsp F V cert cands (.resp r) = some p) ↔
      (Authentic V cert cands r ∧ WellFormed r cert.serial)) ?_
  intro k
  constructor
  · rintro ⟨p, hp⟩
    obtain ⟨r', s, hb, ha, hwf, _⟩ := parseOcsp_sound V hp
    cases hb
    exact ⟨ha, hwf⟩
  · rintro ⟨ha, hwf⟩
    obtain ⟨p, _, hp, _⟩ := parseOcsp_complete V (k := k) ha hwf
    exact ⟨p, hp⟩

/-- Everything else is no answer: a body that is not an authentic response is rejected by `parseOcspResponse`
(the caller then tries the next pair). -/
theorem unauthentic_rejected (cert : Cert) (cands : List Cand) (b : Body)
    (h : ∀ r, b = .resp r → ¬ Authentic V cert cands r) :
    parseOcsp ocspFacts V cert cands b = none := by
  cases hp : parseOcsp ocspFacts V cert cands b with
  | none => rfl
  | some p =>
    obtain ⟨r, _, hb, ha, _⟩ := ocsp_accept_sound V cert cands b p hp
    exact absurd ha (h r hb)

/-- The listed ways of not being authentic, one by one. -/
theorem error_status_rejected (cert : Cert) (cands : List Cand) (r : Resp) (h : r.respStatus ≠ 0) :
    parseOcsp ocspFacts V cert cands (.resp r) = none :=
  unauthentic_rejected V cert cands _ (fun r' hr ha => by cases hr; exact h ha.1)

theorem other_serial_rejected (cert : Cert) (cands : List Cand) (r : Resp)
    (h : ∀ s ∈ r.singles, s.serial ≠ cert.serial) :
    parseOcsp ocspFacts V cert cands (.resp r) = none :=
  unauthentic_rejected V cert cands _ (fun r' hr ha => by
    cases hr
    obtain ⟨s, hs, hn⟩ := ha.2.1
    exact h s hs hn)

theorem stranger_signed_rejected (cert : Cert) (cands : List Cand) (r : Resp)
    (hnone : r.embedded = none) (h : ∀ c ∈ cands, V c.key r.signed = false) :
    parseOcsp ocspFacts V cert cands (.resp r) = none :=
  unauthentic_rejected V cert cands _ (fun r' hr ha => by
    cases hr
    obtain ⟨c, hc, hsig⟩ := ha.2.2
    rcases hsig with ⟨_, hv⟩ | ⟨e, he, _⟩
    · rw [h c hc] at hv; cases hv
    · rw [hnone] at he; cases he)

/-- An embedded responder certificate that no candidate signed (self-signed stranger, sibling CA's delegate, the client
certificate itself …) does not help, whoever signed the response. -/
theorem unauthorised_embedded_rejected (cert : Cert) (cands : List Cand) (r : Resp) (e : Embedded)
    (hemb : r.embedded = some e) (h : ∀ c ∈ cands, V c.key e.certSigned = false) :
    parseOcsp ocspFacts V cert cands (.resp r) = none :=
  unauthentic_rejected V cert cands _ (fun r' hr ha => by
    cases hr
    obtain ⟨c, hc, hsig⟩ := ha.2.2
    rcases hsig with ⟨hn, _⟩ | ⟨e', he, hv, _⟩
    · rw [hemb] at hn; cases hn
    · rw [hemb] at he; cases he
      rw [h c hc] at hv; cases hv)

/-- A delegate the issuer did sign, but not for OCSP signing (no OCSPSigning EKU, not the issuer itself), is refused. -/
theorem delegate_without_eku_rejected (cert : Cert) (cands : List Cand) (r : Resp) (e : Embedded)
    (hemb : r.embedded = some e) (heku : e.ocspEku = false) (hid : ∀ c ∈ cands, e.certId ≠ c.certId) :
    parseOcsp ocspFacts V cert cands (.resp r) = none :=
  unauthentic_rejected V cert cands _ (fun r' hr ha => by
    cases hr
    obtain ⟨c, hc, hsig⟩ := ha.2.2
    rcases hsig with ⟨hn, _⟩ | ⟨e', he, _, hor, _⟩
    · rw [hemb] at hn; cases hn
    · rw [hemb] at he; cases he
      rcases hor with h1 | h1
      · exact hid c hc h1
      · rw [heku] at h1; cases h1)

theorem garbage_rejected (cert : Cert) (cands : List Cand) :
    parseOcsp ocspFacts V cert cands .garbage = none :=
  unauthentic_rejected V cert cands _ (fun r hr => by cases hr)

/-- Whole lookup: the verdict is influenced, and the cache written, only through a requested pair whose body is an
authentic response; otherwise the call behaves as if nobody had answered. -/
theorem influence_only_authentic (inst : Inst) (cert : Cert) (cands : List Cand)
    (answer : Str → Cand → Fetch) (now : Nat) (T : Table) :
    ((lookup ocspFacts V inst cert cands answer now T).answered = none ∧
     (lookup ocspFacts V inst cert cands answer now T).stored = none) ∨
    (∃ q ∈ (lookup ocspFacts V inst cert cands answer now T).requests, ∃ r s p,
       answer q.1 q.2 = .body (.resp r) ∧ Authentic V cert cands r ∧
       firstFor r cert.serial = some s ∧ p.status = s.status ∧ p.nextUpdate = s.nextUpdate ∧
       (lookup ocspFacts V inst cert cands answer now T).answered = some p ∧
       (lookup ocspFacts V inst cert cands answer now T).result = verdictOf p) := by
  refine transfer (P := fun F =>
    ((lookup F V inst cert cands answer now T).answered = none ∧
     (lookup F V inst cert cands answer now T).stored = none) ∨
    (∃ q ∈ (lookup F V inst cert cands answer now T).requests, ∃ r s p,
       answer q.1 q.2 = .body (.resp r) ∧ Authentic V cert cands r ∧
       firstFor r cert.serial = some s ∧ p.status = s.status ∧ p.nextUpdate = s.nextUpdate ∧
       (lookup F V inst cert cands answer now T).answered = some p ∧
       (lookup F V inst cert cands answer now T).result = verdictOf p)) ?_
  intro k
  rcases Ocsp.influence_only_authentic V k inst cert cands answer now T with h | ⟨q, hq, r, s, p, h1, h2, h3, h4, h5, h6, h7, _⟩
  · left; exact h
  · right; exact ⟨q, hq, r, s, p, h1, h2, h3, h4, h5, h6, h7⟩

/-- If no responder delivers an authentic response, the lookup is exactly the "nobody answered" lookup: all pairs
tried, nothing cached, accepted unless strict (and then rejected — never reported revoked or good on forged input). -/
theorem forged_answers_change_nothing (inst : Inst) (cert : Cert) (cands : List Cand)
    (answer : Str → Cand → Fetch) (now : Nat) (T T' : Table)
    (hmiss : tryGet ocspFacts T (mkKey ocspFacts cert) now = (none, T'))
    (h : ∀ s c r, answer s c = .body (.resp r) → ¬ Authentic V cert cands r) :
    lookup ocspFacts V inst cert cands answer now T =
      lookup ocspFacts V inst cert cands (fun _ _ => .error) now T := by
  revert hmiss
  refine transfer (P := fun F => tryGet F T (mkKey F cert) now = (none, T') →
    lookup F V inst cert cands answer now T = lookup F V inst cert cands (fun _ _ => .error) now T) ?_
  intro k hmiss
  rw [Ocsp.unanswered V hmiss (fun q _ => unauthentic_no_answer V (h q.1 q.2)),
      Ocsp.unanswered V hmiss (fun q _ => Or.inl rfl)]

/-- Issuer candidates: every candidate is a configured trusted responder certificate or a certificate of a presented
chain **above the end-entity position** — position 0 of a chain is eligible only when the chain consists of that one
certificate (a self-signed certificate trusted directly is its own issuer) — and it matches the certificate's issuer by one
of the three rules of RFC 5280 §5.2.1 as `FindCertificateIssuerCandidates` implements them. So the client certificate of an
ordinary chain can never vouch for itself (repaired defect: harness signature `C05 end-entity-is-issuer-candidate`). -/
theorem candidates_sound (cert : Cert) (chains : List (List ChainCert)) (trusted : List ChainCert) (c : ChainCert)
    (h : c ∈ candidates cert (issuerPool ocspFacts chains trusted)) :
    (c ∈ trusted ∨ ∃ ch ∈ chains, c ∈ ch.tail ∨ ch = [c]) ∧
    ((cert.aki = none ∧ c.subject = cert.issuer ∧ c.alg = cert.alg) ∨
     (∃ a sn i, cert.aki = some (some a) ∧ a.certSerial = some sn ∧ a.certIssuer = some i ∧ c.serial = sn ∧ c.issuer = i) ∨
     (∃ a kid, cert.aki = some (some a) ∧ a.certSerial = none ∧ a.keyId = some kid ∧ c.ski = some kid)) := by
  have hpool : ∀ x ∈ issuerPool ocspFacts chains trusted, x ∈ trusted ∨ ∃ ch ∈ chains, x ∈ ch.tail ∨ ch = [x] := by
    intro x hx
    rw [facts_canonical] at hx
    simp only [issuerPool, List.mem_append, List.mem_flatten, List.mem_map] at hx
    rcases hx with ⟨l, ⟨ch, hch, hl⟩, hxl⟩ | hx
    · right
      refine ⟨ch, hch, ?_⟩
      rw [← hl] at hxl
      simp only [trimChain, canon] at hxl
      split at hxl
      · left; exact hxl
      · rename_i hlen
        match ch, hxl, hlen with
        | [], hxl, _ => cases hxl
        | [y], hxl, _ =>
          right
          rw [List.mem_singleton] at hxl
          rw [hxl]
        | _ :: _ :: _, _, hlen => simp at hlen
    · left; exact hx
  have hmem : c ∈ issuerPool ocspFacts chains trusted ∧
    ((cert.aki = none ∧ c.subject = cert.issuer ∧ c.alg = cert.alg) ∨
     (∃ a sn i, cert.aki = some (some a) ∧ a.certSerial = some sn ∧ a.certIssuer = some i ∧ c.serial = sn ∧ c.issuer = i) ∨
     (∃ a kid, cert.aki = some (some a) ∧ a.certSerial = none ∧ a.keyId = some kid ∧ c.ski = some kid)) := by
    generalize issuerPool ocspFacts chains trusted = chain at h
    unfold candidates at h
    split at h
    · rename_i haki
      rw [List.mem_filter] at h
      refine ⟨h.1, Or.inl ⟨haki, ?_⟩⟩
      simpa using h.2
    · cases h
    · rename_i a haki
      split at h
      · rename_i sn hsn
        rw [List.mem_filter] at h
        refine ⟨h.1, Or.inr (Or.inl ?_)⟩
        cases hi : a.certIssuer with
        | none => simp [hi] at h
        | some i =>
          refine ⟨a, sn, i, haki, hsn, hi, ?_⟩
          simpa [hi] using h.2
      · rename_i hsn
        split at h
        · rename_i kid hkid
          rw [List.mem_filter] at h
          refine ⟨h.1, Or.inr (Or.inr ⟨a, kid, haki, hsn, hkid, ?_⟩)⟩
          simpa using h.2
        · cases h
  exact ⟨hpool c hmem.1, hmem.2⟩

/-- The repaired defect, as an instance: chain [leaf, CA] where the leaf's subject key id equals the key id in its own
AKI. Only the CA is a candidate, and a `good` signed with the leaf's own key is no answer. -/
theorem end_entity_not_candidate_example :
    let leaf : ChainCert := { certId := 2, key := 22, subject := "CN=leaf".toList, issuer := "CN=ca".toList, serial := 77,
                              ski := some [1, 2, 3], alg := 3 }
    let ca : ChainCert := { certId := 1, key := 11, subject := "CN=ca".toList, issuer := "CN=ca".toList, serial := 1,
                            ski := some [1, 2, 3], alg := 3 }
    let cert : Cert := { issuer := "CN=ca".toList, subject := "CN=leaf".toList, serial := 77, servers := [], alg := 3,
                         aki := some (some { keyId := some [1, 2, 3], certSerial := none, certIssuer := none }) }
    let r : Resp := { respStatus := 0, typeBasic := true, basicParses := true,
                      singles := [{ serial := 77, status := .good, nextUpdate := none, criticalExt := false, hashKnown := true }],
                      responderIdOk := true, embedded := none, signed := 22 }
    candidates cert (issuerPool ocspFacts [[leaf, ca]] []) = [ca] ∧
    parseOcsp ocspFacts (fun k s => k == s) cert ((candidates cert (issuerPool ocspFacts [[leaf, ca]] [])).map ChainCert.cand)
      (.resp r) = none ∧
    candidates cert (issuerPool ocspFacts [[leaf]] []) = [leaf] := by
  decide

/-! Non-vacuity. -/
section Example
def Vx : Key → Signed → Bool := fun k s => k == s
def ca : Cand := { certId := 1, key := 11 }
def certX : Cert := { issuer := "CN=ca".toList, subject := "CN=leaf".toList, serial := 77, servers := [] }
def single77 : Single := { serial := 77, status := .revoked, nextUpdate := none, criticalExt := false, hashKnown := true }
def base : Resp :=
  { respStatus := 0, typeBasic := true, basicParses := true, singles := [{ single77 with serial := 5, status := .good }, single77],
    responderIdOk := true, embedded := none, signed := 11 }
def delegate : Embedded := { parses := true, certId := 9, key := 19, certSigned := 11, ocspEku := true }

-- issuer-signed, multi-response containing this serial: accepted with the status of *this* serial
example : (parseOcsp ocspFacts Vx certX [ca] (.resp base)).map (·.status) = some .revoked := by decide
-- delegated responder with EKU
example : (parseOcsp ocspFacts Vx certX [ca] (.resp { base with embedded := some delegate, signed := 19 })).isSome = true := by decide
-- delegated responder without EKU
example : parseOcsp ocspFacts Vx certX [ca] (.resp { base with embedded := some { delegate with ocspEku := false }, signed := 19 }) = none := by decide
-- stranger with embedded self-signed certificate
example : parseOcsp ocspFacts Vx certX [ca] (.resp { base with embedded := some { delegate with key := 66, certSigned := 66 }, signed := 66 }) = none := by decide
-- stranger without embedded certificate
example : parseOcsp ocspFacts Vx certX [ca] (.resp { base with signed := 66 }) = none := by decide
-- tryLater
example : parseOcsp ocspFacts Vx certX [ca] (.resp { base with respStatus := 3 }) = none := by decide
-- other serial only
example : parseOcsp ocspFacts Vx certX [ca] (.resp { base with singles := [{ single77 with serial := 78 }] }) = none := by decide
end Example

/-- The hand-written `Ocsp` model this property rests on was transcribed from exactly these sources: the fingerprints are
recomputed from /repo on every run (tools/extract/skeleton.go), so any change to one of the functions breaks this obligation. -/
theorem ocsp_sources_as_transcribed : Crv.Generated.skeletonOcsp = Crv.Skeleton.expectedOcsp :=
  Crv.Skeleton.ocsp_sources_as_transcribed

end Crv.Props.C05
