import Crv.Proofs.Repo
import Crv.Proofs.Skeleton
import Crv.Props.C03
import Crv.Props.C06
import Crv.Props.C18
import Crv.Props.C01E2E
/-!
C01 — CRL soundness: a certificate listed in a CRL in force is always rejected.

The statement is assembled from four layers, each proved for all inputs of its layer:
(a) reader: every entry of a well-formed CRL reaches the consumer, wherever it sits and whatever the list
    size (`Crv.Props.C06.entry_reaches_consumer`, re-exported below);
(b) store: a pair inserted into a store is never reported absent, with no collision hypothesis
    (`Crv.Props.C18.inserted_never_absent`, re-exported below);
(c) repository: in every reachable state, for every enumeration order of the repository map, a certificate
    listed in a loaded CRL is reported revoked or the lookup fails — never "not revoked" (`listed_never_not_revoked`);
(d) mode composition over the regenerated `verifyProg`: with CRL checking enabled the handshake is rejected,
    whatever OCSP answered (`listed_rejected`).
(a)→(b) are composed through the persister `Crv.Persist.writesOf` (`CRLPersisterProcessor`, `InsertRevokedCert`) in
`Crv.Props.C01.E2E` (Crv/Props/C01E2E.lean): the exact write list of an accepted document (`writes_of_enc`), every listed
entry written and found on both backends for DER and PEM files (`listed_entry_is_written`, `listed_entry_found_der`,
`listed_entry_found_pem`), nothing else written (`nothing_else_is_written`), a rejected document changes nothing
(`rejected_load_changes_nothing`, `rejected_refresh_changes_nothing`).
-/
namespace Crv.Props.C01
open Crv Crv.Repo Crv.Generated

/-- (c) Repository walk: listed in any loaded entry ⇒ never `notRevoked`, for any enumeration `order` that
covers the repository entries (Go map iteration order is arbitrary), with or without a CDP on the certificate. -/
theorem listed_never_not_revoked (s : State) (c : Cert) (order : List (Loc × Entry))
    (hcover : ∀ p ∈ s.entries, p ∈ order)
    (h : ∃ loc d, inForce s loc d ∧ d.issuer = c.issuer ∧ c.serial ∈ d.serials) :
    isRevoked s order c ≠ .notRevoked := by
  obtain ⟨loc, d, ⟨e, hmem, hl, _, hdoc⟩, hi, hs⟩ := h
  have hw : walk c order ≠ .notRevoked := by
    apply walk_listed
    refine ⟨(loc, e), hcover _ hmem, hl, ?_⟩
    simp only [listed, hdoc, hi, beq_self_eq_true, Bool.true_and]
    exact List.contains_iff_mem.mpr hs
  unfold isRevoked
  cases c.cdp with
  | none => exact hw
  | some l =>
    simp only
    split
    · simp
    · split
      · simp
      · exact hw

def statusToMech : Status → MechOut
  | .notRevoked => .good | .revoked => .revoked | .error => .error

/-- (d) With CRL checking enabled the handshake is rejected, whatever OCSP answered, in every state reachable by
any history, for every position of the entry and every enumeration order. -/
theorem listed_rejected (cfg : Cfg) (ops : List Op) (m : Mode) (hm : crlEnabled m = true) (ocsp : MechOut)
    (c : Cert) (order : List (Loc × Entry))
    (hcover : ∀ p ∈ (run cfg ops).entries, p ∈ order)
    (h : ∃ loc d, inForce (run cfg ops) loc d ∧ d.issuer = c.issuer ∧ c.serial ∈ d.serials) :
    (verifyProg.run m (envOf ocsp (statusToMech (isRevoked (run cfg ops) order c))) true).verdict = .reject := by
  have hne := listed_never_not_revoked (run cfg ops) c order hcover h
  rw [Crv.Props.C03.verify_reject_iff]
  right
  refine ⟨by rw [← Crv.Props.C03.crlEnabled_doc]; exact hm, ?_⟩
  cases hst : isRevoked (run cfg ops) order c with
  | notRevoked => exact absurd hst hne
  | revoked => simp [statusToMech]
  | error => simp [statusToMech]

/-- The unset mode and both prefer modes enable CRL checking; so does crl_only. -/
theorem modes_enabling_crl : crlEnabled .preferOCSP = true ∧ crlEnabled .preferCRL = true ∧ crlEnabled .crlOnly = true ∧
    parseMode "" = some .preferOCSP := by decide

/-- Sources: a CRL configured by file/URL and a CRL taken from another certificate's distribution points count for
every certificate — the walk covers all entries, not only the certificate's own CDP entry. -/
theorem other_location_counts (s : State) (c : Cert) (loc : Loc) (d : DocA) (_hcdp : c.cdp ≠ some loc)
    (hf : inForce s loc d) (hi : d.issuer = c.issuer) (hs : c.serial ∈ d.serials) :
    isRevoked s s.entries c ≠ .notRevoked :=
  listed_never_not_revoked s c s.entries (fun _ hp => hp) ⟨loc, d, hf, hi, hs⟩

/-- (a) re-export: reader completeness. -/
def reader_delivers_every_entry := @Crv.Props.C06.entry_reaches_consumer
/-- (b) re-export: store soundness without collision hypothesis. -/
def store_never_loses_an_insert := @Crv.Props.C18.inserted_never_absent

/-- (a)+(b) composed through the persister, re-export: reader → `CRLPersisterProcessor` → store never loses a listed entry. -/
theorem reader_persister_store (O : Oracle) (d : Doc) (oid : List Nat) (h : HashAlg) (es : Option (List Ext))
    (num : Option Nat) (wf : WF O d oid h es num) (dec : Persist.EntryDec) (sdec : Store.Kind → Store.Val → Bool)
    (l : List Bytes) (hl : d.entries = some l) (e : Bytes) (he : e ∈ l) :
    E2E.NeverAbsent sdec (Persist.writesOf dec (readCRL O (enc d)).events) (E2E.issuerOf dec d) (dec.serial (seqOf e)) :=
  E2E.listed_entry_found_der O d oid h es num wf dec sdec l hl e he

-- Non-vacuity: a concrete history after which a listed certificate is rejected.
def exOps : List Op :=
  [.serve 1 (.doc ⟨7, [10, 11, 12], 1, 5⟩), .handshake ⟨7, 99, some 1⟩ [1]]

example : inForce (run {} exOps) 1 ⟨7, [10, 11, 12], 1, 5⟩ := by
  refine ⟨_, List.mem_cons_self, ?_, ?_, ?_⟩ <;> decide

example : isRevoked (run {} exOps) (run {} exOps).entries ⟨7, 12, none⟩ = .revoked := by decide

-- … also across a restart with another signature mode (`Op.reconfigure`): the verified list is found on disk with its signer
-- certificate and stays in force, the listed certificate stays rejected.
def exOpsRestart : List Op := exOps ++ [.reconfigure .verifyLog, .handshake ⟨7, 99, some 1⟩ [], .reconfigure .verify, .handshake ⟨7, 99, some 1⟩ []]
example : inForce (run {} exOpsRestart) 1 ⟨7, [10, 11, 12], 1, 5⟩ := by decide
example : isRevoked (run {} exOpsRestart) (run {} exOpsRestart).entries ⟨7, 12, none⟩ = .revoked := by decide

/-- The hand-written `Repo` model this property rests on was transcribed from exactly these sources: the fingerprints are
recomputed from /repo on every run (tools/extract/skeleton.go), so any change to one of the functions breaks this obligation. -/
theorem repo_sources_as_transcribed : Crv.Generated.skeletonRepo = Crv.Skeleton.expectedRepo :=
  Crv.Skeleton.repo_sources_as_transcribed

/-- The hand-written `Reader` model this property rests on was transcribed from exactly these sources: the fingerprints are
recomputed from /repo on every run (tools/extract/skeleton.go), so any change to one of the functions breaks this obligation. -/
theorem reader_sources_as_transcribed : Crv.Generated.skeletonReader = Crv.Skeleton.expectedReader :=
  Crv.Skeleton.reader_sources_as_transcribed

/-- The hand-written `Store` model this property rests on was transcribed from exactly these sources: the fingerprints are
recomputed from /repo on every run (tools/extract/skeleton.go), so any change to one of the functions breaks this obligation. -/
theorem store_sources_as_transcribed : Crv.Generated.skeletonStore = Crv.Skeleton.expectedStore :=
  Crv.Skeleton.store_sources_as_transcribed

/-- The hand-written `Mode` model this property rests on was transcribed from exactly these sources: the fingerprints are
recomputed from /repo on every run (tools/extract/skeleton.go), so any change to one of the functions breaks this obligation. -/
theorem mode_sources_as_transcribed : Crv.Generated.skeletonMode = Crv.Skeleton.expectedMode :=
  Crv.Skeleton.mode_sources_as_transcribed

/-- The hand-written `Loader` model this property rests on was transcribed from exactly these sources: the fingerprints are
recomputed from /repo on every run (tools/extract/skeleton.go), so any change to one of the functions breaks this obligation. -/
theorem loader_sources_as_transcribed : Crv.Generated.skeletonLoader = Crv.Skeleton.expectedLoader :=
  Crv.Skeleton.loader_sources_as_transcribed

end Crv.Props.C01
