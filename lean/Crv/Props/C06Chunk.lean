import Crv.Proofs.Chunk
import Crv.Reader
/-!
C06 (chunking) — the flat reader state of `Crv/Reader.lean` is a sound abstraction of the real byte source.

`Crv/Chunk.lean` models `bufio.Reader` (`Read`, `fill`, `Peek`, `Discard`) over an underlying reader that delivers
the stream in arbitrary non-empty chunks, the hashing wrapper's position counter and hash, and the repo's loops
`ReadExpectedBytes[Recursive]` / `PeekExpectedBytes`. The theorems below say that, seen through the abstraction
`abs s = (buffered ++ all chunks still to come, position, hashing, hashed)`, the three primitives are functions
of the abstract state only (`Flat.read`, `Flat.peek`, `Flat.discard`): the outcome does not depend on how the source
chops the stream, on the buffer size, or on where element boundaries fall relative to the buffer window — and
these abstract functions are exactly `Crv.readN`, `Crv.peekN`, `Crv.discard` of the flat model.

Envelope of the statements (both made explicit, both proved to be invariants of the reader's usage):
* peeks are within the buffer (`n + off ≤ cap`; the CRL reader peeks at most 17 bytes of a 4096-byte buffer).
  A peek beyond the buffer returns `ErrBufferFull` and may leave an `io.EOF` pending in `b.err` (`peek_beyond`);
* `ReadExpectedBytes(r, 0)` on a state with an empty buffer and a pending `io.EOF` (`Pending`) fails with "end of
  file" although zero bytes were asked for (`readFull_zero_pending`). `Pending` can only arise from a peek beyond
  the buffer (`NoErr` is preserved by everything else), so it is outside the envelope, and excluded by hypothesis.
-/
namespace Crv.Props.C06.Chunk
open Crv.Chunk

/-- The abstract (flat) reader state: unread input, position, hashing flag, bytes hashed so far. -/
structure Flat where
  rest : Chunk.Bytes
  pos : Nat
  hashing : Bool
  hashed : Chunk.Bytes
  deriving Repr, DecidableEq

/-- Abstraction function. -/
def abs (s : St) : Flat := ⟨flat s, s.pos, s.hashing, s.hashed⟩

/-- `ReadExpectedBytes(k)` on the flat state: fewer than `k` bytes left → "end of file", everything consumed (and
hashed when hashing); else the next `k` bytes, consumed (and hashed when hashing). -/
def Flat.read (k : Nat) (f : Flat) : Chunk.Res Chunk.Bytes × Flat :=
  if f.rest.length < k then
    (.err .eof, { f with rest := [], pos := f.pos + f.rest.length,
                         hashed := if f.hashing then f.hashed ++ f.rest else f.hashed })
  else
    (.ok (f.rest.take k), { f with rest := f.rest.drop k, pos := f.pos + k,
                                   hashed := if f.hashing then f.hashed ++ f.rest.take k else f.hashed })

/-- `PeekExpectedBytes(n, off)` on the flat state: nothing changes. -/
def Flat.peek (n off : Nat) (f : Flat) : Chunk.Res Chunk.Bytes × Flat :=
  if f.rest.length < n + off then (.err .eof, f) else (.ok ((f.rest.drop off).take n), f)

/-- `Discard(k)` on the flat state: position counted, never hashed. -/
def Flat.discard (k : Nat) (f : Flat) : Chunk.Res Unit × Flat :=
  if f.rest.length < k then (.err .eof, { f with rest := [], pos := f.pos + f.rest.length })
  else (.ok (), { f with rest := f.rest.drop k, pos := f.pos + k })

/-- Empty buffer and an `io.EOF` pending in `b.err`: the one state in which a zero-byte read fails. -/
def Pending (s : St) : Prop := s.buf = [] ∧ s.err = true

instance (s : St) : Decidable (Pending s) := by unfold Pending; infer_instance

/-- No error pending in `b.err`. -/
def NoErr (s : St) : Prop := s.err = false

instance (s : St) : Decidable (NoErr s) := by unfold NoErr; infer_instance

theorem not_pending_of_noErr {s : St} (h : NoErr s) : ¬ Pending s := by
  intro hp; unfold NoErr at h; rw [hp.2] at h; exact absurd h (by simp)

/-! ### 1. `ReadExpectedBytes` -/

/-- **readFull_refines.** For every well-formed chunked state — any chunking of the source, any buffer content, any
buffer size ≥ 16 — `ReadExpectedBytes(k)` is the flat read: if fewer than `k` bytes are left (buffered + still to
come) it fails with "end of file" having consumed everything (position advanced by the old length, everything
hashed when hashing); otherwise it returns exactly the next `k` bytes, leaves exactly the rest, advances the
position by `k` and hashes exactly those `k` bytes when hashing. The state stays well-formed, buffer size and
hashing flag are unchanged, and no error becomes pending. -/
theorem readFull_refines (k : Nat) (s : St) (wf : WF s) (h : 0 < k ∨ ¬ Pending s) :
    ((readFull k s).1, abs (readFull k s).2) = Flat.read k (abs s) ∧
    WF (readFull k s).2 ∧ (readFull k s).2.cap = s.cap ∧
    ((readFull k s).2.err = true → s.err = true) := by
  by_cases hk : 0 < k
  · have wf0 : WF { s with allocs := s.allocs ++ [k] } := wf
    obtain ⟨r1, r2, r3, r4, r5⟩ := readLoop_spec (k + 1) k [] _ wf0 hk (Nat.le_succ k)
    unfold readFull
    refine ⟨?_, r1, r2, r4⟩
    generalize readLoop (k + 1) k [] { s with allocs := s.allocs ++ [k] } = out at *
    obtain ⟨res, s'⟩ := out
    have e1 : flat ({ s with allocs := s.allocs ++ [k] } : St) = flat s := rfl
    simp only [e1] at r5
    dsimp only at *
    unfold Flat.read abs
    dsimp only
    by_cases hlt : (flat s).length < k
    · rw [if_pos hlt] at r5 ⊢
      obtain ⟨a, b, c, d⟩ := r5
      rw [a, b, c, d, r3]
    · rw [if_neg hlt] at r5 ⊢
      obtain ⟨a, b, c, d⟩ := r5
      rw [a, b, c, d, r3]
      simp
  · have hk0 : k = 0 := by omega
    subst hk0
    have hnp : ¬ Pending s := by
      rcases h with h | h
      · omega
      · exact h
    obtain ⟨z1, z2, z3, z4, z5, z6, z7, _, z9⟩ := readFull_zero s wf
    refine ⟨?_, z2, z6, z9⟩
    have hnp' : ¬ (s.buf = [] ∧ s.err = true) := hnp
    rw [if_neg hnp'] at z1
    unfold Flat.read abs
    dsimp only
    rw [if_neg (by omega), z1, z3, z4, z5, z7]
    simp

/-- The corner outside the envelope: a zero-byte read with empty buffer and pending `io.EOF` reports
"end of file" (nothing consumed; the pending error is cleared by this). -/
theorem readFull_zero_pending (s : St) (wf : WF s) (hp : Pending s) :
    (readFull 0 s).1 = .err .eof ∧ abs (readFull 0 s).2 = abs s ∧ WF (readFull 0 s).2 := by
  obtain ⟨z1, z2, z3, z4, z5, _, z7, _, _⟩ := readFull_zero s wf
  have hp' : s.buf = [] ∧ s.err = true := hp
  rw [if_pos hp'] at z1
  refine ⟨z1, ?_, z2⟩
  unfold abs
  rw [z3, z4, z5, z7]

/-! ### 2. `PeekExpectedBytes` -/

/-- **peek_refines.** For a peek within the buffer size, `PeekExpectedBytes(n, off)` returns the `n` bytes at offset
`off` of the unread input when `n + off` bytes are left, else "end of file"; in both cases unread input, position
and hash are unchanged, the state stays well-formed and no error becomes pending. -/
theorem peek_refines (n off : Nat) (s : St) (wf : WF s) (h : n + off ≤ s.cap) :
    ((peekExpected n off s).1, abs (peekExpected n off s).2) = Flat.peek n off (abs s) ∧
    WF (peekExpected n off s).2 ∧ (peekExpected n off s).2.cap = s.cap ∧
    ((peekExpected n off s).2.err = true → s.err = true) := by
  obtain ⟨p1, p2, p3, p4, p5, _⟩ := bPeek_spec (n + off) s wf h
  unfold peekExpected
  dsimp only
  generalize bPeek (n + off) s = r at *
  obtain ⟨⟨bs, e⟩, s'⟩ := r
  dsimp only at *
  obtain ⟨c1, c2, c3, c4, _, _⟩ := p3
  have habs : abs s' = abs s := by unfold abs; rw [p1, c2, c3, c4]
  unfold Flat.peek
  have hr : (abs s).rest = flat s := rfl
  rw [hr]
  by_cases hlt : (flat s).length < n + off
  · rw [if_pos hlt] at p5 ⊢
    subst p5
    exact ⟨by rw [habs], p2, c1, p4⟩
  · rw [if_neg hlt] at p5 ⊢
    injection p5 with p5a p5b
    subst p5a p5b
    dsimp only
    exact ⟨by rw [habs, take_drop_window], p2, c1, p4⟩

/-- A peek beyond the buffer size always fails with `ErrBufferFull`; the abstract state is still unchanged. -/
theorem peek_beyond (n off : Nat) (s : St) (wf : WF s) (h : s.cap < n + off) :
    (peekExpected n off s).1 = .err .bufferFull ∧ abs (peekExpected n off s).2 = abs s ∧
    WF (peekExpected n off s).2 := by
  obtain ⟨p1, p2, p3, p4⟩ := bPeek_beyond (n + off) s wf h
  unfold peekExpected
  dsimp only
  generalize bPeek (n + off) s = r at *
  obtain ⟨⟨bs, e⟩, s'⟩ := r
  dsimp only at *
  subst p1
  obtain ⟨_, c2, c3, c4, _, _⟩ := p4
  exact ⟨rfl, by unfold abs; rw [p2, c2, c3, c4], p3⟩

/-! ### 3. `Discard` -/

/-- **discard_refines.** `Discard(k)`: fewer than `k` bytes left → `io.EOF` with everything consumed and the position
advanced by what was discarded; else exactly `k` bytes skipped and the position advanced by `k`. The hash is never
touched. -/
theorem discard_refines (k : Nat) (s : St) (wf : WF s) :
    ((Chunk.discard k s).1, abs (Chunk.discard k s).2) = Flat.discard k (abs s) ∧
    WF (Chunk.discard k s).2 ∧ (Chunk.discard k s).2.cap = s.cap ∧
    ((Chunk.discard k s).2.err = true → s.err = true) := by
  unfold Chunk.discard bDiscard
  by_cases hk : k = 0
  · subst hk
    rw [if_pos rfl]
    dsimp only
    refine ⟨?_, wf, rfl, fun h => h⟩
    unfold Flat.discard abs
    simp [flat]
  · rw [if_neg hk]
    obtain ⟨d1, d2, d3, _, d5⟩ := discLoop_spec k k k s wf (by omega) (Nat.le_refl k) (Nat.le_refl k)
    generalize discLoop k k k s = out at *
    obtain ⟨⟨cnt, e⟩, s'⟩ := out
    dsimp only at *
    obtain ⟨c1, c2, c3, c4, _, _⟩ := d2
    unfold Flat.discard abs
    dsimp only
    by_cases hlt : (flat s).length < k
    · rw [if_pos hlt] at d5 ⊢
      obtain ⟨a, b⟩ := d5
      injection a with a1 a2
      subst a1 a2
      rw [if_pos rfl]
      refine ⟨?_, d1, c1, d3⟩
      show (Chunk.Res.err EK.eof, (⟨flat s', s'.pos + (k - k + (flat s).length), s'.hashing, s'.hashed⟩ : Flat)) = _
      rw [b, c2, c3, c4]
      simp
    · rw [if_neg hlt] at d5 ⊢
      obtain ⟨a, b⟩ := d5
      injection a with a1 a2
      subst a1 a2
      rw [if_neg (by simp), if_neg (by omega)]
      refine ⟨?_, d1, c1, d3⟩
      show (Chunk.Res.ok (), (⟨flat s', s'.pos + cnt, s'.hashing, s'.hashed⟩ : Flat)) = _
      rw [b, c2, c3, c4]

/-! ### 4. chunking does not matter -/

/-- **chunking_irrelevant.** Two well-formed chunked states with the same abstract state (same unread bytes, however
split between buffer and source chunks and whatever the buffer sizes; same position and hash state) give the
same result and the same abstract state afterwards, for each of the three operations. -/
theorem chunking_irrelevant (s t : St) (ws : WF s) (wt : WF t) (h : abs s = abs t) :
    (∀ k, (0 < k ∨ (¬ Pending s ∧ ¬ Pending t)) →
      (readFull k s).1 = (readFull k t).1 ∧ abs (readFull k s).2 = abs (readFull k t).2) ∧
    (∀ n off, n + off ≤ s.cap → n + off ≤ t.cap →
      (peekExpected n off s).1 = (peekExpected n off t).1 ∧
      abs (peekExpected n off s).2 = abs (peekExpected n off t).2) ∧
    (∀ k, (Chunk.discard k s).1 = (Chunk.discard k t).1 ∧ abs (Chunk.discard k s).2 = abs (Chunk.discard k t).2) := by
  refine ⟨?_, ?_, ?_⟩
  · intro k hk
    have hs := (readFull_refines k s ws (hk.imp id And.left)).1
    have ht := (readFull_refines k t wt (hk.imp id And.right)).1
    rw [h, ← ht] at hs
    exact Prod.mk.inj hs
  · intro n off h1 h2
    have hs := (peek_refines n off s ws h1).1
    have ht := (peek_refines n off t wt h2).1
    rw [h, ← ht] at hs
    exact Prod.mk.inj hs
  · intro k
    have hs := (discard_refines k s ws).1
    have ht := (discard_refines k t wt).1
    rw [h, ← ht] at hs
    exact Prod.mk.inj hs

/-- Inside the envelope nothing ever becomes pending: `NoErr` is an invariant of reads, discards and peeks within
the buffer, so `Pending` is unreachable from a freshly opened reader. -/
theorem noErr_invariant (s : St) (wf : WF s) (h : NoErr s) :
    (∀ k, NoErr (readFull k s).2) ∧ (∀ n off, n + off ≤ s.cap → NoErr (peekExpected n off s).2) ∧
    (∀ k, NoErr (Chunk.discard k s).2) := by
  unfold NoErr at *
  refine ⟨?_, ?_, ?_⟩
  · intro k
    have := (readFull_refines k s wf (Or.inr (not_pending_of_noErr h))).2.2.2
    cases he : (readFull k s).2.err
    · rfl
    · rw [this he] at h; exact absurd h (by simp)
  · intro n off hn
    have := (peek_refines n off s wf hn).2.2.2
    cases he : (peekExpected n off s).2.err
    · rfl
    · rw [this he] at h; exact absurd h (by simp)
  · intro k
    have := (discard_refines k s wf).2.2.2
    cases he : (Chunk.discard k s).2.err
    · rfl
    · rw [this he] at h; exact absurd h (by simp)

/-- A freshly opened reader (`bufio.NewReaderSize` + `NewHashingReaderWrapper`) is well-formed, has nothing pending,
and its abstract state is the whole stream at position 0 (empty chunks are dropped: the underlying readers never
return `(0, nil)`). -/
theorem open_ok (size : Nat) (chunks : List Chunk.Bytes) :
    WF (openRd size chunks) ∧ NoErr (openRd size chunks) ∧
    abs (openRd size chunks) = ⟨(chunks.filter (· ≠ [])).flatten, 0, false, []⟩ := by
  refine ⟨⟨?_, fun h => by simp [openRd] at h, by simp only [openRd]; omega⟩, rfl, by simp [abs, openRd, flat]⟩
  intro c hc
  simp only [openRd, List.mem_filter] at hc
  simpa using hc.2

/-! ### 5. link to the flat reader model (`Crv/Reader.lean`) -/

/-- The part of `Crv.Rd` the chunked model accounts for (its ghost logs `allocs`, `events`, `queries`, `hashFrom`
are left out of the comparison). -/
def absRd (r : Crv.Rd) : Flat := ⟨r.rest, r.pos, r.hashing, r.hashed⟩

/-- The chunked state as a flat `Crv.Rd` (ghost logs empty). -/
def toRd (s : St) : Crv.Rd := { rest := flat s, pos := s.pos, hashing := s.hashing, hashed := s.hashed }

theorem absRd_toRd (s : St) : absRd (toRd s) = abs s := rfl

/-- Outcome of a flat-model primitive, up to the ghost logs: `ok`/`eof` carry over, anything else has no
counterpart. -/
def coreRes {α : Type} : Crv.Res α → Option (Chunk.Res α × Flat)
  | .ok a r => some (.ok a, absRd r)
  | .err .eof r => some (.err .eof, absRd r)
  | .err _ _ => none
  | .panic _ => none

theorem readN_flat (k : Nat) (r : Crv.Rd) : coreRes (Crv.readN (k : Int) r) = some (Flat.read k (absRd r)) := by
  unfold Crv.readN Flat.read absRd
  have h0 : ¬ ((k : Int) < 0) := by omega
  rw [if_neg h0]
  simp only [Int.toNat_natCast]
  by_cases hlt : r.rest.length < k
  · rw [if_pos hlt, if_pos hlt]; rfl
  · rw [if_neg hlt, if_neg hlt]; rfl

theorem peekN_flat (n off : Nat) (r : Crv.Rd) : coreRes (Crv.peekN n off r) = some (Flat.peek n off (absRd r)) := by
  unfold Crv.peekN Flat.peek absRd
  by_cases hlt : r.rest.length < n + off
  · rw [if_pos hlt, if_pos hlt]; rfl
  · rw [if_neg hlt, if_neg hlt]; rfl

theorem discard_flat (k : Nat) (r : Crv.Rd) :
    coreRes (Crv.discard (k : Int) r) = some (Flat.discard k (absRd r)) := by
  unfold Crv.discard Flat.discard absRd
  have h0 : ¬ ((k : Int) < 0) := by omega
  rw [if_neg h0]
  simp only [Int.toNat_natCast]
  by_cases hlt : r.rest.length < k
  · rw [if_pos hlt, if_pos hlt]; rfl
  · rw [if_neg hlt, if_neg hlt]; rfl

/-- **Commutation with the flat model.** For every flat reader state `r` that abstracts the well-formed chunked state
`s` (same unread bytes, position, hash state; any ghost logs), each primitive of `Crv/Reader.lean` run on `r` yields —
up to the ghost logs — the result and the abstraction of the successor state of the chunked operation run on `s`.
(`Crv.readN`/`Crv.discard` take an `Int`; negative sizes are `panic`/`negative` there and have no chunked
counterpart: Go panics in `make` resp. returns `ErrNegativeCount` before touching the reader.) -/
theorem flat_model_commutes (s : St) (r : Crv.Rd) (wf : WF s) (hr : absRd r = abs s) :
    (∀ k : Nat, (0 < k ∨ ¬ Pending s) →
      coreRes (Crv.readN (k : Int) r) = some ((readFull k s).1, abs (readFull k s).2)) ∧
    (∀ n off, n + off ≤ s.cap →
      coreRes (Crv.peekN n off r) = some ((peekExpected n off s).1, abs (peekExpected n off s).2)) ∧
    (∀ k : Nat, coreRes (Crv.discard (k : Int) r) = some ((Chunk.discard k s).1, abs (Chunk.discard k s).2)) := by
  refine ⟨?_, ?_, ?_⟩
  · intro k hk
    rw [readN_flat, hr, (readFull_refines k s wf hk).1]
  · intro n off hn
    rw [peekN_flat, hr, (peek_refines n off s wf hn).1]
  · intro k
    rw [discard_flat, hr, (discard_refines k s wf).1]

/-- The same, for the canonical flat image `toRd s`. -/
theorem toRd_commutes (s : St) (wf : WF s) (hn : NoErr s) :
    (∀ k : Nat, coreRes (Crv.readN (k : Int) (toRd s)) = some ((readFull k s).1, absRd (toRd (readFull k s).2))) ∧
    (∀ n off, n + off ≤ s.cap →
      coreRes (Crv.peekN n off (toRd s)) = some ((peekExpected n off s).1, absRd (toRd (peekExpected n off s).2))) ∧
    (∀ k : Nat, coreRes (Crv.discard (k : Int) (toRd s)) = some ((Chunk.discard k s).1, absRd (toRd (Chunk.discard k s).2))) := by
  obtain ⟨a, b, c⟩ := flat_model_commutes s (toRd s) wf (absRd_toRd s)
  exact ⟨fun k => a k (Or.inr (not_pending_of_noErr hn)), b, c⟩

/-! ### 6. progress, underlying reads, allocations -/

/-- **Ghost accounting of one `ReadExpectedBytes(k)`.** Let `ps` be the byte counts returned by the wrapper's `Read`
calls of this invocation (one per iteration of `ReadExpectedBytesRecursive`; the failing one counts 0). Then:
there are between 1 and `max k 1` iterations; at most one underlying `Read` per iteration and at most `k` in total;
the position advances by `Σ ps ≤ k`; the allocations are `make([]byte, k)` once plus `make([]byte, bytesLeft)` per
iteration, i.e. `k, k, k - p₁, k - p₁ - p₂, …`, in total exactly `k·(iterations + 1) − Σᵢ pᵢ·(iterations after i)`
`≤ k·(iterations + 1)`. -/
theorem readFull_ghost (k : Nat) (s : St) (wf : WF s) :
    ∃ ps : List Nat,
      (readFull k s).2.parts = s.parts ++ ps ∧
      (readFull k s).2.allocs = s.allocs ++ k :: allocsOf k ps ∧
      1 ≤ ps.length ∧ ps.length ≤ max k 1 ∧
      (readFull k s).2.srcReads ≤ s.srcReads + ps.length ∧
      (readFull k s).2.srcReads ≤ s.srcReads + k ∧
      (readFull k s).2.pos = s.pos + ps.sum ∧ ps.sum ≤ k ∧
      (k :: allocsOf k ps).sum + saved ps = k * (ps.length + 1) ∧
      (k :: allocsOf k ps).sum ≤ k * (ps.length + 1) := by
  by_cases hk : 0 < k
  · have wf0 : WF { s with allocs := s.allocs ++ [k] } := wf
    obtain ⟨ps, g1, g2, g3, g4, g5, g6, g7⟩ := readLoop_ghost (k + 1) k [] _ wf0 hk (Nat.le_succ k)
    have hsum := allocsOf_sum k ps g7
    have hle := allocsOf_sum_le k ps
    refine ⟨ps, g1, ?_, g3, by omega, g5, ?_, g6, g7, ?_, ?_⟩
    · unfold readFull; rw [g2]; simp
    · have : (readFull k s).2.srcReads ≤ s.srcReads + ps.length := g5
      omega
    · simp only [List.sum_cons, Nat.mul_succ]; omega
    · simp only [List.sum_cons, Nat.mul_succ]; omega
  · have hk0 : k = 0 := by omega
    subst hk0
    obtain ⟨_, _, _, z4, _, _, _, z8, _⟩ := readFull_zero s wf
    refine ⟨[0], ?_, ?_, by simp, by simp, by omega, by omega, by simpa using z4, by simp, by simp [allocsOf, saved],
      by simp [allocsOf]⟩
    · unfold readFull
      rw [readLoop_succ]
      obtain ⟨_, _, _, f4, _⟩ := wRead_fields 0 { ({ s with allocs := s.allocs ++ [0] } : St) with
        allocs := ({ s with allocs := s.allocs ++ [0] } : St).allocs ++ [0] }
      obtain ⟨w1, _⟩ := wRead_zero { ({ s with allocs := s.allocs ++ [0] } : St) with
        allocs := ({ s with allocs := s.allocs ++ [0] } : St).allocs ++ [0] } wf
      generalize wRead 0 _ = r at *
      obtain ⟨⟨d, e⟩, s1⟩ := r
      dsimp only at *
      injection w1 with wd we
      subst wd
      cases e <;> simp [f4]
    · unfold readFull
      rw [readLoop_succ]
      obtain ⟨_, _, f3, _⟩ := wRead_fields 0 { ({ s with allocs := s.allocs ++ [0] } : St) with
        allocs := ({ s with allocs := s.allocs ++ [0] } : St).allocs ++ [0] }
      obtain ⟨w1, _⟩ := wRead_zero { ({ s with allocs := s.allocs ++ [0] } : St) with
        allocs := ({ s with allocs := s.allocs ++ [0] } : St).allocs ++ [0] } wf
      generalize wRead 0 _ = r at *
      obtain ⟨⟨d, e⟩, s1⟩ := r
      dsimp only at *
      injection w1 with wd we
      subst wd
      cases e <;> simp [f3, allocsOf]

/-- **The fuel suffices.** On well-formed states none of the three loops runs out of the fuel the model gives it
(`k + 1` iterations for `ReadExpectedBytes(k)`, `n` fills for `Peek(n)`, `k` rounds for `Discard(k)`): the
`stalled` outcome is unreachable, so the fuel is a proof device, not a behavioural bound. -/
theorem never_stalled (s : St) (wf : WF s) :
    (∀ k, (readFull k s).1 ≠ .err .stalled) ∧
    (∀ n off, (peekExpected n off s).1 ≠ .err .stalled) ∧
    (∀ k, (Chunk.discard k s).1 ≠ .err .stalled) := by
  refine ⟨?_, ?_, ?_⟩
  · intro k hst
    by_cases hp : 0 < k ∨ ¬ Pending s
    · have h := congrArg Prod.fst (readFull_refines k s wf hp).1
      dsimp only at h
      rw [hst] at h
      unfold Flat.read at h
      split at h <;> exact absurd h (by simp)
    · have hk : k = 0 := by omega
      subst hk
      have hpend : Pending s := by
        cases Classical.em (Pending s) with
        | inl h => exact h
        | inr h => exact absurd (Or.inr h) hp
      rw [(readFull_zero_pending s wf hpend).1] at hst
      exact absurd hst (by simp)
  · intro n off hst
    by_cases hn : n + off ≤ s.cap
    · have h := congrArg Prod.fst (peek_refines n off s wf hn).1
      dsimp only at h
      rw [hst] at h
      unfold Flat.peek at h
      split at h <;> exact absurd h (by simp)
    · rw [(peek_beyond n off s wf (by omega)).1] at hst
      exact absurd hst (by simp)
  · intro k hst
    have h := congrArg Prod.fst (discard_refines k s wf).1
    dsimp only at h
    rw [hst] at h
    unfold Flat.discard at h
    split at h <;> exact absurd h (by simp)

/-- `Peek(n + off)` costs at most `n + off` underlying reads, `Discard(k)` at most `k`. -/
theorem peek_discard_reads (s : St) (wf : WF s) :
    (∀ n off, n + off ≤ s.cap → (peekExpected n off s).2.srcReads ≤ s.srcReads + (n + off)) ∧
    (∀ k, (Chunk.discard k s).2.srcReads ≤ s.srcReads + k) := by
  refine ⟨?_, ?_⟩
  · intro n off h
    have := (bPeek_spec (n + off) s wf h).2.2.2.2.2
    unfold peekExpected
    dsimp only
    split <;> exact this
  · intro k
    unfold Chunk.discard bDiscard
    by_cases hk : k = 0
    · subst hk; rw [if_pos rfl]; dsimp only; split <;> (try split) <;> exact Nat.le_refl _
    · rw [if_neg hk]
      have := (discLoop_spec k k k s wf (by omega) (Nat.le_refl k) (Nat.le_refl k)).2.2.2.1
      dsimp only
      split <;> (try split) <;> exact this

/-! ### non-vacuity: a concrete reader, buffer size 16, three odd chunks (3 + 5 + 19 = 27 bytes) -/

def demo : St := openRd 16 [[1, 2, 3], [4, 5, 6, 7, 8],
  [9, 10, 11, 12, 13, 14, 15, 16, 17, 18, 19, 20, 21, 22, 23, 24, 25, 26, 27]]

example : WF demo ∧ NoErr demo := by decide
/-- 7 bytes across three chunks: three partial reads (3, 4 from the buffered 5, …). -/
example : (readFull 7 (startHash demo)).1 = .ok [1, 2, 3, 4, 5, 6, 7] := by decide
example : (readFull 7 (startHash demo)).2.parts = [3, 4] ∧ (readFull 7 (startHash demo)).2.buf = [8] ∧
    (readFull 7 (startHash demo)).2.hashed = [1, 2, 3, 4, 5, 6, 7] ∧
    (readFull 7 (startHash demo)).2.allocs = [7, 7, 4] ∧ (readFull 7 (startHash demo)).2.pos = 7 := by decide
/-- A 20-byte read with an empty buffer: while ≥ 16 bytes are wanted `Read` goes straight to the source (3, then 5
bytes); the last 12 come through the buffer, which takes 16 of the 19-byte chunk and splits it. -/
example : (readFull 20 demo).2.parts = [3, 5, 12] ∧ (readFull 20 demo).2.buf = [21, 22, 23, 24] ∧
    (readFull 20 demo).2.src = [[25, 26, 27]] ∧ (readFull 20 demo).2.srcReads = 3 := by decide
/-- Reading past the end: "end of file", everything consumed, position = total length. -/
example : (readFull 28 demo).1 = .err .eof ∧ (readFull 28 demo).2.pos = 27 ∧ flat (readFull 28 demo).2 = [] := by
  decide
/-- A peek across the first two chunks fills the buffer with two underlying reads and consumes nothing. -/
example : (peekExpected 2 4 demo).1 = .ok [5, 6] ∧ (peekExpected 2 4 demo).2.srcReads = 2 ∧
    abs (peekExpected 2 4 demo).2 = abs demo := by decide
/-- Discard across a chunk boundary, then the peek sees the continuation. -/
example : (Chunk.discard 10 demo).1 = .ok () ∧ (Chunk.discard 10 demo).2.pos = 10 ∧
    (peekExpected 3 0 (Chunk.discard 10 demo).2).1 = .ok [11, 12, 13] := by decide
/-- The corner outside the envelope is real: peek 17 > 16 bytes at the end of input → `ErrBufferFull` with `io.EOF`
left pending, and then a zero-byte read fails with "end of file" (and the one after it succeeds). -/
example :
    let s1 := (Chunk.discard 27 demo).2
    let s2 := (peekExpected 17 0 s1).2
    (peekExpected 17 0 s1).1 = .err .bufferFull ∧ Pending s2 ∧ (readFull 0 s2).1 = .err .eof ∧
    (readFull 0 (readFull 0 s2).2).1 = .ok [] ∧ (readFull 0 s1).1 = .ok [] := by decide

end Crv.Props.C06.Chunk
