import Crv.Proofs.StoreSound
import Crv.Proofs.Skeleton
/-!
C18 — Both storage backends implement the same abstract map and lose nothing.

Models: `Crv.Store.MapStore` (map.go), `Crv.Store.Ldb` over `Crv.Store.Disk` (leveldb.go), specification
`Crv.Store.Abs` (partial map (issuer, serial) → entry, four metadata slots). Keys are hashed with FNV-1a 64
exactly as `hashing.Sum64`; the "up to hash collisions" caveat is the explicit hypothesis `CollisionFree`
over all key strings the operation sequence touches, reserved keys included.
Values are the serializer's byte strings; that the (de)serializer returns the entry unchanged is the
correspondence run's business (real `encoding/asn1`, all value shapes).
-/
namespace Crv.Props.C18
open Crv Crv.Store

/-- Memory backend refines the abstract map: same observations (write results, lookups, metadata reads)
on every operation sequence whose key strings do not collide under FNV-1a 64. -/
theorem map_refines (dec : Kind → Val → Bool) (ops : List Op) (h : CollisionFree (keysOf ops)) :
    (runMap dec MapStore.new ops).2 = (runAbs dec Abs.empty ops).2 :=
  map_refines_aux dec h ops [] Abs.empty (rel_empty _) (keysOf_ops_subset ops)

/-- Disk backend refines the abstract map, including `replace` (directory swap) and close + reopen. -/
theorem ldb_refines (dec : Kind → Val → Bool) (ident : Nat) (ops : List Op) (h : CollisionFree (keysOf ops)) :
    (runLdb dec (Ldb.fresh ident).1 (Ldb.fresh ident).2 ops).2 = (runAbs dec Abs.empty ops).2 :=
  ldb_refines_aux dec h ops _ _ Abs.empty (linv_fresh _ ident) (keysOf_ops_subset ops)

/-- The two backends are observationally indistinguishable. -/
theorem backends_equal (dec : Kind → Val → Bool) (ident : Nat) (ops : List Op) (h : CollisionFree (keysOf ops)) :
    (runMap dec MapStore.new ops).2 = (runLdb dec (Ldb.fresh ident).1 (Ldb.fresh ident).2 ops).2 := by
  rw [map_refines dec ops h, ldb_refines dec ident ops h]

/-- What the specification says a lookup returns after the writes `ws`: revoked exactly when the pair was
written, with the value of the last such write unchanged (or an error if the deserializer rejects it). -/
theorem abs_lookup_spec (dec : Kind → Val → Bool) (ws : List (AKey × Val)) (i : List UInt8) (s : Int) :
    (Abs.empty.fill ws).lookup dec i s =
      match lastWrite (.ent i s) none ws with
      | none => .absent
      | some v => if dec .entry v then .revoked v else .error := by
  have := Abs.fill_get ws Abs.empty (.ent i s)
  simp only [Abs.get] at this
  simp only [Abs.lookup, this]
  rfl

/-- Metadata reads back equal to what was written last. -/
theorem abs_slot_spec (dec : Kind → Val → Bool) (ws : List (AKey × Val)) (k : AKey) :
    (Abs.empty.fill ws).slot dec k =
      match lastWrite k none ws with
      | none => none
      | some v => if dec k.kind v then some v else none := by
  have := Abs.fill_get ws Abs.empty k
  have h0 : Abs.empty.get k = none := by cases k <;> rfl
  simp only [Abs.slot, this, h0]
  cases lastWrite k none ws <;> rfl

/-!
### Metadata read-back

C18: *metadata, signer certificate and locations read back equal to what was written*. The store part holds for every
value the deserializer accepts (`metadata_readback`, and through `map_refines`/`ldb_refines` on both backends). The
serializer's own part concerns one value shape: a `CRLMetaInfo` whose `NextUpdate` lies outside 1950..2049 is written as
GeneralizedTime under the implicit tag [0]; `DeserializeMetaInfo` reads such a value through its GeneralizedTime fallback
(fact `metaGeneralizedFallback`, regenerated from asn1serializer.go; the year rule of the mini-model is diffed against the
real serializer for the years 0, 1..9999 on every run). Before the repair (known_findings.json, `fixed`) the value was
stored but unreadable.
-/

/-- Whatever was written last to a slot is read back unchanged, provided the deserializer accepts it. -/
theorem metadata_readback (dec : Kind → Val → Bool) (ws : List (AKey × Val)) (k : AKey) (v : Val)
    (hlast : lastWrite k none ws = some v) (hdec : dec k.kind v = true) :
    (Abs.empty.fill ws).slot dec k = some v := by
  rw [abs_slot_spec, hlast]
  simp [hdec]

/-- The serializer's part: every `NextUpdate` (absent, UTCTime years, GeneralizedTime years) is read back. -/
theorem meta_nextUpdate_readable (y : Option Nat) : metaNextUpdateReadable y = true := by
  cases y with
  | none => rfl
  | some year => simp [metaNextUpdateReadable, Generated.Store.metaGeneralizedFallback]

/-- What the fallback is needed for: without it exactly the years outside 1950..2049 would be unreadable. -/
theorem meta_nextUpdate_form (year : Nat) :
    (marshalTimeForm year == .utc) = decide (1950 ≤ year ∧ year < 2050) := by
  unfold marshalTimeForm
  by_cases h : 1950 ≤ year ∧ year < 2050 <;> simp [h]

example : metaNextUpdateReadable (some 2050) = true ∧ marshalTimeForm 2050 = .generalized := by decide

/-- Replace is replace, not merge: after `replace ws` nothing of the earlier content is visible. -/
theorem replace_discards (dec : Kind → Val → Bool) (a : Abs) (ws : List (AKey × Val)) :
    (a.step dec (.replace ws)).1 = Abs.empty.fill ws := rfl

/-- **Soundness without any collision hypothesis** (used by C01): once a pair was inserted, a lookup of it is
never answered `absent` — memory backend, disk backend (filled store), and both after `replace`. A colliding
later write can only turn the answer into another entry or an error, never into "not revoked". -/
theorem inserted_never_absent (dec : Kind → Val → Bool) (ws : List (AKey × Val)) (i : List UInt8) (s : Int) (v : Val)
    (hin : (AKey.ent i s, v) ∈ ws) :
    (MapStore.new.fill ws).lookup dec i s ≠ .absent ∧
    (∀ ident, let (d, h) := Ldb.fresh ident; h.lookup dec (h.fill d ws) i s ≠ .absent) ∧
    (∀ (m : MapStore), (m.step dec (.replace ws)).1.lookup dec i s ≠ .absent) ∧
    (∀ ident (pre : List Op) (_ : CollisionFree (keysOf pre)),
      let ((d, h), _) := runLdb dec (Ldb.fresh ident).1 (Ldb.fresh ident).2 pre
      let (d', h', _) := h.step dec d (.replace ws)
      h'.lookup dec d' i s ≠ .absent) := by
  have hb : ∀ m, (aget (afill m ws) (hkey (key i s))).isSome :=
    fun m => aget_afill_isSome ws m _ (Or.inr ⟨_, hin, rfl⟩)
  refine ⟨?_, ?_, ?_, ?_⟩
  · rw [MapStore.new, MapStore.fill_some]
    exact MapStore.lookup_ne_absent_of_bound dec _ i s (hb [])
  · intro ident
    have hd : (Ldb.fresh ident).1.dirs (Ldb.fresh ident).2.path = some [] := by simp [Ldb.fresh]
    show (Ldb.fresh ident).2.lookup dec ((Ldb.fresh ident).2.fill (Ldb.fresh ident).1 ws) i s ≠ .absent
    rw [Ldb.fill_eq _ rfl rfl ws _ [] hd]
    exact Ldb.lookup_ne_absent_of_bound dec _ _ rfl rfl (Disk.setDir_dirs_same _ _ _) i s (hb [])
  · intro m
    simp only [MapStore.step, MapStore.new, MapStore.fill_some, MapStore.update, Option.getD_some]
    exact MapStore.lookup_ne_absent_of_bound dec _ i s (hb [])
  · intro ident pre hc
    -- the run over `pre` keeps the invariant
    have key : ∀ (ops : List Op) (d : Disk) (h : Ldb) (a : Abs), LInv (keysOf pre) d h a →
        (∀ k ∈ ops.flatMap opKeys, k ∈ keysOf pre) →
        ∃ a', LInv (keysOf pre) (runLdb dec d h ops).1.1 (runLdb dec d h ops).1.2 a' := by
      intro ops
      induction ops with
      | nil => intro d h a inv _; exact ⟨a, inv⟩
      | cons op ops ih =>
        intro d h a inv hk
        have hk0 : ∀ k ∈ opKeys op, k ∈ keysOf pre := fun k h => hk k (by simp [List.flatMap_cons, h])
        have hk1 : ∀ k ∈ ops.flatMap opKeys, k ∈ keysOf pre :=
          fun k h => hk k (by simp only [List.flatMap_cons, List.mem_append]; exact Or.inr h)
        cases op with
        | w k v =>
          obtain ⟨d', hs, inv'⟩ := ldb_step_w hc dec inv k (hk0 _ (by simp [opKeys])) v
          simpa only [runLdb, hs] using ih d' h _ inv' hk1
        | rd k => simpa only [runLdb, Ldb.step] using ih d h _ inv hk1
        | replace ws' =>
          have hw : ∀ w ∈ ws', w.1.str ∈ keysOf pre :=
            fun w hw => hk0 _ (by simp only [opKeys, List.mem_map]; exact ⟨w, hw, rfl⟩)
          obtain ⟨d', hs, inv'⟩ := ldb_step_replace hc dec inv ws' hw
          simpa only [runLdb, hs] using ih d' h _ inv' hk1
        | reopen =>
          obtain ⟨d', hs, inv'⟩ := ldb_step_reopen dec inv
          simpa only [runLdb, hs] using ih d' h _ inv' hk1
    obtain ⟨a', inv⟩ := key pre _ _ Abs.empty (linv_fresh _ ident) (keysOf_ops_subset pre)
    obtain ⟨d', hs, hcontent, hinv⟩ := ldb_step_replace_content dec inv ws
    show (((runLdb dec _ _ pre).1.2.step dec (runLdb dec _ _ pre).1.1 (.replace ws)).2.1).lookup dec
      ((runLdb dec _ _ pre).1.2.step dec (runLdb dec _ _ pre).1.1 (.replace ws)).1 i s ≠ .absent
    rw [hs]
    have inv' := hinv [] Abs.empty (fun k hk => by simp at hk)
    exact Ldb.lookup_ne_absent_of_bound dec d' _ inv'.isOpen inv'.fault hcontent i s (hb [])

/-- `IsEmpty` in the states in which the repository asks: a fresh store is empty for both backends, and once
`StartUpdateCrl` wrote the meta record (and nothing replaced the content since) neither is. In other states
the two implementations differ by design (memory: any key; disk: the meta key). -/
theorem isEmpty_fresh (ident : Nat) :
    MapStore.new.isEmpty = true ∧ (Ldb.fresh ident).2.isEmpty (Ldb.fresh ident).1 = true := by
  refine ⟨rfl, ?_⟩
  simp [Ldb.isEmpty, Ldb.dbGet, Ldb.fresh, aget]

theorem isEmpty_after_start (ws : List (AKey × Val)) (v : Val) (hin : (AKey.minfo, v) ∈ ws) (ident : Nat) :
    (MapStore.new.fill ws).isEmpty = false ∧
    (let (d, h) := Ldb.fresh ident; h.isEmpty (h.fill d ws) = false) := by
  constructor
  · rw [MapStore.new, MapStore.fill_some]
    simp only [MapStore.isEmpty, afill_isEmpty]
    cases ws with
    | nil => simp at hin
    | cons => simp
  · have hd : (Ldb.fresh ident).1.dirs (Ldb.fresh ident).2.path = some [] := by simp [Ldb.fresh]
    show (Ldb.fresh ident).2.isEmpty ((Ldb.fresh ident).2.fill (Ldb.fresh ident).1 ws) = false
    rw [Ldb.fill_eq _ rfl rfl ws _ [] hd]
    have hb := aget_afill_isSome ws [] (hkey Generated.Store.metaKey) (Or.inr ⟨_, hin, rfl⟩)
    cases hg : aget (afill [] ws) (hkey Generated.Store.metaKey) with
    | none => simp [hg] at hb
    | some v' =>
      simp only [Ldb.isEmpty, Ldb.dbGet_some _ (Ldb.fresh ident).2 rfl rfl (Disk.setDir_dirs_same _ _ _) hg]

-- Non-vacuity: a concrete history on both backends (insert, collision-free keys, replace, reopen, lookups).
section Examples
def decAll : Kind → Val → Bool := fun _ _ => true
def exOps : List Op :=
  [.w .minfo [1], .w (.ent [67, 78] 5) [9, 9], .w (.ent [67, 78] (-5)) [8], .rd (.ent [67, 78] 5), .rd (.ent [67, 78] 6),
   .rd .minfo, .rd .ext, .replace [(.minfo, [2]), (.ent [67] 7, [7])], .reopen, .rd (.ent [67, 78] 5), .rd (.ent [67] 7), .rd .minfo]

example : CollisionFree (keysOf exOps) := by decide
example : (runMap decAll MapStore.new exOps).2 =
    [.w .ok, .w .ok, .w .ok, .look (.revoked [9, 9]), .look .absent, .slot (some [1]), .slot none, .w .ok, .w .ok,
     .look .absent, .look (.revoked [7]), .slot (some [2])] := by decide
example : (runLdb decAll (Ldb.fresh 3).1 (Ldb.fresh 3).2 exOps).2 = (runMap decAll MapStore.new exOps).2 := by decide
end Examples

/-- The hand-written `Store` model this property rests on was transcribed from exactly these sources: the fingerprints are
recomputed from /repo on every run (tools/extract/skeleton.go), so any change to one of the functions breaks this obligation. -/
theorem store_sources_as_transcribed : Crv.Generated.skeletonStore = Crv.Skeleton.expectedStore :=
  Crv.Skeleton.store_sources_as_transcribed

end Crv.Props.C18
