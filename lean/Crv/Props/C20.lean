import Crv.Paths
import Crv.Proofs.Skeleton
import Crv.Generated.Paths
import Crv.Proofs.Paths
import Crv.Proofs.PathsOps
import Crv.Proofs.PathsMachine
import Crv.Proofs.PathsWalk
/-!
C20 — Work-directory discipline and clean lifecycle.

Part 1 (names): stated for an arbitrary function `sha` with 32-byte results and an arbitrary normaliser `norm`
(`url.Parse(..).String()`); collision freedom of `sha` is an explicit hypothesis where distinctness is claimed.
Part 2 (lifecycle): stated about the operation lists regenerated from `Provision`, `Cleanup`, `loadCRL`,
`updateCrlEntry`, `LevelDbStore.Update` (`Crv.Generated.pathFacts`), for every history of events.

Partial by nature: database handles, the ticker and the updater goroutine are runtime objects; the model tracks which
of them the code creates and releases, the harness counts the real ones.
-/
namespace Crv.Props.C20
open Crv.Paths Crv.Generated

/-! ## Part 1 — names -/

theorem hex_alphabet (bs : List UInt8) : ∀ c ∈ hex bs, isHexDigit c = true := hex_all bs
theorem hex_len (bs : List UInt8) : (hex bs).length = 2 * bs.length := hex_length bs
theorem hex_injective (a b : List UInt8) (h : hex a = hex b) : a = b := hex_inj a b h

section names
variable (sha : List UInt8 → List UInt8) (hlen : ∀ x, (sha x).length = 32) (norm : Name → Option Name)
include hlen

/-- A store directory name is 64 lower-case hex characters: no separator, no dot, not "", "." or "..". -/
theorem store_name (x : List UInt8) :
    (storeName sha x).length = 64 ∧ (∀ c ∈ storeName sha x, isHexDigit c = true) ∧ normalComponent (storeName sha x) := by
  refine ⟨by simp [storeName, hex_length, hlen], hex_all _, hex_normal _ ?_⟩
  intro e; have := hlen x; rw [e] at this; cases this

/-- Whatever the location string: the store path is `work_dir` (cleaned) plus exactly one element — a direct child. -/
theorem store_path_inside (wd : Name) (hwd : wd ≠ []) (x : List UInt8) :
    join wd (storeName sha x) = { rooted := (clean wd).rooted, comps := (clean wd).comps ++ [storeName sha x] } :=
  join_child wd _ hwd (store_name sha hlen x).2.2

omit hlen in
/-- A live store is never swept: its name cannot match the temp pattern. -/
theorem sweep_spares_live (x : List UInt8) : matchesTemp pathFacts (storeName sha x) = false :=
  matchesPattern_hex_false _ _ _ ⟨114, by decide, by decide⟩ (hex_all _)

omit hlen in
/-- The same location string always maps to the same store (the identifier is a function of the normalised string only). -/
theorem same_location_same_store (u u' : Name) (h : norm u = norm u') : urlId sha norm u = urlId sha norm u' := by
  simp [urlId, h]

omit hlen in
/-- Two URL locations share a store only if the normaliser maps them to the same string (up to SHA-256 collisions). -/
theorem distinct_urls_distinct_stores (hcf : ∀ a b, sha a = sha b → a = b) (u u' : Name) (i : Name)
    (h : urlId sha norm u = some i) (h' : urlId sha norm u' = some i) : norm u = norm u' := by
  unfold urlId at h h'
  cases hu : norm u with
  | none => simp [hu] at h
  | some p =>
    cases hu' : norm u' with
    | none => simp [hu'] at h'
    | some p' =>
      simp only [hu, hu', Option.map_some, Option.some.injEq] at h h'
      rw [hcf _ _ (hex_inj _ _ (h.trans h'.symm))]

omit hlen in
theorem distinct_files_distinct_stores (hcf : ∀ a b, sha a = sha b → a = b) (f f' : Name)
    (h : fileId sha pathFacts f = fileId sha pathFacts f') : f = f' :=
  List.append_cancel_left (hcf _ _ (hex_inj _ _ h))

omit hlen in
theorem mapOpt_map {α β γ} (f : α → Option β) (g : β → γ) (l : List α) :
    mapOpt (fun a => (f a).map g) l = (mapOpt f l).map (List.map g) := by
  induction l with
  | nil => rfl
  | cons a as ih =>
    simp only [mapOpt, ih]
    cases f a <;> cases mapOpt f as <;> rfl

/-- Two distribution-point lists share a store only if their kept, normalised URL lists are equal
(block-concatenation injectivity; up to SHA-256 collisions). -/
theorem distinct_cdp_lists_distinct_stores (hcf : ∀ a b, sha a = sha b → a = b) (cdps cdps' : List Name) (i : Name)
    (h : cdpId sha norm pathFacts cdps = some i) (h' : cdpId sha norm pathFacts cdps' = some i) :
    mapOpt norm (cdpKept pathFacts cdps) = mapOpt norm (cdpKept pathFacts cdps') := by
  unfold cdpId at h h'
  split at h; · cases h
  split at h'; · cases h'
  have e : ∀ l, mapOpt (urlId sha norm) l = (mapOpt norm l).map (List.map (storeName sha)) :=
    fun l => mapOpt_map norm (storeName sha) l
  rw [e] at h h'
  cases hn : mapOpt norm (cdpKept pathFacts cdps) with
  | none => simp [hn] at h
  | some ns =>
    cases hn' : mapOpt norm (cdpKept pathFacts cdps') with
    | none => simp [hn'] at h'
    | some ns' =>
      simp only [hn, hn', Option.map_some, Option.some.injEq] at h h'
      have hflat : (ns.map (storeName sha)).flatten = (ns'.map (storeName sha)).flatten :=
        hcf _ _ (hex_inj _ _ (h.trans h'.symm))
      have hw : ∀ l : List Name, ∀ x ∈ l.map (storeName sha), x.length = 64 := by
        intro l x hx
        obtain ⟨y, _, rfl⟩ := List.mem_map.mp hx
        exact (store_name sha hlen y).1
      have hids := flatten_blocks_inj 64 (by omega) _ _ (hw ns) (hw ns') hflat
      have hinj : Function.Injective (storeName sha) := fun a b hab => hcf _ _ (hex_inj _ _ hab)
      rw [List.map_inj_right (fun a b hab => hinj hab) |>.mp hids]

omit hlen in
/-- **Kinds are separated (file / URL).** A file location and a URL location never share a store, whatever the file
is called: the file pre-image starts with a control byte, and the normaliser's output contains no byte below 0x20
(hypothesis `hnorm`; the harness checks it on every URL string it uses). Up to SHA-256 collisions. -/
theorem file_and_url_never_share_a_store (hcf : ∀ a b, sha a = sha b → a = b)
    (hnorm : ∀ u p, norm u = some p → ∀ b ∈ p, (32 : UInt8) ≤ b) (u f : Name) (i : Name)
    (h : urlId sha norm u = some i) : fileId sha pathFacts f ≠ i := by
  intro hf
  unfold urlId at h
  cases hu : norm u with
  | none => simp [hu] at h
  | some p =>
    simp only [hu, Option.map_some, Option.some.injEq] at h
    have e : pathFacts.fileIdPrefix ++ f = p := hcf _ _ (hex_inj _ _ (hf.trans h.symm))
    have h0 : (0 : UInt8) ∈ p := by rw [← e]; exact List.mem_append_left _ (by decide)
    exact absurd (hnorm u p hu 0 h0) (by decide)

/-- **Kinds are separated (file / distribution-point list).** The pre-image of a CDP identifier is a concatenation of
hex identifiers, the file pre-image starts with a byte that is no hex digit. -/
theorem file_and_cdp_never_share_a_store (hcf : ∀ a b, sha a = sha b → a = b) (cdps : List Name) (f : Name) (i : Name)
    (h : cdpId sha norm pathFacts cdps = some i) : fileId sha pathFacts f ≠ i := by
  intro hf
  unfold cdpId at h
  split at h; · cases h
  have e0 : ∀ l, mapOpt (urlId sha norm) l = (mapOpt norm l).map (List.map (storeName sha)) :=
    fun l => mapOpt_map norm (storeName sha) l
  rw [e0] at h
  cases hn : mapOpt norm (cdpKept pathFacts cdps) with
  | none => simp [hn] at h
  | some ns =>
    simp only [hn, Option.map_some, Option.some.injEq] at h
    have e : pathFacts.fileIdPrefix ++ f = (ns.map (storeName sha)).flatten := hcf _ _ (hex_inj _ _ (hf.trans h.symm))
    have h0 : (0 : UInt8) ∈ (ns.map (storeName sha)).flatten := by rw [← e]; exact List.mem_append_left _ (by decide)
    obtain ⟨l, hl, hm⟩ := List.mem_flatten.mp h0
    obtain ⟨y, _, rfl⟩ := List.mem_map.mp hl
    have := hex_all _ 0 hm
    revert this; decide

end names

/-- Temp names (download file, staged store, moved-aside store) always match the sweep pattern … -/
theorem temp_names_swept (u : Name) (hu : (10 : UInt8) ∉ u) :
    matchesTemp pathFacts (createTempName pathFacts u) = true ∧ matchesTemp pathFacts (randomName pathFacts u) = true := by
  constructor <;> exact (matchesPattern_iff _ _ _).mpr ⟨u, rfl, hu⟩

/-- … and lie directly inside work_dir. -/
theorem temp_inside (wd u : Name) (hwd : wd ≠ []) (hu : (47 : UInt8) ∉ u) :
    join wd (createTempName pathFacts u) = { rooted := (clean wd).rooted, comps := (clean wd).comps ++ [createTempName pathFacts u] } ∧
    join wd (randomName pathFacts u) = { rooted := (clean wd).rooted, comps := (clean wd).comps ++ [randomName pathFacts u] } := by
  have hn : normalComponent ([99, 114, 108, 95] ++ u ++ [95, 116, 109, 112]) := by
    refine ⟨by simp, by simp, by simp, ?_⟩
    intro h
    simp only [List.mem_append, List.mem_cons, List.not_mem_nil, or_false] at h
    rcases h with (h | h) | h
    · revert h; decide
    · exact hu h
    · revert h; decide
  exact ⟨join_child wd _ hwd hn, join_child wd _ hwd hn⟩

/-! ## Part 2 — lifecycle -/

/-- **No residue, one operation.** A complete first load or refresh — origin down, parse error after any number of
records, rejected signature, or success; disk or memory storage — leaves every name of work_dir other than the
location's own store exactly as it was (no temporary artefact stays, no other store and no foreign file is touched),
and the location's store is either untouched or replaced by the complete image of the accepted document. -/
theorem no_residue_op (sc : Scn) (fs : Fs) (h : NamesOk sc (Fs.get fs)) (steps : List Step)
    (hs : (steps = loadSteps pathFacts sc ∧ wl = sc.hasLoc) ∨ (steps = refreshSteps pathFacts sc ∧ wl = true)) :
    (∀ n, n ≠ sc.id → Fs.get (run steps fs) n = Fs.get fs n) ∧
    (Fs.get (run steps fs) sc.id = Fs.get fs sc.id ∨
      ∃ d, sc.disk = true ∧ accepted sc = some d ∧
        Fs.get (run steps fs) sc.id = some (.dir (stagedImage sc d wl (sc.sigChecked && d.sigOk)))) := by
  have S : Shape sc wl steps := by
    rcases hs with ⟨e, w⟩ | ⟨e, w⟩ <;> subst e <;> subst w
    · exact load_shape sc
    · exact refresh_shape sc
  rw [get_run]
  rcases S.full _ h with e | ⟨d, hd, ha, e⟩
  · rw [e]; exact ⟨fun _ _ => rfl, Or.inl rfl⟩
  · rw [e]
    exact ⟨fun n hn => upd_ne _ _ _ _ hn, Or.inr ⟨d, hd, ha, by simp [stagedOf]⟩⟩

/-- The sum of open database handles after a complete operation: nothing stays open that was not open before,
except the location's own store. -/
theorem no_handle_residue_op (sc : Scn) (hs : List Name) (n : Name) :
    (n ∈ runHandles (loadSteps pathFacts sc) hs → n ∈ hs ∨ n = sc.id) ∧
    (n ∈ runHandles (refreshSteps pathFacts sc) hs → n ∈ hs ∨ n = sc.id) :=
  ⟨(load_hshape sc).sub hs n, (refresh_hshape sc).sub hs n⟩

theorem runEvs_wd (sys : Sys) (evs : List Ev) (hok : ∀ ev ∈ evs, EvOk ev) : (runEvs pathFacts sys evs).wd = sys.wd := by
  induction evs generalizing sys with
  | nil => rfl
  | cons ev evs ih =>
    simp only [runEvs, List.foldl_cons] at ih ⊢
    rw [ih _ (fun e he => hok e (by simp [he])), (stepEv_fs sys ev (hok ev (by simp))).wd]

/-- **No residue, every history.** After any sequence of provision / first use / refresh (each ok or failed at any
step) / cleanup / foreign-file events: every temp-pattern name in work_dir is one that somebody else put there, and
every directory that does not match the temp pattern (in particular every store) is still a directory. -/
theorem no_residue (sys : Sys) (evs : List Ev) (hok : ∀ ev ∈ evs, EvOk ev) (h0 : TempOk sys) :
    TempOk (runEvs pathFacts sys evs) ∧
    ∀ n img, matchesTemp pathFacts n = false → Fs.get sys.fs n = some (.dir img) →
      ∃ img', Fs.get (runEvs pathFacts sys evs).fs n = some (.dir img') := by
  induction evs generalizing sys with
  | nil => exact ⟨h0, fun n img _ h => ⟨img, h⟩⟩
  | cons ev evs ih =>
    have st := stepEv_fs sys ev (hok ev (by simp))
    obtain ⟨t, d⟩ := ih (stepEv pathFacts sys ev) (fun e he => hok e (by simp [he])) (st.temp h0)
    refine ⟨t, fun n img hn h => ?_⟩
    obtain ⟨i, hi⟩ := st.dirs n img hn h
    exact d n i hn hi

/-- **Startup cleaning.** When `Provision` gets past the registration, then — whether it goes on to succeed or fails
while loading a configured CRL — no temp-pattern name is left in work_dir, foreign look-alikes included. -/
theorem startup_sweep (v : Bool) (urls files : List Location) (sys : Sys) (hfree : sys.wd ∉ sys.registered)
    (hu : ∀ l ∈ urls, matchesTemp pathFacts l.id = false) (hf : ∀ l ∈ files, matchesTemp pathFacts l.id = false) :
    ∀ n, matchesTemp pathFacts n = true → Fs.get (provision pathFacts v urls files sys).1.fs n = none := by
  obtain ⟨mid, r, e | e⟩ := (provision_spec v urls files sys hu hf).2 hfree
  · rw [e]; exact (provision_fs sys mid r).1
  · rw [e, (cleanup_rest mid).1]; exact (provision_fs sys mid r).1

/-! ### The clean-up is a `filepath.Walk`

`sweep` — the filter every statement of Part 2 is about — is an idealisation of `DeleteTempFilesIfExist`, which walks
work_dir with a callback. `startupSweep` is that walk (children in byte-wise lexical order, `SkipDir` semantics of
`filepath.Walk`) with the two guards of the callback as the translator reads them from the source on every run. -/

/-- The callback as regenerated: `deleteIfTempFileOrDir` is called for every entry except work_dir itself, `SkipDir` is
returned for every directory except work_dir itself (and for nothing else). Any other shape breaks this obligation. -/
theorem walk_guards_canonical : walkDeleteGuard = "nonroot" ∧ walkSkipGuard = "dir-nonroot" :=
  Crv.Paths.walk_guards_canonical

/-- With that callback the walk never stops early: it visits every child of work_dir and removes exactly those whose
name matches the pattern, files and directories alike. -/
theorem walk_visits_every_child (F : Facts) (l : List (Name × Node)) :
    walkDeleted "nonroot" "dir-nonroot" F l = (l.filter (fun e => matchesTemp F e.1)).map (·.1) :=
  Crv.Paths.walk_visits_every_child F l

/-- **The walk of the source is the filter.** For every listing of work_dir, `DeleteTempFilesIfExist` with the
regenerated callback shape leaves exactly what `sweep` leaves. -/
theorem startup_walk_is_sweep (F : Facts) (fs : Fs) : startupSweep F fs = sweep F fs :=
  Crv.Paths.startup_walk_is_sweep F fs

/-- Hence the `sweep` statement of `Provision` in the lifecycle machine is the real walk. -/
theorem provision_sweep_is_walk (v : Bool) (urls files : List Location) (sys : Sys) :
    provisionOp pathFacts v urls files (sys, false) ProvisionOp.sweep = ({ sys with fs := startupSweep pathFacts sys.fs }, false) := by
  rw [Crv.Paths.startup_walk_is_sweep]; rfl

/-- A callback that returns `SkipDir` for every entry, files included (guards "nonroot"/"nonroot"), is *not* the filter:
in a work_dir with a plain file "a" and a temp-named directory "crl_x_tmp" the file is visited first, `SkipDir` for a
non-directory makes Walk skip the rest of work_dir, and the temp-named directory survives (the walk changes nothing). -/
theorem skip_on_files_leaves_residue :
    walkSweep "nonroot" "nonroot" pathFacts residueFs = residueFs ∧
    walkSweep "nonroot" "nonroot" pathFacts residueFs ≠ sweep pathFacts residueFs :=
  Crv.Paths.skip_on_files_leaves_residue

/-- A callback that never returns `SkipDir` (guards "nonroot"/"never") is not the filter either: Walk descends into the
temp-named directory "crl_a_tmp" it has just removed, `lstat` fails there, the callback hands the error back and the walk
is over; the temp-named file "crl_b_tmp" behind it survives. (Without a temp-named *directory* in work_dir such a callback
does clean up: `Crv.Paths.walk_never_skip_without_temp_dirs`.) -/
theorem descent_into_removed_dir_leaves_residue :
    walkSweep "nonroot" "never" pathFacts abortFs = [([99, 114, 108, 95, 98, 95, 116, 109, 112], .file)] ∧
    sweep pathFacts abortFs = [] :=
  Crv.Paths.descent_into_removed_dir_leaves_residue

/-- **Cleanup releases.** From a provisioned checker `Cleanup` removes its work_dir from the registry (other
instances' registrations stay), leaves no database handle of its repository open, stops the ticker and ends the
updater goroutine (the stop channel is closed); work_dir itself is not touched. -/
theorem cleanup_releases (sys : Sys) (regs : List Name) (hwd : sys.wd ∉ regs) (L : Live sys regs) :
    (cleanup pathFacts sys).registered = regs ∧ (cleanup pathFacts sys).handles = [] ∧
    (cleanup pathFacts sys).inst.ticker = false ∧ (cleanup pathFacts sys).inst.stop = false ∧
    (cleanup pathFacts sys).fs = sys.fs := by
  have I := cleanup_of_held sys regs hwd L.toHeld
  exact ⟨I.registered, I.handles, I.ticker, I.stop, (cleanup_rest sys).1⟩

/-- The same after a `Provision` that failed half way (Caddy calls `Cleanup` on the module): nothing stays held. -/
theorem failed_provision_releases (v : Bool) (urls files : List Location) (sys : Sys) (regs : List Name)
    (hwd : sys.wd ∉ regs) (I : Idle sys regs)
    (hu : ∀ l ∈ urls, matchesTemp pathFacts l.id = false) (hf : ∀ l ∈ files, matchesTemp pathFacts l.id = false)
    (hfail : (provision pathFacts v urls files sys).2 = false) : Idle (provision pathFacts v urls files sys).1 regs := by
  have hfree : sys.wd ∉ sys.registered := by rw [I.registered]; exact hwd
  obtain ⟨mid, r, e | e⟩ := (provision_spec v urls files sys hu hf).2 hfree
  · rw [e] at hfail; cases hfail
  · rw [e]
    exact cleanup_of_held mid regs (by rw [r.wd]; exact hwd) (held_of_repoStep sys mid regs I.registered I.handles r)

/-- **Exclusive registration.** While a work_dir string is registered, `Provision` of another checker with the same
string fails, and neither the failed attempt nor the `Cleanup` that follows it changes the registry (the holder keeps
its registration), the open handles or work_dir. -/
theorem register_exclusive (v : Bool) (urls files : List Location) (sys : Sys) (hbusy : sys.wd ∈ sys.registered)
    (hu : ∀ l ∈ urls, matchesTemp pathFacts l.id = false) (hf : ∀ l ∈ files, matchesTemp pathFacts l.id = false) :
    (provision pathFacts v urls files sys).2 = false ∧
    (provision pathFacts v urls files sys).1.registered = sys.registered ∧
    (provision pathFacts v urls files sys).1.handles = sys.handles ∧
    (provision pathFacts v urls files sys).1.fs = sys.fs := by
  rw [(provision_spec v urls files sys hu hf).1 hbusy]
  exact ⟨rfl, rfl, rfl, rfl⟩

/-- State of the checker between events: idle or live, for every history. -/
theorem lifecycle_invariant (sys : Sys) (regs : List Name) (evs : List Ev) (hok : ∀ ev ∈ evs, EvOk ev)
    (hwd : sys.wd ∉ regs) (h : Idle sys regs ∨ Live sys regs) :
    Idle (runEvs pathFacts sys evs) regs ∨ Live (runEvs pathFacts sys evs) regs := by
  induction evs generalizing sys with
  | nil => exact h
  | cons ev evs ih =>
    have hok1 := hok ev (by simp)
    simp only [runEvs, List.foldl_cons] at ih ⊢
    exact ih _ (fun e he => hok e (by simp [he])) (by rw [(stepEv_fs sys ev hok1).wd]; exact hwd)
      (stepEv_state sys regs ev hok1 hwd h)

/-- One provision … cleanup cycle: any configuration, any outcome of `Provision`, any events in between. -/
def cycle (c : Bool × List Location × List Location × List Ev) : List Ev :=
  Ev.provision c.1 c.2.1 c.2.2.1 :: c.2.2.2 ++ [Ev.cleanup]

/-- **Cycles.** From a state in which this checker holds nothing, any number `k` of provision/…/cleanup cycles on the
same work_dir ends in a state in which it holds nothing: registry as at the start, no handle, no ticker, no goroutine —
so every later `Provision` gets past the registration again. -/
theorem cycles (sys : Sys) (regs : List Name) (cs : List (Bool × List Location × List Location × List Ev))
    (hok : ∀ c ∈ cs, ∀ ev ∈ cycle c, EvOk ev) (hwd : sys.wd ∉ regs) (I : Idle sys regs) :
    Idle (runEvs pathFacts sys (cs.flatMap cycle)) regs := by
  induction cs generalizing sys with
  | nil => exact I
  | cons c cs ih =>
    have hokc := hok c (by simp)
    simp only [List.flatMap_cons, runEvs, List.foldl_append] at ih ⊢
    have hok' : ∀ ev ∈ Ev.provision c.1 c.2.1 c.2.2.1 :: c.2.2.2, EvOk ev :=
      fun ev he => hokc ev (by simp only [cycle, List.cons_append, List.mem_cons, List.mem_append] at he ⊢; rcases he with e | e <;> simp [e])
    have mid := lifecycle_invariant sys regs (Ev.provision c.1 c.2.1 c.2.2.1 :: c.2.2.2) hok' hwd (Or.inl I)
    have hwd' : (runEvs pathFacts sys (Ev.provision c.1 c.2.1 c.2.2.1 :: c.2.2.2)).wd ∉ regs := by
      rw [runEvs_wd _ _ hok']; exact hwd
    have afterCleanup : Idle (stepEv pathFacts (runEvs pathFacts sys (Ev.provision c.1 c.2.1 c.2.2.1 :: c.2.2.2)) Ev.cleanup) regs := by
      rcases mid with I' | L'
      · exact cleanup_of_idle _ regs hwd' I'
      · exact cleanup_of_held _ regs hwd' L'.toHeld
    have hwd'' : (stepEv pathFacts (runEvs pathFacts sys (Ev.provision c.1 c.2.1 c.2.2.1 :: c.2.2.2)) Ev.cleanup).wd ∉ regs := by
      rw [(stepEv_fs _ Ev.cleanup trivial).wd]; exact hwd'
    have := ih _ (fun c' hc' => hok c' (by simp [hc'])) hwd'' afterCleanup
    simpa [cycle, runEvs, List.foldl_append] using this

/-! ### Non-vacuity: a concrete history, evaluated -/

section examples
def exDoc (t : Nat) (ok : Bool) : Doc := { tag := t, serials := [1, 2, 3], sigOk := ok }
def exA : Name := hex [0xaa, 0x01]
def exB : Name := hex [0xbb, 0x02]
def foreignTemp : Name := [99, 114, 108, 95, 120, 95, 116, 109, 112]   -- "crl_x_tmp"
def foreignOther : Name := [99, 114, 108, 95, 116, 109, 112]             -- "crl_tmp"
def exSys : Sys := { disk := true, wd := [47, 119], fs := [(foreignTemp, .file), (foreignOther, .file)] }
def exHistory : List Ev :=
  [ .provision true [{ id := exA, first := .doc (exDoc 1 true), update := .doc (exDoc 2 true) }] [],
    .handshake true exB (.doc (exDoc 3 false)),        -- first load rejected (bad signature)
    .handshake true exB .down,                          -- origin down
    .handshake true exB (.broken (exDoc 4 true) 2),     -- parse error after two records
    .handshake true exB (.doc (exDoc 5 true)),          -- accepted
    .refresh true exA (.doc (exDoc 6 false)),           -- refresh rejected
    .foreign foreignTemp .file,
    .refresh true exB (.doc (exDoc 7 true)) ]

example : ∀ ev ∈ exHistory, EvOk ev := by decide

set_option maxRecDepth 20000 in
/-- listing after the history: the two stores, the surviving look-alike, and the temp-named file dropped after startup;
both handles open, work_dir registered -/
example : let s := runEvs pathFacts exSys exHistory
    (s.fs.names, s.handles, s.registered, s.inst.stop) = ([exB, foreignTemp, exA, foreignOther], [exB, exA], [[47, 119]], true) := by
  decide

set_option maxRecDepth 20000 in
/-- … and after Cleanup nothing is held -/
example : let s := runEvs pathFacts exSys (exHistory ++ [.cleanup])
    (s.handles, s.registered, s.inst.ticker, s.inst.stop) = ([], [], false, false) := by decide

example : Idle exSys [] := ⟨rfl, rfl, rfl, rfl⟩
end examples

/-- The hand-written `Loader` model this property rests on was transcribed from exactly these sources: the fingerprints are
recomputed from /repo on every run (tools/extract/skeleton.go), so any change to one of the functions breaks this obligation. -/
theorem loader_sources_as_transcribed : Crv.Generated.skeletonLoader = Crv.Skeleton.expectedLoader :=
  Crv.Skeleton.loader_sources_as_transcribed

/-- The hand-written `Repo` model this property rests on was transcribed from exactly these sources: the fingerprints are
recomputed from /repo on every run (tools/extract/skeleton.go), so any change to one of the functions breaks this obligation. -/
theorem repo_sources_as_transcribed : Crv.Generated.skeletonRepo = Crv.Skeleton.expectedRepo :=
  Crv.Skeleton.repo_sources_as_transcribed

/-- The hand-written `Store` model this property rests on was transcribed from exactly these sources: the fingerprints are
recomputed from /repo on every run (tools/extract/skeleton.go), so any change to one of the functions breaks this obligation. -/
theorem store_sources_as_transcribed : Crv.Generated.skeletonStore = Crv.Skeleton.expectedStore :=
  Crv.Skeleton.store_sources_as_transcribed

end Crv.Props.C20
