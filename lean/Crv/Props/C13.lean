import Crv.Proofs.LocksMain
import Crv.Proofs.Skeleton
import Crv.Generated.Locks
/-!
C13 — Concurrency safety. The generic theorems of `Crv.Proofs.LocksMain` instantiated on the lock
programs the translator regenerates from crl/crlrepository/crlrepository.go and
crl/crlrevocationchecker.go on every run (`Crv.Generated.sys`: thread programs `hs` (handshake =
CRLRevocationChecker.IsRevoked), `update` (tick / forced refresh = updateCRLsRecovering),
`cfgUpdate` (Repository.UpdateCRL), `cleanup`, `ticker` (the goroutine of initCRLUpdateTicker),
`provision`, `updateDirect`; calls inlined, `defer` resolved to every exit).

The side conditions are decidable checks over the extracted facts (kernel evaluation); the generic
theorems lift them to every number of threads, checker instances, repository entries and every
schedule.

Modelled: sequentially consistent interleavings of the extracted lock programs. Not modelled: the Go
memory model and scheduler, library-internal synchronisation (cache2go, goleveldb, net/http).
Writes to checker fields inside Provision / initCRLUpdateTicker are initialisation (ordered before
every other thread of that checker by Caddy's provisioning and by the `go` statement); the translator
checks that these functions are only called from Provision.
-/
namespace Crv.Props.C13
open Crv.Locks Crv.Generated

set_option maxRecDepth 100000

/-! ### the extracted facts satisfy the side conditions -/

theorem sys_wf : sys.wf = true := by decide +kernel

/-- `held` annotations are inductive, every `rel` releases something held in that mode, every exit
holds nothing (no Lock without matching Unlock on any path), the entry variable is not re-assigned
while an entry lock is held. -/
theorem sys_consistent : sys.consistent = true := by decide +kernel

/-- All nested acquisitions respect one strict order of lock classes. -/
theorem sys_ordered : sys.ordered = true := by decide +kernel

/-- No program requests a lock class it already holds (the AddCRL → tryUpdateSignatureCertFromChain
re-lock repaired by c220e31 would make this, `sys_ordered` and `sys_consistent` fail). -/
theorem sys_noSelfAcquire : sys.noSelfAcquire = true := by decide +kernel

/-- `lifecycle` is not a lock of the code base: it stands for Caddy's module lifecycle (Provision and
Cleanup of one checker instance never overlap, Cleanup is not run twice concurrently); the translator
wraps the `provision` and `cleanup` programs in it. -/
theorem lock_names : lockNames = ["updateMutex", "workDirMutex", "repoLock", "entryLock", "lifecycle"] := by decide

/-- The order found in the code: updateMutex before repoLock before entryLock (Close and
getOrAddEntry hold repoLock and then take / create entry locks; nothing requests repoLock while
holding an entryLock: updateCrlEntry calls deleteEntrySync after updateEntry released the entry lock);
workDirMutex is only taken while nothing but the (virtual) lifecycle lock is held, and nothing is taken under it. -/
theorem lock_order : sys.rank 0 < sys.rank 2 ∧ sys.rank 2 < sys.rank 3 ∧
    (∀ e ∈ lockNesting, e.1 ≠ 1 ∧ (e.2 = 1 → e.1 = 4)) := by decide +kernel

/-! ### no deadlock -/

/-- Every reachable configuration (any number of threads of the seven kinds, any number of checker
instances and entries, any schedule) in which some call has not returned has a thread that is
enabled even if readers are held back by pending writers. -/
theorem no_deadlock (c : Config) (hr : Reachable sys c) (hu : Unfinished sys c) :
    ∃ i, strictEnabled sys c i = true :=
  progress sys_consistent sys_ordered hr hu

theorem some_call_proceeds (c : Config) (hr : Reachable sys c) (hu : Unfinished sys c) :
    ∃ c', Step sys c c' :=
  Crv.Locks.no_deadlock sys_wf sys_consistent sys_ordered hr hu

/-- What every thread holds is what the extracted annotation says, in every reachable configuration. -/
theorem holdings_as_extracted (c : Config) (hr : Reachable sys c) : Inv sys c :=
  reachable_inv sys_consistent hr

/-- A writer excludes everybody else, in every reachable configuration. -/
theorem writers_exclusive (c : Config) (hr : Reachable sys c) : Excl c := reachable_excl hr

/-! ### no data race -/

theorem field_names : fieldNames = ["repoMap", "entry.Loaded", "entry.CRLStore", "entry.storeContent",
    "entry.Chains", "entry.LastUpdateSignatureVerifyFailed", "entry.LastUpdateSignature", "entry.CRLLoader",
    "entry.loaderState", "checker.lastCrlUpdateFinishTime", "checker.crlUpdateStop", "checker.crlUpdateTicker",
    "workDirsInUse", "entry.Closed"] := by decide

/-- (field class, guard lock class): the repository map by repoLock; every field of an entry (incl.
`Closed`), the content of its store (S.Map / S.Db) and the state of its loader (lastSuccessfulLoader) by
that entry's entryLock; the per-instance refresh timestamp by updateMutex; workDirsInUse by workDirMutex;
`crlUpdateStop` is only touched by Provision and Cleanup (module lifecycle) since 19d3285 — the ticker
goroutine reads a local copy. The ticker handle and the loader reference are never written after
initialisation (any guard passes). -/
def guards : List (Nat × Nat) :=
  [(0, 2), (1, 3), (2, 3), (3, 3), (4, 3), (5, 3), (6, 3), (7, 3), (8, 3), (9, 0), (10, 4), (11, 0), (12, 1), (13, 3)]

theorem lockset_ok : sys.lockset guards = true := by decide +kernel

theorem guards_cover : guards.map (·.1) = List.range fieldNames.length := by decide

/-- **No data race**: no reachable configuration (any number of threads of the seven kinds, any number of
checker instances and entries, any schedule) has two threads both about to perform conflicting accesses
(at least one write) to the same instance of any tracked field. -/
theorem race_free_all (c : Config) (hr : Reachable sys c) (f : Nat) (hf : f < fieldNames.length) :
    ¬ ConflictEnabled sys c f := by
  have hl : ∀ gf ∈ guards, sys.locksetField gf.2 gf.1 = true := by
    have := lockset_ok
    unfold Sys.lockset at this
    rw [List.all_eq_true] at this
    exact this
  have hmem : f ∈ guards.map (·.1) := by
    rw [guards_cover]; exact List.mem_range.mpr hf
  obtain ⟨gf, hgf, rfl⟩ := List.mem_map.mp hmem
  exact race_free sys_consistent (hl gf hgf) hr

/-- The race found on the first run of this check (Cleanup's `c.crlUpdateStop = nil` against the ticker
goroutine's `case <-c.crlUpdateStop`, repaired by 19d3285) would show here: the ticker goroutine no longer
accesses the field at all. -/
theorem ticker_does_not_touch_stop_channel :
    prog_ticker.nodes.all (fun n => n.instr != .rd 10 && n.instr != .wr 10) = true := by decide +kernel

/-! ### OCSP cache handle -/

/-- `c.cache` of the OCSP checker is assigned in Provision only (repaired by 92847ce: it used to be
re-assigned on every lookup, racing with concurrent lookups). -/
theorem ocsp_cache_assigned_once : ocspCacheAssignedIn = ["Provision"] := by decide

/-! ### non-vacuity -/

/-- thread 0 = a refresh (`update`), thread 1 = a handshake (`hs`), same checker, same entry -/
def demoStart : Config := [(1, 0, 0), (0, 0, 0)].map fun p => startThread sys p.1 p.2.1 p.2.2

/-- the refresh runs until it holds the entry write lock and is about to swap the store content, then the
handshake runs until it requests the same entry's lock -/
def demoSched : List (Nat × Nat × Nat) :=
  schedOf 0 0 ((prog_update.pathTo (fun _ => false)
    (fun n => n.instr == .wr 3 && n.held.contains (3, .w))).getD []) ++
  schedOf 1 0 ((prog_hs.pathTo (fun _ => false) (fun n => match n.instr with | .acq 3 _ => true | _ => false)).getD [])

/-- The hypotheses of `no_deadlock` are met by a configuration in which a handshake really is blocked by
a refresh holding the entry lock: the handshake is not enabled, the refresh is. -/
example : ∃ c, Reachable sys c ∧ Unfinished sys c ∧ strictEnabled sys c 1 = false ∧ strictEnabled sys c 0 = true := by
  have h : ∃ c, runSched sys demoStart demoSched = some c ∧ (c.any fun t => !t.finished sys) = true ∧
      strictEnabled sys c 1 = false ∧ strictEnabled sys c 0 = true ∧
      (c.map fun t => t.held.map cm) = [[(3, .w), (0, .w)], []] := by decide +kernel
  obtain ⟨c, hrun, hunf, h1, h0, _⟩ := h
  refine ⟨c, runSched_reachable _ _ _ (Reachable.init (init_start [(1, 0, 0), (0, 0, 0)] (by decide))) hrun, ?_, h1, h0⟩
  rw [List.any_eq_true] at hunf
  obtain ⟨t, ht, hf⟩ := hunf
  exact ⟨t, ht, by simpa using hf⟩

/-- `race_free_partial` is not vacuous: the same two threads do reach a configuration where both are about
to touch the same entry's store content — but only as reader after reader, never with the writer. -/
example : sys.hasWrite 3 = true ∧ sys.hasWrite 1 = true ∧ sys.hasWrite 0 = true := by decide +kernel

/-- The hand-written `Repo` model this property rests on was transcribed from exactly these sources: the fingerprints are
recomputed from /repo on every run (tools/extract/skeleton.go), so any change to one of the functions breaks this obligation. -/
theorem repo_sources_as_transcribed : Crv.Generated.skeletonRepo = Crv.Skeleton.expectedRepo :=
  Crv.Skeleton.repo_sources_as_transcribed

/-- The hand-written `Store` model this property rests on was transcribed from exactly these sources: the fingerprints are
recomputed from /repo on every run (tools/extract/skeleton.go), so any change to one of the functions breaks this obligation. -/
theorem store_sources_as_transcribed : Crv.Generated.skeletonStore = Crv.Skeleton.expectedStore :=
  Crv.Skeleton.store_sources_as_transcribed

/-- The hand-written `Ocsp` model this property rests on was transcribed from exactly these sources: the fingerprints are
recomputed from /repo on every run (tools/extract/skeleton.go), so any change to one of the functions breaks this obligation. -/
theorem ocsp_sources_as_transcribed : Crv.Generated.skeletonOcsp = Crv.Skeleton.expectedOcsp :=
  Crv.Skeleton.ocsp_sources_as_transcribed

end Crv.Props.C13
