import Crv.Proofs.LocksMain
import Crv.Generated.Locks
/-!
C13 — Concurrency safety. The generic theorems of `Crv.Proofs.LocksMain` instantiated on the lock
programs the translator regenerates from crl/crlrepository/crlrepository.go and
crl/crlrevocationchecker.go on every run (`Crv.Generated.sys`: thread programs `hs` (handshake =
CRLRevocationChecker.IsRevoked), `update` (tick / forced refresh = updateCRLsRecovering),
`cfgUpdate` (Repository.UpdateCRL), `cleanup`, `ticker` (the goroutine of initCRLUpdateTicker),
`provision`, `updateDirect`; calls inlined, `defer` resolved to every exit).

The side conditions are decidable checks over the extracted facts (kernel evaluation); the generic
theorems lift them to every number of threads, checker instances, repository entries and every
schedule.

Modelled: sequentially consistent interleavings of the extracted lock programs. Not modelled: the Go
memory model and scheduler, library-internal synchronisation (cache2go, goleveldb, net/http).
Writes to checker fields inside Provision / initCRLUpdateTicker are initialisation (ordered before
every other thread of that checker by Caddy's provisioning and by the `go` statement); the translator
checks that these functions are only called from Provision.
-/
namespace Crv.Props.C13
open Crv.Locks Crv.Generated

set_option maxRecDepth 100000

/-! ### the extracted facts satisfy the side conditions -/

theorem sys_wf : sys.wf = true := by decide +kernel

/-- `held` annotations are inductive, every `rel` releases something held in that mode, every exit
holds nothing (no Lock without matching Unlock on any path), the entry variable is not re-assigned
while an entry lock is held. -/
theorem sys_consistent : sys.consistent = true := by decide +kernel

/-- All nested acquisitions respect one strict order of lock classes. -/
theorem sys_ordered : sys.ordered = true := by decide +kernel

/-- No program requests a lock class it already holds (the AddCRL → tryUpdateSignatureCertFromChain
re-lock repaired by c220e31 would make this, `sys_ordered` and `sys_consistent` fail). -/
theorem sys_noSelfAcquire : sys.noSelfAcquire = true := by decide +kernel

theorem lock_names : lockNames = ["updateMutex", "workDirMutex", "repoLock", "entryLock"] := by decide

/-- The order found in the code: updateMutex before repoLock before entryLock (Close and
getOrAddEntry hold repoLock and then take / create entry locks; nothing requests repoLock while
holding an entryLock: updateCrlEntry calls deleteEntrySync after updateEntry released the entry lock);
workDirMutex is never nested with anything. -/
theorem lock_order : sys.rank 0 < sys.rank 2 ∧ sys.rank 2 < sys.rank 3 ∧
    (∀ e ∈ lockNesting, e.1 ≠ 1 ∧ e.2 ≠ 1) := by decide +kernel

/-! ### no deadlock -/

/-- Every reachable configuration (any number of threads of the seven kinds, any number of checker
instances and entries, any schedule) in which some call has not returned has a thread that is
enabled even if readers are held back by pending writers. -/
theorem no_deadlock (c : Config) (hr : Reachable sys c) (hu : Unfinished sys c) :
    ∃ i, strictEnabled sys c i = true :=
  progress sys_consistent sys_ordered hr hu

theorem some_call_proceeds (c : Config) (hr : Reachable sys c) (hu : Unfinished sys c) :
    ∃ c', Step sys c c' :=
  Crv.Locks.no_deadlock sys_wf sys_consistent sys_ordered hr hu

/-- What every thread holds is what the extracted annotation says, in every reachable configuration. -/
theorem holdings_as_extracted (c : Config) (hr : Reachable sys c) : Inv sys c :=
  reachable_inv sys_consistent hr

/-- A writer excludes everybody else, in every reachable configuration. -/
theorem writers_exclusive (c : Config) (hr : Reachable sys c) : Excl c := reachable_excl hr

/-! ### no data race -/

theorem field_names : fieldNames = ["repoMap", "entry.Loaded", "entry.CRLStore", "entry.storeContent",
    "entry.Chains", "entry.LastUpdateSignatureVerifyFailed", "entry.LastUpdateSignature", "entry.CRLLoader",
    "entry.loaderState", "checker.lastCrlUpdateFinishTime", "checker.crlUpdateStop", "checker.crlUpdateTicker",
    "workDirsInUse"] := by decide

/-- (field class, guard lock class): the repository map by repoLock; every field of an entry, the
content of its store (S.Map / S.Db) and the state of its loader (lastSuccessfulLoader) by that entry's
entryLock; the per-instance refresh timestamp by updateMutex; workDirsInUse by workDirMutex. The ticker
handle and the loader reference are never written after initialisation (any guard passes). -/
def guards : List (Nat × Nat) :=
  [(0, 2), (1, 3), (2, 3), (3, 3), (4, 3), (5, 3), (6, 3), (7, 3), (8, 3), (9, 0), (11, 0), (12, 1)]

theorem lockset_ok : sys.lockset guards = true := by decide +kernel

/-
Full statement (false on the current tree because of `checker.crlUpdateStop`, see below):
  theorem race_free_all (c) (hr : Reachable sys c) (f : Nat) (hf : f < fieldNames.length) : ¬ ConflictEnabled sys c f
-/

/-- No reachable configuration has two threads both about to perform conflicting accesses to the same
instance of any tracked field other than `checker.crlUpdateStop`. -/
theorem race_free_partial (c : Config) (hr : Reachable sys c) (f : Nat) (hf : f < fieldNames.length)
    (hne : f ≠ 10) : ¬ ConflictEnabled sys c f := by
  have hl : ∀ gf ∈ guards, sys.locksetField gf.2 gf.1 = true := by
    have := lockset_ok
    unfold Sys.lockset at this
    rw [List.all_eq_true] at this
    exact this
  have hcase : f = 0 ∨ f = 1 ∨ f = 2 ∨ f = 3 ∨ f = 4 ∨ f = 5 ∨ f = 6 ∨ f = 7 ∨ f = 8 ∨ f = 9 ∨ f = 11 ∨ f = 12 := by
    have : fieldNames.length = 13 := by decide
    omega
  rcases hcase with h | h | h | h | h | h | h | h | h | h | h | h <;> subst h
  · exact race_free sys_consistent (hl (0, 2) (by decide)) hr
  · exact race_free sys_consistent (hl (1, 3) (by decide)) hr
  · exact race_free sys_consistent (hl (2, 3) (by decide)) hr
  · exact race_free sys_consistent (hl (3, 3) (by decide)) hr
  · exact race_free sys_consistent (hl (4, 3) (by decide)) hr
  · exact race_free sys_consistent (hl (5, 3) (by decide)) hr
  · exact race_free sys_consistent (hl (6, 3) (by decide)) hr
  · exact race_free sys_consistent (hl (7, 3) (by decide)) hr
  · exact race_free sys_consistent (hl (8, 3) (by decide)) hr
  · exact race_free sys_consistent (hl (9, 0) (by decide)) hr
  · exact race_free sys_consistent (hl (11, 0) (by decide)) hr
  · exact race_free sys_consistent (hl (12, 1) (by decide)) hr

/-- Finding: no lock guards `checker.crlUpdateStop` — Cleanup writes it (`c.crlUpdateStop = nil`) and the
ticker goroutine reads it on every iteration of its select loop, both holding nothing. -/
theorem crlUpdateStop_unguarded : ∀ g ∈ List.range lockNames.length, sys.locksetField g 10 = false := by
  decide +kernel

/-- thread 0 = cleanup, thread 1 = ticker goroutine, same checker instance -/
def raceStart : Config := [(3, 0, 0), (4, 0, 0)].map fun p => startThread sys p.1 p.2.1 p.2.2

/-- cleanup runs alone up to its write of crlUpdateStop, then the ticker goroutine runs alone up to its read -/
def raceSched : List (Nat × Nat × Nat) :=
  schedOf 0 0 ((prog_cleanup.pathTo (fun _ => false) (fun n => n.instr == .wr 10)).getD []) ++
  schedOf 1 0 ((prog_ticker.pathTo (fun _ => false) (fun n => n.instr == .rd 10)).getD [])

/-- Counterexample to the full statement: a reachable configuration in which Cleanup is about to write
`crlUpdateStop` (crlrevocationchecker.go, `c.crlUpdateStop = nil`) while the ticker goroutine is about to
read it (`case <-c.crlUpdateStop`). -/
theorem crlUpdateStop_race_counterexample : ∃ c, Reachable sys c ∧ ConflictEnabled sys c 10 := by
  have h : ∃ c, runSched sys raceStart raceSched = some c ∧ conflictNow sys c 0 1 10 = true := by
    decide +kernel
  obtain ⟨c, hrun, hconf⟩ := h
  refine ⟨c, runSched_reachable _ _ _ (Reachable.init ?_) hrun, conflictNow_sound hconf⟩
  exact init_start [(3, 0, 0), (4, 0, 0)] (by decide)

/-! ### OCSP cache handle -/

/-- `c.cache` of the OCSP checker is assigned in Provision only (repaired by 92847ce: it used to be
re-assigned on every lookup, racing with concurrent lookups). -/
theorem ocsp_cache_assigned_once : ocspCacheAssignedIn = ["Provision"] := by decide

/-! ### non-vacuity -/

/-- thread 0 = a refresh (`update`), thread 1 = a handshake (`hs`), same checker, same entry -/
def demoStart : Config := [(1, 0, 0), (0, 0, 0)].map fun p => startThread sys p.1 p.2.1 p.2.2

/-- the refresh runs until it holds the entry write lock and is about to swap the store content, then the
handshake runs until it requests the same entry's lock -/
def demoSched : List (Nat × Nat × Nat) :=
  schedOf 0 0 ((prog_update.pathTo (fun _ => false)
    (fun n => n.instr == .wr 3 && n.held.contains (3, .w))).getD []) ++
  schedOf 1 0 ((prog_hs.pathTo (fun _ => false) (fun n => match n.instr with | .acq 3 _ => true | _ => false)).getD [])

/-- The hypotheses of `no_deadlock` are met by a configuration in which a handshake really is blocked by
a refresh holding the entry lock: the handshake is not enabled, the refresh is. -/
example : ∃ c, Reachable sys c ∧ Unfinished sys c ∧ strictEnabled sys c 1 = false ∧ strictEnabled sys c 0 = true := by
  have h : ∃ c, runSched sys demoStart demoSched = some c ∧ (c.any fun t => !t.finished sys) = true ∧
      strictEnabled sys c 1 = false ∧ strictEnabled sys c 0 = true ∧
      (c.map fun t => t.held.map cm) = [[(3, .w), (0, .w)], []] := by decide +kernel
  obtain ⟨c, hrun, hunf, h1, h0, _⟩ := h
  refine ⟨c, runSched_reachable _ _ _ (Reachable.init (init_start [(1, 0, 0), (0, 0, 0)] (by decide))) hrun, ?_, h1, h0⟩
  rw [List.any_eq_true] at hunf
  obtain ⟨t, ht, hf⟩ := hunf
  exact ⟨t, ht, by simpa using hf⟩

/-- `race_free_partial` is not vacuous: the same two threads do reach a configuration where both are about
to touch the same entry's store content — but only as reader after reader, never with the writer. -/
example : sys.hasWrite 3 = true ∧ sys.hasWrite 1 = true ∧ sys.hasWrite 0 = true := by decide +kernel

end Crv.Props.C13
