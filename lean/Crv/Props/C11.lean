import Crv.Proofs.Repo
import Crv.Proofs.Skeleton
import Crv.Props.C18
/-!
C11 — Precision: only entries of CRLs in force, under the same issuer, can revoke.
Repository level (this file) on abstract documents; the byte level (key = issuer string ++ "_" ++ decimal serial,
injective; FNV-64 collisions an explicit hypothesis) is `Crv.Props.C18` / `Crv/Proofs/StoreKey`.
-/
namespace Crv.Props.C11
open Crv Crv.Repo Crv.Generated

/-- A `revoked` answer always comes from a loaded, open entry whose document — accepted under the policy configured at its
intake (histories may restart with another signature mode) — lists exactly this serial under exactly this issuer name.
Every reachable state, every enumeration order. -/
theorem revoked_implies_listed (cfg : Cfg) (ops : List Op) (c : Cert) (order : List (Loc × Entry))
    (hsub : ∀ p ∈ order, p ∈ (run cfg ops).entries)
    (h : isRevoked (run cfg ops) order c = .revoked) :
    ∃ loc d, inForce (run cfg ops) loc d ∧ Accepted (run cfg ops) loc d ∧ d.issuer = c.issuer ∧ c.serial ∈ d.serials := by
  have hw : walk c order = .revoked := by
    unfold isRevoked at h
    cases hc : c.cdp with
    | none => simpa [hc] using h
    | some l =>
      simp only [hc] at h
      split at h
      · cases h
      · split at h
        · cases h
        · exact h
  obtain ⟨⟨loc, e⟩, hp, hl, hcl, hlist⟩ := walk_revoked_sound c order hw
  have hmem := hsub _ hp
  have hinv := inv_run cfg ops
  unfold listed at hlist
  cases hdoc : e.store.doc with
  | none => simp [hdoc] at hlist
  | some d =>
    simp only [hdoc, Bool.and_eq_true, beq_iff_eq] at hlist
    exact ⟨loc, d, ⟨e, hmem, hl, hcl, hdoc⟩, (hinv.1 (loc, e) hmem).store.accepted d hdoc, hlist.1, List.contains_iff_mem.mp hlist.2⟩

/-- Another issuer sharing the serial is not affected; near-miss serials are not affected. -/
theorem other_issuer_not_listed (st : Store) (d : DocA) (c : Cert) (hd : st.doc = some d) (hi : d.issuer ≠ c.issuer) :
    listed st c = false := by
  simp [listed, hd, hi]

theorem other_serial_not_listed (st : Store) (d : DocA) (c : Cert) (hd : st.doc = some d) (hs : c.serial ∉ d.serials) :
    listed st c = false := by
  simp [listed, hd, hs]

/-- Refresh replaces, it does not merge: after a successful refresh the store is an image of the new document only. -/
theorem refresh_replaces (s : State) (loc : Loc) (e : Entry) (nc : Option (List Signer))
    (hok : (updateCrlEntry s loc e nc).2 = .ok) :
    ∃ d, servedAt s loc = .doc d ∧
      ∀ e', lookup (updateCrlEntry s loc e nc).1.entries loc = some e' → e'.store.doc = some d := by
  unfold updateCrlEntry at hok ⊢
  by_cases hc : refreshRefused s e = true
  · simp [hc] at hok
  · simp only [hc, Bool.false_eq_true, ↓reduceIte] at hok ⊢
    by_cases hl : (!e.store.hasLocs) = true
    · simp [hl] at hok
    · simp only [hl, Bool.false_eq_true, ↓reduceIte] at hok ⊢
      cases hst : stage s.cfg.sigMode refreshHonoursMode (servedAt s loc) (refreshCands e nc) with
      | ok st d v =>
        obtain ⟨hsv, hdoc, _, _, _⟩ := stage_ok _ _ _ _ _ _ _ hst
        simp only [hst]
        refine ⟨d, hsv, ?_⟩
        intro e' he'
        simp only [setEntry] at he'
        rw [lookup_upsert] at he'
        cases he'
        exact hdoc
      | fetchFail => rw [hst] at hok; cases hok
      | parseFail => rw [hst] at hok; cases hok
      | sigFail d => rw [hst] at hok; cases hok

/-- A rejected load or refresh (fetch failure, parse error incl. unsupported critical extension, bad signature) changes no store:
what it parsed never influences any verdict. -/
theorem rejected_load_leaves_nothing (s : State) (loc : Loc) (e : Entry) (cands : List Signer)
    (hfail : (loadCRL s loc e cands).2 = .err) : (loadCRL s loc e cands).1 = s := by
  unfold loadCRL at hfail ⊢
  by_cases hc : loadRefused s e = true
  · simp only [hc, ↓reduceIte]
  · simp only [hc, Bool.false_eq_true, ↓reduceIte] at hfail ⊢
    cases hst : stage s.cfg.sigMode firstLoadHonoursMode (servedAt s loc) cands with
    | ok st d v => rw [hst] at hfail; cases hfail
    | fetchFail => rfl
    | parseFail => rfl
    | sigFail d => rfl

theorem rejected_refresh_keeps_store (s : State) (loc : Loc) (e : Entry) (nc : Option (List Signer))
    (hcur : lookup s.entries loc = some e)
    (hfail : (updateCrlEntry s loc e nc).2 = .err) :
    ∀ e', lookup (updateCrlEntry s loc e nc).1.entries loc = some e' → e'.store = e.store ∧ e'.loaded = e.loaded := by
  unfold updateCrlEntry at hfail ⊢
  by_cases hc : refreshRefused s e = true
  · simp only [hc, ↓reduceIte]; intro e' he'; rw [hcur] at he'; cases he'; exact ⟨rfl, rfl⟩
  · simp only [hc, Bool.false_eq_true, ↓reduceIte] at hfail ⊢
    by_cases hl : (!e.store.hasLocs) = true
    · simp only [hl, ↓reduceIte]; intro e' he'; rw [hcur] at he'; cases he'; exact ⟨rfl, rfl⟩
    · simp only [hl, Bool.false_eq_true, ↓reduceIte] at hfail ⊢
      cases hst : stage s.cfg.sigMode refreshHonoursMode (servedAt s loc) (refreshCands e nc) with
      | ok st d v => rw [hst] at hfail; cases hfail
      | fetchFail => intro e' he'; simp only [hst] at he'; rw [hcur] at he'; cases he'; exact ⟨rfl, rfl⟩
      | parseFail => intro e' he'; simp only [hst] at he'; rw [hcur] at he'; cases he'; exact ⟨rfl, rfl⟩
      | sigFail d =>
        intro e' he'
        simp only [hst, setEntry] at he'
        rw [lookup_upsert] at he'
        cases he'
        exact ⟨rfl, rfl⟩

-- Non-vacuity: rejected CRL (signer 9 unknown) then genuine one: the forged entry (serial 13) never counts.
def exOps : List Op :=
  [.serve 1 (.doc ⟨7, [13], 9, 1⟩), .handshake ⟨7, 13, some 1⟩ [1], .serve 1 (.doc ⟨7, [10], 1, 2⟩), .handshake ⟨7, 13, some 1⟩ [1]]
example : isRevoked (run {} exOps) (run {} exOps).entries ⟨7, 13, some 1⟩ = .notRevoked := by decide
example : isRevoked (run {} exOps) (run {} exOps).entries ⟨7, 10, some 1⟩ = .revoked := by decide

/-- The hand-written `Repo` model this property rests on was transcribed from exactly these sources: the fingerprints are
recomputed from /repo on every run (tools/extract/skeleton.go), so any change to one of the functions breaks this obligation. -/
theorem repo_sources_as_transcribed : Crv.Generated.skeletonRepo = Crv.Skeleton.expectedRepo :=
  Crv.Skeleton.repo_sources_as_transcribed

/-- The hand-written `Store` model this property rests on was transcribed from exactly these sources: the fingerprints are
recomputed from /repo on every run (tools/extract/skeleton.go), so any change to one of the functions breaks this obligation. -/
theorem store_sources_as_transcribed : Crv.Generated.skeletonStore = Crv.Skeleton.expectedStore :=
  Crv.Skeleton.store_sources_as_transcribed

end Crv.Props.C11
