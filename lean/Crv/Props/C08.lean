import Crv.Proofs.Repo
import Crv.Proofs.Skeleton
import Crv.Props.C11
/-!
C08 — refresh is all-or-nothing and a failed refresh keeps the previous CRL in force.

Sequential part: over the repository model (`updateCrlEntry` stages into a temporary store and swaps after the
signature step — checked by the translator).
Concurrent part: a small-step model of one entry shared by any number of lookups and one refresher. The store
swap is *not* atomic in itself (memory backend: the map is replaced by an empty one and refilled; disk backend:
close, rename aside, rename in, reopen) — what makes it atomic for observers is the lock discipline, which the
translator regenerates as `lookupHoldsReadLock` / `swapHoldsWriteLock`. The theorem quantifies over every schedule.
-/
namespace Crv.Props.C08
open Crv Crv.Repo Crv.Generated

/-! ### Sequential: failures keep the previous list, a later success takes effect -/

/-- A refresh that fails while fetching, parsing or verifying (or because the staging store cannot be filled — the
staged store is simply dropped) leaves store and loaded flag of the entry as they were. -/
theorem failed_refresh_keeps (s : State) (loc : Loc) (e : Entry) (nc : Option (List Signer))
    (hcur : lookup s.entries loc = some e) (hfail : (updateCrlEntry s loc e nc).2 = .err) :
    ∀ e', lookup (updateCrlEntry s loc e nc).1.entries loc = some e' → e'.store = e.store ∧ e'.loaded = e.loaded :=
  Crv.Props.C11.rejected_refresh_keeps_store s loc e nc hcur hfail

/-- A successful refresh installs exactly the new document. -/
theorem successful_refresh_installs (s : State) (loc : Loc) (e : Entry) (nc : Option (List Signer))
    (hok : (updateCrlEntry s loc e nc).2 = .ok) :
    ∃ d, servedAt s loc = .doc d ∧
      ∀ e', lookup (updateCrlEntry s loc e nc).1.entries loc = some e' → e'.store.doc = some d :=
  Crv.Props.C11.refresh_replaces s loc e nc hok

/-- The lookup answer for a certificate only depends on the store content and flags of the entries. -/
theorem verdict_from_old_after_failure (s : State) (loc : Loc) (e : Entry) (nc : Option (List Signer)) (c : Cert)
    (hcur : lookup s.entries loc = some e) (hfail : (updateCrlEntry s loc e nc).2 = .err)
    (e' : Entry) (he' : lookup (updateCrlEntry s loc e nc).1.entries loc = some e') :
    listed e'.store c = listed e.store c := by
  rw [(failed_refresh_keeps s loc e nc hcur hfail e' he').1]

/-! ### Concurrent: lookups interleaved with one refresh -/

inductive Content | old | empty | new
  deriving DecidableEq, Repr

/-- Shared state of one repository entry while a refresh is under way. -/
structure Sh where
  content : Content := .old      -- what a lookup reading the store at this instant would see
  writerHolds : Bool := false    -- entry write lock held by the refresher
  inside : Nat := 0              -- lookups currently between lock acquisition and release (read-lock holders)
  wpc : Nat := 0                 -- refresher: 0 before the swap, 1 lock taken, 2 store cleared, 3 store refilled, 4 lock released
  answers : List Content := []   -- ghost: what each completed lookup read, in completion order
  deriving Repr

inductive Ev
  | writer     -- the refresher takes its next micro-step (blocked steps leave the state unchanged)
  | enter      -- some lookup starts: takes the read lock if the discipline says so
  | read       -- some lookup that is inside reads the store, answers and leaves
  deriving DecidableEq, Repr

def stepW (s : Sh) : Sh :=
  match s.wpc with
  | 0 => if swapHoldsWriteLock then (if s.inside = 0 ∧ s.writerHolds = false then { s with writerHolds := true, wpc := 1 } else s)
         else { s with wpc := 1 }
  | 1 => { s with content := .empty, wpc := 2 }
  | 2 => { s with content := .new, wpc := 3 }
  | 3 => { s with writerHolds := false, wpc := 4 }
  | _ => s

def step (s : Sh) : Ev → Sh
  | .writer => stepW s
  | .enter => if lookupHoldsReadLock && s.writerHolds then s else { s with inside := s.inside + 1 }
  | .read => if s.inside = 0 then s else { s with inside := s.inside - 1, answers := s.answers ++ [s.content] }

def runSched (sched : List Ev) : Sh := sched.foldl step {}

/-- Answers seen so far: only complete lists, old ones first. -/
def Mono : List Content → Prop
  | [] => True
  | a :: t => (a = .old ∨ a = .new) ∧ (a = .new → ∀ b ∈ t, b = .new) ∧ Mono t

def AllOld (l : List Content) : Prop := ∀ a ∈ l, a = .old

structure Inv (s : Sh) : Prop where
  excl : s.writerHolds = true → s.inside = 0
  holds : s.writerHolds = true ↔ (s.wpc = 1 ∨ s.wpc = 2 ∨ s.wpc = 3)
  c0 : s.wpc ≤ 1 → s.content = .old ∧ AllOld s.answers
  c2 : s.wpc = 2 → s.content = .empty ∧ AllOld s.answers
  c3 : s.wpc ≥ 3 → s.content = .new
  mono : Mono s.answers
  bound : s.wpc ≤ 4

theorem mono_append_old (l : List Content) (h : AllOld l) : Mono (l ++ [.old]) := by
  induction l with
  | nil =>
    refine ⟨Or.inl rfl, ?_, trivial⟩
    intro hn; cases hn
  | cons a t ih =>
    have ha : a = .old := h a List.mem_cons_self
    refine ⟨Or.inl ha, ?_, ih (fun b hb => h b (List.mem_cons_of_mem _ hb))⟩
    intro hn; rw [ha] at hn; cases hn

theorem mono_append_new (l : List Content) (h : Mono l) : Mono (l ++ [.new]) := by
  induction l with
  | nil =>
    refine ⟨Or.inr rfl, ?_, trivial⟩
    intro _ b hb; cases hb
  | cons a t ih =>
    obtain ⟨h1, h2, h3⟩ := h
    refine ⟨h1, ?_, ih h3⟩
    intro hn b hb
    have hb' : b ∈ t ∨ b = .new := by
      simpa [List.mem_append] using hb
    rcases hb' with hb' | hb'
    · exact h2 hn b hb'
    · exact hb'

theorem inv_init : Inv ({} : Sh) := by
  refine { excl := ?_, holds := ?_, c0 := ?_, c2 := ?_, c3 := ?_, mono := trivial, bound := ?_ }
  · intro h; cases h
  · decide
  · intro _; exact ⟨rfl, fun a ha => by cases ha⟩
  · intro h; cases h
  · intro h; cases h
  · decide

theorem inv_stepW (s : Sh) (h : Inv s) : Inv (stepW s) := by
  have hb := h.bound
  have hcases : s.wpc = 0 ∨ s.wpc = 1 ∨ s.wpc = 2 ∨ s.wpc = 3 ∨ s.wpc = 4 := by omega
  rcases hcases with hw | hw | hw | hw | hw
  · -- acquire the write lock (only when no lookup is inside)
    simp only [stepW, hw, swapHoldsWriteLock, ↓reduceIte]
    by_cases hc : s.inside = 0 ∧ s.writerHolds = false
    · simp only [hc, and_self, ↓reduceIte]
      have h0 := h.c0 (by omega)
      refine { excl := ?_, holds := ?_, c0 := ?_, c2 := ?_, c3 := ?_, mono := h.mono, bound := ?_ }
      · intro _; first | rfl | exact hc.1
      · simp
      · intro _; exact h0
      · intro h2; cases h2
      · intro h3; simp at h3
      · simp
    · simp only [hc, ↓reduceIte]; exact h
  · -- clear the store
    simp only [stepW, hw]
    have h0 := h.c0 (by omega)
    have hh : s.writerHolds = true := h.holds.mpr (Or.inl hw)
    refine { excl := ?_, holds := ?_, c0 := ?_, c2 := ?_, c3 := ?_, mono := h.mono, bound := ?_ }
    · intro _; exact h.excl hh
    · simp [hh]
    · intro h1; simp at h1
    · intro _; exact ⟨rfl, h0.2⟩
    · intro h3; simp at h3
    · simp
  · -- refill it with the new content
    simp only [stepW, hw]
    have hh : s.writerHolds = true := h.holds.mpr (Or.inr (Or.inl hw))
    refine { excl := ?_, holds := ?_, c0 := ?_, c2 := ?_, c3 := ?_, mono := h.mono, bound := ?_ }
    · intro _; exact h.excl hh
    · simp [hh]
    · intro h1; simp at h1
    · intro h2; simp at h2
    · intro _; rfl
    · simp
  · -- release
    simp only [stepW, hw]
    have h3 := h.c3 (by omega)
    refine { excl := ?_, holds := ?_, c0 := ?_, c2 := ?_, c3 := ?_, mono := h.mono, bound := ?_ }
    · intro hx; cases hx
    · simp
    · intro h1; simp at h1
    · intro h2; simp at h2
    · intro _; exact h3
    · simp
  · simp only [stepW, hw]; exact h

theorem inv_step (s : Sh) (e : Ev) (h : Inv s) : Inv (step s e) := by
  cases e with
  | writer => exact inv_stepW s h
  | enter =>
    simp only [step, lookupHoldsReadLock, Bool.true_and]
    by_cases hw : s.writerHolds = true
    · rw [if_pos hw]; exact h
    · rw [if_neg hw]
      refine { excl := ?_, holds := h.holds, c0 := h.c0, c2 := h.c2, c3 := h.c3, mono := h.mono, bound := h.bound }
      intro hx; exact absurd hx hw
  | read =>
    simp only [step]
    by_cases hi : s.inside = 0
    · simp only [hi, ↓reduceIte]; exact h
    · simp only [hi, ↓reduceIte]
      -- a lookup is inside, so the refresher does not hold the write lock: it is before or after the swap
      have hnw : s.writerHolds = false := by
        cases hw : s.writerHolds with
        | false => rfl
        | true => exact absurd (h.excl hw) hi
      have hpc : s.wpc = 0 ∨ s.wpc = 4 := by
        have := h.bound
        have hnot : ¬ (s.wpc = 1 ∨ s.wpc = 2 ∨ s.wpc = 3) := by
          intro hx; have := h.holds.mpr hx; rw [hnw] at this; cases this
        omega
      rcases hpc with hpc | hpc
      · have h0 := h.c0 (by omega)
        refine { excl := ?_, holds := h.holds, c0 := ?_, c2 := ?_, c3 := ?_, mono := ?_, bound := h.bound }
        · intro hx; rw [hnw] at hx; cases hx
        · intro _
          refine ⟨h0.1, ?_⟩
          intro a ha
          have ha' : a ∈ s.answers ∨ a = s.content := by simpa [List.mem_append] using ha
          rcases ha' with ha' | ha'
          · exact h0.2 a ha'
          · rw [ha']; exact h0.1
        · intro h2; simp only at h2; omega
        · intro h3; simp only at h3; omega
        · simp only; rw [h0.1]; exact mono_append_old _ h0.2
      · have h3 := h.c3 (by omega)
        refine { excl := ?_, holds := h.holds, c0 := ?_, c2 := ?_, c3 := ?_, mono := ?_, bound := h.bound }
        · intro hx; rw [hnw] at hx; cases hx
        · intro h1; simp only at h1; omega
        · intro h2; simp only at h2; omega
        · intro _; exact h3
        · simp only; rw [h3]; exact mono_append_new _ h.mono

theorem inv_run (sched : List Ev) : Inv (runSched sched) := by
  unfold runSched
  have : ∀ (l : List Ev) (s : Sh), Inv s → Inv (l.foldl step s) := by
    intro l
    induction l with
    | nil => intro s h; exact h
    | cons e t ih => intro s h; exact ih _ (inv_step s e h)
  exact this sched _ inv_init

/-- **Refresh is atomic for observers, under every schedule:** every lookup — any number of them, interleaved in any way
with the micro-steps of the swap — is answered from the complete old list or the complete new list, never from the
empty or half-filled store, and once a lookup has seen the new list no later one sees the old one. -/
theorem refresh_atomic (sched : List Ev) :
    (∀ a ∈ (runSched sched).answers, a = .old ∨ a = .new) ∧ Mono (runSched sched).answers := by
  have h := (inv_run sched).mono
  refine ⟨?_, h⟩
  generalize (runSched sched).answers = l at h
  induction l with
  | nil => intro a ha; cases ha
  | cons x t ih =>
    intro a ha
    rcases List.mem_cons.mp ha with rfl | hm
    · exact h.1
    · exact ih h.2.2 a hm

/-- A refresh that never reaches the swap (it failed before) is invisible: every lookup is answered from the old list. -/
theorem no_swap_all_old (sched : List Ev) (hno : ∀ e ∈ sched, e ≠ .writer) :
    ∀ a ∈ (runSched sched).answers, a = .old := by
  have key : ∀ (l : List Ev) (s : Sh), (∀ e ∈ l, e ≠ .writer) → (l.foldl step s).wpc = s.wpc := by
    intro l
    induction l with
    | nil => intro s _; rfl
    | cons e t ih =>
      intro s hl
      have he : e ≠ .writer := hl e List.mem_cons_self
      rw [List.foldl_cons, ih _ (fun x hx => hl x (List.mem_cons_of_mem _ hx))]
      cases e with
      | writer => exact absurd rfl he
      | enter => simp only [step]; split <;> rfl
      | read => simp only [step]; split <;> rfl
  have hw : (runSched sched).wpc = 0 := key sched {} hno
  exact ((inv_run sched).c0 (by omega)).2

/-- The lock discipline the theorem rests on, as found in the source on this run. -/
theorem lock_discipline : lookupHoldsReadLock = true ∧ swapHoldsWriteLock = true := by decide

-- Non-vacuity: a schedule in which a lookup tries to get in while the store is cleared.
example : (runSched [.enter, .read, .writer, .writer, .enter, .read, .writer, .writer, .enter, .read]).answers = [.old, .new] := by decide

/-- The hand-written `Repo` model this property rests on was transcribed from exactly these sources: the fingerprints are
recomputed from /repo on every run (tools/extract/skeleton.go), so any change to one of the functions breaks this obligation. -/
theorem repo_sources_as_transcribed : Crv.Generated.skeletonRepo = Crv.Skeleton.expectedRepo :=
  Crv.Skeleton.repo_sources_as_transcribed

/-- The hand-written `Store` model this property rests on was transcribed from exactly these sources: the fingerprints are
recomputed from /repo on every run (tools/extract/skeleton.go), so any change to one of the functions breaks this obligation. -/
theorem store_sources_as_transcribed : Crv.Generated.skeletonStore = Crv.Skeleton.expectedStore :=
  Crv.Skeleton.store_sources_as_transcribed

end Crv.Props.C08
