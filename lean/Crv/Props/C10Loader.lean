import Crv.Proofs.Loader
/-!
C10 (loader layer) — what stands between "a certificate names distribution points" and "a CRL for them is in force":
`utils.Retry`, `CreatePreferredCrlLoader` and `MultiSchemesCRLLoader.LoadCRL` (`Crv/Loader.lean`).

* retry: the fetch function is called at least once and at most `max attempts 1` times, the call succeeds exactly when
  one of these calls would, it stops at the first success and a failure has used every call;
* factory: url before file before distribution points; of the distribution points exactly those whose first four bytes
  are `http` in any ASCII case are kept, in order; nothing usable ⇔ error (the "unsupported location" of
  `Crv.Props.C10.strict_unsupported_denied`, e.g. only `ldap://` distribution points);
* multi loader: per `LoadCRL` call every loader is called at most once, the last successful one first, the call fails
  only after *every* loader has failed in this call, and no history of earlier calls can make the loader give up on a
  distribution point that answers now (`no_blacklisting`);
* histories of calls: `lastSuccessfulLoader` is nil exactly when no loader has answered in any call so far
  (`never_answered_iff_nil`), a repeated success through the remembered loader is a single request
  (`repeat_success_single_call`), a fail-over asks the remembered loader first and nobody twice (`failover_asks_last_once`).

The model reads the shape of the Go code from `Crv.Generated.Loader`; `facts_canonical` pins the values the theorems
were proved for, every proof unfolds the generated constants it needs (another value breaks the proof).
-/
namespace Crv.Props.C10.Loader
open Crv.Loader Crv.Generated.Loader

/-- The extracted shape of the loader sources is the one the statements below are about. -/
theorem facts_canonical :
    retryCount = 5 ∧ retryCallsBeforeTest = true ∧ retryBoundIsAttemptsMinusOne = true ∧
    urlLoaderRetries = true ∧ fileLoaderRetries = true ∧
    factoryOrder = ["url", "file", "cdp"] ∧ cdpPrefix = "http" ∧ cdpPrefixLowered = true ∧
    factoryEmptyIsError = true ∧
    multiTriesLastSuccessfulFirst = true ∧ multiSkipsLastSuccessfulInLoop = true ∧
    multiRemembersSuccess = true ∧ multiAllFailedIsError = true := by decide

/-! ### `utils.Retry` -/

/-- The function is called at least once, whatever `attempts` is (0 and negative included). -/
theorem retry_at_least_one_call (a : Int) (out : Nat → Bool) : 1 ≤ (retry a out).2 := by
  have := (retryFrom_spec out (retryBound a) 0).1
  unfold retry; omega

/-- The function is called at most `max attempts 1` times. -/
theorem retry_calls_le (a : Int) (out : Nat → Bool) : (retry a out).2 ≤ (max a 1).toNat := by
  have := (retryFrom_spec out (retryBound a) 0).2.1
  rw [← retryBound_eq]
  unfold retry; omega

/-- If the call succeeds, the last call of the function succeeded and every earlier one failed: the number of calls is
the index of the first success plus one. -/
theorem retry_stops_at_first_success (a : Int) (out : Nat → Bool) (h : (retry a out).1 = true) :
    out ((retry a out).2 - 1) = true ∧ ∀ k, k < (retry a out).2 - 1 → out k = false := by
  obtain ⟨-, -, h3, h4, -⟩ := retryFrom_spec out (retryBound a) 0
  unfold retry at h ⊢
  exact ⟨by rw [← h3]; exact h, fun k hk => h4 k (Nat.zero_le _) hk⟩

/-- A failing call has used every call: exactly `max attempts 1` calls, all of them failures. -/
theorem retry_fail_calls_all (a : Int) (out : Nat → Bool) (h : (retry a out).1 = false) :
    (retry a out).2 = (max a 1).toNat ∧ ∀ k, k < (max a 1).toNat → out k = false := by
  obtain ⟨-, -, h3, h4, h5⟩ := retryFrom_spec out (retryBound a) 0
  rw [← retryBound_eq]
  unfold retry at h ⊢
  have hc := h5 h
  refine ⟨by omega, ?_⟩
  intro k hk
  by_cases hlast : k = retryBound a
  · rw [h, hc] at h3
    rw [hlast]
    simpa using h3.symm
  · exact h4 k (Nat.zero_le _) (by omega)

/-- The call succeeds exactly when one of the first `max attempts 1` calls of the function would succeed. -/
theorem retry_ok_iff (a : Int) (out : Nat → Bool) :
    (retry a out).1 = true ↔ ∃ k, k < (max a 1).toNat ∧ out k = true := by
  constructor
  · intro h
    have h1 := retry_at_least_one_call a out
    have h2 := retry_calls_le a out
    exact ⟨(retry a out).2 - 1, by omega, (retry_stops_at_first_success a out h).1⟩
  · rintro ⟨k, hk, hok⟩
    cases hr : (retry a out).1 with
    | true => rfl
    | false =>
      have := (retry_fail_calls_all a out hr).2 k hk
      rw [hok] at this; cases this

/-- `utils.Retry` looks at nothing but the first `max attempts 1` calls: two fetch functions that behave alike on these
calls give the same result and the same number of calls. -/
theorem retry_depends_on_prefix (a : Int) (o1 o2 : Nat → Bool)
    (h : ∀ k, k < (max a 1).toNat → o1 k = o2 k) : retry a o1 = retry a o2 := by
  have key : ∀ fuel i, (∀ k, i ≤ k → k ≤ i + fuel → o1 k = o2 k) → retryFrom o1 fuel i = retryFrom o2 fuel i := by
    intro fuel
    induction fuel with
    | zero =>
      intro i hk
      simp only [retryFrom, hk i (Nat.le_refl _) (Nat.le_refl _)]
    | succ f ih =>
      intro i hk
      have hi := hk i (Nat.le_refl _) (by omega)
      unfold retryFrom
      rw [hi, ih (i + 1) (fun k h1 h2 => hk k (by omega) (by omega))]
  unfold retry
  apply key
  intro k _ hk
  have := retryBound_eq a
  exact h k (by omega)

/-- More attempts never hurt and change nothing once the call succeeds: a call that succeeds with `a` attempts succeeds with
every `b ≥ a`, after the same number of calls of the fetch function. -/
theorem retry_more_attempts (a b : Int) (out : Nat → Bool) (hab : a ≤ b) (h : (retry a out).1 = true) :
    (retry b out).1 = true ∧ (retry b out).2 = (retry a out).2 := by
  obtain ⟨k, hk, hok⟩ := (retry_ok_iff a out).mp h
  have hb : (retry b out).1 = true := (retry_ok_iff b out).mpr ⟨k, by omega, hok⟩
  refine ⟨hb, ?_⟩
  obtain ⟨ha1, ha2⟩ := retry_stops_at_first_success a out h
  obtain ⟨hb1, hb2⟩ := retry_stops_at_first_success b out hb
  have hca := retry_at_least_one_call a out
  have hcb := retry_at_least_one_call b out
  by_cases hlt : (retry a out).2 - 1 < (retry b out).2 - 1
  · have := hb2 _ hlt; rw [ha1] at this; cases this
  · by_cases hgt : (retry b out).2 - 1 < (retry a out).2 - 1
    · have := ha2 _ hgt; rw [hb1] at this; cases this
    · omega

/-- The loaders' own retry (`CRLLoaderRetryCount`): between one and five calls, success iff one of five would succeed. -/
theorem loader_retry_five (out : Nat → Bool) :
    1 ≤ (loaderRetry out).2 ∧ (loaderRetry out).2 ≤ 5 ∧
    ((loaderRetry out).1 = true ↔ ∃ k, k < 5 ∧ out k = true) := by
  have h5 : (max (Int.ofNat retryCount) 1).toNat = 5 := by decide
  unfold loaderRetry
  refine ⟨retry_at_least_one_call _ _, ?_, ?_⟩
  · have := retry_calls_le (Int.ofNat retryCount) out; rw [h5] at this; exact this
  · have := retry_ok_iff (Int.ofNat retryCount) out; rw [h5] at this; exact this

/-! ### `CreatePreferredCrlLoader` -/

/-- A configured URL wins over everything else. -/
theorem create_url_first (l : Locs) (h : l.url ≠ []) : create l = .url l.url := by
  rw [create_eq]; simp [h]

/-- Without URL, a configured file wins over the distribution points. -/
theorem create_file_second (l : Locs) (hu : l.url = []) (h : l.file ≠ []) : create l = .file l.file := by
  rw [create_eq]; simp [hu, h]

/-- The multi loader is built exactly when neither URL nor file is given and some distribution point is `http…`;
its loaders are then exactly the `http…` distribution points, in the order of the certificate. -/
theorem create_cdp_keeps_order (l : Locs) (us : List (List UInt8)) :
    create l = .multi us ↔ l.url = [] ∧ l.file = [] ∧ us = l.cdps.filter httpPrefixed ∧ us ≠ [] := by
  rw [create_eq]
  by_cases hu : l.url = []
  · by_cases hf : l.file = []
    · by_cases hc : l.cdps.filter httpPrefixed = []
      · simp only [hu, hf, hc, ne_eq, not_true_eq_false, ↓reduceIte, reduceCtorEq, true_and, false_iff, not_and,
          Decidable.not_not]
        exact fun h => h
      · simp only [hu, hf, hc, ne_eq, not_true_eq_false, ↓reduceIte, Created.multi.injEq, true_and]
        constructor
        · intro h; subst h; exact ⟨rfl, hc⟩
        · intro h; exact h.1.symm
    · simp [hu, hf]
  · simp [hu]

/-- Every loader of the multi loader is for an `http…` location that is one of the certificate's distribution points. -/
theorem create_cdp_only_http (l : Locs) (us : List (List UInt8)) (h : create l = .multi us) :
    ∀ u ∈ us, httpPrefixed u = true ∧ u ∈ l.cdps := by
  obtain ⟨-, -, hus, -⟩ := (create_cdp_keeps_order l us).mp h
  intro u hu
  rw [hus, List.mem_filter] at hu
  exact ⟨hu.2, hu.1⟩

/-- The factory fails exactly when there is nothing it can use: no URL, no file, no `http…` distribution point. -/
theorem create_no_usable_is_error (l : Locs) :
    create l = .error ↔ l.url = [] ∧ l.file = [] ∧ ∀ c ∈ l.cdps, httpPrefixed c = false := by
  rw [create_eq]
  by_cases hu : l.url = []
  · by_cases hf : l.file = []
    · by_cases hc : l.cdps.filter httpPrefixed = []
      · simp only [hu, hf, hc, ne_eq, not_true_eq_false, ↓reduceIte, true_and, true_iff]
        intro c hcm
        cases hp : httpPrefixed c with
        | false => rfl
        | true =>
          have : c ∈ l.cdps.filter httpPrefixed := List.mem_filter.mpr ⟨hcm, hp⟩
          rw [hc] at this; cases this
      · simp only [hu, hf, hc, ne_eq, not_true_eq_false, ↓reduceIte, reduceCtorEq, true_and, false_iff]
        intro hall
        apply hc
        apply List.filter_eq_nil_iff.mpr
        intro c hcm
        rw [hall c hcm]; simp
    · simp [hu, hf]
  · simp [hu]

/-- The `http` test looks at the first four bytes only and ignores their ASCII case. -/
theorem http_case_insensitive (s : List UInt8) :
    httpPrefixed s = true ↔ ∃ a b c d rest, s = a :: b :: c :: d :: rest ∧
      (a = 0x68 ∨ a = 0x48) ∧ (b = 0x74 ∨ b = 0x54) ∧ (c = 0x74 ∨ c = 0x54) ∧ (d = 0x70 ∨ d = 0x50) :=
  httpPrefixed_iff s

/-- Only `ldap://…` distribution points (and neither URL nor file): no loader, the location is unsupported. -/
theorem ldap_only_is_error (cdps : List (List UInt8))
    (h : ∀ c ∈ cdps, ∃ rest, c = [0x6c, 0x64, 0x61, 0x70, 0x3a, 0x2f, 0x2f] ++ rest) :
    create { url := [], file := [], cdps := cdps } = .error := by
  rw [create_no_usable_is_error]
  refine ⟨rfl, rfl, ?_⟩
  intro c hc
  obtain ⟨rest, rfl⟩ := h c hc
  cases hp : httpPrefixed ([0x6c, 0x64, 0x61, 0x70, 0x3a, 0x2f, 0x2f] ++ rest) with
  | false => rfl
  | true =>
    obtain ⟨a, b, c', d, r, heq, ha, -⟩ := (httpPrefixed_iff _).mp hp
    simp only [List.cons_append, List.cons.injEq] at heq
    obtain ⟨rfl, -⟩ := heq
    revert ha; decide

/-! ### `MultiSchemesCRLLoader.LoadCRL` -/

/-- In one `LoadCRL` call no loader is called twice. -/
theorem load_each_loader_at_most_once (m : Multi) (out : Nat → Bool) : (load m out).2.2.Nodup :=
  (callSpec m out).nodup

/-- Only the loaders `0..n-1` are called. -/
theorem load_trace_in_range (m : Multi) (out : Nat → Bool) (hwf : m.wf = true) :
    ∀ j ∈ (load m out).2.2, j < m.n := by
  intro j hj
  cases (callSpec m out).range j hj with
  | inl h => exact h
  | inr h => exact (wf_iff m).mp hwf j h

/-- A call that returns through loader `j`: `j` succeeded in this call, it is the last loader called, and every loader
called before it failed. -/
theorem load_result_succeeds (m : Multi) (out : Nat → Bool) (j : Nat) (h : (load m out).2.1 = some j) :
    out j = true ∧ j ∈ (load m out).2.2 ∧ (load m out).2.2.getLast? = some j ∧
    ∀ x ∈ (load m out).2.2.dropLast, out x = false := by
  obtain ⟨h1, h2, h3, -⟩ := (callSpec m out).ok j h
  exact ⟨h1, List.mem_of_getLast? h2, h2, h3⟩

/-- The last successful loader is asked first; if it answers, nobody else is asked and the state is unchanged. -/
theorem load_prefers_last (m : Multi) (out : Nat → Bool) (l : Nat) (hl : m.last = some l) (ho : out l = true) :
    load m out = (m, some l, [l]) :=
  load_some_ok m out l hl ho

/-- The last successful loader is the first one called, also when it fails. -/
theorem load_tries_last_first (m : Multi) (out : Nat → Bool) (l : Nat) (hl : m.last = some l) :
    (load m out).2.2.head? = some l := by
  cases ho : out l with
  | true => rw [load_some_ok m out l hl ho]; rfl
  | false => rw [load_some_fail m out l hl ho]; rfl

/-- `lastSuccessfulLoader` is the loader that answered; a failed call leaves it alone. The loader list never changes. -/
theorem load_sets_last (m : Multi) (out : Nat → Bool) :
    (∀ j, (load m out).2.1 = some j → (load m out).1.last = some j) ∧
    ((load m out).2.1 = none → (load m out).1.last = m.last) ∧ (load m out).1.n = m.n :=
  ⟨fun j h => ((callSpec m out).ok j h).2.2.2, fun h => ((callSpec m out).fail h).1, (callSpec m out).n_eq⟩

/-- A call fails only after every loader has been called and has failed in this very call; the order is: the last
successful loader, then the others in list order (so the trace is a permutation of `0..n-1`). -/
theorem load_failure_tries_everyone (m : Multi) (out : Nat → Bool) (h : (load m out).2.1 = none) :
    (∀ j, j < m.n → j ∈ (load m out).2.2) ∧ (∀ j ∈ (load m out).2.2, out j = false) ∧
    (load m out).2.2 = (match m.last with | none => List.range m.n | some l => l :: (List.range m.n).filter (· ≠ l)) ∧
    (m.wf = true → (load m out).2.2.Perm (List.range m.n)) := by
  obtain ⟨-, h2, h3, h4⟩ := (callSpec m out).fail h
  refine ⟨h3, h2, h4, ?_⟩
  intro hwf
  rw [List.perm_ext_iff_of_nodup (load_each_loader_at_most_once m out) List.nodup_range]
  intro a
  exact ⟨fun ha => List.mem_range.mpr (load_trace_in_range m out hwf a ha), fun ha => h3 a (List.mem_range.mp ha)⟩

/-- A call succeeds exactly when some loader would answer in this call. -/
theorem load_ok_iff (m : Multi) (out : Nat → Bool) (hwf : m.wf = true) :
    (∃ j, (load m out).2.1 = some j) ↔ ∃ j, j < m.n ∧ out j = true := by
  constructor
  · rintro ⟨j, hj⟩
    obtain ⟨h1, h2, -⟩ := load_result_succeeds m out j hj
    exact ⟨j, load_trace_in_range m out hwf j h2, h1⟩
  · rintro ⟨j, hj, ho⟩
    cases hr : (load m out).2.1 with
    | some x => exact ⟨x, rfl⟩
    | none =>
      obtain ⟨h1, h2, -⟩ := load_failure_tries_everyone m out hr
      have := h2 j (h1 j hj)
      rw [ho] at this; cases this

/-- The invariant `lastSuccessfulLoader ∈ Loaders ∪ {nil}` is kept by every call. -/
theorem load_keeps_wf (m : Multi) (out : Nat → Bool) (hwf : m.wf = true) : (load m out).1.wf = true :=
  load_wf m out hwf

/-- **No blacklisting.** Whatever the outcomes of the earlier `LoadCRL` calls on a loader object built by the factory
(`lastSuccessfulLoader == nil`, `n` loaders), the invariant holds, and the next call succeeds exactly when some loader
would answer in it: no sequence of failures makes the multi loader stop asking a distribution point, and a call in which
some loader would succeed succeeds (through a loader that answers in this call). -/
theorem no_blacklisting (n : Nat) (hist : List (Nat → Bool)) (out : Nat → Bool) :
    (runCalls (fresh n) hist).wf = true ∧ (runCalls (fresh n) hist).n = n ∧
    ((∃ j, (load (runCalls (fresh n) hist) out).2.1 = some j) ↔ ∃ j, j < n ∧ out j = true) ∧
    ((∃ j, j < n ∧ out j = true) →
      ∃ j, (load (runCalls (fresh n) hist) out).2.1 = some j ∧ j < n ∧ out j = true) := by
  have hfresh : (fresh n).wf = true := rfl
  obtain ⟨hwf, hn⟩ := runCalls_wf (fresh n) hist hfresh
  have hn' : (runCalls (fresh n) hist).n = n := hn
  have hiff := load_ok_iff (runCalls (fresh n) hist) out hwf
  rw [hn'] at hiff
  refine ⟨hwf, hn', hiff, ?_⟩
  intro hex
  obtain ⟨j, hj⟩ := hiff.mpr hex
  obtain ⟨h1, h2, -⟩ := load_result_succeeds _ out j hj
  have := load_trace_in_range _ out hwf j h2
  rw [hn'] at this
  exact ⟨j, hj, this, h1⟩

/-! ### Histories of `LoadCRL` calls -/

/-- One call: `lastSuccessfulLoader` is nil afterwards exactly when it was nil before and no loader answered. -/
theorem load_last_none_iff (m : Multi) (out : Nat → Bool) (hwf : m.wf = true) :
    (load m out).1.last = none ↔ (m.last = none ∧ ∀ j, j < m.n → out j = false) := by
  obtain ⟨hs, hf, -⟩ := load_sets_last m out
  cases hr : (load m out).2.1 with
  | some x =>
    have hx := hs x hr
    obtain ⟨h1, h2, -⟩ := load_result_succeeds m out x hr
    have hlt := load_trace_in_range m out hwf x h2
    constructor
    · intro h; rw [hx] at h; cases h
    · rintro ⟨-, h⟩; have := h x hlt; rw [h1] at this; cases this
  | none =>
    rw [hf hr]
    obtain ⟨h1, h2, -⟩ := load_failure_tries_everyone m out hr
    exact ⟨fun h => ⟨h, fun j hj => h2 j (h1 j hj)⟩, fun h => h.1⟩

/-- Histories, from any well-formed state: `lastSuccessfulLoader` is nil at the end exactly when it was nil at the start
and in no call of the history any loader answered. -/
theorem runCalls_last_none_iff (m : Multi) (hist : List (Nat → Bool)) (hwf : m.wf = true) :
    (runCalls m hist).last = none ↔ (m.last = none ∧ ∀ o ∈ hist, ∀ j, j < m.n → o j = false) := by
  induction hist generalizing m with
  | nil => simp [runCalls]
  | cons o os ih =>
    have hn : (load m o).1.n = m.n := (load_sets_last m o).2.2
    rw [runCalls, ih (load m o).1 (load_keeps_wf m o hwf), load_last_none_iff m o hwf, hn]
    constructor
    · rintro ⟨⟨h1, h2⟩, h3⟩
      refine ⟨h1, ?_⟩
      intro o' ho'
      cases List.mem_cons.mp ho' with
      | inl h => rw [h]; exact h2
      | inr h => exact h3 o' h
    · rintro ⟨h1, h2⟩
      exact ⟨⟨h1, h2 o List.mem_cons_self⟩, fun o' ho' => h2 o' (List.mem_cons_of_mem _ ho')⟩

/-- **`lastSuccessfulLoader` is nil ⇔ nothing ever answered.** On a loader object built by the factory the field is nil
after a history of calls exactly when no loader answered in any of them: it is set by the first successful call and never
reset, so "no remembered loader" never hides a distribution point that has answered. -/
theorem never_answered_iff_nil (n : Nat) (hist : List (Nat → Bool)) :
    (runCalls (fresh n) hist).last = none ↔ ∀ o ∈ hist, ∀ j, j < n → o j = false := by
  have h := runCalls_last_none_iff (fresh n) hist rfl
  have hl : (fresh n).last = none := rfl
  have hn : (fresh n).n = n := rfl
  rw [hl, hn] at h
  exact h.trans ⟨fun h => h.2, fun h => ⟨rfl, h⟩⟩

/-- **Steady state: one request per refresh.** After a call that returned through loader `j`, a following call in which
`j` answers again asks `j` and nobody else, returns through `j` and leaves the state as it is — whatever the other
distribution points would do. -/
theorem repeat_success_single_call (m : Multi) (o1 o2 : Nat → Bool) (j : Nat)
    (h1 : (load m o1).2.1 = some j) (h2 : o2 j = true) :
    load (load m o1).1 o2 = ((load m o1).1, some j, [j]) :=
  load_prefers_last _ o2 j ((load_sets_last m o1).1 j h1) h2

/-- **Fail-over costs one extra request.** After a call that returned through `j`, a following call in which `j` fails asks
`j` first and then every other loader at most once, `j` never a second time. -/
theorem failover_asks_last_once (m : Multi) (o1 o2 : Nat → Bool) (j : Nat)
    (h1 : (load m o1).2.1 = some j) :
    (load (load m o1).1 o2).2.2.head? = some j ∧ (load (load m o1).1 o2).2.2.Nodup :=
  ⟨load_tries_last_first _ o2 j ((load_sets_last m o1).1 j h1), load_each_loader_at_most_once _ o2⟩

/-! ### Non-vacuity -/

-- retry: success on the third of five calls; five failures; attempts ≤ 0 is one call
example : retry 5 (fun k => k == 2) = (true, 3) := by decide
example : retry 5 (fun _ => false) = (false, 5) := by decide
example : retry 0 (fun _ => false) = (false, 1) := by decide
example : retry (-3) (fun k => k == 1) = (false, 1) := by decide
example : loaderRetry (fun k => k == 4) = (true, 5) := by decide
-- factory: url first, file second, http-only in order, "HtTp" counts, "ldap://x" alone is an error, "htt" is too short
example : create ⟨[0x66], [0x67], [[0x68, 0x74, 0x74, 0x70]]⟩ = .url [0x66] := by decide
example : create ⟨[], [0x67], [[0x68, 0x74, 0x74, 0x70]]⟩ = .file [0x67] := by decide
example : create ⟨[], [], [[0x6c, 0x64, 0x61, 0x70, 0x3a, 0x2f, 0x2f, 0x78], [0x48, 0x74, 0x54, 0x70, 0x3a], [0x68, 0x74, 0x74, 0x70]]⟩
    = .multi [[0x48, 0x74, 0x54, 0x70, 0x3a], [0x68, 0x74, 0x74, 0x70]] := by decide
example : httpPrefixed [0x48, 0x74, 0x54, 0x70, 0x3a, 0x2f, 0x2f, 0x79] = true := by decide
example : create ⟨[], [], [[0x6c, 0x64, 0x61, 0x70, 0x3a, 0x2f, 0x2f, 0x78]]⟩ = .error := by decide
example : create ⟨[], [], []⟩ = .error := by decide
example : httpPrefixed [0x68, 0x74, 0x74] = false := by decide
example : httpPrefixed [0xe2, 0x84, 0xaa, 0x68, 0x74, 0x74, 0x70] = false := by decide
-- multi loader: first call walks the list, second goes straight to the remembered loader, then it fails and all are asked
example : load (fresh 3) (fun j => j == 1) = (⟨3, some 1⟩, some 1, [0, 1]) := by decide
example : load ⟨3, some 1⟩ (fun j => j == 1) = (⟨3, some 1⟩, some 1, [1]) := by decide
example : load ⟨3, some 1⟩ (fun _ => false) = (⟨3, some 1⟩, none, [1, 0, 2]) := by decide
example : load ⟨3, some 1⟩ (fun j => j == 2) = (⟨3, some 2⟩, some 2, [1, 0, 2]) := by decide
-- after any number of total failures the next call still finds the loader that answers
example : (load (runCalls (fresh 3) [fun j => j == 1, fun _ => false, fun _ => false, fun _ => false]) (fun j => j == 0)).2
    = (some 0, [1, 0]) := by decide

-- histories: nil exactly when nothing ever answered; a repeated success is a single call
example : (runCalls (fresh 3) [fun _ => false, fun _ => false]).last = none := by decide
example : (runCalls (fresh 3) [fun _ => false, fun j => j == 2, fun _ => false]).last = some 2 := by decide
example : load (load (fresh 3) (fun j => j == 2)).1 (fun j => j == 2 || j == 0) = (⟨3, some 2⟩, some 2, [2]) := by decide
example : (load (load (fresh 3) (fun j => j == 2)).1 (fun j => j == 0)).2.2 = [2, 0] := by decide

-- retry: only the first max(attempts,1) calls matter; more attempts keep a success and its call count
example : retry 3 (fun k => k == 1 || k == 7) = retry 3 (fun k => k == 1) := by decide
example : retry 2 (fun k => k == 1) = (true, 2) ∧ retry 9 (fun k => k == 1) = (true, 2) := by decide

end Crv.Props.C10.Loader
