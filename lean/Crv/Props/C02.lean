import Crv.Ocsp
import Crv.Proofs.Skeleton
import Crv.Mode
import Crv.Generated.Ocsp
import Crv.Generated.Mode
import Crv.Proofs.OcspDecide
/-!
C02 — OCSP soundness and AIA-strict semantics.

All statements are about `lookup ocspFacts …`, the model of `OCSPRevocationChecker.IsRevoked` interpreted over the facts
the translator regenerates from ocsp/ocsprevocationchecker.go on every run (`Crv.Generated.ocspFacts`), for every
responder list, every candidate list, every responder behaviour (`answer` is an arbitrary function), every cache state
and every instant. "Accepted response" is `Answers` (the fetch succeeded and `parseOcspResponse` accepted the body); that
an accepted response is authentic — and nothing else is — is C05.
-/
namespace Crv.Props.C02
open Crv Crv.Ocsp Crv.Generated

/-- The regenerated facts have the shape the proofs are about (the clock skew constant is left free). If an edit to
/repo changes the loop order, a `continue`, the tail condition, the filter, the cache guard … this is what breaks. -/
theorem facts_canonical : ocspFacts = canon ocspFacts.maxClockSkew := by decide

private theorem transfer {P : Facts → Prop} (h : ∀ k, P (canon k)) : P ocspFacts := by
  have := h ocspFacts.maxClockSkew
  rwa [← facts_canonical] at this

variable (V : Key → Signed → Bool)

/-- (a) Whichever HTTP responder × issuer candidate pair is the first, in the order the code tries them, to deliver
an accepted response decides the verdict; every pair before it was tried, none after it. In particular a `revoked`
answer yields `revoked`. Holds for every list length and every failure pattern before the answering pair. -/
theorem first_answer_decides (inst : Inst) (cert : Cert) (cands : List Cand) (answer : Str → Cand → Fetch)
    (now : Nat) (T T' : Table) (pre post : List (Str × Cand)) (q : Str × Cand) (p : Parsed)
    (hmiss : tryGet ocspFacts T (mkKey ocspFacts cert) now = (none, T'))
    (hl : httpPairs ocspFacts cert cands = pre ++ q :: post)
    (hpre : ∀ q' ∈ pre, NoAnswer V ocspFacts cert cands answer q'.1 q'.2)
    (hq : Answers V ocspFacts cert cands answer q.1 q.2 p) :
    (lookup ocspFacts V inst cert cands answer now T).result = verdictOf p ∧
    (lookup ocspFacts V inst cert cands answer now T).requests = pre ++ [q] ∧
    (lookup ocspFacts V inst cert cands answer now T).answered = some p := by
  revert hmiss hl hpre hq
  refine transfer (P := fun F =>
    tryGet F T (mkKey F cert) now = (none, T') → httpPairs F cert cands = pre ++ q :: post →
    (∀ q' ∈ pre, NoAnswer V F cert cands answer q'.1 q'.2) → Answers V F cert cands answer q.1 q.2 p →
    (lookup F V inst cert cands answer now T).result = verdictOf p ∧
    (lookup F V inst cert cands answer now T).requests = pre ++ [q] ∧
    (lookup F V inst cert cands answer now T).answered = some p) ?_
  intro k hmiss hl hpre hq
  have := Ocsp.first_answer_decides V (inst := inst) hmiss hl hpre hq
  exact ⟨this.1, this.2.1, this.2.2.1⟩

/-- (a') An authentic `revoked` from the first answering pair is reported as revoked. -/
theorem first_answer_revoked (inst : Inst) (cert : Cert) (cands : List Cand) (answer : Str → Cand → Fetch)
    (now : Nat) (T T' : Table) (pre post : List (Str × Cand)) (q : Str × Cand) (p : Parsed)
    (hmiss : tryGet ocspFacts T (mkKey ocspFacts cert) now = (none, T'))
    (hl : httpPairs ocspFacts cert cands = pre ++ q :: post)
    (hpre : ∀ q' ∈ pre, NoAnswer V ocspFacts cert cands answer q'.1 q'.2)
    (hq : Answers V ocspFacts cert cands answer q.1 q.2 p) (hrev : p.status = .revoked) :
    (lookup ocspFacts V inst cert cands answer now T).result = .revoked := by
  rw [(first_answer_decides V inst cert cands answer now T T' pre post q p hmiss hl hpre hq).1]
  simp [verdictOf, hrev]

/-- (a'') A still-valid cache entry decides without any request; a cached `revoked` yields revoked. -/
theorem cache_hit_decides (inst : Inst) (cert : Cert) (cands : List Cand) (answer : Str → Cand → Fetch)
    (now : Nat) (T T' : Table) (rv : Bool)
    (hhit : tryGet ocspFacts T (mkKey ocspFacts cert) now = (some rv, T')) :
    (lookup ocspFacts V inst cert cands answer now T).result = (if rv then .revoked else .good) ∧
    (lookup ocspFacts V inst cert cands answer now T).requests = [] ∧
    (lookup ocspFacts V inst cert cands answer now T).hit = true := by
  revert hhit
  refine transfer (P := fun F => tryGet F T (mkKey F cert) now = (some rv, T') →
    (lookup F V inst cert cands answer now T).result = (if rv then .revoked else .good) ∧
    (lookup F V inst cert cands answer now T).requests = [] ∧
    (lookup F V inst cert cands answer now T).hit = true) ?_
  intro k hhit
  exact Ocsp.cache_hit_decides V hhit

/-- A revoked OCSP result makes the handshake fail in every mode that enables OCSP (composition with the regenerated
statement list of `VerifyClientCertificate`, as in C03). -/
theorem revoked_rejects (m : Mode) (c : MechOut) (h : ocspEnabled m = true) :
    (verifyProg.run m (envOf .revoked c) true).verdict = .reject := by
  cases m <;> cases c <;> first | decide | (exact absurd h (by decide))

/-- (b) Strict: a certificate that names at least one HTTP responder is accepted (any non-error result) only if the
cache or some responder × candidate pair supplied an accepted response. -/
theorem strict_accept_needs_answer (inst : Inst) (cert : Cert) (cands : List Cand) (answer : Str → Cand → Fetch)
    (now : Nat) (T : Table)
    (hstrict : inst.strict = true) (hne : filterHttp ocspFacts cert.servers ≠ [])
    (hok : (lookup ocspFacts V inst cert cands answer now T).result ≠ .error) :
    (lookup ocspFacts V inst cert cands answer now T).hit = true ∨
    ∃ q ∈ httpPairs ocspFacts cert cands, ∃ p, Answers V ocspFacts cert cands answer q.1 q.2 p ∧
      (lookup ocspFacts V inst cert cands answer now T).answered = some p := by
  revert hne hok
  refine transfer (P := fun F => filterHttp F cert.servers ≠ [] →
    (lookup F V inst cert cands answer now T).result ≠ .error →
    (lookup F V inst cert cands answer now T).hit = true ∨
    ∃ q ∈ httpPairs F cert cands, ∃ p, Answers V F cert cands answer q.1 q.2 p ∧
      (lookup F V inst cert cands answer now T).answered = some p) ?_
  intro k hne hok
  exact Ocsp.strict_accept_needs_answer V k inst cert cands answer now T hstrict hne hok

/-- (b') Strict and no pair answers and no cache hit: rejected, after every pair was tried exactly once in order. -/
theorem strict_unanswered_is_error (inst : Inst) (cert : Cert) (cands : List Cand) (answer : Str → Cand → Fetch)
    (now : Nat) (T T' : Table)
    (hstrict : inst.strict = true) (hne : filterHttp ocspFacts cert.servers ≠ [])
    (hmiss : tryGet ocspFacts T (mkKey ocspFacts cert) now = (none, T'))
    (hall : ∀ q ∈ httpPairs ocspFacts cert cands, NoAnswer V ocspFacts cert cands answer q.1 q.2) :
    (lookup ocspFacts V inst cert cands answer now T).result = .error ∧
    (lookup ocspFacts V inst cert cands answer now T).requests = httpPairs ocspFacts cert cands := by
  revert hne hmiss hall
  refine transfer (P := fun F => filterHttp F cert.servers ≠ [] →
    tryGet F T (mkKey F cert) now = (none, T') →
    (∀ q ∈ httpPairs F cert cands, NoAnswer V F cert cands answer q.1 q.2) →
    (lookup F V inst cert cands answer now T).result = .error ∧
    (lookup F V inst cert cands answer now T).requests = httpPairs F cert cands) ?_
  intro k hne hmiss hall
  rw [Ocsp.unanswered V hmiss hall]
  have : (filterHttp (canon k) cert.servers).isEmpty = false := by
    cases h : filterHttp (canon k) cert.servers with
    | nil => exact absurd h hne
    | cons _ _ => rfl
  simp [this, hstrict]

/-- (c) Strict off: whatever the responders do (refuse, time out, answer with garbage, with an HTTP error page, with a
response for another certificate, signed by a stranger, …) the result is never an error. -/
theorem nonstrict_never_error (inst : Inst) (cert : Cert) (cands : List Cand) (answer : Str → Cand → Fetch)
    (now : Nat) (T : Table) (hstrict : inst.strict = false) :
    (lookup ocspFacts V inst cert cands answer now T).result ≠ .error :=
  transfer (P := fun F => (lookup F V inst cert cands answer now T).result ≠ .error)
    (fun k => Ocsp.nonstrict_never_error V k inst cert cands answer now T hstrict)

/-- Strict on, but the certificate names no HTTP responder (none at all, or only ldap:// etc.): never an error. -/
theorem no_http_responder_never_error (inst : Inst) (cert : Cert) (cands : List Cand) (answer : Str → Cand → Fetch)
    (now : Nat) (T : Table) (hnone : filterHttp ocspFacts cert.servers = []) :
    (lookup ocspFacts V inst cert cands answer now T).result ≠ .error := by
  revert hnone
  refine transfer (P := fun F => filterHttp F cert.servers = [] →
    (lookup F V inst cert cands answer now T).result ≠ .error) ?_
  intro k hnone
  exact Ocsp.no_http_responder_never_error V k inst cert cands answer now T hnone

/-- Only responders whose lower-cased URL starts with the regenerated prefix are contacted, only ones the certificate
names, only with issuer candidates, and in the order servers-outer / candidates-inner. -/
theorem requests_only_http (inst : Inst) (cert : Cert) (cands : List Cand) (answer : Str → Cand → Fetch)
    (now : Nat) (T : Table) :
    (lookup ocspFacts V inst cert cands answer now T).requests <+: httpPairs ocspFacts cert cands ∧
    ∀ q ∈ (lookup ocspFacts V inst cert cands answer now T).requests,
      q.1 ∈ cert.servers ∧ isHttp ocspFacts q.1 = true ∧ q.2 ∈ cands :=
  transfer (P := fun F =>
    (lookup F V inst cert cands answer now T).requests <+: httpPairs F cert cands ∧
    ∀ q ∈ (lookup F V inst cert cands answer now T).requests,
      q.1 ∈ cert.servers ∧ isHttp F q.1 = true ∧ q.2 ∈ cands)
    (fun k => ⟨Ocsp.requests_prefix V k inst cert cands answer now T,
               Ocsp.requests_only_http V k inst cert cands answer now T⟩)

/-- The filter: case-insensitive `http` prefix (so https and HTTP:// count, ldap:// does not). -/
theorem filter_examples :
    isHttp ocspFacts "http://a/".toList = true ∧ isHttp ocspFacts "https://a/".toList = true ∧
    isHttp ocspFacts "HTTP://A/".toList = true ∧ isHttp ocspFacts "ldap://a/".toList = false ∧
    isHttp ocspFacts "".toList = false := by decide

/-! Non-vacuity: two responders, two candidates; the first responder is down, the second answers `revoked` to the
second candidate's request only. -/
section Example
def Vx : Key → Signed → Bool := fun k s => k == s
def ca1 : Cand := { certId := 1, key := 11 }
def ca2 : Cand := { certId := 2, key := 12 }
def certX : Cert :=
  { issuer := "CN=ca".toList, subject := "CN=leaf".toList, serial := 77,
    servers := ["ldap://x/".toList, "http://down/".toList, "http://up/".toList] }
def revokedResp : Resp :=
  { respStatus := 0, typeBasic := true, basicParses := true,
    singles := [{ serial := 77, status := .revoked, nextUpdate := none, criticalExt := false, hashKnown := true }],
    responderIdOk := true, embedded := none, signed := 12 }
def answerX : Str → Cand → Fetch := fun s c =>
  if s = "http://up/".toList ∧ c = ca2 then .body (.resp revokedResp) else
  if s = "http://up/".toList then .body .garbage else .error

example : (lookup ocspFacts Vx ⟨true, 0⟩ certX [ca1, ca2] answerX 5 []).result = .revoked := by decide
example : (lookup ocspFacts Vx ⟨true, 0⟩ certX [ca1, ca2] answerX 5 []).requests =
    [("http://down/".toList, ca1), ("http://down/".toList, ca2), ("http://up/".toList, ca1), ("http://up/".toList, ca2)] := by
  decide
example : (lookup ocspFacts Vx ⟨true, 0⟩ certX [ca1] answerX 5 []).result = .error := by decide
example : (lookup ocspFacts Vx ⟨false, 0⟩ certX [ca1] answerX 5 []).result = .good := by decide
example : (lookup ocspFacts Vx ⟨true, 0⟩ { certX with servers := [("ldap://x/".toList)] } [ca1] answerX 5 []).result = .good := by
  decide
end Example

/-- The hand-written `Ocsp` model this property rests on was transcribed from exactly these sources: the fingerprints are
recomputed from /repo on every run (tools/extract/skeleton.go), so any change to one of the functions breaks this obligation. -/
theorem ocsp_sources_as_transcribed : Crv.Generated.skeletonOcsp = Crv.Skeleton.expectedOcsp :=
  Crv.Skeleton.ocsp_sources_as_transcribed

end Crv.Props.C02
