import Crv.Cand
import Crv.Proofs.Skeleton
import Crv.Props.C06
import Crv.Props.C16
import Crv.Proofs.ReaderEnvelope
/-!
C04 — CRL authenticity under `verify`. Three parts:
(i)   the digest is over exactly the DER tbsCertList and the hash is the one the declared algorithm names
      (`Crv.Props.C06.digest_is_over_tbs`); an algorithm identifier outside the regenerated table stops the reader
      before anything is interpreted (`unsupported_algorithm_rejected`);
(ii)  decision logic, this file: the signature is accepted only under the key of an *entitled* certificate —
      a certificate above the end-entity of a presented chain or a configured trusted signer, matching the CRL's issuer
      name or authority key identifier, whose key usage (when present) permits CRL signing — for all chains, trusted
      lists and AKI forms; the candidate search interprets the regenerated rule chain (`candRules`) and never panics
      (`candidate_search_never_panics`), so "not accepted" is always a clean rejection (`verifyCRL_never_panics`);
(iii) policy: under `verify` only a verified CRL comes into force, in every history (`Crv.Props.C16.verify_in_force_was_verified`).
(iv)  the *unsigned envelope* of an accepted CRL is pinned down, for every byte string and every oracle (end of this file):
      the outer signatureAlgorithm is byte-identical to the signed inner `signature` field, the outer length is honest,
      the signature BIT STRING has no unused bits, and a long-form length byte is canonical.
"Any single bit" reduces to the primitive: a change in tbsCertList changes the digest input (i), a change in the
signature bits changes the input of `sigOK`, a change of the algorithm OID changes the table row or leaves the table.
-/
namespace Crv.Props.C04
open Crv Crv.Cand Crv.Generated

theorem facts : crlCandidatesSkipEndEntity = true ∧ crlSignKeyUsageChecked = true := by decide

theorem mem_enumFrom (n : Nat) (l : List CertA) (a : Avail) (h : a ∈ enumFrom n l) : ∃ p, a.origin = .chain p ∧ p ≥ n := by
  induction l generalizing n with
  | nil => cases h
  | cons c t ih =>
    simp only [enumFrom, List.mem_cons] at h
    rcases h with rfl | h
    · exact ⟨n, rfl, Nat.le_refl n⟩
    · obtain ⟨p, hp, hge⟩ := ih (n + 1) h
      exact ⟨p, hp, by omega⟩

/-- Whatever is available as a signer candidate is a configured trusted signer or sits above the end-entity of a presented chain. -/
theorem available_origin (verified : List (List CertA)) (trusted : List CertA) (a : Avail)
    (h : a ∈ available verified trusted) : a.origin = .trusted ∨ ∃ p, a.origin = .chain p ∧ p ≥ 1 := by
  unfold available at h
  simp only [crlCandidatesSkipEndEntity, ↓reduceIte, List.mem_append, List.mem_flatten, List.mem_map] at h
  rcases h with ⟨l, ⟨ch, _, rfl⟩, hal⟩ | ⟨c, _, rfl⟩
  · right
    split at hal
    · exact mem_enumFrom 1 _ a hal
    · cases hal
  · left; rfl

/-- The interpreted rule chain, with the regenerated `candRules` / `candNoRuleIsError`, spelled out for an AKI that is present:
issuer+serial when the AKI has a serial, else key identifier, else an error. No case yields `.panic`. -/
theorem findCandidates_some (crlIssuer : Nat) (a : AKI) (alg : KeyAlg) (av : List Avail) :
    findCandidates crlIssuer (some a) alg av =
      match a.certSerial with
      | some s => .ok (av.filter fun x => x.cert.serial == s && issuerMatches a x)
      | none =>
        match a.keyId with
        | some k => .ok (av.filter fun x => x.cert.ski == some k)
        | none => .err := by
  cases hs : a.certSerial <;> cases hk : a.keyId <;>
    simp [findCandidates, findCandidatesWith, candRules, candNoRuleIsError, interpRules, runRule, fieldPresent,
      serialIssuerRule, keyIdRule, hs, hk]

theorem findCandidates_none (crlIssuer : Nat) (alg : KeyAlg) (av : List Avail) :
    findCandidates crlIssuer none alg av = .ok (av.filter fun a => a.cert.subject == crlIssuer && a.cert.keyAlg == alg) := rfl

theorem candidates_match (crlIssuer : Nat) (aki : Option AKI) (alg : KeyAlg) (av l : List Avail)
    (h : findCandidates crlIssuer aki alg av = .ok l) (a : Avail) (ha : a ∈ l) :
    a ∈ av ∧ matchesCRL crlIssuer aki a.cert := by
  cases aki with
  | none =>
    rw [findCandidates_none] at h
    simp only [CandRes.ok.injEq] at h
    subst h
    simp only [List.mem_filter, Bool.and_eq_true, beq_iff_eq] at ha
    exact ⟨ha.1, Or.inl ha.2.1⟩
  | some k =>
    rw [findCandidates_some] at h
    cases hs : k.certSerial with
    | some s =>
      simp only [hs, CandRes.ok.injEq] at h
      subst h
      simp only [List.mem_filter, Bool.and_eq_true, beq_iff_eq] at ha
      refine ⟨ha.1, Or.inr ⟨k, rfl, Or.inr ?_⟩⟩
      have hi := ha.2.2
      unfold issuerMatches at hi
      cases hn : k.certIssuer with
      | none => simp [hn] at hi
      | some n =>
        simp only [hn, beq_iff_eq] at hi
        exact ⟨s, n, hs, rfl, ha.2.1, hi⟩
    | none =>
      simp only [hs] at h
      cases hk : k.keyId with
      | none => simp [hk] at h
      | some kid =>
        simp only [hk, CandRes.ok.injEq] at h
        subst h
        simp only [List.mem_filter, beq_iff_eq] at ha
        exact ⟨ha.1, Or.inr ⟨k, rfl, Or.inl ⟨kid, hk, ha.2⟩⟩⟩

/-- **The candidate search never panics**, whatever the CRL issuer, AKI form, key algorithm and available certificates.
This rests on the regenerated rule chain: the issuer+serial rule — whose loop compares every available certificate's serial
with `AuthorityCertSerialNumber` — is guarded by "serial present". With a guard that does not require the serial the search
panics (`unguarded_serial_rule_panics`). -/
theorem candidate_search_never_panics (crlIssuer : Nat) (aki : Option AKI) (alg : KeyAlg) (av : List Avail) :
    findCandidates crlIssuer aki alg av ≠ .panic := by
  cases aki with
  | none => rw [findCandidates_none]; exact CandRes.noConfusion
  | some a =>
    rw [findCandidates_some]
    cases a.certSerial with
    | some s => exact CandRes.noConfusion
    | none =>
      cases a.keyId with
      | some k => exact CandRes.noConfusion
      | none => exact CandRes.noConfusion

/-- Sensitivity of `candidate_search_never_panics` to the rule guards: were the issuer+serial rule guarded by the issuer
instead of the serial, an AKI with an issuer but no serial would panic as soon as one certificate is available
(`SerialNumber.Cmp(nil)` on the first candidate). -/
theorem unguarded_serial_rule_panics (crlIssuer : Nat) (kid : Option Nat) (n : Nat) (alg : KeyAlg) (av : List Avail)
    (hav : av ≠ []) :
    findCandidatesWith [("serial+issuer", ["issuer"]), ("keyid", ["keyid"])] true crlIssuer (some ⟨kid, none, some n⟩) alg av
      = .panic := by
  cases av with
  | nil => exact absurd rfl hav
  | cons x t => simp [findCandidatesWith, interpRules, runRule, fieldPresent, serialIssuerRule]

/-- With nothing available the unguarded rule's loop body never runs: no panic, no candidates. -/
theorem unguarded_serial_rule_no_certificate (crlIssuer : Nat) (kid : Option Nat) (n : Nat) (alg : KeyAlg) :
    findCandidatesWith [("serial+issuer", ["issuer"]), ("keyid", ["keyid"])] true crlIssuer (some ⟨kid, none, some n⟩) alg []
      = .ok [] := by
  simp [findCandidatesWith, interpRules, runRule, fieldPresent, serialIssuerRule]

/-- The rule chain as regenerated from `FindCertificateIssuerCandidates`: issuer+serial guarded by the serial, then key
identifier guarded by the key identifier, and no rule is an error. -/
theorem cand_rules_canonical :
    candRules = [("serial+issuer", ["serial"]), ("keyid", ["keyid"])] ∧ candNoRuleIsError = true := ⟨rfl, rfl⟩

/-- An AKI that carries neither a serial nor a key identifier is an error, whatever its issuer field is. -/
theorem aki_without_serial_and_keyid_is_error (crlIssuer : Nat) (a : AKI) (alg : KeyAlg) (av : List Avail)
    (hs : a.certSerial = none) (hk : a.keyId = none) :
    findCandidates crlIssuer (some a) alg av = .err := by
  rw [findCandidates_some]
  simp only [hs, hk]

/-- The issuer+serial rule comes first: an AKI with a serial selects exactly the certificates with that serial whose issuer
name is the AKI's (present) issuer, whether or not the AKI also carries a key identifier. -/
theorem serial_rule_first (crlIssuer : Nat) (a : AKI) (s : Int) (alg : KeyAlg) (av : List Avail)
    (hs : a.certSerial = some s) :
    findCandidates crlIssuer (some a) alg av =
      .ok (av.filter fun x => x.cert.serial == s &&
        (match a.certIssuer with | some n => x.cert.issuerName == n | none => false)) := by
  rw [findCandidates_some]
  simp only [hs]
  rfl

theorem firstVerifying_spec (sigOK : Nat → Bool) (l : List Avail) (a : Avail) (h : firstVerifying sigOK l = some a) :
    a ∈ l ∧ sigOK a.cert.key = true ∧ (a.cert.keyUsage = none ∨ a.cert.keyUsage = some true) := by
  induction l with
  | nil => cases h
  | cons x t ih =>
    unfold firstVerifying at h
    simp only [crlSignKeyUsageChecked, Bool.true_and] at h
    by_cases hku : (!kuAllows x.cert) = true
    · simp only [hku, ↓reduceIte] at h
      obtain ⟨h1, h2, h3⟩ := ih h
      exact ⟨List.mem_cons_of_mem _ h1, h2, h3⟩
    · simp only [hku, Bool.false_eq_true, ↓reduceIte] at h
      by_cases hs : sigOK x.cert.key = true
      · simp only [hs, ↓reduceIte, Option.some.injEq] at h
        subst h
        refine ⟨List.mem_cons_self, hs, ?_⟩
        simp only [Bool.not_eq_true', Bool.not_eq_false] at hku
        unfold kuAllows at hku
        cases hk : x.cert.keyUsage with
        | none => exact Or.inl rfl
        | some b => simp only [hk] at hku; subst hku; exact Or.inr rfl
      · simp only [hs, Bool.false_eq_true, ↓reduceIte] at h
        obtain ⟨h1, h2, h3⟩ := ih h
        exact ⟨List.mem_cons_of_mem _ h1, h2, h3⟩

/-- **Decision logic:** the CRL signature is accepted only under the key of an entitled certificate, and that key does verify it.
All chains, all trusted lists, all AKI forms, every behaviour of the signature primitive. -/
theorem accepted_signer_entitled (sigOK : Nat → Bool) (crlIssuer : Nat) (aki : Option AKI) (alg : KeyAlg)
    (verified : List (List CertA)) (trusted : List CertA) (a : Avail)
    (h : verifyCRL sigOK crlIssuer aki alg verified trusted = .accepted a) :
    Entitled crlIssuer aki a ∧ sigOK a.cert.key = true := by
  unfold verifyCRL at h
  cases hc : findCandidates crlIssuer aki alg (available verified trusted) with
  | err => simp [hc] at h
  | panic => simp [hc] at h
  | ok l =>
    simp only [hc] at h
    cases hf : firstVerifying sigOK l with
    | none => simp [hf] at h
    | some b =>
      simp only [hf, VerifyRes.accepted.injEq] at h
      subst h
      obtain ⟨hmem, hsig, hku⟩ := firstVerifying_spec sigOK l b hf
      obtain ⟨hav, hmatch⟩ := candidates_match crlIssuer aki alg _ l hc b hmem
      exact ⟨⟨available_origin verified trusted b hav, hmatch, hku⟩, hsig⟩

/-- `verifyCRL` reports a panic exactly when the candidate search panics (it is not folded into a rejection). -/
theorem verifyCRL_panic_iff (sigOK : Nat → Bool) (crlIssuer : Nat) (aki : Option AKI) (alg : KeyAlg)
    (verified : List (List CertA)) (trusted : List CertA) :
    verifyCRL sigOK crlIssuer aki alg verified trusted = .panic ↔
      findCandidates crlIssuer aki alg (available verified trusted) = .panic := by
  unfold verifyCRL
  cases hc : findCandidates crlIssuer aki alg (available verified trusted) with
  | err => simp
  | panic => simp
  | ok l => cases hf : firstVerifying sigOK l <;> simp [hf]

/-- Signature verification of a CRL never panics in the candidate search (`candidate_search_never_panics`). -/
theorem verifyCRL_never_panics (sigOK : Nat → Bool) (crlIssuer : Nat) (aki : Option AKI) (alg : KeyAlg)
    (verified : List (List CertA)) (trusted : List CertA) :
    verifyCRL sigOK crlIssuer aki alg verified trusted ≠ .panic := by
  rw [Ne, verifyCRL_panic_iff]
  exact candidate_search_never_panics crlIssuer aki alg _

/-- Signing with the client certificate's own key (or any key whose only certificate sits at position 0) is never accepted. -/
theorem end_entity_key_never_accepted (sigOK : Nat → Bool) (crlIssuer : Nat) (aki : Option AKI) (alg : KeyAlg)
    (verified : List (List CertA)) (trusted : List CertA) (a : Avail)
    (h : verifyCRL sigOK crlIssuer aki alg verified trusted = .accepted a) : a.origin ≠ .chain 0 := by
  have := (accepted_signer_entitled sigOK crlIssuer aki alg verified trusted a h).1.1
  intro h0
  rcases this with ht | ⟨p, hp, hge⟩
  · rw [h0] at ht; cases ht
  · rw [h0] at hp; cases hp; omega

/-- If no available key verifies the signature (unrelated key, tampered content or signature), nothing is accepted. -/
theorem nothing_verifies_nothing_accepted (crlIssuer : Nat) (aki : Option AKI) (alg : KeyAlg)
    (verified : List (List CertA)) (trusted : List CertA) :
    verifyCRL (fun _ => false) crlIssuer aki alg verified trusted = .rejected := by
  cases h : verifyCRL (fun _ => false) crlIssuer aki alg verified trusted with
  | rejected => rfl
  | panic => exact absurd h (verifyCRL_never_panics _ crlIssuer aki alg verified trusted)
  | accepted a => have := (accepted_signer_entitled _ crlIssuer aki alg verified trusted a h).2; cases this

/-- An algorithm identifier outside the table (RSA-PSS, Ed25519, …) stops the reader before tbsCertList is interpreted. -/
theorem unsupported_algorithm_rejected (oid : List Nat) (h : lookupHash oid = none) (r : Rd) :
    ∃ r', lookupHashM oid r = .err .alg r' := by
  unfold lookupHashM
  simp only [h]
  exact ⟨r, rfl⟩

theorem pss_and_ed25519_not_in_table :
    lookupHash [1, 2, 840, 113549, 1, 1, 10] = none ∧ lookupHash [1, 3, 101, 112] = none := by decide

theorem supported_algorithms :
    (hashTable.map (·.1)) = [[1, 2, 840, 10045, 4, 1], [1, 2, 840, 10045, 4, 3, 1], [1, 2, 840, 10045, 4, 3, 2],
      [1, 2, 840, 10045, 4, 3, 3], [1, 2, 840, 10045, 4, 3, 4], [1, 2, 840, 113549, 1, 1, 11], [1, 2, 840, 113549, 1, 1, 12],
      [1, 2, 840, 113549, 1, 1, 13], [1, 2, 840, 113549, 1, 1, 14], [1, 2, 840, 113549, 1, 1, 5]] := by decide

/-! ### The unsigned envelope of an accepted CRL (every byte string, every oracle) -/

/-- **Outer algorithm = inner algorithm.** An accepted run asks the AlgorithmIdentifier decoder exactly twice — first about
the outer `signatureAlgorithm` (pre-scan, `qo`), then about the `signature` field inside tbsCertList (`qi`) — and the two
frames (the file bytes `frameAt file q = (file.drop q.off).take q.len` the queries refer to) are byte-identical. The OID
that selects the hash is the decoding of that frame. -/
theorem accepted_outer_alg_is_inner (O : Oracle) (file : Bytes) (res : ReadResult)
    (hok : (readCRL O file).outcome = .ok res) :
    ∃ qo qi rest, (readCRL O file).queries = qo :: qi :: rest ∧ qo.kind = .alg ∧ qi.kind = .alg ∧
      (∀ q ∈ rest, q.kind ≠ .alg) ∧ frameAt file qi = frameAt file qo ∧
      O.algOid (frameAt file qo) = some res.algOid ∧ lookupHash res.algOid = some res.hashAlg := by
  obtain ⟨oid, f, r1, r2, hp, hb, hq, _⟩ := readCRL_ok_inv hok
  obtain ⟨qo, hq1, hk1, hf1, ho⟩ := prescan_ok (sync_init file) rfl hp
  have env := readBody_envelope (sync_init file) hb
  obtain ⟨qi, l, hq2, hk2, hf2, hl, _, _⟩ := env.queries
  refine ⟨qo, qi, l, ?_, hk1, hk2, hl, by rw [hf1, hf2], ?_, ?_⟩
  · rw [hq, hq1, hq2]; rfl
  · rw [hf1, env.algOid]; exact ho
  · rw [env.algOid]; exact env.hashOk

/-- **Honest outer length.** The file starts with a SEQUENCE header `tl`, and an accepted run ends exactly where that
header says the CertificateList ends: `finalPos = 1 + lenSize + len`; all of it lies inside the file. -/
theorem accepted_outer_length_honest (O : Oracle) (file : Bytes) (res : ReadResult)
    (hok : (readCRL O file).outcome = .ok res) :
    ∃ tl r, readTL { rest := file } = .ok tl r ∧ tl.tag = 0x30 ∧
      (readCRL O file).finalPos = 1 + tl.lenSize + tl.len ∧ (readCRL O file).finalPos = tl.tlvLen ∧
      (readCRL O file).finalPos ≤ file.length := by
  obtain ⟨oid, f, r1, r2, _, hb, _, hfin⟩ := readCRL_ok_inv hok
  have env := readBody_envelope (sync_init file) hb
  obtain ⟨tl, r, htl, htag, hpos, _⟩ := env.header
  have h0 : ({ rest := file } : Rd).pos = 0 := rfl
  rw [h0] at hpos
  refine ⟨tl, r, htl, htag, ?_, ?_, ?_⟩
  · rw [hfin]; omega
  · rw [hfin, TL.tlvLen]; omega
  · rw [hfin]; exact env.inFile

/-- **Whole-octet signature.** The signature BIT STRING of an accepted CRL has no unused bits. -/
theorem accepted_signature_whole_octets (O : Oracle) (file : Bytes) (res : ReadResult)
    (hok : (readCRL O file).outcome = .ok res) :
    res.sig.bitLen % 8 = 0 ∧ res.sig.bitLen = 8 * res.sig.bytes.length := by
  obtain ⟨oid, f, r1, r2, _, hb, _, _⟩ := readCRL_ok_inv hok
  have h := holds_readBody_post O oid f { rest := file } (allocOK_init file)
  rw [hb] at h
  exact ⟨h.2.2.1, h.2.2.2⟩

/-- **Canonical long form** (`ReadLength`). If a length is read successfully and its first byte `b` has bit `0x80` set,
then none of the bits `0x70` is set and the count `b & 0x0f` is not zero — `0x80` (indefinite) and `0x90 … 0xff` never
decode — and the size of the length field is the count plus one. -/
theorem long_form_first_byte_canonical (r r' : Rd) (l s : Nat) (b : UInt8) (t : Bytes)
    (hr : r.rest = b :: t) (hb : b &&& 0x80 ≠ 0) (h : readLen r = .ok (l, s) r') :
    b &&& 0x70 = 0 ∧ b &&& 0x0f ≠ 0 ∧ s = (b &&& 0x0f).toNat + 1 := by
  obtain ⟨_, b', t', hr', _, hlong⟩ := readLen_ok h
  rw [hr] at hr'
  simp only [List.cons.injEq] at hr'
  rw [hr'.1]
  exact hlong (by rw [← hr'.1]; exact hb)

/-- The same for `PeekLength` at offset `off`. -/
theorem long_form_first_byte_canonical_peek (off : Nat) (r r' : Rd) (l s : Nat) (b : UInt8) (t : Bytes)
    (hr : r.rest.drop off = b :: t) (hb : b &&& 0x80 ≠ 0) (h : peekLen off r = .ok (l, s) r') :
    b &&& 0x70 = 0 ∧ b &&& 0x0f ≠ 0 ∧ s = (b &&& 0x0f).toNat + 1 := by
  obtain ⟨b', t', hr', _, hlong⟩ := peekLen_ok h
  rw [hr] at hr'
  simp only [List.cons.injEq] at hr'
  rw [hr'.1]
  exact hlong (by rw [← hr'.1]; exact hb)

/-- Corollary: a long form that decodes has between 1 and 15 length bytes, and its first byte is one of `0x81 … 0x8f`. -/
theorem long_form_length_bytes (r r' : Rd) (l s : Nat) (b : UInt8) (t : Bytes)
    (hr : r.rest = b :: t) (hb : b &&& 0x80 ≠ 0) (h : readLen r = .ok (l, s) r') :
    1 ≤ s - 1 ∧ s - 1 ≤ 15 ∧ 0x81 ≤ b.toNat ∧ b.toNat ≤ 0x8f := by
  obtain ⟨h70, h0f, hs⟩ := long_form_first_byte_canonical r r' l s b t hr hb h
  have hpos := and15_pos h0f
  have hle : (b &&& 0x0f).toNat ≤ 15 := mask_le b
  have hb' : UInt8.ofNat b.toNat = b := UInt8.ofNat_toNat
  have hrange := long_form_range b.toNat (UInt8.toNat_lt b) (by rw [hb']; exact hb) (by rw [hb']; exact h70)
    (by rw [hb']; exact h0f)
  exact ⟨by omega, by omega, hrange.1, hrange.2⟩

theorem long_form_length_bytes_peek (off : Nat) (r r' : Rd) (l s : Nat) (b : UInt8) (t : Bytes)
    (hr : r.rest.drop off = b :: t) (hb : b &&& 0x80 ≠ 0) (h : peekLen off r = .ok (l, s) r') :
    1 ≤ s - 1 ∧ s - 1 ≤ 15 ∧ 0x81 ≤ b.toNat ∧ b.toNat ≤ 0x8f := by
  obtain ⟨h70, h0f, hs⟩ := long_form_first_byte_canonical_peek off r r' l s b t hr hb h
  have hpos := and15_pos h0f
  have hle : (b &&& 0x0f).toNat ≤ 15 := mask_le b
  have hb' : UInt8.ofNat b.toNat = b := UInt8.ofNat_toNat
  have hrange := long_form_range b.toNat (UInt8.toNat_lt b) (by rw [hb']; exact hb) (by rw [hb']; exact h70)
    (by rw [hb']; exact h0f)
  exact ⟨by omega, by omega, hrange.1, hrange.2⟩

/-- **The envelope is pinned** (one accepted file). Everything outside the hashed region is determined by the header and
the hashed (hence signed) bytes: the file starts with a SEQUENCE header `tl`; the hashed region is the file slice that
starts right after that header; the run ends exactly at the end `tl` declares, inside the file; the outer
signatureAlgorithm frame (`qo`) is a copy of bytes *inside the hashed region* (the slice the inner query `qi` refers to);
the hash is the one this frame's OID names; and the signature has no unused bits. What is left free is only the choice
among (non-minimal) length encodings of the outer and BIT STRING headers. -/
theorem envelope_bits_pinned (O : Oracle) (file : Bytes) (res : ReadResult)
    (hok : (readCRL O file).outcome = .ok res) :
    ∃ tl r qo qi rest,
      readTL { rest := file } = .ok tl r ∧ tl.tag = 0x30 ∧
      (readCRL O file).finalPos = tl.tlvLen ∧ tl.tlvLen ≤ file.length ∧
      res.hashFrom = 1 + tl.lenSize ∧
      res.hashRegion = (file.drop res.hashFrom).take res.hashRegion.length ∧
      res.hashFrom + res.hashRegion.length ≤ tl.tlvLen ∧
      (readCRL O file).queries = qo :: qi :: rest ∧ qo.kind = .alg ∧ qi.kind = .alg ∧ (∀ q ∈ rest, q.kind ≠ .alg) ∧
      res.hashFrom ≤ qi.off ∧ qi.off + qi.len ≤ res.hashFrom + res.hashRegion.length ∧
      frameAt file qo = (res.hashRegion.drop (qi.off - res.hashFrom)).take qi.len ∧
      O.algOid (frameAt file qo) = some res.algOid ∧ lookupHash res.algOid = some res.hashAlg ∧
      res.sig.bitLen = 8 * res.sig.bytes.length := by
  obtain ⟨oid, f, r1, r2, hp, hb, hq, hfin⟩ := readCRL_ok_inv hok
  obtain ⟨qo, hq1, hk1, hf1, ho⟩ := prescan_ok (sync_init file) rfl hp
  have env := readBody_envelope (sync_init file) hb
  obtain ⟨qi, l, hq2, hk2, hf2, hl, hlo, hhi⟩ := env.queries
  obtain ⟨tl, r, htl, htag, hpos, hfrom⟩ := env.header
  have h0 : ({ rest := file } : Rd).pos = 0 := rfl
  rw [h0] at hpos hfrom
  have hend : r2.pos = tl.tlvLen := by rw [TL.tlvLen]; omega
  refine ⟨tl, r, qo, qi, l, htl, htag, by rw [hfin, hend], by rw [← hend]; exact env.inFile, by omega,
    env.region, by rw [← hend]; exact env.regionEnd, by rw [hq, hq1, hq2]; rfl, hk1, hk2, hl, hlo, hhi, ?_,
    by rw [hf1, env.algOid]; exact ho, by rw [env.algOid]; exact env.hashOk,
    (accepted_signature_whole_octets O file res hok).2⟩
  rw [env.region, slice_of_slice file _ _ _ _ hlo hhi, hf1, ← hf2]
  rfl

/-- Two accepted files whose hashed regions carry the same inner AlgorithmIdentifier slice select the same hash, and their
outer signatureAlgorithm frames are identical; with equal signature bytes the signature values are equal as BIT STRINGs. -/
theorem same_signed_alg_same_envelope (O : Oracle) (file₁ file₂ : Bytes) (res₁ res₂ : ReadResult)
    (h₁ : (readCRL O file₁).outcome = .ok res₁) (h₂ : (readCRL O file₂).outcome = .ok res₂) :
    ∃ qo₁ qi₁ rest₁ qo₂ qi₂ rest₂,
      (readCRL O file₁).queries = qo₁ :: qi₁ :: rest₁ ∧ (readCRL O file₂).queries = qo₂ :: qi₂ :: rest₂ ∧
      ((res₁.hashRegion.drop (qi₁.off - res₁.hashFrom)).take qi₁.len =
          (res₂.hashRegion.drop (qi₂.off - res₂.hashFrom)).take qi₂.len →
        frameAt file₁ qo₁ = frameAt file₂ qo₂ ∧ res₁.algOid = res₂.algOid ∧ res₁.hashAlg = res₂.hashAlg ∧
        (res₁.sig.bytes = res₂.sig.bytes → res₁.sig = res₂.sig)) := by
  obtain ⟨_, _, qo₁, qi₁, rest₁, _, _, _, _, _, _, _, hq₁, _, _, _, _, _, hf₁, ho₁, hh₁, hs₁⟩ :=
    envelope_bits_pinned O file₁ res₁ h₁
  obtain ⟨_, _, qo₂, qi₂, rest₂, _, _, _, _, _, _, _, hq₂, _, _, _, _, _, hf₂, ho₂, hh₂, hs₂⟩ :=
    envelope_bits_pinned O file₂ res₂ h₂
  refine ⟨qo₁, qi₁, rest₁, qo₂, qi₂, rest₂, hq₁, hq₂, ?_⟩
  intro heq
  have hfr : frameAt file₁ qo₁ = frameAt file₂ qo₂ := by rw [hf₁, hf₂, heq]
  have hoid : res₁.algOid = res₂.algOid := by
    rw [hfr, ho₂] at ho₁
    exact (Option.some.inj ho₁).symm
  refine ⟨hfr, hoid, ?_, ?_⟩
  · rw [hoid, hh₂] at hh₁
    exact (Option.some.inj hh₁).symm
  · intro hb
    cases hsig₁ : res₁.sig with
    | mk b₁ n₁ =>
      cases hsig₂ : res₂.sig with
      | mk b₂ n₂ =>
        rw [hsig₁] at hs₁ hb
        rw [hsig₂] at hs₂ hb
        simp only at hs₁ hs₂ hb
        rw [hs₁, hs₂, hb]

-- Non-vacuity: the concrete accepted document of C06 (`exDoc`, v2, two entries, extensions) instantiates every statement.
theorem exDoc_accepted : ∃ res, (readCRL C06.exOracle (enc C06.exDoc)).outcome = .ok res :=
  let ⟨_, _, res, hres, _⟩ := C06.read_enc C06.exOracle C06.exDoc _ _ _ _ C06.exDoc_wf
  ⟨res, hres⟩

example : ∃ qo qi rest, (readCRL C06.exOracle (enc C06.exDoc)).queries = qo :: qi :: rest ∧ qo.kind = .alg ∧ qi.kind = .alg ∧
    frameAt (enc C06.exDoc) qi = frameAt (enc C06.exDoc) qo := by
  obtain ⟨res, hres⟩ := exDoc_accepted
  obtain ⟨qo, qi, rest, h1, h2, h3, _, h5, _⟩ := accepted_outer_alg_is_inner _ _ res hres
  exact ⟨qo, qi, rest, h1, h2, h3, h5⟩

example : (readCRL C06.exOracle (enc C06.exDoc)).finalPos = (enc C06.exDoc).length ∧
    ∃ tl r, readTL { rest := enc C06.exDoc } = .ok tl r ∧ (readCRL C06.exOracle (enc C06.exDoc)).finalPos = tl.tlvLen := by
  obtain ⟨res, hres⟩ := exDoc_accepted
  obtain ⟨tl, r, h1, _, _, h4, _⟩ := accepted_outer_length_honest _ _ res hres
  exact ⟨(C06.read_enc C06.exOracle C06.exDoc _ _ _ _ C06.exDoc_wf).2.1, tl, r, h1, h4⟩

example : ∃ res, (readCRL C06.exOracle (enc C06.exDoc)).outcome = .ok res ∧ res.sig.bitLen = 24 ∧ res.sig.bitLen % 8 = 0 := by
  obtain ⟨_, _, res, hres, heq⟩ := C06.read_enc C06.exOracle C06.exDoc _ _ _ _ C06.exDoc_wf
  refine ⟨res, hres, ?_, (accepted_signature_whole_octets _ _ res hres).1⟩
  rw [heq]; rfl

-- `0x82 0x01 0x00` decodes (256, three length bytes); `0x80` (indefinite), `0x90 …`, `0xff …` are refused as `lenForm`.
example : (match readLen { rest := [0x82, 1, 0] } with | .ok (256, 3) _ => true | _ => false) = true := by decide
example : (match readLen { rest := [0x80, 1, 0] } with | .err .lenForm _ => true | _ => false) = true := by decide
example : (match readLen { rest := [0x90, 1, 0] } with | .err .lenForm _ => true | _ => false) = true := by decide
example : (match readLen { rest := [0xff, 1, 0] } with | .err .lenForm _ => true | _ => false) = true := by decide
example : (match peekLen 1 { rest := [0x30, 0x91, 1, 0] } with | .err .lenForm _ => true | _ => false) = true := by decide

-- Non-vacuity: issuer CA (key 1) above the end-entity (key 5): a CRL signed by key 5 is refused, by key 1 accepted.
def leaf : CertA := ⟨5, 100, 7, 42, some 9, .ecdsa, none⟩
def ca : CertA := ⟨1, 7, 7, 1, some 9, .ecdsa, some true⟩
example : verifyCRL (fun k => k == 5) 7 (some ⟨some 9, none, none⟩) .ecdsa [[leaf, ca]] [] = .rejected := by decide
example : verifyCRL (fun k => k == 1) 7 (some ⟨some 9, none, none⟩) .ecdsa [[leaf, ca]] [] = .accepted ⟨ca, .chain 1⟩ := by decide
-- An AKI with only an issuer: the search ends in its error (not a panic), the CRL is rejected; serial+issuer selects the CA.
example : findCandidates 7 (some ⟨none, none, some 7⟩) .ecdsa (available [[leaf, ca]] []) = .err := by decide
example : verifyCRL (fun k => k == 1) 7 (some ⟨none, none, some 7⟩) .ecdsa [[leaf, ca]] [] = .rejected := by decide
example : verifyCRL (fun k => k == 1) 7 (some ⟨some 3, some 1, some 7⟩) .ecdsa [[leaf, ca]] [] = .accepted ⟨ca, .chain 1⟩ := by decide

/-- The hand-written `Reader` model this property rests on was transcribed from exactly these sources: the fingerprints are
recomputed from /repo on every run (tools/extract/skeleton.go), so any change to one of the functions breaks this obligation. -/
theorem reader_sources_as_transcribed : Crv.Generated.skeletonReader = Crv.Skeleton.expectedReader :=
  Crv.Skeleton.reader_sources_as_transcribed

/-- The hand-written `Cand` model this property rests on was transcribed from exactly these sources: the fingerprints are
recomputed from /repo on every run (tools/extract/skeleton.go), so any change to one of the functions breaks this obligation. -/
theorem cand_sources_as_transcribed : Crv.Generated.skeletonCand = Crv.Skeleton.expectedCand :=
  Crv.Skeleton.cand_sources_as_transcribed

end Crv.Props.C04
