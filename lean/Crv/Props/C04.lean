import Crv.Cand
import Crv.Props.C06
import Crv.Props.C16
/-!
C04 — CRL authenticity under `verify`. Three parts:
(i)   the digest is over exactly the DER tbsCertList and the hash is the one the declared algorithm names
      (`Crv.Props.C06.digest_is_over_tbs`); an algorithm identifier outside the regenerated table stops the reader
      before anything is interpreted (`unsupported_algorithm_rejected`);
(ii)  decision logic, this file: the signature is accepted only under the key of an *entitled* certificate —
      a certificate above the end-entity of a presented chain or a configured trusted signer, matching the CRL's issuer
      name or authority key identifier, whose key usage (when present) permits CRL signing — for all chains, trusted
      lists and AKI forms;
(iii) policy: under `verify` only a verified CRL comes into force, in every history (`Crv.Props.C16.verify_in_force_was_verified`).
"Any single bit" reduces to the primitive: a change in tbsCertList changes the digest input (i), a change in the
signature bits changes the input of `sigOK`, a change of the algorithm OID changes the table row or leaves the table.
-/
namespace Crv.Props.C04
open Crv Crv.Cand Crv.Generated

theorem facts : crlCandidatesSkipEndEntity = true ∧ crlSignKeyUsageChecked = true := by decide

theorem mem_enumFrom (n : Nat) (l : List CertA) (a : Avail) (h : a ∈ enumFrom n l) : ∃ p, a.origin = .chain p ∧ p ≥ n := by
  induction l generalizing n with
  | nil => cases h
  | cons c t ih =>
    simp only [enumFrom, List.mem_cons] at h
    rcases h with rfl | h
    · exact ⟨n, rfl, Nat.le_refl n⟩
    · obtain ⟨p, hp, hge⟩ := ih (n + 1) h
      exact ⟨p, hp, by omega⟩

/-- Whatever is available as a signer candidate is a configured trusted signer or sits above the end-entity of a presented chain. -/
theorem available_origin (verified : List (List CertA)) (trusted : List CertA) (a : Avail)
    (h : a ∈ available verified trusted) : a.origin = .trusted ∨ ∃ p, a.origin = .chain p ∧ p ≥ 1 := by
  unfold available at h
  simp only [crlCandidatesSkipEndEntity, ↓reduceIte, List.mem_append, List.mem_flatten, List.mem_map] at h
  rcases h with ⟨l, ⟨ch, _, rfl⟩, hal⟩ | ⟨c, _, rfl⟩
  · right
    split at hal
    · exact mem_enumFrom 1 _ a hal
    · cases hal
  · left; rfl

theorem candidates_match (crlIssuer : Nat) (aki : Option AKI) (alg : KeyAlg) (av l : List Avail)
    (h : findCandidates crlIssuer aki alg av = .ok l) (a : Avail) (ha : a ∈ l) :
    a ∈ av ∧ matchesCRL crlIssuer aki a.cert := by
  unfold findCandidates at h
  cases aki with
  | none =>
    simp only [CandRes.ok.injEq] at h
    subst h
    simp only [List.mem_filter, Bool.and_eq_true, beq_iff_eq] at ha
    exact ⟨ha.1, Or.inl ha.2.1⟩
  | some k =>
    simp only at h
    cases hs : k.certSerial with
    | some s =>
      simp only [hs, CandRes.ok.injEq] at h
      subst h
      simp only [List.mem_filter, Bool.and_eq_true, beq_iff_eq] at ha
      refine ⟨ha.1, Or.inr ⟨k, rfl, Or.inr ?_⟩⟩
      cases hn : k.certIssuer with
      | none => simp [hn] at ha
      | some n =>
        simp only [hn, beq_iff_eq] at ha
        exact ⟨s, n, hs, rfl, ha.2.1, ha.2.2⟩
    | none =>
      simp only [hs] at h
      cases hk : k.keyId with
      | none => simp [hk] at h
      | some kid =>
        simp only [hk, CandRes.ok.injEq] at h
        subst h
        simp only [List.mem_filter, beq_iff_eq] at ha
        exact ⟨ha.1, Or.inr ⟨k, rfl, Or.inl ⟨kid, hk, ha.2⟩⟩⟩

theorem firstVerifying_spec (sigOK : Nat → Bool) (l : List Avail) (a : Avail) (h : firstVerifying sigOK l = some a) :
    a ∈ l ∧ sigOK a.cert.key = true ∧ (a.cert.keyUsage = none ∨ a.cert.keyUsage = some true) := by
  induction l with
  | nil => cases h
  | cons x t ih =>
    unfold firstVerifying at h
    simp only [crlSignKeyUsageChecked, Bool.true_and] at h
    by_cases hku : (!kuAllows x.cert) = true
    · simp only [hku, ↓reduceIte] at h
      obtain ⟨h1, h2, h3⟩ := ih h
      exact ⟨List.mem_cons_of_mem _ h1, h2, h3⟩
    · simp only [hku, Bool.false_eq_true, ↓reduceIte] at h
      by_cases hs : sigOK x.cert.key = true
      · simp only [hs, ↓reduceIte, Option.some.injEq] at h
        subst h
        refine ⟨List.mem_cons_self, hs, ?_⟩
        simp only [Bool.not_eq_true', Bool.not_eq_false] at hku
        unfold kuAllows at hku
        cases hk : x.cert.keyUsage with
        | none => exact Or.inl rfl
        | some b => simp only [hk] at hku; subst hku; exact Or.inr rfl
      · simp only [hs, Bool.false_eq_true, ↓reduceIte] at h
        obtain ⟨h1, h2, h3⟩ := ih h
        exact ⟨List.mem_cons_of_mem _ h1, h2, h3⟩

/-- **Decision logic:** the CRL signature is accepted only under the key of an entitled certificate, and that key does verify it.
All chains, all trusted lists, all AKI forms, every behaviour of the signature primitive. -/
theorem accepted_signer_entitled (sigOK : Nat → Bool) (crlIssuer : Nat) (aki : Option AKI) (alg : KeyAlg)
    (verified : List (List CertA)) (trusted : List CertA) (a : Avail)
    (h : verifyCRL sigOK crlIssuer aki alg verified trusted = some a) :
    Entitled crlIssuer aki a ∧ sigOK a.cert.key = true := by
  unfold verifyCRL at h
  cases hc : findCandidates crlIssuer aki alg (available verified trusted) with
  | err => simp [hc] at h
  | ok l =>
    simp only [hc] at h
    obtain ⟨hmem, hsig, hku⟩ := firstVerifying_spec sigOK l a h
    obtain ⟨hav, hmatch⟩ := candidates_match crlIssuer aki alg _ l hc a hmem
    exact ⟨⟨available_origin verified trusted a hav, hmatch, hku⟩, hsig⟩

/-- Signing with the client certificate's own key (or any key whose only certificate sits at position 0) is never accepted. -/
theorem end_entity_key_never_accepted (sigOK : Nat → Bool) (crlIssuer : Nat) (aki : Option AKI) (alg : KeyAlg)
    (verified : List (List CertA)) (trusted : List CertA) (a : Avail)
    (h : verifyCRL sigOK crlIssuer aki alg verified trusted = some a) : a.origin ≠ .chain 0 := by
  have := (accepted_signer_entitled sigOK crlIssuer aki alg verified trusted a h).1.1
  intro h0
  rcases this with ht | ⟨p, hp, hge⟩
  · rw [h0] at ht; cases ht
  · rw [h0] at hp; cases hp; omega

/-- If no available key verifies the signature (unrelated key, tampered content or signature), nothing is accepted. -/
theorem nothing_verifies_nothing_accepted (crlIssuer : Nat) (aki : Option AKI) (alg : KeyAlg)
    (verified : List (List CertA)) (trusted : List CertA) :
    verifyCRL (fun _ => false) crlIssuer aki alg verified trusted = none := by
  cases h : verifyCRL (fun _ => false) crlIssuer aki alg verified trusted with
  | none => rfl
  | some a => have := (accepted_signer_entitled _ crlIssuer aki alg verified trusted a h).2; cases this

/-- An algorithm identifier outside the table (RSA-PSS, Ed25519, …) stops the reader before tbsCertList is interpreted. -/
theorem unsupported_algorithm_rejected (oid : List Nat) (h : lookupHash oid = none) (r : Rd) :
    ∃ r', lookupHashM oid r = .err .alg r' := by
  unfold lookupHashM
  simp only [h]
  exact ⟨r, rfl⟩

theorem pss_and_ed25519_not_in_table :
    lookupHash [1, 2, 840, 113549, 1, 1, 10] = none ∧ lookupHash [1, 3, 101, 112] = none := by decide

theorem supported_algorithms :
    (hashTable.map (·.1)) = [[1, 2, 840, 10045, 4, 1], [1, 2, 840, 10045, 4, 3, 1], [1, 2, 840, 10045, 4, 3, 2],
      [1, 2, 840, 10045, 4, 3, 3], [1, 2, 840, 10045, 4, 3, 4], [1, 2, 840, 113549, 1, 1, 11], [1, 2, 840, 113549, 1, 1, 12],
      [1, 2, 840, 113549, 1, 1, 13], [1, 2, 840, 113549, 1, 1, 14], [1, 2, 840, 113549, 1, 1, 5]] := by decide

-- Non-vacuity: issuer CA (key 1) above the end-entity (key 5): a CRL signed by key 5 is refused, by key 1 accepted.
def leaf : CertA := ⟨5, 100, 7, 42, some 9, .ecdsa, none⟩
def ca : CertA := ⟨1, 7, 7, 1, some 9, .ecdsa, some true⟩
example : verifyCRL (fun k => k == 5) 7 (some ⟨some 9, none, none⟩) .ecdsa [[leaf, ca]] [] = none := by decide
example : verifyCRL (fun k => k == 1) 7 (some ⟨some 9, none, none⟩) .ecdsa [[leaf, ca]] [] = some ⟨ca, .chain 1⟩ := by decide

end Crv.Props.C04
