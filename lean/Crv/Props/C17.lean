import Crv.Proofs.ReaderRoundTrip
import Crv.Proofs.Skeleton
import Crv.Props.C06
import Crv.Props.C07
/-!
C17 — streaming memory bound, as far as the reader *algorithm* goes (the Go heap, GC and LevelDB buffers are
runtime; the harness measures them): every buffer the reader asks for is bounded by a constant that does not
depend on the number of entries, and the entry loop carries nothing from one entry to the next except the
stream position — the per-entry frame goes to the consumer and is dropped.
-/
namespace Crv.Props.C17
open Crv Crv.Generated

/-- Every allocation request is at most 81 937 bytes — for every input, hence for every entry count. -/
theorem request_bounded (O : Oracle) (file : Bytes) : ∀ a ∈ (readCRL O file).allocs, a.size ≤ 81937 :=
  Crv.Props.C07.alloc_bounded O file

/-- The same bound stated over documents: it does not mention the number of entries `l.length`. -/
theorem request_bounded_any_entry_count (O : Oracle) (d : Doc) (l : List Bytes) (_ : d.entries = some l) :
    ∀ a ∈ (readCRL O (enc d)).allocs, a.size ≤ 81937 :=
  request_bounded O (enc d)

/-- Loop state: after the entry loop has run over `l` (any length), the reader state differs from the state
before it only by the consumed bytes (position, hash input) and by the `insert` events handed to the consumer;
nothing else is carried along. -/
theorem entry_loop_carries_only_position (O : Oracle) (l : List Bytes)
    (hl : ∀ e ∈ l, e.length ≤ 81920 ∧ O.entryOk (seqOf e) = true) (c : Core) (t : Bytes)
    (h : c.rest = encEntries l ++ t) :
    Det (entryLoop O (c.pos + (encEntries l).length)) c ()
      { (c.after (encEntries l) t) with events := c.events ++ entryEvents l } :=
  det_entryLoop O l hl c t h

/-- The document is consumed front to back exactly once by the main pass: the final position is its length. -/
theorem single_pass (O : Oracle) (d : Doc) (oid : List Nat) (h : HashAlg) (es : Option (List Ext)) (num : Option Nat)
    (wf : WF O d oid h es num) : (readCRL O (enc d)).finalPos = (enc d).length :=
  (Crv.Props.C06.read_enc O d oid h es num wf).2.1

/-- One `insert` event per entry: the consumer (the store) sees each entry once, in order; the reader keeps none. -/
theorem one_event_per_entry (O : Oracle) (d : Doc) (oid : List Nat) (h : HashAlg) (es : Option (List Ext)) (num : Option Nat)
    (wf : WF O d oid h es num) (l : List Bytes) (hl : d.entries = some l) :
    ((readCRL O (enc d)).events.filter (fun e => match e with | .insert _ => true | _ => false)).length = l.length := by
  rw [Crv.Props.C06.entries_in_order O d oid h es num wf l hl]
  simp [List.filter_append, List.filter_map, Function.comp_def]

example : (81937 : Nat) = 81920 + 17 := rfl

/-- The hand-written `Reader` model this property rests on was transcribed from exactly these sources: the fingerprints are
recomputed from /repo on every run (tools/extract/skeleton.go), so any change to one of the functions breaks this obligation. -/
theorem reader_sources_as_transcribed : Crv.Generated.skeletonReader = Crv.Skeleton.expectedReader :=
  Crv.Skeleton.reader_sources_as_transcribed

/-- The hand-written `Chunk` model this property rests on was transcribed from exactly these sources: the fingerprints are
recomputed from /repo on every run (tools/extract/skeleton.go), so any change to one of the functions breaks this obligation. -/
theorem chunk_sources_as_transcribed : Crv.Generated.skeletonChunk = Crv.Skeleton.expectedChunk :=
  Crv.Skeleton.chunk_sources_as_transcribed

/-- The hand-written `Loader` model this property rests on was transcribed from exactly these sources: the fingerprints are
recomputed from /repo on every run (tools/extract/skeleton.go), so any change to one of the functions breaks this obligation. -/
theorem loader_sources_as_transcribed : Crv.Generated.skeletonLoader = Crv.Skeleton.expectedLoader :=
  Crv.Skeleton.loader_sources_as_transcribed

/-- The hand-written `Store` model this property rests on was transcribed from exactly these sources: the fingerprints are
recomputed from /repo on every run (tools/extract/skeleton.go), so any change to one of the functions breaks this obligation. -/
theorem store_sources_as_transcribed : Crv.Generated.skeletonStore = Crv.Skeleton.expectedStore :=
  Crv.Skeleton.store_sources_as_transcribed

/-- The hand-written `Repo` model this property rests on was transcribed from exactly these sources: the fingerprints are
recomputed from /repo on every run (tools/extract/skeleton.go), so any change to one of the functions breaks this obligation. -/
theorem repo_sources_as_transcribed : Crv.Generated.skeletonRepo = Crv.Skeleton.expectedRepo :=
  Crv.Skeleton.repo_sources_as_transcribed

end Crv.Props.C17
