import Crv.Ocsp
import Crv.Proofs.Skeleton
import Crv.Generated.Ocsp
import Crv.Proofs.OcspCache
/-!
C14 — OCSP cache soundness: right certificate, bounded lifetime.

Histories are arbitrary lists of events — time advances, expiration checks of cache2go firing (at any moments, or
never), `Cleanup` of some instance flushing the table, and lookups by any validator instance (each with its own
`ocsp_aia_strict` / `default_cache_duration`) for any certificate against any responder behaviour — run from the empty
process-global table. `exec ocspFacts V {} evs` returns the observations of the lookups in order. The cache is the
transcription of cache2go in `Crv/Cache.lean`, including `KeepAlive` on every `Value` (the sliding expiry).
Time is a natural number of milliseconds; `ocspFacts.maxClockSkew` is the regenerated constant in the same unit.
-/
namespace Crv.Props.C14
open Crv Crv.Ocsp Crv.Generated

theorem facts_canonical : ocspFacts = canon ocspFacts.maxClockSkew := by decide

private theorem transfer {P : Facts → Prop} (h : ∀ k, P (canon k)) : P ocspFacts := by
  have := h ocspFacts.maxClockSkew
  rwa [← facts_canonical] at this

variable (V : Key → Signed → Bool)

/-- The cache key determines issuer and serial: `issuer ++ "_" ++ decimal serial` is injective (the decimal rendering
has no underscore, so the split at the last underscore is unique). -/
theorem key_injective (c₁ c₂ : Cert) :
    mkKey ocspFacts c₁ = mkKey ocspFacts c₂ ↔ (c₁.issuer = c₂.issuer ∧ c₁.serial = c₂.serial) :=
  transfer (P := fun F => mkKey F c₁ = mkKey F c₂ ↔ (c₁.issuer = c₂.issuer ∧ c₁.serial = c₂.serial))
    (fun _ => mkKey_canon_inj)

/-- The lifetime of an entry as the code computes it when it stores. -/
theorem lifetime_formula (d s : Nat) (nu : Option Nat) :
    lifetime ocspFacts d s nu =
      match nu with
      | some n => if n > s then n - s + ocspFacts.maxClockSkew else d
      | none => d :=
  transfer (P := fun F => lifetime F d s nu =
      match nu with
      | some n => if n > s then n - s + F.maxClockSkew else d
      | none => d) (fun k => lifetime_canon k d s nu)

/-- `hit_same_cert`: a cache hit for certificate `c` returns the verdict obtained by an earlier lookup (a miss that was
answered by a responder) for a certificate with the same issuer and the same serial number. -/
theorem hit_same_cert (evs : List Event) (o : Obs) (ho : o ∈ (exec ocspFacts V {} evs).2) (hhit : o.hit = true) :
    ∃ o' ∈ (exec ocspFacts V {} evs).2, o'.seq < o.seq ∧ o'.hit = false ∧
      o'.cert.issuer = o.cert.issuer ∧ o'.cert.serial = o.cert.serial ∧ o.result = o'.result := by
  revert ho
  refine transfer (P := fun F => o ∈ (exec F V {} evs).2 →
    ∃ o' ∈ (exec F V {} evs).2, o'.seq < o.seq ∧ o'.hit = false ∧
      o'.cert.issuer = o.cert.issuer ∧ o'.cert.serial = o.cert.serial ∧ o.result = o'.result) ?_
  intro k ho
  obtain ⟨o', ho', hseq, hmiss, hkey, _, _, _, _, hres⟩ := (run_ok V k evs o ho).1 hhit
  obtain ⟨hi, hs⟩ := mkKey_canon_inj.mp hkey
  exact ⟨o', ho', hseq, hmiss, hi, hs, hres⟩

/-- `hit_within_lifetime`: a hit at time `t` is served from an entry stored at `s ≤ t` by a lookup that received an
accepted response `p`, and `t ≤ s + lifetime`, where lifetime = `nextUpdate − s + skew` if `nextUpdate > s`, else the
storing instance's default duration (`lifetime_formula`). This holds for every access pattern: however often the entry
is read (each read renews cache2go's idle timer) and whenever or whether the expiration check runs. -/
theorem hit_within_lifetime (evs : List Event) (o : Obs) (ho : o ∈ (exec ocspFacts V {} evs).2) (hhit : o.hit = true) :
    ∃ o' ∈ (exec ocspFacts V {} evs).2, ∃ p, o'.seq < o.seq ∧ o'.hit = false ∧ o'.answered = some p ∧
      o'.t ≤ o.t ∧ o.t ≤ o'.t + lifetime ocspFacts o'.inst.defaultDur o'.t p.nextUpdate ∧
      o.result = verdictOf p := by
  revert ho
  refine transfer (P := fun F => o ∈ (exec F V {} evs).2 →
    ∃ o' ∈ (exec F V {} evs).2, ∃ p, o'.seq < o.seq ∧ o'.hit = false ∧ o'.answered = some p ∧
      o'.t ≤ o.t ∧ o.t ≤ o'.t + lifetime F o'.inst.defaultDur o'.t p.nextUpdate ∧ o.result = verdictOf p) ?_
  intro k ho
  obtain ⟨o', ho', hseq, hmiss, _, L, hsto, hle, hle2, hres⟩ := (run_ok V k evs o ho).1 hhit
  obtain ⟨p, hans, _, hL, _, hres'⟩ := (run_ok V k evs o' ho').2.1 L hsto
  exact ⟨o', ho', p, hseq, hmiss, hans, hle, by rw [← hL]; exact hle2, by rw [hres, hres']⟩

/-- `zero_default_no_cache`: with a zero default duration and no usable nextUpdate (absent or not in the future) the
lookup stores nothing. -/
theorem zero_default_no_cache (evs : List Event) (o : Obs) (ho : o ∈ (exec ocspFacts V {} evs).2)
    (hzero : o.inst.defaultDur = 0)
    (hnu : ∀ p, o.answered = some p → ∀ n, p.nextUpdate = some n → n ≤ o.t) :
    o.stored = none := by
  revert ho
  refine transfer (P := fun F => o ∈ (exec F V {} evs).2 → o.stored = none) ?_
  intro k ho
  cases hs : o.stored with
  | none => rfl
  | some L =>
    exfalso
    obtain ⟨p, hans, _, hL, hpos, _⟩ := (run_ok V k evs o ho).2.1 L hs
    rw [lifetime_canon, hzero] at hL
    cases hn : p.nextUpdate with
    | none => rw [hn] at hL; simp only at hL; omega
    | some n =>
      rw [hn] at hL
      have := hnu p hans n hn
      simp only at hL
      split at hL <;> omega

/-- …and therefore a certificate all of whose lookups run with zero default duration and without usable nextUpdate is
never served from the cache: every call goes to the responders again. -/
theorem zero_default_never_hit (evs : List Event) (c : Cert)
    (hall : ∀ o ∈ (exec ocspFacts V {} evs).2, o.cert.issuer = c.issuer → o.cert.serial = c.serial →
      o.inst.defaultDur = 0 ∧ ∀ p, o.answered = some p → ∀ n, p.nextUpdate = some n → n ≤ o.t)
    (o : Obs) (ho : o ∈ (exec ocspFacts V {} evs).2) (hi : o.cert.issuer = c.issuer) (hs : o.cert.serial = c.serial) :
    o.hit = false := by
  cases hh : o.hit with
  | false => rfl
  | true =>
    exfalso
    have key : ∀ x ∈ (exec ocspFacts V {} evs).2, x.cert.issuer = c.issuer → x.cert.serial = c.serial → x.stored = none :=
      fun x hx h1 h2 => zero_default_no_cache V evs x hx (hall x hx h1 h2).1 (hall x hx h1 h2).2
    revert ho hh key
    refine transfer (P := fun F => o ∈ (exec F V {} evs).2 → o.hit = true →
      (∀ x ∈ (exec F V {} evs).2, x.cert.issuer = c.issuer → x.cert.serial = c.serial → x.stored = none) → False) ?_
    intro k ho hh key
    obtain ⟨w, hw, _, _, hkey, L, hsto, _⟩ := (run_ok V k evs o ho).1 hh
    obtain ⟨h1, h2⟩ := mkKey_canon_inj.mp hkey
    have := key w hw (by rw [h1, hi]) (by rw [h2, hs])
    rw [this] at hsto
    cases hsto

/-- `failures_not_cached`: a lookup that no responder answered with an accepted response (all fetches failed, or
everything that came back was rejected) stores nothing — whatever its verdict (accept, or error under strict). -/
theorem failures_not_cached (evs : List Event) (o : Obs) (ho : o ∈ (exec ocspFacts V {} evs).2)
    (hfail : o.answered = none) : o.stored = none := by
  revert ho
  refine transfer (P := fun F => o ∈ (exec F V {} evs).2 → o.stored = none) ?_
  intro k ho
  exact (run_ok V k evs o ho).2.2 hfail

/-- What is stored, is stored with the computed lifetime, only when it is positive. -/
theorem stored_lifetime (evs : List Event) (o : Obs) (ho : o ∈ (exec ocspFacts V {} evs).2) (L : Nat)
    (hs : o.stored = some L) :
    ∃ p, o.answered = some p ∧ o.hit = false ∧ L = lifetime ocspFacts o.inst.defaultDur o.t p.nextUpdate ∧ 0 < L := by
  revert ho
  refine transfer (P := fun F => o ∈ (exec F V {} evs).2 →
    ∃ p, o.answered = some p ∧ o.hit = false ∧ L = lifetime F o.inst.defaultDur o.t p.nextUpdate ∧ 0 < L) ?_
  intro k ho
  obtain ⟨p, h1, h2, h3, h4, _⟩ := (run_ok V k evs o ho).2.1 L hs
  exact ⟨p, h1, h2, h3, h4⟩

/-! ### The cache table is a finite map (cache2go keeps its items in a Go map)

The model keeps `CacheTable.items` as an association list. These theorems say that, through `find?`, every operation the
checker uses acts on it exactly as the corresponding operation acts on a map with one item per key: the list
representation adds no behaviour (no shadowed duplicates, no resurrection of a replaced item by a later sweep). -/
section TableIsMap
open Crv.Cache
variable {κ α : Type} [DecidableEq κ]

/-- One item per key (a Go map). -/
def Uniq (T : Cache.Table κ α) : Prop := (T.map Prod.fst).Nodup

theorem find_delete (T : Cache.Table κ α) (k k' : κ) :
    find? (delete T k) k' = if k' = k then none else find? T k' := by
  induction T with
  | nil => simp [delete, find?]
  | cons p T ih =>
    obtain ⟨a, it⟩ := p
    simp only [delete] at ih ⊢
    by_cases hak : a = k
    · subst hak
      by_cases hk : k' = a
      · subst hk; simp [List.filter, ih]
      · have : ¬ a = k' := fun h => hk h.symm
        simp [List.filter, find?, ih, hk, this]
    · by_cases hk : k' = k
      · subst hk; simp [List.filter, find?, ih, hak]
      · by_cases hak' : a = k'
        · subst hak'; simp [List.filter, find?, hak]
        · simp [List.filter, find?, ih, hak, hk, hak']

/-- `Add` then `Value` of the same key: the new item, created and accessed now. -/
theorem find_add_same (T : Cache.Table κ α) (k : κ) (life now : Nat) (d : α) :
    find? (add T k life d now) k = some { data := d, lifeSpan := life, createdOn := now, accessedOn := now } := by
  simp [add, find?]

/-- `Add` leaves every other key alone. -/
theorem find_add_other (T : Cache.Table κ α) (k k' : κ) (life now : Nat) (d : α) (h : k' ≠ k) :
    find? (add T k life d now) k' = find? T k' := by
  have : ¬ k = k' := fun e => h e.symm
  simp [add, find?, this, find_delete, h]

/-- `KeepAlive` changes the access time of that key's item and nothing else. -/
theorem find_touch (T : Cache.Table κ α) (k k' : κ) (now : Nat) :
    find? (touch T k now) k' =
      (find? T k').map (fun it => if k' = k then { it with accessedOn := now } else it) := by
  induction T with
  | nil => simp [touch, find?]
  | cons p T ih =>
    obtain ⟨a, it⟩ := p
    simp only [touch] at ih ⊢
    by_cases hak : a = k
    · subst hak
      by_cases hk : a = k'
      · subst hk; simp [find?]
      · simp [find?, hk, ih]
    · by_cases hk : a = k'
      · subst hk; simp [find?, hak]
      · simp [find?, hak, hk, ih]

theorem uniq_delete (T : Cache.Table κ α) (k : κ) (h : Uniq T) : Uniq (delete T k) := by
  unfold Uniq delete at *
  exact (List.filter_sublist.map Prod.fst).nodup h

omit [DecidableEq κ] in
theorem uniq_sweep (T : Cache.Table κ α) (now : Nat) (h : Uniq T) : Uniq (sweep T now) := by
  unfold Uniq sweep at *
  exact (List.filter_sublist.map Prod.fst).nodup h

theorem uniq_add (T : Cache.Table κ α) (k : κ) (life now : Nat) (d : α) (h : Uniq T) : Uniq (add T k life d now) := by
  unfold Uniq add
  simp only [List.map_cons, List.nodup_cons]
  refine ⟨?_, uniq_delete T k h⟩
  intro hm
  obtain ⟨p, hp, hpk⟩ := List.mem_map.mp hm
  simp [delete] at hp
  exact hp.2 hpk

theorem uniq_touch (T : Cache.Table κ α) (k : κ) (now : Nat) (h : Uniq T) : Uniq (touch T k now) := by
  unfold Uniq touch at *
  have : (T.map (fun p => if p.1 = k then (p.1, { p.2 with accessedOn := now }) else p)).map Prod.fst = T.map Prod.fst := by
    rw [List.map_map]
    apply List.map_congr_left
    intro p _
    by_cases hp : p.1 = k <;> simp [hp]
  rw [this]; exact h

/-- An expiration check removes exactly the expired items: with one item per key, no other item of the key can surface. -/
theorem find_sweep (T : Cache.Table κ α) (k : κ) (now : Nat) (h : Uniq T) :
    find? (sweep T now) k = (find? T k).bind (fun it => if expired it now then none else some it) := by
  induction T with
  | nil => simp [sweep, find?]
  | cons p T ih =>
    obtain ⟨a, it⟩ := p
    have hT : Uniq T := by
      unfold Uniq at h ⊢
      simp only [List.map_cons, List.nodup_cons] at h
      exact h.2
    have ha : a ∉ T.map Prod.fst := by
      unfold Uniq at h
      simp only [List.map_cons, List.nodup_cons] at h
      exact h.1
    have ih := ih hT
    simp only [sweep] at ih ⊢
    by_cases hak : a = k
    · subst hak
      by_cases he : expired it now = true
      · have hnone : find? (T.filter (fun p => !expired p.2 now)) a = none := by
          cases hf : find? (T.filter (fun p => !expired p.2 now)) a with
          | none => rfl
          | some x =>
            have := List.mem_filter.mp (Crv.Cache.find?_mem hf)
            exact absurd (List.mem_map.mpr ⟨(a, x), this.1, rfl⟩) ha
        simp [List.filter, find?, he, hnone]
      · simp [List.filter, find?, he]
    · by_cases he : expired it now = true
      · simp [List.filter, find?, he, hak, ih]
      · simp [List.filter, find?, he, hak, ih]

omit [DecidableEq κ] in
/-- The empty table (and `Flush`) has one item per key; with `uniq_add`, `uniq_touch`, `uniq_delete`, `uniq_sweep` every table
reachable by `Add`, `Value`/`KeepAlive`, `Delete`, expiration checks and `Flush` has. -/
theorem uniq_empty : Uniq ([] : Cache.Table κ α) := by simp [Uniq]

/-- Sliding expiry, as cache2go has it: an item that was read at `t` survives every expiration check before
`t + lifeSpan` (so the checker's own absolute `validUntil` test is what bounds a cached answer's life, C14). -/
theorem touched_survives (T : Cache.Table κ α) (k : κ) (it : Item α) (t now : Nat) (h : Uniq T)
    (hf : find? T k = some it) (hnow : now < t + it.lifeSpan) (ht : t ≤ now) :
    find? (sweep (touch T k t) now) k = some { it with accessedOn := t } := by
  rw [find_sweep _ _ _ (uniq_touch T k t h), find_touch, hf]
  simp only [Option.map_some, ↓reduceIte, Option.bind_some]
  have : expired ({ it with accessedOn := t } : Item α) now = false := by
    simp only [expired, Bool.and_eq_false_imp, bne_iff_ne, ne_eq, decide_eq_false_iff_not, Nat.not_le]
    intro _; omega
  simp [this]

/-- `tryGetResponseFromCache` keeps one item per key (whatever the regenerated facts are). -/
theorem tryGet_uniq (F : Facts) (T : Ocsp.Table) (k : Str) (now : Nat) (h : Uniq T) : Uniq (tryGet F T k now).2 := by
  unfold tryGet Cache.value
  cases hf : Cache.find? T k with
  | none => simpa using h
  | some it =>
    simp only
    split
    · exact uniq_delete _ _ (uniq_touch T k now h)
    · exact uniq_touch T k now h

/-- `OCSPRevocationChecker.IsRevoked` keeps one item per key. -/
theorem lookup_uniq (F : Facts) (V : Key → Signed → Bool) (inst : Inst) (cert : Cert) (cands : List Cand)
    (answer : Str → Cand → Fetch) (now : Nat) (T : Ocsp.Table) (h : Uniq T) :
    Uniq (lookup F V inst cert cands answer now T).table := by
  have hcg : Uniq (if F.cacheFirst then tryGet F T (mkKey F cert) now else (none, T)).2 := by
    split
    · exact tryGet_uniq F T _ now h
    · exact h
  unfold lookup
  simp only
  split
  · exact hcg
  · split
    · simp only
      split
      · split
        · exact uniq_add _ _ _ _ _ hcg
        · exact hcg
      · simp only [↓reduceIte]
        exact uniq_add _ _ _ _ _ hcg
    · exact hcg
    · exact hcg

/-- **The process-global OCSP table is a map in every reachable state**: after any history of lookups by any instances, time
steps, expiration checks and flushes, the table holds at most one item per key — so `find?` (cache2go's map access) and the
`find_*` laws above describe it completely. -/
theorem exec_table_uniq (F : Facts) (V : Key → Signed → Bool) (evs : List Event) (w : World) (h : Uniq w.table) :
    Uniq (exec F V w evs).1.table := by
  induction evs generalizing w with
  | nil => exact h
  | cons e es ih =>
    simp only [exec]
    apply ih
    cases e with
    | advance dt => exact h
    | sweep => exact uniq_sweep _ _ h
    | flush => exact uniq_empty
    | look inst cert cands answer => exact lookup_uniq F V inst cert cands answer w.now w.table h

theorem reachable_table_uniq (evs : List Event) : Uniq (exec ocspFacts V {} evs).1.table :=
  exec_table_uniq ocspFacts V evs {} uniq_empty

/-- `Count()` is the number of keys: deleting a present key removes exactly one item (one item per key), an absent one none. -/
theorem length_delete (T : Cache.Table κ α) (k : κ) (h : Uniq T) :
    (delete T k).length + (if (find? T k).isSome then 1 else 0) = T.length := by
  induction T with
  | nil => simp [delete, find?]
  | cons p T ih =>
    obtain ⟨a, it⟩ := p
    have hT : Uniq T := by
      unfold Uniq at h ⊢
      simp only [List.map_cons, List.nodup_cons] at h
      exact h.2
    have ha : a ∉ T.map Prod.fst := by
      unfold Uniq at h
      simp only [List.map_cons, List.nodup_cons] at h
      exact h.1
    have ih := ih hT
    simp only [delete] at ih ⊢
    by_cases hak : a = k
    · subst hak
      have hnone : find? T a = none := by
        cases hf : find? T a with
        | none => rfl
        | some x => exact absurd (List.mem_map.mpr ⟨(a, x), Crv.Cache.find?_mem hf, rfl⟩) ha
      rw [hnone] at ih
      simp [List.filter, find?] at ih ⊢
      omega
    · simp [List.filter, find?, hak] at ih ⊢
      omega

/-- `Add` of a new key makes the table one larger, `Add` of a present key replaces its item. -/
theorem length_add (T : Cache.Table κ α) (k : κ) (life now : Nat) (d : α) (h : Uniq T) :
    (add T k life d now).length = if (find? T k).isSome then T.length else T.length + 1 := by
  have := length_delete T k h
  simp only [add, List.length_cons]
  split <;> simp_all <;> omega

/-- `Value` returns the stored item of the key, if any, and never changes which keys are present. -/
theorem value_spec (T : Cache.Table κ α) (k k' : κ) (now : Nat) :
    (value T k now).1 = find? T k ∧ ((find? (value T k now).2 k').isSome = (find? T k').isSome) := by
  unfold value
  cases hf : find? T k with
  | none => simp
  | some it =>
    simp only [true_and]
    rw [find_touch]
    cases find? T k' <;> simp
end TableIsMap

/-! Non-vacuity: default 100 ms; responder says good, then flips to revoked; the certificate is read every 40–50 ms.
Reads at 50 and 90 are hits; the read at 110 — only 20 ms after the previous one, so cache2go still holds the item —
is a miss because the absolute expiry passed, and sees `revoked`. A second certificate of another issuer with the same
subject and serial never shares the entry. -/
section Example
def Vx : Key → Signed → Bool := fun k s => k == s
def ca : Cand := { certId := 1, key := 11 }
def certA : Cert := { issuer := "CN=ca A".toList, subject := "CN=leaf".toList, serial := 77, servers := ["http://r/".toList] }
def certB : Cert := { issuer := "CN=ca B".toList, subject := "CN=leaf".toList, serial := 77, servers := ["http://r/".toList] }
def respWith (st : CertStatus) : Resp :=
  { respStatus := 0, typeBasic := true, basicParses := true,
    singles := [{ serial := 77, status := st, nextUpdate := none, criticalExt := false, hashKnown := true }],
    responderIdOk := true, embedded := none, signed := 11 }
def says (st : CertStatus) : Str → Cand → Fetch := fun _ _ => .body (.resp (respWith st))
def down : Str → Cand → Fetch := fun _ _ => .error
def inst100 : Inst := { strict := true, defaultDur := 100 }
def hist : List Event :=
  [.look inst100 certA [ca] (says .good), .advance 50, .look inst100 certA [ca] (says .revoked),
   .look inst100 certB [ca] down,
   .advance 40, .sweep, .look inst100 certA [ca] (says .revoked), .advance 20, .sweep,
   .look inst100 certA [ca] (says .revoked)]

example : (exec ocspFacts Vx {} hist).2.map (fun o => (o.t, o.hit, o.result, o.stored)) =
    [(0, false, .good, some 100), (50, true, .good, none), (50, false, .error, none), (90, true, .good, none),
     (110, false, .revoked, some 100)] := by decide
-- the table laws on the example: one item per key at the end; a touched item survives the check it would otherwise not
example : ((exec ocspFacts Vx {} hist).1.table.map Prod.fst).length = 1 := by decide
example : Cache.find? (Cache.sweep (Cache.add ([] : Cache.Table Nat Nat) 7 100 1 0) 100) 7 = none := by decide
example : (Cache.find? (Cache.sweep (Cache.touch (Cache.add ([] : Cache.Table Nat Nat) 7 100 1 0) 7 60) 100) 7).isSome = true := by
  decide
end Example

/-- The hand-written `Ocsp` model this property rests on was transcribed from exactly these sources: the fingerprints are
recomputed from /repo on every run (tools/extract/skeleton.go), so any change to one of the functions breaks this obligation. -/
theorem ocsp_sources_as_transcribed : Crv.Generated.skeletonOcsp = Crv.Skeleton.expectedOcsp :=
  Crv.Skeleton.ocsp_sources_as_transcribed

end Crv.Props.C14
