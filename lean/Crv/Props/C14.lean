import Crv.Ocsp
import Crv.Proofs.Skeleton
import Crv.Generated.Ocsp
import Crv.Proofs.OcspCache
/-!
C14 — OCSP cache soundness: right certificate, bounded lifetime.

Histories are arbitrary lists of events — time advances, expiration checks of cache2go firing (at any moments, or
never), `Cleanup` of some instance flushing the table, and lookups by any validator instance (each with its own
`ocsp_aia_strict` / `default_cache_duration`) for any certificate against any responder behaviour — run from the empty
process-global table. `exec ocspFacts V {} evs` returns the observations of the lookups in order. The cache is the
transcription of cache2go in `Crv/Cache.lean`, including `KeepAlive` on every `Value` (the sliding expiry).
Time is a natural number of milliseconds; `ocspFacts.maxClockSkew` is the regenerated constant in the same unit.
-/
namespace Crv.Props.C14
open Crv Crv.Ocsp Crv.Generated

theorem facts_canonical : ocspFacts = canon ocspFacts.maxClockSkew := by decide

private theorem transfer {P : Facts → Prop} (h : ∀ k, P (canon k)) : P ocspFacts := by
  have := h ocspFacts.maxClockSkew
  rwa [← facts_canonical] at this

variable (V : Key → Signed → Bool)

/-- The cache key determines issuer and serial: `issuer ++ "_" ++ decimal serial` is injective (the decimal rendering
has no underscore, so the split at the last underscore is unique). -/
theorem key_injective (c₁ c₂ : Cert) :
    mkKey ocspFacts c₁ = mkKey ocspFacts c₂ ↔ (c₁.issuer = c₂.issuer ∧ c₁.serial = c₂.serial) :=
  transfer (P := fun F => mkKey F c₁ = mkKey F c₂ ↔ (c₁.issuer = c₂.issuer ∧ c₁.serial = c₂.serial))
    (fun _ => mkKey_canon_inj)

/-- The lifetime of an entry as the code computes it when it stores. -/
theorem lifetime_formula (d s : Nat) (nu : Option Nat) :
    lifetime ocspFacts d s nu =
      match nu with
      | some n => if n > s then n - s + ocspFacts.maxClockSkew else d
      | none => d :=
  transfer (P := fun F => lifetime F d s nu =
      match nu with
      | some n => if n > s then n - s + F.maxClockSkew else d
      | none => d) (fun k => lifetime_canon k d s nu)

/-- `hit_same_cert`: a cache hit for certificate `c` returns the verdict obtained by an earlier lookup (a miss that was
answered by a responder) for a certificate with the same issuer and the same serial number. -/
theorem hit_same_cert (evs : List Event) (o : Obs) (ho : o ∈ (exec ocspFacts V {} evs).2) (hhit : o.hit = true) :
    ∃ o' ∈ (exec ocspFacts V {} evs).2, o'.seq < o.seq ∧ o'.hit = false ∧
      o'.cert.issuer = o.cert.issuer ∧ o'.cert.serial = o.cert.serial ∧ o.result = o'.result := by
  revert ho
  refine transfer (P := fun F => o ∈ (exec F V {} evs).2 →
    ∃ o' ∈ (exec F V {} evs).2, o'.seq < o.seq ∧ o'.hit = false ∧
      o'.cert.issuer = o.cert.issuer ∧ o'.cert.serial = o.cert.serial ∧ o.result = o'.result) ?_
  intro k ho
  obtain ⟨o', ho', hseq, hmiss, hkey, _, _, _, _, hres⟩ := (run_ok V k evs o ho).1 hhit
  obtain ⟨hi, hs⟩ := mkKey_canon_inj.mp hkey
  exact ⟨o', ho', hseq, hmiss, hi, hs, hres⟩

/-- `hit_within_lifetime`: a hit at time `t` is served from an entry stored at `s ≤ t` by a lookup that received an
accepted response `p`, and `t ≤ s + lifetime`, where lifetime = `nextUpdate − s + skew` if `nextUpdate > s`, else the
storing instance's default duration (`lifetime_formula`). This holds for every access pattern: however often the entry
is read (each read renews cache2go's idle timer) and whenever or whether the expiration check runs. -/
theorem hit_within_lifetime (evs : List Event) (o : Obs) (ho : o ∈ (exec ocspFacts V {} evs).2) (hhit : o.hit = true) :
    ∃ o' ∈ (exec ocspFacts V {} evs).2, ∃ p, o'.seq < o.seq ∧ o'.hit = false ∧ o'.answered = some p ∧
      o'.t ≤ o.t ∧ o.t ≤ o'.t + lifetime ocspFacts o'.inst.defaultDur o'.t p.nextUpdate ∧
      o.result = verdictOf p := by
  revert ho
  refine transfer (P := fun F => o ∈ (exec F V {} evs).2 →
    ∃ o' ∈ (exec F V {} evs).2, ∃ p, o'.seq < o.seq ∧ o'.hit = false ∧ o'.answered = some p ∧
      o'.t ≤ o.t ∧ o.t ≤ o'.t + lifetime F o'.inst.defaultDur o'.t p.nextUpdate ∧ o.result = verdictOf p) ?_
  intro k ho
  obtain ⟨o', ho', hseq, hmiss, _, L, hsto, hle, hle2, hres⟩ := (run_ok V k evs o ho).1 hhit
  obtain ⟨p, hans, _, hL, _, hres'⟩ := (run_ok V k evs o' ho').2.1 L hsto
  exact ⟨o', ho', p, hseq, hmiss, hans, hle, by rw [← hL]; exact hle2, by rw [hres, hres']⟩

/-- `zero_default_no_cache`: with a zero default duration and no usable nextUpdate (absent or not in the future) the
lookup stores nothing. -/
theorem zero_default_no_cache (evs : List Event) (o : Obs) (ho : o ∈ (exec ocspFacts V {} evs).2)
    (hzero : o.inst.defaultDur = 0)
    (hnu : ∀ p, o.answered = some p → ∀ n, p.nextUpdate = some n → n ≤ o.t) :
    o.stored = none := by
  revert ho
  refine transfer (P := fun F => o ∈ (exec F V {} evs).2 → o.stored = none) ?_
  intro k ho
  cases hs : o.stored with
  | none => rfl
  | some L =>
    exfalso
    obtain ⟨p, hans, _, hL, hpos, _⟩ := (run_ok V k evs o ho).2.1 L hs
    rw [lifetime_canon, hzero] at hL
    cases hn : p.nextUpdate with
    | none => rw [hn] at hL; simp only at hL; omega
    | some n =>
      rw [hn] at hL
      have := hnu p hans n hn
      simp only at hL
      split at hL <;> omega

/-- …and therefore a certificate all of whose lookups run with zero default duration and without usable nextUpdate is
never served from the cache: every call goes to the responders again. -/
theorem zero_default_never_hit (evs : List Event) (c : Cert)
    (hall : ∀ o ∈ (exec ocspFacts V {} evs).2, o.cert.issuer = c.issuer → o.cert.serial = c.serial →
      o.inst.defaultDur = 0 ∧ ∀ p, o.answered = some p → ∀ n, p.nextUpdate = some n → n ≤ o.t)
    (o : Obs) (ho : o ∈ (exec ocspFacts V {} evs).2) (hi : o.cert.issuer = c.issuer) (hs : o.cert.serial = c.serial) :
    o.hit = false := by
  cases hh : o.hit with
  | false => rfl
  | true =>
    exfalso
    have key : ∀ x ∈ (exec ocspFacts V {} evs).2, x.cert.issuer = c.issuer → x.cert.serial = c.serial → x.stored = none :=
      fun x hx h1 h2 => zero_default_no_cache V evs x hx (hall x hx h1 h2).1 (hall x hx h1 h2).2
    revert ho hh key
    refine transfer (P := fun F => o ∈ (exec F V {} evs).2 → o.hit = true →
      (∀ x ∈ (exec F V {} evs).2, x.cert.issuer = c.issuer → x.cert.serial = c.serial → x.stored = none) → False) ?_
    intro k ho hh key
    obtain ⟨w, hw, _, _, hkey, L, hsto, _⟩ := (run_ok V k evs o ho).1 hh
    obtain ⟨h1, h2⟩ := mkKey_canon_inj.mp hkey
    have := key w hw (by rw [h1, hi]) (by rw [h2, hs])
    rw [this] at hsto
    cases hsto

/-- `failures_not_cached`: a lookup that no responder answered with an accepted response (all fetches failed, or
everything that came back was rejected) stores nothing — whatever its verdict (accept, or error under strict). -/
theorem failures_not_cached (evs : List Event) (o : Obs) (ho : o ∈ (exec ocspFacts V {} evs).2)
    (hfail : o.answered = none) : o.stored = none := by
  revert ho
  refine transfer (P := fun F => o ∈ (exec F V {} evs).2 → o.stored = none) ?_
  intro k ho
  exact (run_ok V k evs o ho).2.2 hfail

/-- What is stored, is stored with the computed lifetime, only when it is positive. -/
theorem stored_lifetime (evs : List Event) (o : Obs) (ho : o ∈ (exec ocspFacts V {} evs).2) (L : Nat)
    (hs : o.stored = some L) :
    ∃ p, o.answered = some p ∧ o.hit = false ∧ L = lifetime ocspFacts o.inst.defaultDur o.t p.nextUpdate ∧ 0 < L := by
  revert ho
  refine transfer (P := fun F => o ∈ (exec F V {} evs).2 →
    ∃ p, o.answered = some p ∧ o.hit = false ∧ L = lifetime F o.inst.defaultDur o.t p.nextUpdate ∧ 0 < L) ?_
  intro k ho
  obtain ⟨p, h1, h2, h3, h4, _⟩ := (run_ok V k evs o ho).2.1 L hs
  exact ⟨p, h1, h2, h3, h4⟩

/-! Non-vacuity: default 100 ms; responder says good, then flips to revoked; the certificate is read every 40–50 ms.
Reads at 50 and 90 are hits; the read at 110 — only 20 ms after the previous one, so cache2go still holds the item —
is a miss because the absolute expiry passed, and sees `revoked`. A second certificate of another issuer with the same
subject and serial never shares the entry. -/
section Example
def Vx : Key → Signed → Bool := fun k s => k == s
def ca : Cand := { certId := 1, key := 11 }
def certA : Cert := { issuer := "CN=ca A".toList, subject := "CN=leaf".toList, serial := 77, servers := ["http://r/".toList] }
def certB : Cert := { issuer := "CN=ca B".toList, subject := "CN=leaf".toList, serial := 77, servers := ["http://r/".toList] }
def respWith (st : CertStatus) : Resp :=
  { respStatus := 0, typeBasic := true, basicParses := true,
    singles := [{ serial := 77, status := st, nextUpdate := none, criticalExt := false, hashKnown := true }],
    responderIdOk := true, embedded := none, signed := 11 }
def says (st : CertStatus) : Str → Cand → Fetch := fun _ _ => .body (.resp (respWith st))
def down : Str → Cand → Fetch := fun _ _ => .error
def inst100 : Inst := { strict := true, defaultDur := 100 }
def hist : List Event :=
  [.look inst100 certA [ca] (says .good), .advance 50, .look inst100 certA [ca] (says .revoked),
   .look inst100 certB [ca] down,
   .advance 40, .sweep, .look inst100 certA [ca] (says .revoked), .advance 20, .sweep,
   .look inst100 certA [ca] (says .revoked)]

example : (exec ocspFacts Vx {} hist).2.map (fun o => (o.t, o.hit, o.result, o.stored)) =
    [(0, false, .good, some 100), (50, true, .good, none), (50, false, .error, none), (90, true, .good, none),
     (110, false, .revoked, some 100)] := by decide
end Example

/-- The hand-written `Ocsp` model this property rests on was transcribed from exactly these sources: the fingerprints are
recomputed from /repo on every run (tools/extract/skeleton.go), so any change to one of the functions breaks this obligation. -/
theorem ocsp_sources_as_transcribed : Crv.Generated.skeletonOcsp = Crv.Skeleton.expectedOcsp :=
  Crv.Skeleton.ocsp_sources_as_transcribed

end Crv.Props.C14
