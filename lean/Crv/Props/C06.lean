import Crv.Proofs.ReaderRoundTrip
import Crv.Proofs.Skeleton
import Crv.Props.C06Pem
import Crv.ReaderFile
import Crv.Props.C06Chunk
/-!
C06 — the streaming reader agrees with the whole-document encoding, for every document of the
supported profile (`WF`): every entry count, every length size class, v1/v2, with or without
nextUpdate / revokedCertificates / crlExtensions. `enc d` is the DER document; the reader model
(`readCRL`) is instantiated with the caps, masks and guards regenerated from the source on every run.
Leaf decoding is the `Oracle` (real `encoding/asn1`, tied by the correspondence check).
-/
namespace Crv.Props.C06
open Crv Crv.Generated

/-- **Round trip.** Reading `enc d` succeeds, hands the consumer exactly `eventsOf d` (start with issuer and
times, every entry in order, CRL number), reports the signature bits and extension list, consumes the whole
document, and the hashed region is exactly the DER tbsCertList (header included, nothing before or after). -/
theorem read_enc (O : Oracle) (d : Doc) (oid : List Nat) (h : HashAlg) (es : Option (List Ext)) (num : Option Nat)
    (wf : WF O d oid h es num) :
    (readCRL O (enc d)).events = eventsOf d num ∧
    (readCRL O (enc d)).finalPos = (enc d).length ∧
    ∃ res, (readCRL O (enc d)).outcome = .ok res ∧ res = resultOf d oid h es := by
  obtain ⟨c', hpre⟩ := det_prescan O d oid h es num wf
  obtain ⟨r1, hp, _⟩ := hpre { rest := enc d } rfl
  obtain ⟨r2, hb, hc⟩ := det_readBody O d oid h es num wf { rest := enc d } rfl
  unfold readCRL
  simp only [hp, hb]
  have hev : r2.events = eventsOf d num := by
    have := congrArg Core.events hc; simpa [Rd.core] using this
  have hpos : r2.pos = (enc d).length := by
    have := congrArg Core.pos hc; simpa [Rd.core] using this
  exact ⟨hev, hpos, _, rfl, rfl⟩

/-- The digest input is the DER tbsCertList: any hash function applied to the reported region equals the
hash of `encTbs d`, under the hash the CRL's own algorithm identifier declares. -/
theorem digest_is_over_tbs (O : Oracle) (d : Doc) (oid : List Nat) (h : HashAlg) (es : Option (List Ext)) (num : Option Nat)
    (wf : WF O d oid h es num) (hashFn : HashAlg → Bytes → Bytes) :
    ∃ res, (readCRL O (enc d)).outcome = .ok res ∧
      hashFn res.hashAlg res.hashRegion = hashFn h (encTbs d) ∧ lookupHash oid = some res.hashAlg := by
  obtain ⟨_, _, res, hres, heq⟩ := read_enc O d oid h es num wf
  refine ⟨res, hres, ?_, ?_⟩
  · rw [heq]; rfl
  · rw [heq]; exact wf.hashOk

/-- Every entry of the document reaches the consumer, in order, wherever it sits and however many there are. -/
theorem entries_in_order (O : Oracle) (d : Doc) (oid : List Nat) (h : HashAlg) (es : Option (List Ext)) (num : Option Nat)
    (wf : WF O d oid h es num) (l : List Bytes) (hl : d.entries = some l) :
    (readCRL O (enc d)).events =
      [.start (seqOf d.issuer) d.thisUpdate d.nextUpdate] ++ l.map (fun e => Event.insert (seqOf e)) ++ [.extMeta num] := by
  rw [(read_enc O d oid h es num wf).1]
  simp only [eventsOf, hl, entryEvents]

theorem entry_reaches_consumer (O : Oracle) (d : Doc) (oid : List Nat) (h : HashAlg) (es : Option (List Ext)) (num : Option Nat)
    (wf : WF O d oid h es num) (l : List Bytes) (hl : d.entries = some l) (e : Bytes) (he : e ∈ l) :
    Event.insert (seqOf e) ∈ (readCRL O (enc d)).events := by
  rw [entries_in_order O d oid h es num wf l hl]
  simp only [List.mem_append, List.mem_map, List.mem_cons, List.mem_singleton]
  exact Or.inl (Or.inr ⟨e, he, rfl⟩)

/-- No entry list ⇒ no insert event (v1 CRLs and CRLs without extensions included). -/
theorem no_entries_no_inserts (O : Oracle) (d : Doc) (oid : List Nat) (h : HashAlg) (es : Option (List Ext)) (num : Option Nat)
    (wf : WF O d oid h es num) (hl : d.entries = none) :
    (readCRL O (enc d)).events = [.start (seqOf d.issuer) d.thisUpdate d.nextUpdate, .extMeta num] := by
  rw [(read_enc O d oid h es num wf).1]
  simp only [eventsOf, hl, List.append_nil, List.cons_append, List.nil_append]

theorem criticalGate_sound (es : List Ext) (hg : criticalGate es = true) :
    ∀ e ∈ es, e.critical = true → e.oid ∈ handledCriticalOids := by
  induction es with
  | nil => intro e he; cases he
  | cons x xs ih =>
    intro e he hc
    simp only [criticalGate, Bool.and_eq_true, Bool.or_eq_true, Bool.not_eq_true'] at hg
    rcases List.mem_cons.mp he with rfl | hmem
    · rcases hg.1 with hf | hh
      · rw [hc] at hf; cases hf
      · simpa using hh
    · exact ih hg.2 e hmem hc

/-- **Critical-extension gate, for every input:** whenever a read succeeds, every critical extension the leaf
decoder reported has a handled OID. A CRL with an unimplemented critical extension is therefore never accepted. -/
theorem critical_gate (O : Oracle) (file : Bytes) (res : ReadResult) (hok : (readCRL O file).outcome = .ok res)
    (es : List Ext) (hes : res.exts = some es) :
    ∀ e ∈ es, e.critical = true → e.oid ∈ handledCriticalOids := by
  have hg : criticalGate es = true := by
    unfold readCRL at hok
    cases hp : prescan O { rest := file } with
    | err e r => simp [hp] at hok
    | panic r => simp [hp] at hok
    | ok p r1 =>
      obtain ⟨oid, frame⟩ := p
      simp only [hp] at hok
      have h2 := holds_readBody_gate O oid frame { rest := file } (allocOK_init file)
      cases hb : readBody O oid frame { rest := file } with
      | ok res' r2 =>
        simp only [hb] at hok h2
        cases hok
        exact h2.2 es hes
      | err e r2 => simp [hb] at hok
      | panic r2 => simp [hb] at hok
  exact criticalGate_sound es hg

/-- The handled set is what the source says. -/
theorem handled_set : handledCriticalOids = [[2, 5, 29, 20], [2, 5, 29, 35]] := by decide

/-- Version values: `versionOf` does not wrap and the limit is v2. -/
theorem version_no_wrap (b : UInt8) : versionOf b = b.toNat + 1 := rfl
theorem version_limit : maxVersion = 2 := rfl

-- Non-vacuity: a concrete v2 document with two entries and extensions satisfies `WF` for a concrete oracle.
def exOracle : Oracle :=
  { algOid := fun _ => some [1, 2, 840, 113549, 1, 1, 11], rdnOk := fun _ => true, utcOk := fun _ => true,
    entryOk := fun _ => true, exts := fun _ => some [⟨[2, 5, 29, 20], false, [2, 1, 7]⟩] }

def exDoc : Doc :=
  { version := some 1, innerAlg := [6, 1, 42], issuer := [49, 0], thisUpdate := [50, 52], nextUpdate := some [50, 53],
    entries := some [[2, 1, 5, 23, 0], [2, 1, 6, 23, 0]], exts := some [48, 0], outerAlg := [6, 1, 42], sig := [1, 2, 3] }

theorem exDoc_wf : WF exOracle exDoc [1, 2, 840, 113549, 1, 1, 11] .sha256
    (some [⟨[2, 5, 29, 20], false, [2, 1, 7]⟩]) (some 7) :=
  { versionOk := by decide, extsV2 := by decide, innerLen := by decide, issuerLen := by decide, thisLen := by decide
    nextLen := by intro t h; cases h; decide
    entryLen := by
      intro l h e he; cases h
      simp only [List.mem_cons, List.not_mem_nil, or_false] at he
      rcases he with rfl | rfl <;> decide
    extsLen := by intro x h; cases h; decide
    outerLen := by decide, sigLen := by decide, total := by decide
    algSame := rfl, algOk := rfl, hashOk := by decide, issuerOk := rfl, thisOk := rfl
    nextOk := by intro t _; rfl
    entriesOk := by intro l _ e _; rfl
    extsOk := ⟨_, rfl, rfl, by decide, by decide⟩ }

example : (readCRL exOracle (enc exDoc)).events =
    [.start (seqOf [49, 0]) [50, 52] (some [50, 53]), .insert (seqOf [2, 1, 5, 23, 0]), .insert (seqOf [2, 1, 6, 23, 0]),
     .extMeta (some 7)] :=
  (read_enc exOracle exDoc _ _ _ _ exDoc_wf).1

/-- **Encoding independence.** The PEM form (64-column base64 between BEGIN/END lines, LF or CRLF) of every document of the
profile is detected as PEM and read exactly like its DER form; a DER file is read as it is. With `read_enc` this gives the
round trip for all three encodings. -/
theorem read_pem_enc (O : Oracle) (d : Doc) (crlf : Bool) (label : List UInt8) (hl : Pem.labelOk label)
    (hlen : label.length ≤ 4078) :
    readCRLFile O (Pem.pemEncode crlf label (enc d)) = readCRL O (enc d) := by
  unfold readCRLFile fileBytes
  rw [C06.Pem.pem_detected crlf label (enc d) hl hlen]
  simp only [↓reduceIte]
  rw [C06.Pem.pem_round_trip crlf label (enc d) hl]

theorem read_der_enc (O : Oracle) (d : Doc) : readCRLFile O (enc d) = readCRL O (enc d) := by
  unfold readCRLFile fileBytes
  have h : ∃ t, enc d = 0x30 :: t := ⟨_, rfl⟩
  obtain ⟨t, ht⟩ := h
  rw [ht, C06.Pem.der_not_pem t]
  simp

/-- LF and CRLF PEM files of the same document are read alike (whatever the document). -/
theorem read_pem_lf_crlf (O : Oracle) (der label : List UInt8) (hl : Pem.labelOk label) (hlen : label.length ≤ 4078) :
    readCRLFile O (Pem.pemEncode true label der) = readCRLFile O (Pem.pemEncode false label der) := by
  unfold readCRLFile fileBytes
  rw [C06.Pem.pem_detected true label der hl hlen, C06.Pem.pem_detected false label der hl hlen]
  simp only [↓reduceIte]
  rw [C06.Pem.pem_round_trip true label der hl, C06.Pem.pem_round_trip false label der hl]

/-- The hand-written `Reader` model this property rests on was transcribed from exactly these sources: the fingerprints are
recomputed from /repo on every run (tools/extract/skeleton.go), so any change to one of the functions breaks this obligation. -/
theorem reader_sources_as_transcribed : Crv.Generated.skeletonReader = Crv.Skeleton.expectedReader :=
  Crv.Skeleton.reader_sources_as_transcribed

/-- The hand-written `Pem` model this property rests on was transcribed from exactly these sources: the fingerprints are
recomputed from /repo on every run (tools/extract/skeleton.go), so any change to one of the functions breaks this obligation. -/
theorem pem_sources_as_transcribed : Crv.Generated.skeletonPem = Crv.Skeleton.expectedPem :=
  Crv.Skeleton.pem_sources_as_transcribed

/-- The hand-written `Chunk` model this property rests on was transcribed from exactly these sources: the fingerprints are
recomputed from /repo on every run (tools/extract/skeleton.go), so any change to one of the functions breaks this obligation. -/
theorem chunk_sources_as_transcribed : Crv.Generated.skeletonChunk = Crv.Skeleton.expectedChunk :=
  Crv.Skeleton.chunk_sources_as_transcribed

end Crv.Props.C06
