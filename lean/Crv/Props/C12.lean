import Crv.Disk
import Crv.Proofs.Skeleton
import Crv.Generated.Paths
import Crv.Proofs.Paths
import Crv.Proofs.PathsOps
import Crv.Proofs.Disk
import Crv.Proofs.PathsWalk
/-!
C12 — Crash consistency of disk storage.

All statements are about `loadSteps` / `refreshSteps` compiled from the programs the translator regenerates from
`loadCRL`, `updateCrlEntry` and `LevelDbStore.Update` (`Crv.Generated.pathFacts`), for every document (any number of
entries), every signature outcome and mode, and every crash point `k` (a prefix of the step list).

Partial by nature (named in the claim): `Put`, `rename`, `mkdir`, `RemoveAll` are atomic and durable against *process*
death; power-loss ordering between them and LevelDB's own log recovery are trusted, not modelled.
-/
namespace Crv.Props.C12
open Crv.Paths Crv.Disk Crv.Generated

/-- Hypotheses about the names of one operation: the download file, the staged store and the moved-aside store carry
temp-pattern names that are new in work_dir and pairwise different; the live store name does not match the pattern
(for the real 64-hex names this is `C20.sweep_spares_live`). -/
structure CrashCtx (sc : Scn) (fs : Fs) : Prop where
  names : NamesOk sc (Fs.get fs)
  tT : matchesTemp pathFacts sc.t = true
  sT : matchesTemp pathFacts sc.s = true
  aT : matchesTemp pathFacts sc.a = true
  idN : matchesTemp pathFacts sc.id = false

/-- Common core: after a crash at any point of a load or refresh and the restart, the live store holds what it held
before, or nothing (a fresh empty database), or the complete staged image of the document the run had accepted. -/
theorem crash_image {sc : Scn} {withLoc : Bool} {steps : List Step} (S : Shape sc withLoc steps) (fs : Fs)
    (c : CrashCtx sc fs) (old : DbImage) (hlive : Fs.get fs sc.id = some (.dir old)) (k : Nat) :
    let fs' := restart pathFacts sc.id (crashAt k steps fs)
    image fs' sc.id = some old ∨ image fs' sc.id = some [] ∨
      ∃ d, accepted sc = some d ∧ image fs' sc.id = some (stagedOf sc d withLoc) := by
  intro fs'
  have hi := image_restart pathFacts sc.id (crashAt k steps fs) c.idN
  have hg : Fs.get (crashAt k steps fs) = runF (steps.take k) (Fs.get fs) := get_run _ _
  rw [hg] at hi
  rcases S.prefix_live (Fs.get fs) c.names (.dir old) hlive k with h | h | ⟨d, _, ha, h⟩
  · left; show image (restart _ _ _) _ = _; rw [hi, h]
  · right; left; show image (restart _ _ _) _ = _; rw [hi, h]
  · right; right; exact ⟨d, ha, by show image (restart _ _ _) _ = _; rw [hi, h]⟩

/-- **Refresh.** If the process dies at any instant of a refresh, then after restart the location is treated as loaded
only if the directory holds the previous image, or the complete image of the new document, and the latter only if the
run had accepted it under the configured signature policy. -/
theorem crash_refresh (sc : Scn) (fs : Fs) (c : CrashCtx sc fs) (old : DbImage)
    (hlive : Fs.get fs sc.id = some (.dir old)) (k : Nat) :
    let fs' := restart pathFacts sc.id (crashAt k (refreshSteps pathFacts sc) fs)
    loaded fs' sc.id = true →
      image fs' sc.id = some old ∨
      ∃ d, accepted sc = some d ∧ image fs' sc.id = some (fullImage sc.loc d (sc.sigChecked && d.sigOk)) := by
  intro fs' hl
  rcases crash_image (refresh_shape sc) fs c old hlive k with h | h | ⟨d, ha, h⟩
  · exact Or.inl h
  · exfalso
    have h' : image fs' sc.id = some [] := h
    unfold loaded imageLoaded at hl
    unfold image at h'
    cases hg : Fs.get fs' sc.id with
    | none => simp [hg] at hl
    | some x => cases x <;> simp_all [DbImage.get]
  · exact Or.inr ⟨d, ha, h⟩

/-- The new image is complete: it is marked loaded and lists exactly the serials of the accepted document. -/
theorem complete_image_answers (loc : Nat) (d : Doc) (signed : Bool) :
    ((fullImage loc d signed).get .metaInfo).isSome = true ∧ ∀ x, listed (fullImage loc d signed) x = true ↔ x ∈ d.serials := by
  let sc : Scn := { disk := true, sigChecked := true, sigRequired := true, origin := .down, id := [], hasLoc := true, loc := loc,
                    t := [], s := [], a := [] }
  exact ⟨stagedImage_loaded sc d true signed, fun x => stagedImage_listed sc d true signed x⟩

/-- **First load** (staged since 4e6191e). The live directory exists but carries no meta record (at most the
locations record). Whatever the crash point: after restart the location counts as loaded only if the directory holds the
complete image of the document, and the run had accepted it. In particular partially streamed or rejected data is never
consulted. -/
theorem crash_first_load (sc : Scn) (fs : Fs) (c : CrashCtx sc fs) (live : DbImage)
    (hlive : Fs.get fs sc.id = some (.dir live)) (hnot : live.get .metaInfo = none) (k : Nat) :
    let fs' := restart pathFacts sc.id (crashAt k (loadSteps pathFacts sc) fs)
    loaded fs' sc.id = true →
      ∃ d, accepted sc = some d ∧ image fs' sc.id = some (stagedImage sc d sc.hasLoc (sc.sigChecked && d.sigOk)) := by
  intro fs' hl
  have key : ∀ img, image fs' sc.id = some img → img.get .metaInfo = none → False := by
    intro img hi hm
    unfold loaded imageLoaded at hl
    unfold image at hi
    cases hg : Fs.get fs' sc.id with
    | none => simp [hg] at hl
    | some x =>
      cases x with
      | file => simp [hg] at hl
      | dir i => simp [hg] at hl hi; subst hi; simp [hm] at hl
  rcases crash_image (load_shape sc) fs c live hlive k with h | h | ⟨d, ha, h⟩
  · exact (key _ h hnot).elim
  · exact (key _ h rfl).elim
  · exact ⟨d, ha, h⟩

/-- **Rejected or failed run** (origin down, parse error after any number of records, bad signature under `verify`):
at every crash point the restarted work_dir is exactly the restarted work_dir of before — all the run ever had was a
download file and a staged directory, both carrying temp names that the startup sweep removes. -/
theorem crash_rejected_leaves_nothing (sc : Scn) (fs : Fs) (c : CrashCtx sc fs) (ha : accepted sc = none)
    (steps : List Step) (hs : steps = loadSteps pathFacts sc ∨ steps = refreshSteps pathFacts sc) (k : Nat) (n : Name) :
    Fs.get (restart pathFacts sc.id (crashAt k steps fs)) n = Fs.get (restart pathFacts sc.id fs) n := by
  have hrun : ∀ m, m ∉ [sc.t, sc.s] → Fs.get (crashAt k steps fs) m = Fs.get fs m := by
    intro m hm
    have hg : Fs.get (crashAt k steps fs) = runF (steps.take k) (Fs.get fs) := get_run _ _
    rw [hg]
    rcases hs with e | e <;> subst e
    · exact (load_shape sc).prefix_rejected ha _ k m hm
    · exact (refresh_shape sc).prefix_rejected ha _ k m hm
  by_cases hid : n = sc.id
  · subst hid
    rw [restart_live _ _ _ c.idN, restart_live _ _ _ c.idN, hrun]
    simp only [List.mem_cons, List.not_mem_nil, or_false, not_or]
    exact ⟨fun e => c.names.tid e.symm, fun e => c.names.sid e.symm⟩
  · cases hm : matchesTemp pathFacts n with
    | true => rw [restart_temp _ _ _ _ hm c.idN, restart_temp _ _ _ _ hm c.idN]
    | false =>
      rw [restart_other _ _ _ _ hm hid, restart_other _ _ _ _ hm hid, hrun]
      simp only [List.mem_cons, List.not_mem_nil, or_false, not_or]
      constructor
      · intro e; rw [e, c.tT] at hm; cases hm
      · intro e; rw [e, c.sT] at hm; cases hm

/-- **Startup sweep.** After restart no name matching the temp pattern remains, every other name keeps its node
(no live store is removed: their names never match, `C20.sweep_spares_live`), and the location's own directory is kept
if it was there. -/
theorem sweep_clean (id : Name) (fs : Fs) (hid : matchesTemp pathFacts id = false) :
    (∀ n, matchesTemp pathFacts n = true → Fs.get (restart pathFacts id fs) n = none) ∧
    (∀ n, matchesTemp pathFacts n = false → n ≠ id → Fs.get (restart pathFacts id fs) n = Fs.get fs n) ∧
    (∀ x, Fs.get fs id = some x → Fs.get (restart pathFacts id fs) id = some x) := by
  refine ⟨fun n hn => restart_temp _ _ _ _ hn hid, fun n hn hne => restart_other _ _ _ _ hn hne, ?_⟩
  intro x hx
  rw [restart_live _ _ _ hid, hx]

/-! ### The clean-up is a `filepath.Walk`

`sweep` — the filter every statement of this file is about — is an idealisation of `DeleteTempFilesIfExist`, which walks
work_dir with a callback. `startupSweep` is that walk (children in byte-wise lexical order, `SkipDir` semantics of
`filepath.Walk`) with the two guards of the callback as the translator reads them from the source on every run. -/

/-- The callback as regenerated: `deleteIfTempFileOrDir` is called for every entry except work_dir itself, `SkipDir` is
returned for every directory except work_dir itself (and for nothing else). Any other shape breaks this obligation. -/
theorem walk_guards_canonical : walkDeleteGuard = "nonroot" ∧ walkSkipGuard = "dir-nonroot" :=
  Crv.Paths.walk_guards_canonical

/-- With that callback the walk never stops early: it visits every child of work_dir and removes exactly those whose
name matches the pattern, files and directories alike. -/
theorem walk_visits_every_child (F : Facts) (l : List (Name × Node)) :
    walkDeleted "nonroot" "dir-nonroot" F l = (l.filter (fun e => matchesTemp F e.1)).map (·.1) :=
  Crv.Paths.walk_visits_every_child F l

/-- **The walk of the source is the filter.** For every listing of work_dir, `DeleteTempFilesIfExist` with the
regenerated callback shape leaves exactly what `sweep` leaves. -/
theorem startup_walk_is_sweep (F : Facts) (fs : Fs) : startupSweep F fs = sweep F fs :=
  Crv.Paths.startup_walk_is_sweep F fs

/-- Hence `restart` (sweep, then the location's store is opened) is the restart with the real walk. -/
theorem restart_is_walk (id : Name) (fs : Fs) :
    restart pathFacts id fs = (Step.openStore id).apply (startupSweep pathFacts fs) := by
  rw [Crv.Paths.startup_walk_is_sweep]; rfl

/-- A callback that returns `SkipDir` for every entry, files included (guards "nonroot"/"nonroot"), is *not* the filter:
in a work_dir with a plain file "a" and a temp-named directory "crl_x_tmp" the file is visited first, `SkipDir` for a
non-directory makes Walk skip the rest of work_dir, and the temp-named directory survives (the walk changes nothing). -/
theorem skip_on_files_leaves_residue :
    walkSweep "nonroot" "nonroot" pathFacts residueFs = residueFs ∧
    walkSweep "nonroot" "nonroot" pathFacts residueFs ≠ sweep pathFacts residueFs :=
  Crv.Paths.skip_on_files_leaves_residue

/-- A callback that never returns `SkipDir` (guards "nonroot"/"never") is not the filter either: Walk descends into the
temp-named directory "crl_a_tmp" it has just removed, `lstat` fails there, the callback hands the error back and the walk
is over; the temp-named file "crl_b_tmp" behind it survives. (Without a temp-named *directory* in work_dir such a callback
does clean up: `Crv.Paths.walk_never_skip_without_temp_dirs`.) -/
theorem descent_into_removed_dir_leaves_residue :
    walkSweep "nonroot" "never" pathFacts abortFs = [([99, 114, 108, 95, 98, 95, 116, 109, 112], .file)] ∧
    sweep pathFacts abortFs = [] :=
  Crv.Paths.descent_into_removed_dir_leaves_residue

/-- At every crash point nothing outside the four names of the operation has changed (other locations' stores, foreign files). -/
theorem crash_others_untouched (sc : Scn) (fs : Fs) (steps : List Step)
    (hs : steps = loadSteps pathFacts sc ∨ steps = refreshSteps pathFacts sc) (k : Nat) (n : Name)
    (hn : n ∉ [sc.t, sc.s, sc.a, sc.id]) : Fs.get (crashAt k steps fs) n = Fs.get fs n := by
  have hg : Fs.get (crashAt k steps fs) = runF (steps.take k) (Fs.get fs) := get_run _ _
  rw [hg]
  rcases hs with e | e <;> subst e
  · exact (load_shape sc).prefix_others _ k n hn
  · exact (refresh_shape sc).prefix_others _ k n hn

/-! ### Non-vacuity: concrete scenarios, every crash point evaluated -/

section examples
def exOld : Doc := { tag := 1, serials := [10, 11], sigOk := true }
def exNew : Doc := { tag := 2, serials := [11, 12, 13], sigOk := true }
def exId : Name := hex [0xab, 0xcd]
def exScn (o : Origin) : Scn :=
  { disk := true, sigChecked := true, sigRequired := true, origin := o, id := exId, hasLoc := true, loc := 0,
    t := tmpName pathFacts 1, s := tmpName pathFacts 2, a := tmpName pathFacts 3 }
def exFs : Fs := [(exId, .dir (fullImage 0 exOld true))]

/-- the hypotheses of the theorems are satisfiable -/
example : CrashCtx (exScn (.doc exNew)) exFs :=
  { names := { ts := by decide, ta := by decide, sa := by decide, tid := by decide, sid := by decide, aid := by decide,
               ft := by decide, fs := by decide, fa := by decide },
    tT := by decide, sT := by decide, aT := by decide, idN := by decide }

/-- refresh with a good new document: the crash points yield old, not-loaded (between the renames) and new -/
example : ((List.range 40).map fun k =>
    let fs' := restart pathFacts exId (crashAt k (refreshSteps pathFacts (exScn (.doc exNew))) exFs)
    (probe fs' exId 10, probe fs' exId 12)).eraseDups
    = [(.revoked, .good), (.notLoaded, .notLoaded), (.good, .revoked)] := by decide

/-- refresh with a bad signature under verify: old at every crash point, and no temp name after restart -/
example : ((List.range 40).map fun k =>
    let fs' := restart pathFacts exId (crashAt k (refreshSteps pathFacts (exScn (.doc { exNew with sigOk := false }))) exFs)
    (probe fs' exId 10, probe fs' exId 12, fs'.names)).eraseDups = [(.revoked, .good, [exId])] := by decide
end examples

/-- The hand-written `Repo` model this property rests on was transcribed from exactly these sources: the fingerprints are
recomputed from /repo on every run (tools/extract/skeleton.go), so any change to one of the functions breaks this obligation. -/
theorem repo_sources_as_transcribed : Crv.Generated.skeletonRepo = Crv.Skeleton.expectedRepo :=
  Crv.Skeleton.repo_sources_as_transcribed

/-- The hand-written `Store` model this property rests on was transcribed from exactly these sources: the fingerprints are
recomputed from /repo on every run (tools/extract/skeleton.go), so any change to one of the functions breaks this obligation. -/
theorem store_sources_as_transcribed : Crv.Generated.skeletonStore = Crv.Skeleton.expectedStore :=
  Crv.Skeleton.store_sources_as_transcribed

end Crv.Props.C12
