import Crv.Proofs.ConfigClosed
import Crv.Props.C03
/-!
C19 — Configuration faithfulness: Caddyfile = JSON, documented defaults, nothing ignored.

All statements are about `Crv.Generated.configFacts`, the tables and step lists the translator
regenerates from caddyfile.go / configparser.go / revocation.go / config/config.go on every run,
interpreted by `Crv.Config`. `Env` (time.ParseDuration, os.Stat, certificate files, acceptability of
the configured CRLs) is universally quantified. Helper lemmas: `Crv.Proofs.Config`, `Crv.Proofs.ConfigClosed`.
-/
namespace Crv.Props.C19
open Crv Crv.Config Crv.Generated Crv.Config.Closed

local macro "c19_fin" : tactic => `(tactic|
  (simp only [*, optRes, Res.bind_ok, Res.bind_error, Res.bind_panic, Res.map_ok, Res.map_error, Res.map_panic] <;>
   (try (rename_i m; cases hce : crlEnabled m)) <;>
   simp [*, validateSpec, Effective.obs, crlSpec_init, ocspSpec_empty, initCrlEff] <;>
   (repeat' split) <;> simp_all [Effective.obs, crlSpec_init, ocspSpec_empty, initCrlEff]))

/-- **Caddyfile = JSON.** For all settings `c` (any subset of the eleven options, any values valid or not, lists of any
length) and any environment, loading the Caddyfile rendering (`UnmarshalCaddyfile` + `Provision`) and loading the JSON
form (`json.Unmarshal` + `Provision`) end in the same class (ok / error / panic) and, when ok, in the same validator.
`Effective.obs` compares the CRL part only when the mode enables CRL checking: without a `crl_config` JSON leaves
`CRLConfig` nil while the Caddyfile path leaves a default struct; in that situation both fail validation if CRL
checking is on, and nothing reads the struct if it is off (C03 `verify_consulted`, `crlProvisionIfEnabled`). -/
theorem caddyfile_eq_json (env : Env) (c : Cfg) :
    (loadCaddyfile Fx env (renderCaddyfile c)).map (Effective.obs crlEnabled) =
    (loadJSON L env (jsonOf c)).map (Effective.obs crlEnabled) := by
  rw [loadCaddyfile_render, loadJSON_closed]
  unfold provisionSpec
  simp only [validate_closed, parseCrl_closed, parseOcsp_closed]
  rcases c with ⟨mode, crl, ocsp⟩
  simp only [caddyOf, jsonOf, Option.map, show L.nilOcspDefault = { cacheNs := 0, responders := [], aiaStrict := false } from rfl]
  have hCp := crlSpec_ne_panic env
  have hOp := ocspSpec_ne_panic env
  rcases crl with _ | d
  · rcases ocsp with _ | o
    · rcases hm : parseMode (mode.getD "") with _ | m
      · c19_fin
      · c19_fin
    · rcases hO : ocspSpec env (jsonOfOcsp o) with eo | _ | _
      · rcases hm : parseMode (mode.getD "") with _ | m <;> c19_fin
      · rcases hm : parseMode (mode.getD "") with _ | m <;> c19_fin
      · exact absurd hO (hOp _)
  · rcases hC : crlSpec env (jsonOfCrl d) with e | _ | _
    · rcases ocsp with _ | o
      · rcases hm : parseMode (mode.getD "") with _ | m <;> c19_fin
      · rcases hO : ocspSpec env (jsonOfOcsp o) with eo | _ | _
        · rcases hm : parseMode (mode.getD "") with _ | m <;> c19_fin
        · rcases hm : parseMode (mode.getD "") with _ | m <;> c19_fin
        · exact absurd hO (hOp _)
    · rcases ocsp with _ | o
      · rcases hm : parseMode (mode.getD "") with _ | m <;> c19_fin
      · rcases hO : ocspSpec env (jsonOfOcsp o) with eo | _ | _
        · rcases hm : parseMode (mode.getD "") with _ | m <;> c19_fin
        · rcases hm : parseMode (mode.getD "") with _ | m <;> c19_fin
        · exact absurd hO (hOp _)
    · exact absurd hC (hCp _)


/-! ### Documented defaults, and every given option takes effect -/

theorem loadJSON_ok_iff (env : Env) (raw : RawCfg) (e : Effective) :
    loadJSON L env raw = .ok e ↔ Loaded env raw e := by
  rw [loadJSON_closed, provisionSpec_ok_iff]
  simp

theorem loadCaddyfile_ok_iff (env : Env) (c : Cfg) (e : Effective) :
    loadCaddyfile Fx env (renderCaddyfile c) = .ok e ↔ Loaded env (caddyOf c) e := by
  rw [loadCaddyfile_render]
  simp only [Res.bind_eq_ok, optRes_eq_ok, validate_closed, provisionSpec_ok_iff]
  constructor
  · rintro ⟨m, _, _, _, h, _⟩
    exact h
  · intro h
    have hm : parseMode (c.mode.getD "") = some e.mode := h.mode
    refine ⟨e.mode, hm, (), (validateSpec_ok_iff _ _ _).mpr h.workDir, h, fun x => x⟩

/-- **Defaults and effect of the given options** (both syntaxes, via `loadJSON_ok_iff` / `loadCaddyfile_ok_iff`):
in a loaded validator an omitted option (empty string / absent block) has the documented default, a given
one its parsed value; the strict flags are the configured booleans. -/
theorem loaded_documented (env : Env) (raw : RawCfg) (e : Effective) (h : Loaded env raw e) :
    parseMode raw.mode = some e.mode ∧ (raw.mode = "" → e.mode = .preferOCSP) ∧
    (∀ c, raw.crl = some c → ∃ ec, e.crl = some ec ∧
        ec.workDir = c.workDir ∧ ec.urls = c.urls ∧ ec.files = c.files ∧ ec.signers = c.signers ∧
        parseStorageType c.storage = some ec.storage ∧ (c.storage = "" → ec.storage = .disk) ∧
        (c.interval ≠ "" → env.dur c.interval = some ec.intervalNs) ∧
        (c.interval = "" → ec.intervalNs = 30 * 60 * 1000000000) ∧ 0 < ec.intervalNs ∧
        parseSignatureValidationMode c.sigMode = some ec.sigMode ∧ (c.sigMode = "" → ec.sigMode = .verify) ∧
        (c.cdp = none → ec.cdp = some ⟨.actively, false⟩) ∧
        (∀ d, c.cdp = some d → ∃ m, ec.cdp = some ⟨m, d.strict⟩ ∧ parseCRLFetchMode d.fetchMode = some m ∧
          (d.fetchMode = "" → m = .actively))) ∧
    (raw.ocsp = none → e.ocsp = some ⟨0, [], false⟩) ∧
    (∀ o, raw.ocsp = some o → ∃ eo, e.ocsp = some eo ∧ eo.responders = o.responders ∧ eo.aiaStrict = o.aiaStrict ∧
        (o.cacheDuration ≠ "" → env.dur o.cacheDuration = some eo.cacheNs) ∧ (o.cacheDuration = "" → eo.cacheNs = 0)) := by
  refine ⟨h.mode, ?_, ?_, ?_, ?_⟩
  · intro hm
    have := h.mode
    rw [hm] at this
    exact (Option.some.inj this).symm
  · intro c hc
    have := h.crl
    rw [hc] at this
    obtain ⟨ec, h1, h2⟩ := this
    obtain ⟨a1, a2, a3, a4, a5, a6, a7, _, a9⟩ := crlSpec_ok env c ec h2
    refine ⟨ec, h1, a1, a2, a3, a4, a6, ?_, ?_, ?_, crlSpec_interval_pos env c ec h2, a5, ?_, ?_, ?_⟩
    · intro hs; rw [hs] at a6; exact (Option.some.inj a6).symm
    · intro hs; rcases a7 with ⟨h, _⟩ | ⟨_, h, _⟩
      · exact absurd h hs
      · exact h
    · intro hs; rcases a7 with ⟨_, h⟩ | ⟨h, _⟩
      · rw [h]; rfl
      · exact absurd hs h
    · intro hs; rw [hs] at a5; exact (Option.some.inj a5).symm
    · intro hn; rw [hn] at a9; exact a9
    · intro d hd; rw [hd] at a9
      obtain ⟨m, hm, hcdp⟩ := a9
      refine ⟨m, hcdp, hm, ?_⟩
      intro hs; rw [hs] at hm; exact (Option.some.inj hm).symm
  · intro hn
    have := h.ocsp
    rw [hn] at this
    exact this
  · intro o ho
    have := h.ocsp
    rw [ho] at this
    obtain ⟨eo, h1, h2⟩ := this
    obtain ⟨a1, a2, a3, _⟩ := ocspSpec_ok env o eo h2
    refine ⟨eo, h1, a1, a2, ?_, ?_⟩
    · intro hs; rcases a3 with ⟨h, _⟩ | ⟨_, h⟩
      · exact absurd h hs
      · exact h
    · intro hs; rcases a3 with ⟨_, h⟩ | ⟨h, _⟩
      · exact h
      · exact absurd hs h


/-! ### Invalid values are rejected (never ignored) -/

/-- JSON: an invalid value anywhere makes `Provision` fail. -/
theorem invalid_value_rejected_json (env : Env) (raw : RawCfg) (hi : InvalidValue env raw) :
    ¬ (loadJSON L env raw).isOk := by
  rw [Res.isOk_iff]
  rintro ⟨e, he⟩
  exact invalid_not_loaded env raw e hi ((loadJSON_ok_iff env raw e).mp he)

/-- Caddyfile: the same settings are rejected as well. -/
theorem invalid_value_rejected_caddyfile (env : Env) (c : Cfg) (hi : InvalidValue env (jsonOf c)) :
    ¬ (loadCaddyfile Fx env (renderCaddyfile c)).isOk := by
  rw [Res.isOk_iff]
  rintro ⟨e, he⟩
  exact invalid_not_loaded env _ e (invalidValue_caddyOf env c hi) ((loadCaddyfile_ok_iff env c e).mp he)

/-- The enum parsers accept exactly the documented strings (`parseMode`: C03 `parseMode_unknown_rejected`). -/
theorem sigmode_unknown_rejected (s : String) (h : s ∉ ["", "none", "verify_log", "verify"]) :
    parseSignatureValidationMode s = none := by
  simp only [List.mem_cons, List.not_mem_nil, or_false, not_or] at h
  obtain ⟨h0, h1, h2, h3⟩ := h
  unfold parseSignatureValidationMode
  simp only [(length_pos_iff_ne_empty s).mpr h0, ↓reduceIte]

theorem storage_unknown_rejected (s : String) (h : s ∉ ["", "memory", "disk"]) : parseStorageType s = none := by
  simp only [List.mem_cons, List.not_mem_nil, or_false, not_or] at h
  obtain ⟨h0, h1, h2⟩ := h
  unfold parseStorageType
  simp only [(length_pos_iff_ne_empty s).mpr h0, ↓reduceIte]

theorem fetchmode_unknown_rejected (s : String) (h : s ∉ ["", "fetch_actively", "fetch_background"]) :
    parseCRLFetchMode s = none := by
  simp only [List.mem_cons, List.not_mem_nil, or_false, not_or] at h
  obtain ⟨h0, h1, h2⟩ := h
  unfold parseCRLFetchMode
  simp only [(length_pos_iff_ne_empty s).mpr h0, ↓reduceIte]

theorem enum_values_documented :
    parseSignatureValidationMode "" = some .verify ∧ parseSignatureValidationMode "none" = some .none ∧
    parseSignatureValidationMode "verify_log" = some .verifyLog ∧ parseSignatureValidationMode "verify" = some .verify ∧
    parseStorageType "" = some .disk ∧ parseStorageType "memory" = some .memory ∧ parseStorageType "disk" = some .disk ∧
    parseCRLFetchMode "" = some .actively ∧ parseCRLFetchMode "fetch_actively" = some .actively ∧
    parseCRLFetchMode "fetch_background" = some .background := by decide


/-! ### Unknown option names are rejected at every block level -/

/-- Top level: a line whose key is none of `mode`, `crl_config`, `ocsp_config` — whatever its arguments or block,
wherever it stands — makes `UnmarshalCaddyfile` fail. -/
theorem unknown_key_rejected_top (env : Env) (pre post : List Tok) (key : String) (args : List String)
    (blk : Option (List Tok)) (h : key ∉ ["mode", "crl_config", "ocsp_config"]) :
    ¬ (loadCaddyfile Fx env (pre ++ .entry key args blk :: post)).isOk := by
  apply load_not_ok_of_parse
  unfold parseCaddyfile
  apply parseBlock_not_ok_of_entry
  intro s
  rw [procEntry_unknown K.top _ (lookupKey_none key _ (by simpa [K, caddyFacts, topBlock] using h)) rfl]
  simp [Res.isOk]

/-- `crl_config` block. -/
theorem unknown_key_rejected_crl (env : Env) (pre post pre' post' : List Tok) (key : String) (args : List String)
    (blk : Option (List Tok))
    (h : key ∉ ["work_dir", "cdp_config", "storage_type", "update_interval", "signature_validation_mode", "crl_url",
      "crl_file", "trusted_signature_cert_file"]) :
    ¬ (loadCaddyfile Fx env (pre ++ .entry "crl_config" [] (some (pre' ++ .entry key args blk :: post')) :: post)).isOk := by
  apply top_not_ok_of_sub env pre post "crl_config" .crl _ (by decide)
  show ¬ ((parseBlock K.crl (crlSetters K) _ {}).map _).isOk
  exact Res.not_isOk_map _ _ (crl_block_not_ok pre' post' key args blk h {})

/-- `cdp_config` block inside `crl_config`. -/
theorem unknown_key_rejected_cdp (env : Env) (pre post pre' post' pre'' post'' : List Tok) (key : String)
    (args : List String) (blk : Option (List Tok)) (h : key ∉ ["crl_fetch_mode", "crl_cdp_strict"]) :
    ¬ (loadCaddyfile Fx env (pre ++ .entry "crl_config" []
        (some (pre' ++ .entry "cdp_config" [] (some (pre'' ++ .entry key args blk :: post'')) :: post')) :: post)).isOk := by
  apply top_not_ok_of_sub env pre post "crl_config" .crl _ (by decide)
  show ¬ ((parseBlock K.crl (crlSetters K) _ {}).map _).isOk
  apply Res.not_isOk_map
  apply parseBlock_not_ok_of_entry
  intro s
  apply procEntry_block_not_ok K.crl _ (f := .cdp) (by decide)
  show ¬ ((parseBlock K.cdp cdpSetters _ {}).map _).isOk
  apply Res.not_isOk_map
  apply parseBlock_not_ok_of_entry
  intro s
  rw [procEntry_unknown K.cdp _ (lookupKey_none key _ (by simpa [K, caddyFacts, cdpBlock] using h)) rfl]
  simp [Res.isOk]

/-- `ocsp_config` block. -/
theorem unknown_key_rejected_ocsp (env : Env) (pre post pre' post' : List Tok) (key : String) (args : List String)
    (blk : Option (List Tok))
    (h : key ∉ ["default_cache_duration", "trusted_responder_cert_file", "ocsp_aia_strict"]) :
    ¬ (loadCaddyfile Fx env (pre ++ .entry "ocsp_config" [] (some (pre' ++ .entry key args blk :: post')) :: post)).isOk := by
  apply top_not_ok_of_sub env pre post "ocsp_config" .ocsp _ (by decide)
  show ¬ ((parseBlock K.ocsp ocspSetters _ {}).map _).isOk
  apply Res.not_isOk_map
  apply parseBlock_not_ok_of_entry
  intro s
  rw [procEntry_unknown K.ocsp _ (lookupKey_none key _ (by simpa [K, caddyFacts, ocspBlock] using h)) rfl]
  simp [Res.isOk]

/-- The key tables are the documented directive names, and the JSON member names the documented ones. -/
theorem names_documented :
    K.top.keys.map Prod.fst = ["mode", "crl_config", "ocsp_config"] ∧
    K.crl.keys.map Prod.fst = ["work_dir", "cdp_config", "storage_type", "update_interval", "signature_validation_mode",
      "crl_url", "crl_file", "trusted_signature_cert_file"] ∧
    K.cdp.keys.map Prod.fst = ["crl_fetch_mode", "crl_cdp_strict"] ∧
    K.ocsp.keys.map Prod.fst = ["default_cache_duration", "trusted_responder_cert_file", "ocsp_aia_strict"] ∧
    jsonTop.map Prod.snd = ["mode", "crl_config", "ocsp_config"] ∧
    jsonCrl.map Prod.snd = ["work_dir", "cdp_config", "storage_type", "update_interval", "signature_validation_mode",
      "crl_urls", "crl_files", "trusted_signature_certs_files"] ∧
    jsonCdp.map Prod.snd = ["crl_fetch_mode", "crl_cdp_strict"] ∧
    jsonOcsp.map Prod.snd = ["default_cache_duration", "trusted_responder_certs_files", "ocsp_aia_strict"] := by
  decide


/-! ### Boolean options: exactly the spellings of strconv.ParseBool, parsed to their value -/

theorem parseBoolGo_true_iff (s : String) :
    parseBoolGo s = some true ↔ s ∈ ["1", "t", "T", "TRUE", "true", "True"] := by
  unfold parseBoolGo
  simp only [List.mem_cons, List.not_mem_nil, or_false]
  split
  · simp_all
  · split <;> simp_all

theorem parseBoolGo_false_iff (s : String) :
    parseBoolGo s = some false ↔ s ∈ ["0", "f", "F", "FALSE", "false", "False"] := by
  unfold parseBoolGo
  simp only [List.mem_cons, List.not_mem_nil, or_false]
  split
  · rename_i h
    rcases h with h | h | h | h | h | h <;> subst h <;> decide
  · split <;> simp_all

/-- `crl_cdp_strict <v>` / `ocsp_aia_strict <v>`: the flag becomes what `strconv.ParseBool` makes of `v`;
any other spelling is an error (not `false`). -/
theorem strict_flags_parsed (v : String) :
    parseBlock K.cdp cdpSetters [line "crl_cdp_strict" v] {} =
      (match parseBoolGo v with | some b => .ok { strict := b } | none => .error) ∧
    parseBlock K.ocsp ocspSetters [line "ocsp_aia_strict" v] {} =
      (match parseBoolGo v with | some b => .ok { aiaStrict := b } | none => .error) := by
  have h1 : lookupKey "crl_cdp_strict" K.cdp.keys = some (.parsedBool .strict) := by decide
  have h2 : lookupKey "ocsp_aia_strict" K.ocsp.keys = some (.parsedBool .aiaStrict) := by decide
  constructor
  · rw [parseBlock_cons, procEntry_line_bool _ _ h1]
    cases parseBoolGo v <;> rfl
  · rw [parseBlock_cons, procEntry_line_bool _ _ h2]
    cases parseBoolGo v <;> rfl


/-! ### Order of the lines inside `crl_config` -/

/-- **Order independence**: two adjacent lines of `crl_config` for different scalar/list options can be swapped,
anywhere in the block, without changing the result (in particular not which of them "wins"). -/
theorem crl_lines_commute (pre post : List Tok) (k1 k2 v1 v2 : String) (a1 a2 : Act CrlField)
    (h1 : crlLeaf k1 = some a1) (h2 : crlLeaf k2 = some a2) (hk : k1 ≠ k2) (s : RawCrl) :
    parseBlock K.crl (crlSetters K) (pre ++ line k1 v1 :: line k2 v2 :: post) s =
    parseBlock K.crl (crlSetters K) (pre ++ line k2 v2 :: line k1 v1 :: post) s := by
  rw [parseBlock_append, parseBlock_append]
  cases parseBlock K.crl (crlSetters K) pre s <;> simp only [Res.bind_ok, Res.bind_error, Res.bind_panic]
  simp only [parseBlock_cons, procEntry_leaf h1, procEntry_leaf h2, Res.bind_ok]
  rw [applyLeaf_comm a1 a2 (crl_keys_distinct_fields k1 k2 a1 a2 h1 h2 hk)]

/-- A repeated scalar option: the later line wins. -/
theorem crl_scalar_last_wins (k : String) (f : CrlField) (h : lookupKey k K.crl.keys = some (.str f))
    (v1 v2 : String) (rest : List Tok) (s : RawCrl) :
    parseBlock K.crl (crlSetters K) (line k v1 :: line k v2 :: rest) s =
    parseBlock K.crl (crlSetters K) (line k v2 :: rest) s := by
  simp only [parseBlock_cons, procEntry_line_str K.crl _ h, Res.bind_ok]
  congr 1
  cases f <;> rfl

/-- Repeated list options accumulate in the order written. -/
theorem crl_urls_append_in_order (l : List String) (s : RawCrl) :
    parseBlock K.crl (crlSetters K) (l.map (line "crl_url")) s = .ok { s with urls := s.urls ++ l } := by
  have h5 : lookupKey "crl_url" K.crl.keys = some (.append .urls) := by decide
  have := parseBlock_lines_append K.crl (crlSetters K) h5 l [] s
  simp only [List.append_nil] at this
  rw [this, foldl_urls]; rfl


/-! ### Every valid combination provisions -/

/-- **Every valid combination provisions** (JSON): the mode string is a documented one, every given value is valid
(`ValidCrl`: enum strings, a parsable and positive update interval, readable signer certificates; `ValidOcsp`), and —
when the mode enables CRL checking — there is a `crl_config` whose `work_dir` exists and whose configured CRLs are
acceptable. No further hypothesis: in particular no combination of valid values panics. -/
theorem provision_ok (env : Env) (raw : RawCfg) (m : Mode) (hm : parseMode raw.mode = some m)
    (hcrl : ∀ c, raw.crl = some c → ValidCrl env c) (hocsp : ∀ o, raw.ocsp = some o → ValidOcsp env o)
    (hready : crlEnabled m = true → CrlReady env raw) : (loadJSON L env raw).isOk := by
  rw [Res.isOk_iff]
  -- the effective CRL / OCSP parts
  have hC : ∃ crlP : Option EffCrl, match raw.crl with
      | none => crlP = none
      | some c => ∃ ec, crlP = some ec ∧ crlSpec env c = .ok ec := by
    rcases hr : raw.crl with _ | c
    · exact ⟨none, rfl⟩
    · obtain ⟨ec, hec⟩ := crlSpec_ok_of_valid env c (hcrl c hr)
      exact ⟨some ec, ec, rfl, hec⟩
  have hO : ∃ ocspP : Option EffOcsp, match raw.ocsp with
      | none => ocspP = some ⟨0, [], false⟩
      | some o => ∃ eo, ocspP = some eo ∧ ocspSpec env o = .ok eo := by
    rcases hr : raw.ocsp with _ | o
    · exact ⟨_, rfl⟩
    · obtain ⟨eo, heo⟩ := ocspSpec_ok_of_valid env o (hocsp o hr)
      exact ⟨some eo, eo, rfl, heo⟩
  obtain ⟨crlP, hCP⟩ := hC
  obtain ⟨ocspP, hOP⟩ := hO
  refine ⟨⟨m, crlP, ocspP⟩, (loadJSON_ok_iff env raw _).mpr ⟨hm, hCP, hOP, ?_, ?_⟩⟩
  · intro hce
    obtain ⟨c, h1, h2, h3, _, _⟩ := hready hce
    exact ⟨c, h1, h2, h3⟩
  · intro hce ec hec
    obtain ⟨c, h1, _, _, h4, h5⟩ := hready hce
    simp only at hec
    rw [h1] at hCP
    obtain ⟨ec', h6, h7⟩ := hCP
    rw [hec] at h6
    cases h6
    obtain ⟨_, a2, a3, _, _, _, a7, _, _⟩ := crlSpec_ok env c ec h7
    refine ⟨by rw [a2]; exact h4, by rw [a3]; exact h5, ?_⟩
    rcases a7 with ⟨_, h⟩ | ⟨_, _, hp⟩
    · rw [h]; decide
    · exact hp

/-- The same for the Caddyfile form of the settings. -/
theorem provision_ok_caddyfile (env : Env) (c : Cfg) (m : Mode) (hm : parseMode (jsonOf c).mode = some m)
    (hcrl : ∀ k, (jsonOf c).crl = some k → ValidCrl env k) (hocsp : ∀ o, (jsonOf c).ocsp = some o → ValidOcsp env o)
    (hready : crlEnabled m = true → CrlReady env (jsonOf c)) :
    (loadCaddyfile Fx env (renderCaddyfile c)).isOk := by
  have hj := provision_ok env (jsonOf c) m hm hcrl hocsp hready
  have he := caddyfile_eq_json env c
  cases h1 : loadJSON L env (jsonOf c) <;> rw [h1] at hj he <;> simp [Res.isOk] at hj
  cases h2 : loadCaddyfile Fx env (renderCaddyfile c) <;> rw [h2] at he <;> simp at he
  rfl

/-- Never a panic: whatever the settings and the environment, loading ends in a validator or in an error, in both
syntaxes (the only panic of the model, `time.NewTicker` on a non-positive interval, is unreachable because
parseUpdateInterval rejects such intervals and the default is positive). -/
theorem load_never_panics (env : Env) (c : Cfg) :
    loadJSON L env (jsonOf c) ≠ .panic ∧ loadCaddyfile Fx env (renderCaddyfile c) ≠ .panic := by
  have hj : loadJSON L env (jsonOf c) ≠ .panic := by
    rw [loadJSON_closed]; exact provisionSpec_ne_panic env _
  refine ⟨hj, ?_⟩
  intro hc
  have he := caddyfile_eq_json env c
  rw [hc] at he
  cases h1 : loadJSON L env (jsonOf c) <;> rw [h1] at he <;> simp at he
  exact hj h1

/-- `update_interval 0s` (as "-5m": parsable, not positive) is an invalid value: rejected at load in both syntaxes
(it used to reach `time.NewTicker` and panic). -/
theorem nonpositive_interval_rejected :
    let env : Env := { path := fun p => if p = "/w" then .dir else .missing,
                       dur := fun s => if s = "0s" then some 0 else if s = "-5m" then some (-300000000000) else none,
                       certOk := fun _ => false, crlOk := fun _ => false }
    let c (iv : String) : Cfg := { crl := some { workDir := some "/w", interval := some iv } }
    (∀ iv, iv = "0s" ∨ iv = "-5m" →
      InvalidValue env (jsonOf (c iv)) ∧
      loadJSON L env (jsonOf (c iv)) = .error ∧ loadCaddyfile Fx env (renderCaddyfile (c iv)) = .error) := by
  intro env c iv h
  rcases h with rfl | rfl
  · refine ⟨.inr (.inl ⟨_, rfl, .inr (.inr (.inl ⟨by decide, ?_⟩))⟩), by decide, by decide⟩
    intro d hd
    have : d = 0 := by simpa [env, c, jsonOf, jsonOfCrl] using hd.symm
    omega
  · refine ⟨.inr (.inl ⟨_, rfl, .inr (.inr (.inl ⟨by decide, ?_⟩))⟩), by decide, by decide⟩
    intro d hd
    have : d = -300000000000 := by simpa [env, c, jsonOf, jsonOfCrl] using hd.symm
    omega

/-! ### Concrete instances (non-vacuity) -/

/-- An environment: `/w` is a directory, `/f` a file, "45m"/"10m"/"0s" parse, `/ca.crt` is a certificate, the CRL at `/l.crl` and `http://h/l` is acceptable. -/
def envEx : Env :=
  { path := fun p => if p = "/w" then .dir else if p = "/f" then .file else .missing
    dur := fun s => if s = "45m" then some 2700000000000 else if s = "10m" then some 600000000000 else if s = "0s" then some 0 else none
    certOk := fun p => p = "/ca.crt"
    crlOk := fun p => p = "/l.crl" || p = "http://h/l" }

/-- All eleven options set. -/
def cfgEx : Cfg :=
  { mode := some "crl_only"
    crl := some { workDir := some "/w", storage := some "memory", interval := some "45m", sigMode := some "verify_log",
                  urls := ["http://h/l"], files := ["/l.crl", "/l.crl"], signers := ["/ca.crt"],
                  cdp := some { fetchMode := some "fetch_background", strict := some true } }
    ocsp := some { cacheDuration := some "10m", responders := ["/ca.crt"], aiaStrict := some true } }

def effEx : Effective :=
  { mode := .crlOnly
    crl := some { workDir := "/w", storage := .memory, intervalNs := 2700000000000, sigMode := .verifyLog,
                  urls := ["http://h/l"], files := ["/l.crl", "/l.crl"], signers := ["/ca.crt"],
                  cdp := some ⟨.background, true⟩ }
    ocsp := some ⟨600000000000, ["/ca.crt"], true⟩ }

/-- Both syntaxes load the full example to the same, expected validator. -/
theorem example_all_options :
    loadCaddyfile Fx envEx (renderCaddyfile cfgEx) = .ok effEx ∧ loadJSON L envEx (jsonOf cfgEx) = .ok effEx := by decide

/-- **Documented defaults**: only `work_dir` given ⇒ prefer_ocsp, disk, 30 minutes, verify, fetch_actively, non-strict, cache 0. -/
theorem defaults_minimal :
    let c : Cfg := { crl := some { workDir := some "/w" } }
    let e : Effective :=
      { mode := .preferOCSP
        crl := some { workDir := "/w", storage := .disk, intervalNs := 30 * 60 * 1000000000, sigMode := .verify,
                      urls := [], files := [], signers := [], cdp := some ⟨.actively, false⟩ }
        ocsp := some ⟨0, [], false⟩ }
    loadCaddyfile Fx envEx (renderCaddyfile c) = .ok e ∧ loadJSON L envEx (jsonOf c) = .ok e := by decide

-- `caddyfile_eq_json` where the raw validators differ (no crl_config, CRL checking off): JSON leaves CRLConfig nil,
-- the Caddyfile path a default struct; the observable parts agree.
example : loadJSON L envEx (jsonOf { mode := some "ocsp_only" }) = .ok ⟨.ocspOnly, none, some ⟨0, [], false⟩⟩ := by decide
example : loadCaddyfile Fx envEx (renderCaddyfile { mode := some "ocsp_only" }) = .ok ⟨.ocspOnly, some initCrlEff, some ⟨0, [], false⟩⟩ := by decide
example : (loadCaddyfile Fx envEx (renderCaddyfile { mode := some "ocsp_only" })).map (Effective.obs crlEnabled) =
    .ok ⟨.ocspOnly, none, some ⟨0, [], false⟩⟩ := by decide
-- no work_dir with CRL checking on: both fail
example : loadJSON L envEx (jsonOf {}) = .error ∧ loadCaddyfile Fx envEx (renderCaddyfile {}) = .error := by decide
-- `Loaded` is inhabited
example : Loaded envEx (jsonOf cfgEx) effEx := (loadJSON_ok_iff _ _ _).mp example_all_options.2
-- unknown keys
example : loadCaddyfile Fx envEx [line "mod" "crl_only", .entry "crl_config" [] (some [line "work_dir" "/w"])] = .error := by decide
example : loadCaddyfile Fx envEx [.entry "crl_config" [] (some [line "work_dir" "/w", line "crl_urls" "http://h/l"])] = .error := by decide
example : loadCaddyfile Fx envEx [.entry "crl_config" [] (some [line "work_dir" "/w",
    .entry "cdp_config" [] (some [line "crl_cdp_strikt" "true"])])] = .error := by decide
example : loadCaddyfile Fx envEx [.entry "crl_config" [] (some [line "work_dir" "/w"]),
    .entry "ocsp_config" [] (some [line "ocsp_aia_strikt" "true"])] = .error := by decide
-- invalid values
example : InvalidValue envEx (jsonOf { cfgEx with mode := some "CRL_ONLY" }) := .inl (by decide)
example : loadJSON L envEx (jsonOf { cfgEx with mode := some "CRL_ONLY" }) = .error := by decide
example : loadCaddyfile Fx envEx [.entry "crl_config" [] (some [line "work_dir" "/w", line "storage_type" "Disk"])] = .error := by decide
-- bool spellings
example : parseBoolGo "T" = some true ∧ parseBoolGo "0" = some false ∧ parseBoolGo "yes" = none ∧ parseBoolGo "tRuE" = none := by decide
example : (loadCaddyfile Fx envEx [.entry "crl_config" [] (some [line "work_dir" "/w"]),
    .entry "ocsp_config" [] (some [line "ocsp_aia_strict" "TRUE"])]).map (fun e => e.ocsp.map (·.aiaStrict)) = .ok (some true) := by decide
-- order
example : crlLeaf "work_dir" = some (.str .workDir) ∧ crlLeaf "crl_url" = some (.append .urls) ∧ crlLeaf "cdp_config" = none := by decide
-- dispenser quirk carried by the model: the rest of a line are further keys
example : parseBlock K.crl (crlSetters K) [.entry "work_dir" ["/w", "storage_type", "memory"] none] {} =
    .ok { workDir := "/w", storage := "memory" } := by decide


end Crv.Props.C19
