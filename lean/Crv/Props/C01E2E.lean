import Crv.Persist
import Crv.Repo
import Crv.Props.C06
import Crv.Props.C18
/-!
C01, end to end through the first two layers: reader → persister → store.

`Crv.Props.C06` says which callbacks the reader makes for `enc d`; `Crv.Persist.writesOf` turns callbacks into store writes
(`CRLPersisterProcessor`, `InsertRevokedCert`); `Crv.Props.C18.inserted_never_absent` says an inserted pair is never
reported absent. Here the three are composed: for every document of the profile, every entry, wherever it sits in the
list and however long the list is, DER or PEM (LF / CRLF), memory or disk backend, filled directly or swapped in by
`Update` (`replace`, the way `loadCRL` / `updateCrlEntry` bring a temporary store into force): a lookup of (CRL issuer,
serial of the entry) is never answered "not revoked". No hash-collision hypothesis.

`dec : EntryDec` are the leaf functions between callback and write (name string, serial, serialized values);
`sdec : Kind → Val → Bool` is the stores' deserializer oracle.
-/
namespace Crv.Props.C01.E2E
open Crv Crv.Store Crv.Persist

/-- The issuer name string under which every entry of `d` is stored: `CRLEntry.Issuer` is the issuer of the CRL. -/
def issuerOf (dec : EntryDec) (d : Doc) : List UInt8 := dec.issuer (seqOf d.issuer)

/-- **Exact write list** of an accepted document: the meta record, one write per listed entry in list order under
(CRL issuer, entry serial), the extended meta record — nothing else, nothing missing. -/
theorem writes_of_enc (O : Oracle) (d : Doc) (oid : List Nat) (h : HashAlg) (es : Option (List Ext)) (num : Option Nat)
    (wf : WF O d oid h es num) (dec : EntryDec) (l : List Bytes) (hl : d.entries = some l) :
    writesOf dec (readCRL O (enc d)).events =
      (AKey.minfo, dec.minfo (seqOf d.issuer) d.thisUpdate d.nextUpdate) ::
        (l.map (fun e => (AKey.ent (issuerOf dec d) (dec.serial (seqOf e)), dec.value (seqOf e))) ++ [(AKey.ext, dec.ext num)]) := by
  rw [C06.entries_in_order O d oid h es num wf l hl]
  have hm : l.map (fun e => Event.insert (seqOf e)) = (l.map seqOf).map Event.insert := by
    rw [List.map_map]; rfl
  rw [hm, writesOf_crl, List.map_map]
  rfl

/-- Without a revokedCertificates field only the two metadata records are written. -/
theorem writes_of_enc_no_entries (O : Oracle) (d : Doc) (oid : List Nat) (h : HashAlg) (es : Option (List Ext))
    (num : Option Nat) (wf : WF O d oid h es num) (dec : EntryDec) (hl : d.entries = none) :
    writesOf dec (readCRL O (enc d)).events =
      [(AKey.minfo, dec.minfo (seqOf d.issuer) d.thisUpdate d.nextUpdate), (AKey.ext, dec.ext num)] := by
  rw [C06.no_entries_no_inserts O d oid h es num wf hl]
  rfl

/-- Every listed entry is written, under the CRL's issuer and its own serial, with its own serialized value. -/
theorem listed_entry_is_written (O : Oracle) (d : Doc) (oid : List Nat) (h : HashAlg) (es : Option (List Ext))
    (num : Option Nat) (wf : WF O d oid h es num) (dec : EntryDec) (l : List Bytes) (hl : d.entries = some l)
    (e : Bytes) (he : e ∈ l) :
    (AKey.ent (issuerOf dec d) (dec.serial (seqOf e)), dec.value (seqOf e)) ∈ writesOf dec (readCRL O (enc d)).events := by
  rw [writes_of_enc O d oid h es num wf dec l hl]
  refine List.mem_cons_of_mem _ (List.mem_append_left _ ?_)
  exact List.mem_map.mpr ⟨e, he, rfl⟩

/-- Precision: every entry write comes from an entry of the document (and carries the CRL's issuer). -/
theorem nothing_else_is_written (O : Oracle) (d : Doc) (oid : List Nat) (h : HashAlg) (es : Option (List Ext))
    (num : Option Nat) (wf : WF O d oid h es num) (dec : EntryDec) (l : List Bytes) (hl : d.entries = some l)
    (i : List UInt8) (s : Int) (v : Val)
    (hw : (AKey.ent i s, v) ∈ writesOf dec (readCRL O (enc d)).events) :
    i = issuerOf dec d ∧ ∃ e ∈ l, s = dec.serial (seqOf e) ∧ v = dec.value (seqOf e) := by
  rw [writes_of_enc O d oid h es num wf dec l hl] at hw
  simp only [List.mem_cons, List.mem_append, List.mem_map, Prod.mk.injEq, reduceCtorEq, false_and,
    false_or, or_false, List.not_mem_nil, AKey.ent.injEq] at hw
  obtain ⟨e, he, ⟨hi, hs⟩, hv⟩ := hw
  exact ⟨hi.symm, e, he, hs.symm, hv.symm⟩

/-- … and without a revokedCertificates field no entry is written at all. -/
theorem nothing_written_without_list (O : Oracle) (d : Doc) (oid : List Nat) (h : HashAlg) (es : Option (List Ext))
    (num : Option Nat) (wf : WF O d oid h es num) (dec : EntryDec) (hl : d.entries = none)
    (i : List UInt8) (s : Int) (v : Val) :
    (AKey.ent i s, v) ∉ writesOf dec (readCRL O (enc d)).events := by
  rw [writes_of_enc_no_entries O d oid h es num wf dec hl]
  simp

/-- What "the store filled with `ws` never reports (i, s) absent" means, for the ways a write list reaches a live store:
a fresh memory store, a fresh disk store, a memory store replaced by `Update`, a disk store with any collision-free
history replaced by `Update` (directory swap). -/
def NeverAbsent (sdec : Kind → Val → Bool) (ws : List (AKey × Val)) (i : List UInt8) (s : Int) : Prop :=
  (MapStore.new.fill ws).lookup sdec i s ≠ .absent ∧
  (∀ ident, let (d, h) := Ldb.fresh ident; h.lookup sdec (h.fill d ws) i s ≠ .absent) ∧
  (∀ (m : MapStore), (m.step sdec (.replace ws)).1.lookup sdec i s ≠ .absent) ∧
  (∀ ident (pre : List Op) (_ : CollisionFree (keysOf pre)),
    let ((d, h), _) := runLdb sdec (Ldb.fresh ident).1 (Ldb.fresh ident).2 pre
    let (d', h', _) := h.step sdec d (.replace ws)
    h'.lookup sdec d' i s ≠ .absent)

theorem neverAbsent_of_mem (sdec : Kind → Val → Bool) (ws : List (AKey × Val)) (i : List UInt8) (s : Int) (v : Val)
    (hin : (AKey.ent i s, v) ∈ ws) : NeverAbsent sdec ws i s :=
  C18.inserted_never_absent sdec ws i s v hin

/-- **Reader → persister → store, DER.** After the writes of `enc d` reached a store — memory or disk, directly or by
`Update` — no listed entry is reported absent, wherever it sits in the list and whatever the list size. -/
theorem listed_entry_found_der (O : Oracle) (d : Doc) (oid : List Nat) (h : HashAlg) (es : Option (List Ext))
    (num : Option Nat) (wf : WF O d oid h es num) (dec : EntryDec) (sdec : Kind → Val → Bool)
    (l : List Bytes) (hl : d.entries = some l) (e : Bytes) (he : e ∈ l) :
    NeverAbsent sdec (writesOf dec (readCRL O (enc d)).events) (issuerOf dec d) (dec.serial (seqOf e)) :=
  neverAbsent_of_mem sdec _ _ _ _ (listed_entry_is_written O d oid h es num wf dec l hl e he)

/-- The two plain-fill conjuncts of `listed_entry_found_der`, spelled out. -/
theorem listed_entry_found_der_fill (O : Oracle) (d : Doc) (oid : List Nat) (h : HashAlg) (es : Option (List Ext))
    (num : Option Nat) (wf : WF O d oid h es num) (dec : EntryDec) (sdec : Kind → Val → Bool)
    (l : List Bytes) (hl : d.entries = some l) (e : Bytes) (he : e ∈ l) :
    (MapStore.new.fill (writesOf dec (readCRL O (enc d)).events)).lookup sdec (issuerOf dec d) (dec.serial (seqOf e)) ≠ .absent ∧
    ∀ ident, (Ldb.fresh ident).2.lookup sdec
      ((Ldb.fresh ident).2.fill (Ldb.fresh ident).1 (writesOf dec (readCRL O (enc d)).events))
      (issuerOf dec d) (dec.serial (seqOf e)) ≠ .absent :=
  let r := listed_entry_found_der O d oid h es num wf dec sdec l hl e he
  ⟨r.1, r.2.1⟩

/-- **Reader → persister → store, PEM file** (LF or CRLF line ends, every admissible label): the same. -/
theorem listed_entry_found_pem (O : Oracle) (d : Doc) (oid : List Nat) (h : HashAlg) (es : Option (List Ext))
    (num : Option Nat) (wf : WF O d oid h es num) (dec : EntryDec) (sdec : Kind → Val → Bool)
    (crlf : Bool) (label : List UInt8) (hlab : Pem.labelOk label) (hlen : label.length ≤ 4078)
    (l : List Bytes) (hl : d.entries = some l) (e : Bytes) (he : e ∈ l) :
    NeverAbsent sdec (writesOf dec (readCRLFile O (Pem.pemEncode crlf label (enc d))).events)
      (issuerOf dec d) (dec.serial (seqOf e)) := by
  rw [C06.read_pem_enc O d crlf label hlab hlen]
  exact listed_entry_found_der O d oid h es num wf dec sdec l hl e he

/-- … and a DER file read through the file front end (`IsPemFile` says no). -/
theorem listed_entry_found_der_file (O : Oracle) (d : Doc) (oid : List Nat) (h : HashAlg) (es : Option (List Ext))
    (num : Option Nat) (wf : WF O d oid h es num) (dec : EntryDec) (sdec : Kind → Val → Bool)
    (l : List Bytes) (hl : d.entries = some l) (e : Bytes) (he : e ∈ l) :
    NeverAbsent sdec (writesOf dec (readCRLFile O (enc d)).events) (issuerOf dec d) (dec.serial (seqOf e)) := by
  rw [C06.read_der_enc O d]
  exact listed_entry_found_der O d oid h es num wf dec sdec l hl e he

/-- The PEM file causes exactly the writes of the DER document (so `nothing_else_is_written` carries over as well). -/
theorem writes_of_pem (O : Oracle) (d : Doc) (dec : EntryDec) (crlf : Bool) (label : List UInt8)
    (hlab : Pem.labelOk label) (hlen : label.length ≤ 4078) :
    writesOf dec (readCRLFile O (Pem.pemEncode crlf label (enc d))).events = writesOf dec (readCRL O (enc d)).events := by
  rw [C06.read_pem_enc O d crlf label hlab hlen]

/-!
### Rejected input

For an arbitrary `file` whose read does not end in `.ok`, the callback sequence is *not* empty in general: the reader
forwards `start` and every entry before it reaches the critical-extension gate, the envelope check or the end of a truncated
file (`rejected_after_all_entries_forwarded` below is such a run). What is true by the definition of `readCRL`: a failure
of the pre-scan means no callback was made. That the writes of a rejected read never count is a fact about the repository,
not about the reader: `loadCRL` / `updateCrlEntry` parse into a temporary store and drop it on any error. In `Crv.Repo`
the reader's verdict is the environment value `Served.garbage`; `stage` then yields `.parseFail` without a store, and both
intake paths leave the state — entries, persisted directories, acceptance log — exactly as it was.
-/

/-- Did the pre-scan (first pass of `ReadCRL`) succeed on `file`? -/
def prescanOk (O : Oracle) (file : Bytes) : Bool :=
  match prescan O { rest := file } with
  | .ok _ _ => true
  | _ => false

/-- A failing pre-scan (first pass) makes no callback, for every input. -/
theorem prescan_failure_no_events (O : Oracle) (file : Bytes) (hp : prescanOk O file = false) :
    (readCRL O file).events = [] := by
  unfold prescanOk at hp
  unfold readCRL
  cases hpre : prescan O { rest := file } with
  | err e r => rfl
  | panic r => rfl
  | ok p r => simp [hpre] at hp

/-- … hence the persister writes nothing. -/
theorem prescan_failure_no_writes (O : Oracle) (file : Bytes) (dec : EntryDec) (hp : prescanOk O file = false) :
    writesOf dec (readCRL O file).events = [] := by
  rw [prescan_failure_no_events O file hp]; rfl

/-- A rejected document yields no store in the repository model, whatever the mode and the candidates. -/
theorem rejected_stage (m : SigMode) (honour : Bool) (cands : List Repo.Signer) :
    Repo.stage m honour .garbage cands = .parseFail := rfl

/-- First load of a rejected document: error, state unchanged. -/
theorem rejected_load_changes_nothing (s : Repo.State) (loc : Repo.Loc) (e : Repo.Entry) (cands : List Repo.Signer)
    (hs : Repo.servedAt s loc = .garbage) : Repo.loadCRL s loc e cands = (s, .err) := by
  unfold Repo.loadCRL
  split
  · rfl
  · rw [hs]; rfl

/-- Refresh with a rejected document: error, state unchanged — the list in force stays in force. -/
theorem rejected_refresh_changes_nothing (s : Repo.State) (loc : Repo.Loc) (e : Repo.Entry)
    (newCands : Option (List Repo.Signer)) (hs : Repo.servedAt s loc = .garbage) :
    Repo.updateCrlEntry s loc e newCands = (s, .err) := by
  unfold Repo.updateCrlEntry
  split
  · rfl
  · split
    · rfl
    · simp only [hs, Repo.stage]

/-! ### Non-vacuity -/
section Examples

/-- A concrete decoder for the entries of `C06.exDoc` (`30 05 02 01 <serial> 17 00`): the name string is the frame itself,
the serial is the INTEGER's single content byte, the serialized values are the frames. -/
def exDec : EntryDec :=
  { issuer := fun f => f
    serial := fun f => match f with
      | _ :: _ :: 2 :: 1 :: b :: _ => Int.ofNat b.toNat
      | _ => 0
    value := fun f => f
    minfo := fun i t n => i ++ t ++ n.getD []
    ext := fun n => match n with | none => [] | some k => [UInt8.ofNat k] }

example : writesOf exDec (readCRL C06.exOracle (enc C06.exDoc)).events =
    [(.minfo, [48, 2, 49, 0, 50, 52, 50, 53]),
     (.ent [48, 2, 49, 0] 5, [48, 5, 2, 1, 5, 23, 0]), (.ent [48, 2, 49, 0] 6, [48, 5, 2, 1, 6, 23, 0]),
     (.ext, [7])] := by
  rw [writes_of_enc C06.exOracle C06.exDoc _ _ _ _ C06.exDoc_wf exDec _ rfl]
  decide

-- `listed_entry_is_written` for the second entry
example : (AKey.ent [48, 2, 49, 0] 6, [48, 5, 2, 1, 6, 23, 0]) ∈ writesOf exDec (readCRL C06.exOracle (enc C06.exDoc)).events :=
  listed_entry_is_written C06.exOracle C06.exDoc _ _ _ _ C06.exDoc_wf exDec _ rfl [2, 1, 6, 23, 0] (by decide)

-- `listed_entry_found_der` / `_pem` for the second entry, all four ways into a store, and what the lookup actually says
example : NeverAbsent C18.decAll (writesOf exDec (readCRL C06.exOracle (enc C06.exDoc)).events) [48, 2, 49, 0] 6 :=
  listed_entry_found_der C06.exOracle C06.exDoc _ _ _ _ C06.exDoc_wf exDec C18.decAll _ rfl [2, 1, 6, 23, 0] (by decide)

example : NeverAbsent C18.decAll
    (writesOf exDec (readCRLFile C06.exOracle (Pem.pemEncode true [88, 53, 48, 57, 32, 67, 82, 76] (enc C06.exDoc))).events)
    [48, 2, 49, 0] 6 :=
  listed_entry_found_pem C06.exOracle C06.exDoc _ _ _ _ C06.exDoc_wf exDec C18.decAll true _ (by decide) (by decide) _ rfl
    [2, 1, 6, 23, 0] (by decide)

example : (MapStore.new.fill (writesOf exDec (readCRL C06.exOracle (enc C06.exDoc)).events)).lookup C18.decAll [48, 2, 49, 0] 6 =
      .revoked [48, 5, 2, 1, 6, 23, 0] ∧
    (Ldb.fresh 3).2.lookup C18.decAll ((Ldb.fresh 3).2.fill (Ldb.fresh 3).1
      (writesOf exDec (readCRL C06.exOracle (enc C06.exDoc)).events)) [48, 2, 49, 0] 5 = .revoked [48, 5, 2, 1, 5, 23, 0] ∧
    -- a serial that is not listed is absent (the statement above is not trivially true of every serial)
    (MapStore.new.fill (writesOf exDec (readCRL C06.exOracle (enc C06.exDoc)).events)).lookup C18.decAll [48, 2, 49, 0] 7 = .absent := by
  rw [writes_of_enc C06.exOracle C06.exDoc _ _ _ _ C06.exDoc_wf exDec _ rfl]
  decide

-- `nothing_else_is_written`
example (i : List UInt8) (s : Int) (v : Val)
    (hw : (AKey.ent i s, v) ∈ writesOf exDec (readCRL C06.exOracle (enc C06.exDoc)).events) :
    i = [48, 2, 49, 0] ∧ (s = 5 ∨ s = 6) := by
  obtain ⟨hi, e, he, hs, _⟩ := nothing_else_is_written C06.exOracle C06.exDoc _ _ _ _ C06.exDoc_wf exDec _ rfl i s v hw
  refine ⟨hi, ?_⟩
  simp only [List.mem_cons, List.not_mem_nil, or_false] at he
  rcases he with rfl | rfl
  · exact Or.inl hs
  · exact Or.inr hs

/-- The same document under a leaf decoder that reports an unhandled critical extension. -/
def exOracleCritical : Oracle := { C06.exOracle with exts := fun _ => some [⟨[1, 2, 3], true, []⟩] }

/-- A rejected read whose callbacks were all made: the gate comes after `UpdateExtendedMetaInfo`. The four writes went
into the temporary store that `loadCRL` / `updateCrlEntry` discard. -/
theorem rejected_after_all_entries_forwarded :
    (match (readCRL exOracleCritical (enc C06.exDoc)).outcome with | .err .gate => true | _ => false) = true ∧
    (writesOf exDec (readCRL exOracleCritical (enc C06.exDoc)).events).length = 4 := by
  decide +kernel

-- a file the pre-scan rejects: no callback, no write
example : writesOf exDec (readCRL C06.exOracle [0x31, 0]).events = [] :=
  prescan_failure_no_writes _ _ _ (by decide)

-- the repository lemmas on a concrete state: a loaded list stays in force when the origin starts serving garbage
example : Repo.updateCrlEntry (Repo.serve {} 1 .garbage) 1 { loaded := true, store := ⟨some ⟨7, [10], 1, 5⟩, true, some 1⟩ } none =
    (Repo.serve {} 1 .garbage, .err) :=
  rejected_refresh_changes_nothing _ _ _ _ (by decide)

end Examples

end Crv.Props.C01.E2E
