import Crv.Proofs.Pem
/-!
C06 (PEM side) — the PEM armour in front of the streaming CRL reader.

`Crv.Pem.pemDecode` models the pipeline of `crlreader.newHashingPEMCRLReader`
(bufio → `pemreader.PemReader` → `base64.NewDecoder` → bufio): the bytes which reach the ASN.1 parser and the
error which ends the stream.  The model is tied to the real code by the differential stream `pem`
(`Crv.Driver.stepPem`, harness `c06pem.go`).  Proved here:

* base64 and PEM round trips (what `pem.EncodeToMemory` writes is read back exactly, LF or CRLF),
* PEM detection (`isPemFile`) accepts such files and rejects anything which does not start with `-`
  (in particular DER, which starts with 0x30),
* armour lines in front of the data are skipped in any number, text without a final `\n` is dropped,
* the stream never delivers more bytes than the file holds; the "buffer need to be at least 66 bytes"
  error of `PemReader.Read` is unreachable for the read sizes the outer `bufio.Reader` uses.

`pemDecode` is a total function (structural recursion only), so the PEM layer itself cannot diverge on any
input; a file made of armour lines only is consumed in one pass (`deliver` skips them iteratively).
-/
namespace Crv.Props.C06.Pem
open Crv.Pem

/-- `X509 CRL` -/
def crlLabel : List UInt8 := [88, 53, 48, 57, 32, 67, 82, 76]

example : labelOk crlLabel := by decide
example : ¬ labelOk [120] := by decide           -- lower case is not accepted by the armour regexp
example : labelOk [] := by decide

/-- **base64 round trip** through Go's streaming decoder. -/
theorem b64_round_trip : ∀ bs, b64DecodeStream (b64Encode bs) = (bs, .eof) := b64_round_trip'

/-- The same for every way the encoded text may reach the decoder in pieces (lines of any width, reads of
any size): the result does not depend on the chunking. -/
theorem b64_round_trip_chunked (cs : List (List UInt8)) (bs : List UInt8) (h : cs.flatten = b64Encode bs) :
    b64Chunks [] cs = (bs, .eof) :=
  b64Chunks_encode cs [] bs (by simp) (by simpa using h)

/-- **PEM round trip**: what `pem.EncodeToMemory` writes for a label in `[A-Z0-9 ]*` is decoded to exactly
the DER bytes, and the stream ends with a plain EOF. -/
theorem pem_round_trip : ∀ crlf label der, labelOk label → pemDecode (pemEncode crlf label der) = (der, .eof) :=
  pemDecode_pemEncode

/-- LF and CRLF files decode alike. -/
theorem pem_lf_crlf_agree (l d : List UInt8) (h : labelOk l) :
    pemDecode (pemEncode true l d) = pemDecode (pemEncode false l d) := by
  rw [pem_round_trip true l d h, pem_round_trip false l d h]

/-- **Detection**: such a file is recognised as PEM (the first line must fit bufio's 4096-byte buffer). -/
theorem pem_detected (crlf : Bool) (label der : List UInt8) (h : labelOk label) (hlen : label.length ≤ 4078) :
    isPemFile (pemEncode crlf label der) = true :=
  isPemFile_pemEncode crlf label der h hlen

/-- Only a file starting with `-` is taken for PEM. -/
theorem pem_needs_dash (input : List UInt8) (h : isPemFile input = true) : ∃ t, input = 45 :: t :=
  isPemFile_head h

/-- **DER is not PEM**: a file starting with the SEQUENCE tag is read as DER. -/
theorem der_not_pem (rest : List UInt8) : isPemFile (0x30 :: rest) = false := by
  cases h : isPemFile (0x30 :: rest) with
  | false => rfl
  | true =>
    obtain ⟨t, e⟩ := isPemFile_head h
    simp at e

/-- The empty file is not PEM. -/
theorem empty_not_pem : isPemFile [] = false := by decide

/-- **Armour lines are skipped iteratively**: any number of armour lines (each ending in `\n`) in front of a
text changes nothing. -/
theorem armour_lines_skipped (armourLines : List (List UInt8))
    (h : ∀ a ∈ armourLines, isArmour a = true ∧ a.getLast? = some 10) (text : List UInt8) :
    pemDecode (armourLines.flatten ++ text) = pemDecode text := by
  simp only [pemDecode, pemLines_armour_lines armourLines h text]

/-- A file of armour lines only decodes to nothing and ends with EOF. -/
theorem armour_only (armourLines : List (List UInt8))
    (h : ∀ a ∈ armourLines, isArmour a = true ∧ a.getLast? = some 10) :
    pemDecode armourLines.flatten = ([], .eof) := by
  have := armour_lines_skipped armourLines h []
  simp only [List.append_nil] at this
  rw [this]; decide

/-- **Unterminated last line**: text after the last `\n` never reaches the decoder (`ReadString` returns it
together with io.EOF and `PemReader` drops it). -/
theorem unterminated_tail_dropped (text tail : List UInt8) (h : (10 : UInt8) ∉ tail) :
    pemDecode (text ++ tail) = pemDecode text := by
  simp only [pemDecode, pemLines_unterminated text tail h]

/-- So a PEM file still decodes when its last line lacks the `\n` — whatever that line is (the END line, a
truncated END line, anything without `\n`). -/
theorem pem_round_trip_unterminated_end (crlf : Bool) (label der tail : List UInt8) (h : labelOk label)
    (ht : (10 : UInt8) ∉ tail) :
    pemDecode ((beginLine label ++ eol crlf) ++ ((bodyLines crlf der).flatten ++ tail)) = (der, .eof) := by
  have e : (beginLine label ++ eol crlf) ++ ((bodyLines crlf der).flatten ++ tail) =
      ((beginLine label ++ eol crlf) ++ ((bodyLines crlf der).flatten ++ ([] : List (List UInt8)).flatten)) ++ tail := by
    simp
  rw [e, unterminated_tail_dropped _ _ ht]
  exact pemDecode_armoured crlf label der h [] (by simp)

/-- …but a body line without its `\n` is lost without any error: here `QUJD` (= "ABC") after a BEGIN line. -/
example : pemDecode ([45,45,45,45,45,88,45,45,45,45,45,10] ++ [81,85,74,68]) = ([], .eof) := by decide
example : pemDecode ([45,45,45,45,45,88,45,45,45,45,45,10] ++ [81,85,74,68,10]) = ([65,66,67], .eof) := by decide

/-- **Size**: the parser never receives more bytes than the file holds. -/
theorem decoded_not_longer (input : List UInt8) : (pemDecode input).1.length ≤ input.length :=
  pemDecode_length input

/-- **Room for `PemReader.Read`**: `decoder.Read(p)` with at least 54 bytes in `p` offers at least the 66 bytes
which `PemReader.Read` insists on.  The outer `bufio.Reader` passes its whole 4096-byte buffer, a caller
slice of at least 4096 bytes, or (from `Peek n`, n ≤ 17 in the parser) at least 4080 bytes. -/
theorem read_room_ok (pLen nbuf : Nat) (hp : 54 ≤ pLen) (hn : nbuf ≤ 3) : 66 ≤ readRoom pLen nbuf := by
  unfold readRoom; omega

/-- Below that the error path exists: 51 bytes of room in `p` give `PemReader.Read` 65 bytes at most. -/
example : readRoom 51 3 = 65 := by decide
example : readRoom 4080 3 = 1021 := by decide

/-! ### Non-vacuity and behaviour on concrete inputs -/

/-- `30 03 02 01 05` -/
def tinyDer : List UInt8 := [0x30, 0x03, 0x02, 0x01, 0x05]

-- "-----BEGIN X509 CRL-----\nMAMCAQU=\n-----END X509 CRL-----\n"
example : pemEncode false crlLabel tinyDer =
    [45,45,45,45,45,66,69,71,73,78,32,88,53,48,57,32,67,82,76,45,45,45,45,45,10,
     77,65,77,67,65,81,85,61,10,
     45,45,45,45,45,69,78,68,32,88,53,48,57,32,67,82,76,45,45,45,45,45,10] := by decide
example : pemDecode (pemEncode false crlLabel tinyDer) = (tinyDer, .eof) := by decide
example : pemDecode (pemEncode true crlLabel tinyDer) = (tinyDer, .eof) := by decide
example : isPemFile (pemEncode true crlLabel tinyDer) = true := by decide
example : isPemFile tinyDer = false := by decide
example : b64Encode [65, 66, 67, 68] = [81, 85, 74, 68, 82, 65, 61, 61] := by decide        -- "QUJDRA=="
example : b64DecodeStream [81, 85, 74, 68, 82, 65, 61, 61] = ([65, 66, 67, 68], .eof) := by decide
example : b64DecodeStream [81, 85, 74, 68, 82, 65, 61] = ([65, 66, 67], .unexpectedEOF) := by decide   -- "QUJDRA="
example : b64DecodeStream [81, 85, 74, 42] = ([], .corrupt) := by decide                                 -- "QUJ*"
-- data after padding inside one slice: the padded quantum is delivered, then the error ("QQ==QUJD")
example : b64DecodeStream [81, 81, 61, 61, 81, 85, 74, 68] = ([65], .corrupt) := by decide
-- the same with the padding at the end of a line: accepted, both parts are delivered ("QQ==\nQUJD\n")
example : pemDecode [81, 81, 61, 61, 10, 81, 85, 74, 68, 10] = ([65, 65, 66, 67], .eof) := by decide
-- a line of 67 bytes (66 characters + \n) ends the stream with the line-length error, 66 bytes are fine
example : (pemDecode (List.replicate 66 65 ++ [10])).2 = .lineTooLong := by decide
example : (pemDecode (List.replicate 65 65 ++ [10])).2 = .unexpectedEOF := by decide
example : (pemDecode (List.replicate 64 65 ++ [13, 10])).2 = .eof := by decide
-- armour: "----------" is an armour line, lower-case labels are not, 11 dashes are not
example : isArmour (List.replicate 10 45) = true := by decide
example : isArmour (List.replicate 11 45) = false := by decide
example : isArmour ([45,45,45,45,45,120,45,45,45,45,45]) = false := by decide
example : isArmour ([45,45,45,45,45,88,45,45,45,45,45,13,10]) = true := by decide
example : isArmour ([45,45,45,45,45,88,45,45,45,45,45,13]) = false := by decide
-- text in front of the BEGIN line is fed to the decoder ("hi\n" + PEM → corrupt or garbage, here unexpected bytes)
example : pemDecode ([104, 105, 10] ++ pemEncode false crlLabel tinyDer) ≠ (tinyDer, .eof) := by decide
-- data after the END line is decoded as well
example : pemDecode (pemEncode false crlLabel tinyDer ++ [81, 85, 74, 68, 10]) = (tinyDer ++ [65, 66, 67], .eof) := by
  decide

end Crv.Props.C06.Pem
