import Crv.Proofs.StoreSound
import Crv.Generated.Mode
import Crv.Props.C03
/-!
C09 — Fail closed: a storage failure during lookup is never reported as "not revoked".

Over the storage model (`Crv.Store`), whose lookup functions interpret the decision tables regenerated from
`LevelDbStore.GetCertRevocationStatus`, `MapStore.GetCertRevocationStatus`, `Repository.checkCrl` and
`Repository.IsRevoked` on every run (`Crv.Generated.Store`), and the regenerated statement list of
`VerifyClientCertificate` (`Crv.Generated.verifyProg`). All statements quantify over every store state,
key, fault kind, repository content and enumeration order.
-/
namespace Crv.Props.C09
open Crv Crv.Store Crv.Generated

/-- Disk: any failure of `Db.Get` other than "key not found" (I/O error, corrupted block, ...) is an error. -/
theorem lookup_fault_is_error (dec : Kind → Val → Bool) (d : Disk) (h : Ldb) (f : Fault) (hf : h.fault = some f)
    (i : List UInt8) (s : Int) : h.lookup dec d i s = .error := by
  unfold Ldb.lookup Ldb.dbGet
  cases ho : h.isOpen <;> simp [hf, retOf, Store.ldbOnGetErr]

/-- Disk: a lookup after `Close` (e.g. by a concurrent shutdown) is an error. -/
theorem closed_is_error (dec : Kind → Val → Bool) (d : Disk) (h : Ldb) (hc : h.isOpen = false)
    (i : List UInt8) (s : Int) : h.lookup dec d i s = .error := by
  simp [Ldb.lookup, Ldb.dbGet, hc, retOf, Store.ldbOnGetErr]

/-- ... in particular after the `Close` method itself, whatever the state before. -/
theorem lookup_after_close_is_error (dec : Kind → Val → Bool) (d : Disk) (h : Ldb) (i : List UInt8) (s : Int) :
    (h.close d).2.lookup dec (h.close d).1 i s = .error := by
  apply closed_is_error
  unfold Ldb.close
  cases ho : h.isOpen <;> simp [ho]

/-- Disk: the directory vanished underneath an open handle. -/
theorem missing_dir_is_error (dec : Kind → Val → Bool) (d : Disk) (h : Ldb) (hd : d.dirs h.path = none)
    (i : List UInt8) (s : Int) : h.lookup dec d i s = .error := by
  unfold Ldb.lookup Ldb.dbGet
  cases ho : h.isOpen <;> cases hf : h.fault <;> simp [hd, retOf, Store.ldbOnGetErr]

/-- Both backends: a stored value the deserializer rejects (garbage, truncated record) is an error. -/
theorem undecodable_is_error (dec : Kind → Val → Bool) (i : List UInt8) (s : Int) (v : Val) (hv : dec .entry v = false) :
    (∀ (m : MapStore), m.rawGet (key i s) = some v → m.lookup dec i s = .error) ∧
    (∀ (d : Disk) (h : Ldb), h.dbGet d (hkey (key i s)) = .found v → h.lookup dec d i s = .error) := by
  constructor
  · intro m hg
    simp [MapStore.lookup, hg, hv, retOf, Store.mapOnDecodeErr]
  · intro d h hg
    simp [Ldb.lookup, hg, hv, retOf, Store.ldbOnDecodeErr]

/-- Disk: "not revoked" is answered **only** when the database positively reports the key as not found. -/
theorem ldb_absent_iff (dec : Kind → Val → Bool) (d : Disk) (h : Ldb) (i : List UInt8) (s : Int) :
    h.lookup dec d i s = .absent ↔ h.dbGet d (hkey (key i s)) = .notFound := by
  unfold Ldb.lookup
  cases h.dbGet d (hkey (key i s)) <;> simp [retOf, Store.ldbOnNotFound, Store.ldbOnGetErr, Store.ldbOnOk, Store.ldbOnDecodeErr]
  split <;> simp

/-- Memory: "not revoked" is answered only when the map has no binding for the hashed key. -/
theorem map_absent_iff (dec : Kind → Val → Bool) (m : MapStore) (i : List UInt8) (s : Int) :
    m.lookup dec i s = .absent ↔ m.rawGet (key i s) = none := by
  unfold MapStore.lookup
  cases m.rawGet (key i s) <;> simp [retOf, Store.mapOnNotFound, Store.mapOnOk, Store.mapOnDecodeErr]
  split <;> simp

/-- `checkCrl`: an entry whose store was dropped by a failed swap (`CRLStore == nil`) yields an error. -/
theorem nil_store_is_error (dec : Kind → Val → Bool) (d : Disk) (i : List UInt8) (s : Int) :
    checkCrl dec d (some { loaded := true, store := none }) i s = .error := by
  simp [checkCrl, chkOf, Store.checkOnStoreNil]

/-- `checkCrl` propagates a lookup error of a loaded entry. -/
theorem checkCrl_propagates (dec : Kind → Val → Bool) (d : Disk) (st : AnyStore) (i : List UInt8) (s : Int)
    (h : st.lookup dec d i s = .error) : checkCrl dec d (some { loaded := true, store := some st }) i s = .error := by
  simp [checkCrl, h, chkOf, Store.checkOnLookupErr]

theorem checkCrl_ne_panic (dec : Kind → Val → Bool) (d : Disk) (e : Option Entry) (i : List UInt8) (s : Int) :
    checkCrl dec d e i s ≠ .panic := by
  unfold checkCrl
  cases e with
  | none => simp [chkOf, Store.checkFallthrough]
  | some e =>
    obtain ⟨loaded, store⟩ := e
    cases loaded
    · simp [chkOf, Store.checkFallthrough]
    · cases store with
      | none => simp [chkOf, Store.checkOnStoreNil]
      | some st =>
        simp only [↓reduceIte]
        cases st.lookup dec d i s <;> simp [chkOf, Store.checkOnLookupErr, Store.checkOnRevoked, Store.checkFallthrough]

/-- `Repository.IsRevoked`: if any entry's check fails, the walk never ends in "not revoked", in whatever
order the identifiers are enumerated (Go map order = any list order). -/
theorem walk_not_good (dec : Kind → Val → Bool) (d : Disk) (i : List UInt8) (s : Int) :
    ∀ (es : List (Option Entry)), (∃ e ∈ es, checkCrl dec d e i s = .error) →
      walk dec d i s es = .error ∨ ∃ v, walk dec d i s es = .revoked v
  | [], h => by simp at h
  | e :: es, h => by
    unfold walk
    cases hc : checkCrl dec d e i s with
    | panic => exact absurd hc (checkCrl_ne_panic dec d e i s)
    | error => left; simp [chkOf, Store.walkOnErr]
    | revoked v => right; exact ⟨v, by simp [chkOf, Store.walkOnRevoked]⟩
    | notRevoked =>
      obtain ⟨e', he', hce'⟩ := h
      rcases List.mem_cons.mp he' with rfl | he'
      · rw [hc] at hce'; exact absurd hce' (by simp)
      · exact walk_not_good dec d i s es ⟨e', he', hce'⟩

theorem isRevoked_not_good (dec : Kind → Val → Bool) (d : Disk) (gate : Bool) (es : List (Option Entry))
    (i : List UInt8) (s : Int) (h : ∃ e ∈ es, checkCrl dec d e i s = .error) :
    ∃ c, (isRevoked dec d gate es i s).mech = some c ∧ c ≠ .good := by
  unfold isRevoked
  cases gate
  · rcases walk_not_good dec d i s es h with hw | ⟨v, hw⟩
    · exact ⟨.error, by simp [hw, Chk.mech], by simp⟩
    · exact ⟨.revoked, by simp [hw, Chk.mech], by simp⟩
  · exact ⟨.error, by simp [Chk.mech], by simp⟩

/-- **Fail closed, end to end**: whenever the mode enables CRL checking and the lookup in some loaded entry
failed (store error, undecodable record, closed database, missing store), the handshake is rejected — for
every OCSP outcome that did not already reject, every repository content and enumeration order. -/
theorem store_failure_rejects (dec : Kind → Val → Bool) (d : Disk) (mode : Mode) (hm : crlEnabled mode = true)
    (gate : Bool) (es : List (Option Entry)) (i : List UInt8) (s : Int)
    (h : ∃ e ∈ es, checkCrl dec d e i s = .error) (o : MechOut) :
    ∃ c, (isRevoked dec d gate es i s).mech = some c ∧
      (verifyProg.run mode (envOf o c) true).verdict = .reject := by
  obtain ⟨c, hc, hne⟩ := isRevoked_not_good dec d gate es i s h
  refine ⟨c, hc, ?_⟩
  rw [C03.verify_reject_iff]
  right
  exact ⟨by rw [← C03.crlEnabled_doc]; exact hm, hne⟩

/-- The lookup of a loaded entry backed by a faulty, closed or vanished disk store, or holding an undecodable
record, makes `checkCrl` fail — the hypotheses of `store_failure_rejects` are met by each fault class. -/
theorem fault_classes_reach_error (dec : Kind → Val → Bool) (d : Disk) (h : Ldb) (i : List UInt8) (s : Int)
    (hfault : (∃ f, h.fault = some f) ∨ h.isOpen = false ∨ d.dirs h.path = none ∨
      (∃ v, h.dbGet d (hkey (key i s)) = .found v ∧ dec .entry v = false)) :
    checkCrl dec d (some { loaded := true, store := some (.ldb h) }) i s = .error := by
  apply checkCrl_propagates
  rcases hfault with ⟨f, hf⟩ | hc | hd | ⟨v, hg, hv⟩
  · exact lookup_fault_is_error dec d h f hf i s
  · exact closed_is_error dec d h hc i s
  · exact missing_dir_is_error dec d h hd i s
  · exact (undecodable_is_error dec i s v hv).2 d h hg

/-!
### Open items on the unchanged tree (full statement not provable)

Full statement wanted by C09: *for every fault class of the quantifier — database closed by a concurrent shutdown, read
error, undecodable record, store missing after a failed swap — a lookup of a listed certificate never yields "not
revoked".* `store_failure_rejects` + `fault_classes_reach_error` + `nil_store_is_error` prove it for every fault that
surfaces **at a loaded entry** (`fail_closed_partial` below). It is false for the two paths on which the repository
drops the entry instead of failing the lookup: `Repository.Close` sets the map slot to nil (checkCrl then skips it),
and `updateCrlEntry` deletes the entry after a failed swap. Both are replayed on the implementation on every run
(harness signatures `C09 lookup-after-repository-close-reports-not-revoked`,
`C09 failed-swap-drops-crl-lookup-reports-not-revoked`).
-/

/-- The part of C09 that holds: every storage failure that surfaces at a loaded repository entry denies the handshake. -/
theorem fail_closed_partial (dec : Kind → Val → Bool) (d : Disk) (mode : Mode) (hm : crlEnabled mode = true)
    (gate : Bool) (es : List (Option Entry)) (i : List UInt8) (s : Int) (o : MechOut)
    (h : ∃ e ∈ es, e = some { loaded := true, store := none } ∨
      ∃ hd : Ldb, e = some { loaded := true, store := some (.ldb hd) } ∧
        ((∃ f, hd.fault = some f) ∨ hd.isOpen = false ∨ d.dirs hd.path = none ∨
          (∃ v, hd.dbGet d (hkey (key i s)) = .found v ∧ dec .entry v = false))) :
    ∃ c, (isRevoked dec d gate es i s).mech = some c ∧
      (verifyProg.run mode (envOf o c) true).verdict = .reject := by
  apply store_failure_rejects dec d mode hm gate es i s _ o
  obtain ⟨e, he, hcase⟩ := h
  refine ⟨e, he, ?_⟩
  rcases hcase with rfl | ⟨hd, rfl, hf⟩
  · exact nil_store_is_error dec d i s
  · exact fault_classes_reach_error dec d hd i s hf

/-- After `Repository.Close` every lookup answers "not revoked" — whatever was listed before. -/
theorem after_repository_close_not_revoked (dec : Kind → Val → Bool) (i : List UInt8) (s : Int) :
    ∀ (es : List (Option Entry)) (d d' : Disk) (es' : List (Option Entry)), repoClose d es = some (d', es') →
      walk dec d' i s es' = .notRevoked
  | [], d, d', es', h => by
    simp only [repoClose, Option.some.injEq, Prod.mk.injEq] at h
    obtain ⟨_, rfl⟩ := h
    simp [walk, chkOf, Store.walkEnd]
  | none :: _, _, _, _, h => by simp [repoClose] at h
  | some e :: rest, d, d', es', h => by
    simp only [repoClose] at h
    cases hc : closeStore d e.store with
    | none => simp [hc] at h
    | some d1 =>
      simp only [hc] at h
      cases hr : repoClose d1 rest with
      | none => simp [hr] at h
      | some p =>
        obtain ⟨d2, es2⟩ := p
        simp only [hr, Option.some.injEq, Prod.mk.injEq] at h
        obtain ⟨rfl, rfl⟩ := h
        have := after_repository_close_not_revoked dec i s rest d1 d2 es2 hr
        simp [walk, checkCrl, chkOf, Store.checkFallthrough, this]

section Counterexamples
def cxStore : MapStore := (MapStore.new.put (key [65] 5) [1, 2]).1
def cxEntries : List (Option Entry) := [some { loaded := true, store := some (.map cxStore) }]
def cxDec : Kind → Val → Bool := fun _ _ => true

/-- Shutdown: a serial that was reported revoked is reported "not revoked" once `Repository.Close` ran. -/
theorem fail_closed_shutdown_counterexample :
    isRevoked cxDec Disk.empty false cxEntries [65] 5 = .revoked [1, 2] ∧
    ∃ d' es', repoClose Disk.empty cxEntries = some (d', es') ∧
      isRevoked cxDec d' false es' [65] 5 = .notRevoked := by
  refine ⟨by decide, Disk.empty, [none], rfl, by decide⟩

/-- Failed swap: the entry is dropped, the listed serial is reported "not revoked" (and the handshake accepted). -/
theorem fail_closed_failed_swap_counterexample :
    isRevoked cxDec Disk.empty false cxEntries [65] 5 = .revoked [1, 2] ∧
    isRevoked cxDec Disk.empty false (failedSwap cxEntries 0) [65] 5 = .notRevoked ∧
    (verifyProg.run .crlOnly (envOf .good .good) true).verdict = .accept := by
  refine ⟨by decide, by decide, by decide⟩
end Counterexamples

-- Non-vacuity
section Examples
def decNone : Kind → Val → Bool := fun _ v => v != [0xff]
def exDisk : Disk := (Ldb.fresh 1).1
def exH : Ldb := (Ldb.fresh 1).2
def exD2 : Disk := (exH.put exDisk (key [65] 5) [1, 2]).1
example : exH.lookup decNone exD2 [65] 5 = .revoked [1, 2] := by decide
example : exH.lookup decNone exD2 [65] 6 = .absent := by decide
example : ({ exH with fault := some .corrupt } : Ldb).lookup decNone exD2 [65] 6 = .error := by decide
example : (exH.close exD2).2.lookup decNone (exH.close exD2).1 [65] 5 = .error := by decide
example : exH.lookup decNone (exH.put exD2 (key [65] 5) [0xff]).1 [65] 5 = .error := by decide
example : (verifyProg.run .crlOnly (envOf .good .error) true).verdict = .reject := by decide
example : isRevoked decNone exD2 false
    [some { loaded := true, store := some (.ldb exH) }, some { loaded := true, store := none }] [65] 6 = .error := by decide
end Examples

end Crv.Props.C09
