import Crv.Proofs.StoreSound
import Crv.Proofs.Skeleton
import Crv.Generated.Mode
import Crv.Props.C03
/-!
C09 — Fail closed: a storage failure during lookup is never reported as "not revoked".

Over the storage model (`Crv.Store`), whose lookup functions interpret the decision tables regenerated from
`LevelDbStore.GetCertRevocationStatus`, `MapStore.GetCertRevocationStatus`, `Repository.checkCrl` and
`Repository.IsRevoked` on every run (`Crv.Generated.Store`), and the regenerated statement list of
`VerifyClientCertificate` (`Crv.Generated.verifyProg`). All statements quantify over every store state,
key, fault kind, repository content and enumeration order.
-/
namespace Crv.Props.C09
open Crv Crv.Store Crv.Generated

/-- Disk: any failure of `Db.Get` other than "key not found" (I/O error, corrupted block, ...) is an error. -/
theorem lookup_fault_is_error (dec : Kind → Val → Bool) (d : Disk) (h : Ldb) (f : Fault) (hf : h.fault = some f)
    (i : List UInt8) (s : Int) : h.lookup dec d i s = .error := by
  unfold Ldb.lookup Ldb.dbGet
  cases ho : h.isOpen <;> simp [hf, retOf, Store.ldbOnGetErr]

/-- Disk: a lookup after `Close` (e.g. by a concurrent shutdown) is an error. -/
theorem closed_is_error (dec : Kind → Val → Bool) (d : Disk) (h : Ldb) (hc : h.isOpen = false)
    (i : List UInt8) (s : Int) : h.lookup dec d i s = .error := by
  simp [Ldb.lookup, Ldb.dbGet, hc, retOf, Store.ldbOnGetErr]

/-- ... in particular after the `Close` method itself, whatever the state before. -/
theorem lookup_after_close_is_error (dec : Kind → Val → Bool) (d : Disk) (h : Ldb) (i : List UInt8) (s : Int) :
    (h.close d).2.lookup dec (h.close d).1 i s = .error := by
  apply closed_is_error
  unfold Ldb.close
  cases ho : h.isOpen <;> simp [ho]

/-- Disk: the directory vanished underneath an open handle. -/
theorem missing_dir_is_error (dec : Kind → Val → Bool) (d : Disk) (h : Ldb) (hd : d.dirs h.path = none)
    (i : List UInt8) (s : Int) : h.lookup dec d i s = .error := by
  unfold Ldb.lookup Ldb.dbGet
  cases ho : h.isOpen <;> cases hf : h.fault <;> simp [hd, retOf, Store.ldbOnGetErr]

/-- Both backends: a stored value the deserializer rejects (garbage, truncated record) is an error. -/
theorem undecodable_is_error (dec : Kind → Val → Bool) (i : List UInt8) (s : Int) (v : Val) (hv : dec .entry v = false) :
    (∀ (m : MapStore), m.rawGet (key i s) = some v → m.lookup dec i s = .error) ∧
    (∀ (d : Disk) (h : Ldb), h.dbGet d (hkey (key i s)) = .found v → h.lookup dec d i s = .error) := by
  constructor
  · intro m hg
    simp [MapStore.lookup, hg, hv, retOf, Store.mapOnDecodeErr]
  · intro d h hg
    simp [Ldb.lookup, hg, hv, retOf, Store.ldbOnDecodeErr]

/-- Disk: "not revoked" is answered **only** when the database positively reports the key as not found. -/
theorem ldb_absent_iff (dec : Kind → Val → Bool) (d : Disk) (h : Ldb) (i : List UInt8) (s : Int) :
    h.lookup dec d i s = .absent ↔ h.dbGet d (hkey (key i s)) = .notFound := by
  unfold Ldb.lookup
  cases h.dbGet d (hkey (key i s)) <;> simp [retOf, Store.ldbOnNotFound, Store.ldbOnGetErr, Store.ldbOnOk, Store.ldbOnDecodeErr]
  split <;> simp

/-- Memory: "not revoked" is answered only when the map has no binding for the hashed key. -/
theorem map_absent_iff (dec : Kind → Val → Bool) (m : MapStore) (i : List UInt8) (s : Int) :
    m.lookup dec i s = .absent ↔ m.rawGet (key i s) = none := by
  unfold MapStore.lookup
  cases m.rawGet (key i s) <;> simp [retOf, Store.mapOnNotFound, Store.mapOnOk, Store.mapOnDecodeErr]
  split <;> simp

/-- `checkCrl`: an entry whose store was dropped by a failed swap (`CRLStore == nil`) yields an error. -/
theorem nil_store_is_error (dec : Kind → Val → Bool) (d : Disk) (i : List UInt8) (s : Int) :
    checkCrl dec d (some { loaded := true, store := none }) i s = .error := by
  simp [checkCrl, chkOf, Store.checkOnStoreNil]

/-- `checkCrl` propagates a lookup error of a loaded entry. -/
theorem checkCrl_propagates (dec : Kind → Val → Bool) (d : Disk) (st : AnyStore) (i : List UInt8) (s : Int)
    (h : st.lookup dec d i s = .error) : checkCrl dec d (some { loaded := true, store := some st }) i s = .error := by
  simp [checkCrl, h, chkOf, Store.checkOnLookupErr]

theorem checkCrl_ne_panic (dec : Kind → Val → Bool) (d : Disk) (e : Option Entry) (i : List UInt8) (s : Int) :
    checkCrl dec d e i s ≠ .panic := by
  unfold checkCrl
  cases e with
  | none => simp [chkOf, Store.checkFallthrough]
  | some e =>
    obtain ⟨loaded, store, closed⟩ := e
    cases closed
    · cases loaded
      · simp [chkOf, Store.checkFallthrough]
      · cases store with
        | none => simp [chkOf, Store.checkOnStoreNil]
        | some st =>
          simp only [Bool.false_and, Bool.false_eq_true, ↓reduceIte]
          cases st.lookup dec d i s <;> simp [chkOf, Store.checkOnLookupErr, Store.checkOnRevoked, Store.checkFallthrough]
    · simp [chkOf, Store.checkOnClosed]

/-- `Repository.IsRevoked`: if any entry's check fails, the walk never ends in "not revoked", in whatever
order the identifiers are enumerated (Go map order = any list order). -/
theorem walk_not_good (dec : Kind → Val → Bool) (d : Disk) (i : List UInt8) (s : Int) :
    ∀ (es : List (Option Entry)), (∃ e ∈ es, checkCrl dec d e i s = .error) →
      walk dec d i s es = .error ∨ ∃ v, walk dec d i s es = .revoked v
  | [], h => by simp at h
  | e :: es, h => by
    unfold walk
    cases hc : checkCrl dec d e i s with
    | panic => exact absurd hc (checkCrl_ne_panic dec d e i s)
    | error => left; simp [chkOf, Store.walkOnErr]
    | revoked v => right; exact ⟨v, by simp [chkOf, Store.walkOnRevoked]⟩
    | notRevoked =>
      obtain ⟨e', he', hce'⟩ := h
      rcases List.mem_cons.mp he' with rfl | he'
      · rw [hc] at hce'; exact absurd hce' (by simp)
      · exact walk_not_good dec d i s es ⟨e', he', hce'⟩

theorem isRevoked_not_good (dec : Kind → Val → Bool) (d : Disk) (gate : Bool) (es : List (Option Entry))
    (i : List UInt8) (s : Int) (h : ∃ e ∈ es, checkCrl dec d e i s = .error) :
    ∃ c, (isRevoked dec d gate es i s).mech = some c ∧ c ≠ .good := by
  unfold isRevoked
  cases gate
  · rcases walk_not_good dec d i s es h with hw | ⟨v, hw⟩
    · exact ⟨.error, by simp [hw, Chk.mech], by simp⟩
    · exact ⟨.revoked, by simp [hw, Chk.mech], by simp⟩
  · exact ⟨.error, by simp [Chk.mech], by simp⟩

/-- **Fail closed, end to end**: whenever the mode enables CRL checking and the lookup in some loaded entry
failed (store error, undecodable record, closed database, missing store), the handshake is rejected — for
every OCSP outcome that did not already reject, every repository content and enumeration order. -/
theorem store_failure_rejects (dec : Kind → Val → Bool) (d : Disk) (mode : Mode) (hm : crlEnabled mode = true)
    (gate : Bool) (es : List (Option Entry)) (i : List UInt8) (s : Int)
    (h : ∃ e ∈ es, checkCrl dec d e i s = .error) (o : MechOut) :
    ∃ c, (isRevoked dec d gate es i s).mech = some c ∧
      (verifyProg.run mode (envOf o c) true).verdict = .reject := by
  obtain ⟨c, hc, hne⟩ := isRevoked_not_good dec d gate es i s h
  refine ⟨c, hc, ?_⟩
  rw [C03.verify_reject_iff]
  right
  exact ⟨by rw [← C03.crlEnabled_doc]; exact hm, hne⟩

/-- The lookup of a loaded entry backed by a faulty, closed or vanished disk store, or holding an undecodable
record, makes `checkCrl` fail — the hypotheses of `store_failure_rejects` are met by each fault class. -/
theorem fault_classes_reach_error (dec : Kind → Val → Bool) (d : Disk) (h : Ldb) (i : List UInt8) (s : Int)
    (hfault : (∃ f, h.fault = some f) ∨ h.isOpen = false ∨ d.dirs h.path = none ∨
      (∃ v, h.dbGet d (hkey (key i s)) = .found v ∧ dec .entry v = false)) :
    checkCrl dec d (some { loaded := true, store := some (.ldb h) }) i s = .error := by
  apply checkCrl_propagates
  rcases hfault with ⟨f, hf⟩ | hc | hd | ⟨v, hg, hv⟩
  · exact lookup_fault_is_error dec d h f hf i s
  · exact closed_is_error dec d h hc i s
  · exact missing_dir_is_error dec d h hd i s
  · exact (undecodable_is_error dec i s v hv).2 d h hg

/-- An entry closed by `Repository.Close` makes the lookup fail, whatever its store holds. -/
theorem closed_entry_is_error (dec : Kind → Val → Bool) (d : Disk) (l : Bool) (st : Option AnyStore) (i : List UInt8) (s : Int) :
    checkCrl dec d (some { loaded := l, store := st, closed := true }) i s = .error := by
  simp [checkCrl, chkOf, Store.checkOnClosed]

/-- `Repository.Close` never panics on a repository without nil entries (in particular not when called twice) ... -/
theorem repoClose_total (d : Disk) : ∀ (es : List (Option Entry)), (∀ e ∈ es, e ≠ none) → ∃ r, repoClose d es = some r
  | [], _ => ⟨_, rfl⟩
  | none :: _, h => absurd rfl (h none List.mem_cons_self)
  | some e :: rest, h => by
    have hce : ∃ d1 e1, closeEntry d (some e) = some (d1, some e1) := by
      unfold closeEntry
      simp only [Store.closeIdempotent, Store.closeNilStoreGuard, Store.closeDropsEntry, Bool.true_and]
      cases e.closed
      · cases e.store with
        | none => exact ⟨_, _, rfl⟩
        | some st => exact ⟨_, _, rfl⟩
      · exact ⟨_, _, rfl⟩
    obtain ⟨d1, e1, h1⟩ := hce
    obtain ⟨r, hr⟩ := repoClose_total d1 rest (fun e' he' => h e' (List.mem_cons_of_mem _ he'))
    exact ⟨(r.1, some e1 :: r.2), by simp [repoClose, h1, hr]⟩

/-- ... keeps every entry and marks it closed. -/
theorem repoClose_marks (d : Disk) : ∀ (es : List (Option Entry)) (d' : Disk) (es' : List (Option Entry)),
    repoClose d es = some (d', es') → es'.length = es.length ∧ ∀ e' ∈ es', ∃ e, e' = some e ∧ e.closed = true
  | [], d', es', h => by
    simp only [repoClose, Option.some.injEq, Prod.mk.injEq] at h
    obtain ⟨_, rfl⟩ := h
    exact ⟨rfl, by simp⟩
  | e :: rest, d', es', h => by
    simp only [repoClose] at h
    cases hc : closeEntry d e with
    | none => simp [hc] at h
    | some p =>
      obtain ⟨d1, e1⟩ := p
      simp only [hc] at h
      cases hr : repoClose d1 rest with
      | none => simp [hr] at h
      | some q =>
        obtain ⟨d2, es2⟩ := q
        simp only [hr, Option.some.injEq, Prod.mk.injEq] at h
        obtain ⟨rfl, rfl⟩ := h
        obtain ⟨hlen, hall⟩ := repoClose_marks d1 rest d2 es2 hr
        refine ⟨by simp [hlen], ?_⟩
        intro e' he'
        rcases List.mem_cons.mp he' with rfl | he'
        · -- the entry just closed
          cases e with
          | none => simp [closeEntry] at hc
          | some e0 =>
            unfold closeEntry at hc
            simp only [Store.closeIdempotent, Store.closeNilStoreGuard, Store.closeDropsEntry, Store.closeMarksClosed,
              Bool.true_and, Bool.or_true] at hc
            cases hcl : e0.closed
            · cases hst : e0.store with
              | none =>
                simp [hcl, hst] at hc
                exact ⟨_, hc.2.symm, rfl⟩
              | some st =>
                simp [hcl, hst] at hc
                exact ⟨_, hc.2.symm, rfl⟩
            · simp [hcl] at hc
              exact ⟨e0, hc.2.symm, hcl⟩
        · exact hall e' he'

/-- **Shutdown fails closed**: after `Repository.Close` a lookup in a repository that holds any CRL is an error,
hence (CRL checking enabled) the handshake is rejected — never "not revoked". -/
theorem lookup_after_repository_close_is_error (dec : Kind → Val → Bool) (d d' : Disk) (es es' : List (Option Entry))
    (hc : repoClose d es = some (d', es')) (hne : es ≠ []) (gate : Bool) (i : List UInt8) (s : Int) :
    isRevoked dec d' gate es' i s = .error := by
  obtain ⟨hlen, hall⟩ := repoClose_marks d es d' es' hc
  unfold isRevoked
  cases gate
  · cases es' with
    | nil => cases es with
      | nil => exact absurd rfl hne
      | cons => simp at hlen
    | cons e' rest =>
      obtain ⟨e, rfl, hcl⟩ := hall e' List.mem_cons_self
      obtain ⟨l, st, cl⟩ := e
      simp only at hcl
      subst hcl
      simp [walk, closed_entry_is_error, chkOf, Store.walkOnErr]
  · rfl

theorem shutdown_rejects (dec : Kind → Val → Bool) (d d' : Disk) (es es' : List (Option Entry))
    (hc : repoClose d es = some (d', es')) (hne : es ≠ []) (mode : Mode) (hm : crlEnabled mode = true)
    (gate : Bool) (i : List UInt8) (s : Int) (o : MechOut) :
    (isRevoked dec d' gate es' i s).mech = some .error ∧
      (verifyProg.run mode (envOf o .error) true).verdict = .reject := by
  rw [lookup_after_repository_close_is_error dec d d' es es' hc hne gate i s]
  refine ⟨rfl, ?_⟩
  rw [C03.verify_reject_iff]
  right
  exact ⟨by rw [← C03.crlEnabled_doc]; exact hm, by simp⟩

/-!
### Open item on the unchanged tree (full statement not provable)

Full statement wanted by C09: *for every fault class of the quantifier — database closed by a concurrent shutdown, read
error, undecodable record, store missing after a failed swap — a lookup of a listed certificate never yields "not
revoked".* Proved for every fault that surfaces **at a repository entry** (`fail_closed_partial`: closed entry, nil
store, faulty / closed / vanished database, undecodable record) and for shutdown (`shutdown_rejects`). It is false
for the path on which the repository drops the entry instead of failing the lookup: `updateCrlEntry` deletes the entry
after a failed directory swap (`fail_closed_failed_swap_counterexample`; replayed on the implementation on every run,
harness signature `C09 failed-swap-drops-crl-lookup-reports-not-revoked`, listed in known_findings.json).
-/

/-- The part of C09 that holds: every storage failure that surfaces at a repository entry denies the handshake. -/
theorem fail_closed_partial (dec : Kind → Val → Bool) (d : Disk) (mode : Mode) (hm : crlEnabled mode = true)
    (gate : Bool) (es : List (Option Entry)) (i : List UInt8) (s : Int) (o : MechOut)
    (h : ∃ e ∈ es, (∃ l st, e = some { loaded := l, store := st, closed := true }) ∨
      e = some { loaded := true, store := none } ∨
      ∃ hd : Ldb, e = some { loaded := true, store := some (.ldb hd) } ∧
        ((∃ f, hd.fault = some f) ∨ hd.isOpen = false ∨ d.dirs hd.path = none ∨
          (∃ v, hd.dbGet d (hkey (key i s)) = .found v ∧ dec .entry v = false))) :
    ∃ c, (isRevoked dec d gate es i s).mech = some c ∧
      (verifyProg.run mode (envOf o c) true).verdict = .reject := by
  apply store_failure_rejects dec d mode hm gate es i s _ o
  obtain ⟨e, he, hcase⟩ := h
  refine ⟨e, he, ?_⟩
  rcases hcase with ⟨l, st, rfl⟩ | rfl | ⟨hd, rfl, hf⟩
  · exact closed_entry_is_error dec d l st i s
  · exact nil_store_is_error dec d i s
  · exact fault_classes_reach_error dec d hd i s hf

section Counterexamples
def cxStore : MapStore := (MapStore.new.put (key [65] 5) [1, 2]).1
def cxEntries : List (Option Entry) := [some { loaded := true, store := some (.map cxStore) }]
def cxDec : Kind → Val → Bool := fun _ _ => true

/-- Failed swap: the entry is dropped, the listed serial is reported "not revoked" (and the handshake accepted). -/
theorem fail_closed_failed_swap_counterexample :
    isRevoked cxDec Disk.empty false cxEntries [65] 5 = .revoked [1, 2] ∧
    isRevoked cxDec Disk.empty false (failedSwap cxEntries 0) [65] 5 = .notRevoked ∧
    (verifyProg.run .crlOnly (envOf .good .good) true).verdict = .accept := by
  refine ⟨by decide, by decide, by decide⟩

-- and shutdown on the same repository now fails closed:
example : ∃ d' es', repoClose Disk.empty cxEntries = some (d', es') ∧
    isRevoked cxDec d' false es' [65] 5 = .error :=
  ⟨_, _, rfl, by decide⟩
end Counterexamples

-- Non-vacuity
section Examples
def decNone : Kind → Val → Bool := fun _ v => v != [0xff]
def exDisk : Disk := (Ldb.fresh 1).1
def exH : Ldb := (Ldb.fresh 1).2
def exD2 : Disk := (exH.put exDisk (key [65] 5) [1, 2]).1
example : exH.lookup decNone exD2 [65] 5 = .revoked [1, 2] := by decide
example : exH.lookup decNone exD2 [65] 6 = .absent := by decide
example : ({ exH with fault := some .corrupt } : Ldb).lookup decNone exD2 [65] 6 = .error := by decide
example : (exH.close exD2).2.lookup decNone (exH.close exD2).1 [65] 5 = .error := by decide
example : exH.lookup decNone (exH.put exD2 (key [65] 5) [0xff]).1 [65] 5 = .error := by decide
example : (verifyProg.run .crlOnly (envOf .good .error) true).verdict = .reject := by decide
example : isRevoked decNone exD2 false
    [some { loaded := true, store := some (.ldb exH) }, some { loaded := true, store := none }] [65] 6 = .error := by decide
end Examples

/-- The hand-written `Store` model this property rests on was transcribed from exactly these sources: the fingerprints are
recomputed from /repo on every run (tools/extract/skeleton.go), so any change to one of the functions breaks this obligation. -/
theorem store_sources_as_transcribed : Crv.Generated.skeletonStore = Crv.Skeleton.expectedStore :=
  Crv.Skeleton.store_sources_as_transcribed

end Crv.Props.C09
