import Crv.Proofs.Sched
import Crv.Proofs.Skeleton
import Crv.Generated.Sched
import Crv.Props.C10Loader
/-!
C15 — Refresh liveness. Theorems over the scheduling model `Crv.Sched` instantiated with the facts the
translator regenerates from crl/crlrevocationchecker.go and crl/crlrepository/crlrepository.go on every
run: where the "last refresh finished" stamp lives (`schedLastFinishIsGlobal`), the skip rule
(`schedRecentlyFinished`, `schedDivisor`), the statement list of `updateCRLs` (`schedTickProg`), whether
`UpdateCRLs` goes on after a failing location (`schedLoopContinuesOnError`), and the statement order of
Provision for configured CRLs.

Time is logical (one unit, e.g. ns); assumptions about the runtime are explicit hypotheses:
* `Ticker`: for every tick instant φ + j·I up to the horizon, the call it triggers obtains the refresh
  mutex at most `W` later (the ticker fires, and the mutex — held only by refresh runs of this process —
  is obtained within `W`; `W` is at most the sum of the other pending runs' durations);
* `Serial`: a call of instance i decides after the previous run of instance i has finished (they all hold
  the same mutex);
* every run takes at most `D` (fetches terminate).
Nothing is assumed about the other instances' events.
-/
namespace Crv.Props.C15
open Crv.Sched Crv.Generated

def model : Model :=
  { global := schedLastFinishIsGlobal, prog := schedTickProg, recent := schedRecentlyFinished,
    contOnError := schedLoopContinuesOnError }

/-- The stamp is a field of the checker, not a package variable (repaired by 84f5929). If it becomes global
again this fails, and with it `bounded_refresh` and `noninterference` (see `global_stamp_starves`). -/
theorem stamp_per_instance : schedLastFinishIsGlobal = false := by decide

/-- `updateCRLs` as extracted: runs unless (not forced and recently finished); the finish time is stamped
exactly when it ran — also when locations failed (the stamp is deferred before the run) —; the mutex is
always released. -/
theorem tick_spec : TickSpec model := by
  intro f r; cases f <;> cases r <;> decide

theorem recent_rule (l n iv : Nat) :
    model.recent l n iv = (l != 0 && decide (n - l < iv / schedDivisor)) := rfl

theorem forced_always_runs (r : Bool) : (runTick schedTickProg true r).ran = true := by
  cases r <;> decide

theorem ticks_are_not_forced : schedTickForced = false ∧ schedInitialRun = true := by decide

/-- A call of instance `i` decides only after `i`'s previous run has finished. -/
def Serial (I : Nat → Nat) (evs : List Ev) (i : Nat) : Prop :=
  ∀ pre e post, evs = pre ++ e :: post → e.inst = i → finalLast model I (fun _ => 0) pre i ≤ e.time

/-- Every tick instant of instance `i` up to the horizon leads to a call that decides at most `W` later. -/
def Ticker (evs : List Ev) (i φ Iv W horizon : Nat) : Prop :=
  ∀ j, φ + j * Iv ≤ horizon → ∃ e ∈ evs, e.inst = i ∧ φ + j * Iv ≤ e.time ∧ e.time ≤ φ + j * Iv + W

/-- **bounded_refresh.** For every instance `i` and every instant `t` (from the start φ of its ticker to
the horizon), a refresh run of `i` — which visits every location known when it starts — starts in
`(t, t + I + I/2 + D + W]` and is complete by `t + I + I/2 + 2·D + W`, whatever the other instances do
and whatever the refresh outcomes were. (`startBound I 2 D W = I + I/2 + D + W`.) -/
theorem bounded_refresh (I : Nat → Nat) (i φ D W horizon : Nat) (evs : List Ev)
    (hI : 0 < I i) (hD : ∀ e ∈ evs, e.dur ≤ D) (hser : Serial I evs i)
    (htick : Ticker evs i φ (I i) W horizon)
    (t : Nat) (hφ : φ ≤ t + I i / schedDivisor + D) (hh : t + I i / schedDivisor + D + I i ≤ horizon) :
    ∃ r ∈ exec model I (fun _ => 0) evs, r.inst = i ∧ t < r.start ∧
      r.start ≤ t + startBound (I i) schedDivisor D W ∧ r.finish ≤ t + doneBound (I i) schedDivisor D W := by
  obtain ⟨j, hj1, hj2⟩ := exists_tick φ (I i) (t + I i / schedDivisor + D) hI hφ
  obtain ⟨e, he, hei, hlo, hhi⟩ := htick j (by omega)
  obtain ⟨pre, post, rfl⟩ := List.append_of_mem he
  obtain ⟨r, hr, hri, h1, h2, h3⟩ :=
    tick_has_recent_run tick_spec stamp_per_instance schedDivisor recent_rule I i D pre post e (fun _ => 0) rfl hei
      hD (hser pre e post rfl hei) t (by omega)
  refine ⟨r, hr, hri, h1, ?_, ?_⟩
  · unfold startBound; omega
  · unfold doneBound startBound; omega

/-- **Non-interference.** The runs of instance `i` are a function of `i`'s own events. -/
theorem noninterference (I : Nat → Nat) (i : Nat) (evs : List Ev) :
    (exec model I (fun _ => 0) evs).filter (·.inst == i) = exec model I (fun _ => 0) (evs.filter (·.inst == i)) :=
  Crv.Sched.noninterference tick_spec stamp_per_instance I i evs _ _ rfl

/-- What the process-global stamp did (the model with `global := true`): instance 1, whose ticks come one
unit after instance 0's, never runs in 40 consecutive intervals although its ticker fires every time. -/
def starveEvs : Nat → List Ev
  | 0 => []
  | n + 1 => starveEvs n ++ [⟨0, false, 10 * n + 1, 0⟩, ⟨1, false, 10 * n + 2, 0⟩]

theorem global_stamp_starves :
    ((exec { model with global := true } (fun _ => 10) (fun _ => 0) (starveEvs 40)).all (·.inst != 1)) = true ∧
    ((exec model (fun _ => 10) (fun _ => 0) (starveEvs 40)).filter (·.inst == 1)).length = 40 := by
  decide +kernel

/-- **after_failures.** Failures do not alter the schedule: the stamp and the skip decision do not depend
on refresh outcomes (`tick_spec`), every run attempts every known location even when earlier ones failed,
and a location whose refresh failed `k` times and then succeeds is in force with the version published at
that run; until then the previous list stays. -/
theorem after_failures (ok : Nat → Bool) (locs : List Nat) (pub : Nat → Nat) (okl : Nat → Bool) (v0 k : Nat)
    (hfail : ∀ j, j < k → okl j = false) (hok : okl k = true) :
    attempted model.contOnError ok locs = locs ∧
    inForce pub okl v0 k = v0 ∧ inForce pub okl v0 (k + 1) = pub k :=
  ⟨attempted_all ok locs, inForce_all_fail pub okl v0 k hfail, inForce_fail_then_ok pub okl v0 k hok⟩

/-! ### Provision -/

def facts : RepoFacts :=
  { addStoresLocations := schedAddStoresLocations, addLoadsActively := schedAddLoadsActively,
    updateEntrySetsLoaded := schedUpdateEntrySetsLoaded, updateReturnsError := schedUpdateReturnsError }

theorem loc_in_force (active : Bool) (fetchOk : Nat → Bool) (l : Nat) (s s' : PState)
    (h : runLoc facts active fetchOk [.addCRL, .updateCRL] l s = some s') :
    s'.inForce l = true ∧ (∀ l', s.inForce l' = true → s'.inForce l' = true) ∧ s'.tickerStarted = s.tickerStarted := by
  simp only [runLoc, List.foldl, Option.bind, runLocStmt, facts, schedAddStoresLocations, schedAddLoadsActively,
    schedUpdateEntrySetsLoaded, schedUpdateReturnsError, PState.find, PState.put, PState.inForce] at h ⊢
  cases hs : s.ent l with
  | none =>
    cases active <;> cases hf : fetchOk l <;> simp [hs, hf] at h <;> subst h <;>
      (refine ⟨by simp, ?_, rfl⟩; intro l' hl'; by_cases hll : l' = l <;> simp_all)
  | some e =>
    obtain ⟨eld, ehl⟩ := e
    cases active <;> cases eld <;> cases ehl <;> cases hf : fetchOk l <;> simp [hs, hf] at h <;>
      try (subst h; refine ⟨by simp, ?_, rfl⟩; intro l' hl'; by_cases hll : l' = l <;> simp_all)

theorem locs_in_force (active : Bool) (fetchOk : Nat → Bool) : ∀ (ls : List Nat) (s s' : PState),
    runLocs facts active fetchOk [.addCRL, .updateCRL] ls s = some s' →
      (∀ l ∈ ls, s'.inForce l = true) ∧ (∀ l', s.inForce l' = true → s'.inForce l' = true) ∧
        s'.tickerStarted = s.tickerStarted
  | [], s, s', h => by simp only [runLocs, Option.some.injEq] at h; subst h; exact ⟨by simp, fun _ h => h, rfl⟩
  | l :: ls, s, s', h => by
    simp only [runLocs] at h
    cases h1 : runLoc facts active fetchOk [.addCRL, .updateCRL] l s with
    | none => rw [h1] at h; cases h
    | some s1 =>
      rw [h1] at h
      obtain ⟨a1, a2, a3⟩ := loc_in_force active fetchOk l s s1 h1
      obtain ⟨b1, b2, b3⟩ := locs_in_force active fetchOk ls s1 s' h
      refine ⟨?_, fun l' hl' => b2 l' (a2 l' hl'), b3.trans a3⟩
      intro x hx
      rcases List.mem_cons.mp hx with rfl | hx
      · exact b2 _ a1
      · exact b1 x hx

/-- **provision_in_force.** With the statement order extracted from Provision / addCrlUrlsFromConfig /
addCrlFilesFromConfig (AddCRL, return its error, UpdateCRL, return its error — for every configured
location, before the ticker is started), Provision returns ok only in a state where every configured
crl_url and crl_file is loaded, in both fetch modes (in fetch_background mode AddCRL does not load; the
entry is marked loaded by updateEntry, d2bc860). -/
theorem provision_in_force (fetchOk : Nat → Bool) (cfg : ProvCfg) (s' : PState)
    (h : provision facts sched_addCrlUrlsFromConfig sched_addCrlFilesFromConfig fetchOk cfg schedProvision {} = some s') :
    (∀ l ∈ cfg.urls ++ cfg.files, s'.inForce l = true) ∧ s'.tickerStarted = true := by
  simp only [schedProvision, sched_addCrlUrlsFromConfig, sched_addCrlFilesFromConfig, provision] at h
  cases h1 : runLocs facts cfg.active fetchOk [.addCRL, .updateCRL] cfg.urls {} with
  | none => rw [h1] at h; cases h
  | some s1 =>
    rw [h1] at h; simp only at h
    cases h2 : runLocs facts cfg.active fetchOk [.addCRL, .updateCRL] cfg.files s1 with
    | none => rw [h2] at h; cases h
    | some s2 =>
      rw [h2] at h; simp only [Option.some.injEq] at h
      subst h
      obtain ⟨a1, _, _⟩ := locs_in_force _ _ _ _ _ h1
      obtain ⟨b1, b2, _⟩ := locs_in_force _ _ _ _ _ h2
      refine ⟨?_, rfl⟩
      intro l hl
      rcases List.mem_append.mp hl with hl | hl
      · exact b2 l (a1 l hl)
      · exact b1 l hl

/-- … and a failing configured location makes Provision fail (it is not silently skipped). -/
theorem provision_fails_if_unfetchable (cfg : ProvCfg) (l : Nat) (ls : List Nat) (hu : cfg.urls = l :: ls) (fetchOk : Nat → Bool)
    (hf : fetchOk l = false) :
    provision facts sched_addCrlUrlsFromConfig sched_addCrlFilesFromConfig fetchOk cfg schedProvision {} = none := by
  simp only [schedProvision, sched_addCrlUrlsFromConfig, provision, hu, runLocs, runLoc, List.foldl, Option.bind,
    runLocStmt, facts, schedAddStoresLocations, schedAddLoadsActively, schedUpdateEntrySetsLoaded,
    schedUpdateReturnsError, PState.find, PState.put]
  cases cfg.active <;> simp [hf]

/-! ### non-vacuity -/

/-- two instances (intervals 10 and 14, instance 1 starting 3 units later), runs of 1 unit, 12 ticks each -/
def demoSorted : List Ev :=
  (List.range 170).flatMap fun t =>
    (if t % 10 = 1 ∧ t < 120 then [(⟨0, false, t, 1⟩ : Ev)] else []) ++
    (if 4 ≤ t ∧ (t - 4) % 14 = 0 then [(⟨1, false, t, 1⟩ : Ev)] else [])

/-- the hypotheses of `bounded_refresh` hold on a concrete two-instance schedule, and its conclusion is
witnessed by an actual run -/
example : (exec model (fun i => if i = 0 then 10 else 14) (fun _ => 0) demoSorted).length = 24 ∧
    (∃ r ∈ exec model (fun i => if i = 0 then 10 else 14) (fun _ => 0) demoSorted, r.inst = 1 ∧ 50 < r.start ∧
      r.start ≤ 50 + startBound 14 schedDivisor 1 0) := by decide +kernel

/-- a skip really happens in the model (a forced refresh just before a tick suppresses the tick) -/
example : exec model (fun _ => 10) (fun _ => 0) [⟨0, true, 8, 1⟩, ⟨0, false, 11, 1⟩, ⟨0, false, 21, 1⟩] =
    [⟨0, 8, 9⟩, ⟨0, 21, 22⟩] := by decide +kernel

/-- Provision succeeds and everything is in force in fetch_background mode with two urls and a file -/
example : ∃ s', provision facts sched_addCrlUrlsFromConfig sched_addCrlFilesFromConfig (fun _ => true)
    { urls := [1, 2], files := [3], active := false } schedProvision {} = some s' ∧
    s'.inForce 1 = true ∧ s'.inForce 2 = true ∧ s'.inForce 3 = true := ⟨_, rfl, by decide, by decide, by decide⟩

/-- The hand-written `Repo` model this property rests on was transcribed from exactly these sources: the fingerprints are
recomputed from /repo on every run (tools/extract/skeleton.go), so any change to one of the functions breaks this obligation. -/
theorem repo_sources_as_transcribed : Crv.Generated.skeletonRepo = Crv.Skeleton.expectedRepo :=
  Crv.Skeleton.repo_sources_as_transcribed

/-- The hand-written `Loader` model this property rests on was transcribed from exactly these sources: the fingerprints are
recomputed from /repo on every run (tools/extract/skeleton.go), so any change to one of the functions breaks this obligation. -/
theorem loader_sources_as_transcribed : Crv.Generated.skeletonLoader = Crv.Skeleton.expectedLoader :=
  Crv.Skeleton.loader_sources_as_transcribed

/-! ### "again after failed attempts" at the loader layer (re-exports of `Crv.Props.C10.Loader`) -/
section LoaderLayer
open Crv.Loader

/-- After **any** history of `LoadCRL` calls on one multi-location loader object, a call succeeds exactly when some distribution
point answers in that call: no location is given up on because of earlier failures. -/
theorem loader_no_blacklisting (n : Nat) (hist : List (Nat → Bool)) (out : Nat → Bool) :
    (runCalls (fresh n) hist).wf = true ∧ (runCalls (fresh n) hist).n = n ∧
    ((∃ j, (load (runCalls (fresh n) hist) out).2.1 = some j) ↔ ∃ j, j < n ∧ out j = true) ∧
    ((∃ j, j < n ∧ out j = true) →
      ∃ j, (load (runCalls (fresh n) hist) out).2.1 = some j ∧ j < n ∧ out j = true) :=
  Crv.Props.C10.Loader.no_blacklisting n hist out

/-- One fetch through `utils.Retry` with the package's retry count ends after at most five attempts (it cannot hold the refresh
mutex for an unbounded number of attempts) and succeeds iff one of them does. -/
theorem loader_retry_bounded (out : Nat → Bool) :
    1 ≤ (loaderRetry out).2 ∧ (loaderRetry out).2 ≤ 5 ∧
    ((loaderRetry out).1 = true ↔ ∃ k, k < 5 ∧ out k = true) :=
  Crv.Props.C10.Loader.loader_retry_five out

/-- A failing load has asked every loader, and every one of them failed in this call. -/
theorem loader_failure_tried_everyone (m : Multi) (out : Nat → Bool) (h : (load m out).2.1 = none) :
    (∀ j, j < m.n → j ∈ (load m out).2.2) ∧ (∀ j ∈ (load m out).2.2, out j = false) :=
  ⟨(Crv.Props.C10.Loader.load_failure_tries_everyone m out h).1, (Crv.Props.C10.Loader.load_failure_tries_everyone m out h).2.1⟩

end LoaderLayer

end Crv.Props.C15
