import Crv.Props.C10Loader
import Crv.Proofs.Repo
import Crv.Proofs.Skeleton
/-!
C10 — CDP strictness, over every history of the repository model (serve / handshake / refresh tick /
provision / restart / restart with another signature mode / shutdown in any order and number) and every
enumeration order of the repository map.
"In force" = loaded, open entry whose store is a complete image of a document accepted under the signature
policy configured at its intake (`Accepted`, from the invariant `inv_run`; `accepted_at_intake`).
-/
namespace Crv.Props.C10
open Crv Crv.Repo Crv.Generated

/-- Strict: a certificate naming distribution points is only *not rejected by the CRL mechanism* while a CRL for that
distribution-point set is in force. Holds in every reachable state; `order` is any enumeration covering the entries. -/
theorem strict_accept_implies_in_force (cfg : Cfg) (ops : List Op) (hstrict : cfg.strict = true)
    (c : Cert) (loc : Loc) (hcdp : c.cdp = some loc) (order : List (Loc × Entry))
    (hcover : ∀ p ∈ (run cfg ops).entries, p ∈ order)
    (hacc : isRevoked (run cfg ops) order c = .notRevoked) :
    ∃ e d, lookup (run cfg ops).entries loc = some e ∧ e.loaded = true ∧ e.closed = false ∧
      e.store.doc = some d ∧ Accepted (run cfg ops) loc d := by
  have hcfg := strict_run cfg ops
  have hinv := inv_run cfg ops
  unfold isRevoked at hacc
  rw [hcdp] at hacc
  simp only [hcfg, hstrict, Bool.true_or, Bool.true_and] at hacc
  split at hacc
  · cases hacc
  · split at hacc
    · cases hacc
    · rename_i hu hp
      unfold presentAndLoaded at hp
      cases hl : lookup (run cfg ops).entries loc with
      | none => simp [hl] at hp
      | some e =>
        simp only [hl, Bool.not_eq_true', Bool.not_eq_false] at hp
        have hmem := lookup_mem _ _ _ hl
        have hclosed := walk_notRevoked_none_closed c order hacc (loc, e) (hcover _ hmem)
        have hok := (hinv.1 (loc, e) hmem).store.accepted
        have hd := (hinv.1 (loc, e) hmem).loadedDoc hp
        cases hdoc : e.store.doc with
        | none => simp [hdoc] at hd
        | some d => exact ⟨e, d, rfl, hp, hclosed, hdoc, hok d hdoc⟩

/-- Strict, unsupported location (e.g. only ldap:// distribution points): denied. -/
theorem strict_unsupported_denied (s : State) (hstrict : s.cfg.strict = true) (c : Cert) (loc : Loc)
    (hcdp : c.cdp = some loc) (hu : s.unsupported.contains loc = true) (order : List (Loc × Entry)) :
    isRevoked s order c = .error := by
  unfold isRevoked
  simp only [hcdp, hstrict, Bool.true_or, Bool.true_and, hu, ↓reduceIte]

/-- Strict, before the first successful load / after failed loads / while a background fetch is pending: denied. -/
theorem strict_not_loaded_denied (s : State) (hstrict : s.cfg.strict = true) (c : Cert) (loc : Loc)
    (hcdp : c.cdp = some loc) (hn : presentAndLoaded s loc = false) (order : List (Loc × Entry)) :
    isRevoked s order c = .error := by
  unfold isRevoked
  simp only [hcdp, hstrict, Bool.true_or, Bool.true_and, hn, Bool.not_false, ↓reduceIte]
  split <;> rfl

/-- Lenient: the inability to obtain or use a distribution-point CRL never denies. The lookup can only fail when an
entry has been closed (shutdown), whatever the certificate's CDP, supported or not, loaded or not. -/
theorem lenient_never_denies (s : State) (hlen : s.cfg.strict = false) (c : Cert) (order : List (Loc × Entry))
    (hopen : ∀ p ∈ order, p.2.closed = false) : isRevoked s order c ≠ .error := by
  have hw : walk c order ≠ .error := by
    intro he
    obtain ⟨p, hp, hc⟩ := walk_error_closed c order he
    rw [hopen p hp] at hc
    cases hc
  unfold isRevoked
  cases c.cdp with
  | none => exact hw
  | some loc =>
    simp only [hlen, gateOnlyWhenStrict, Bool.not_true, Bool.or_self, Bool.false_and, Bool.false_eq_true, ↓reduceIte]
    exact hw

/-- A failed first load (fetch, parse or signature) leaves the entry not loaded: with strict on the next handshake is denied. -/
theorem failed_load_stays_unloaded (s : State) (loc : Loc) (e : Entry) (cands : List Signer)
    (hfail : (loadCRL s loc e cands).2 = .err) : (loadCRL s loc e cands).1 = s := by
  unfold loadCRL at hfail ⊢
  by_cases hc : loadRefused s e = true
  · simp only [hc, ↓reduceIte]
  · simp only [hc, Bool.false_eq_true, ↓reduceIte] at hfail ⊢
    cases hst : stage s.cfg.sigMode firstLoadHonoursMode (servedAt s loc) cands with
    | ok st d v => rw [hst] at hfail; cases hfail
    | fetchFail => rfl
    | parseFail => rfl
    | sigFail d => rfl

-- Non-vacuity
example : isRevoked (run { strict := true } [.serve 1 .garbage, .handshake ⟨7, 10, some 1⟩ [1]])
    (run { strict := true } [.serve 1 .garbage, .handshake ⟨7, 10, some 1⟩ [1]]).entries ⟨7, 10, some 1⟩ = .error := by decide
example : isRevoked (run { strict := false } [.markUnsupported 4]) [] ⟨7, 10, some 4⟩ = .notRevoked := by decide
-- strict, restart with another signature mode: a list taken in under `none` (unknown signer 9) is not loaded after the restart
-- under `verify`; the certificate naming this distribution point is denied, before the restart it was accepted.
def strictRestart : List Op :=
  [.serve 1 (.doc ⟨7, [13], 9, 1⟩), .handshake ⟨7, 10, some 1⟩ [1], .reconfigure .verify, .handshake ⟨7, 10, some 1⟩ [1]]
example : isRevoked (run { strict := true, sigMode := .none } (strictRestart.take 2))
    (run { strict := true, sigMode := .none } (strictRestart.take 2)).entries ⟨7, 10, some 1⟩ = .notRevoked := by decide
example : isRevoked (run { strict := true, sigMode := .none } strictRestart)
    (run { strict := true, sigMode := .none } strictRestart).entries ⟨7, 10, some 1⟩ = .error := by decide

/-- The hand-written `Repo` model this property rests on was transcribed from exactly these sources: the fingerprints are
recomputed from /repo on every run (tools/extract/skeleton.go), so any change to one of the functions breaks this obligation. -/
theorem repo_sources_as_transcribed : Crv.Generated.skeletonRepo = Crv.Skeleton.expectedRepo :=
  Crv.Skeleton.repo_sources_as_transcribed

/-- The hand-written `Loader` model this property rests on was transcribed from exactly these sources: the fingerprints are
recomputed from /repo on every run (tools/extract/skeleton.go), so any change to one of the functions breaks this obligation. -/
theorem loader_sources_as_transcribed : Crv.Generated.skeletonLoader = Crv.Skeleton.expectedLoader :=
  Crv.Skeleton.loader_sources_as_transcribed

end Crv.Props.C10
