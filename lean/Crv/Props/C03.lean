import Crv.Mode
import Crv.Proofs.Skeleton
import Crv.Generated.Mode
/-!
C03 — Mode composition. All statements are about the definitions the translator regenerates
from revocation.go / configparser.go on every run (`Crv.Generated.*`).
-/
namespace Crv.Props.C03
open Crv Crv.Generated

/-- The documented table: which mechanisms a mode enables. -/
def docOcsp : Mode → Bool
  | .preferOCSP | .preferCRL | .ocspOnly => true
  | .crlOnly | .disabled => false
def docCrl : Mode → Bool
  | .preferOCSP | .preferCRL | .crlOnly => true
  | .ocspOnly | .disabled => false

theorem ocspEnabled_doc (m : Mode) : ocspEnabled m = docOcsp m := by cases m <;> rfl
theorem crlEnabled_doc (m : Mode) : crlEnabled m = docCrl m := by cases m <;> rfl

/-- Main statement: with a non-empty verified chain list, the handshake is rejected iff a
mechanism enabled by the mode reports revoked or an error; it never panics. -/
theorem verify_reject_iff (m : Mode) (o c : MechOut) :
    (verifyProg.run m (envOf o c) true).verdict = .reject ↔
      (docOcsp m = true ∧ o ≠ .good) ∨ (docCrl m = true ∧ c ≠ .good) := by
  cases m <;> cases o <;> cases c <;> decide

theorem verify_accept_iff (m : Mode) (o c : MechOut) :
    (verifyProg.run m (envOf o c) true).verdict = .accept ↔
      ¬ ((docOcsp m = true ∧ o ≠ .good) ∨ (docCrl m = true ∧ c ≠ .good)) := by
  cases m <;> cases o <;> cases c <;> decide

theorem verify_never_panics (m : Mode) (o c : MechOut) (ne : Bool) :
    (verifyProg.run m (envOf o c) ne).verdict ≠ .panic := by
  cases m <;> cases o <;> cases c <;> cases ne <;> decide

/-- What is consulted: OCSP first when enabled; CRL when enabled and OCSP did not already reject. -/
theorem verify_consulted (m : Mode) (o c : MechOut) :
    (verifyProg.run m (envOf o c) true).consulted =
      (if docOcsp m then [Mech.ocsp] else []) ++
      (if docCrl m && !(docOcsp m && o != .good) then [Mech.crl] else []) := by
  cases m <;> cases o <;> cases c <;> decide

theorem disabled_accepts_untouched (o c : MechOut) (ne : Bool) :
    verifyProg.run .disabled (envOf o c) ne = { verdict := .accept, consulted := [] } := by
  cases o <;> cases c <;> cases ne <;> decide

theorem ocsp_only_never_crl (o c : MechOut) (ne : Bool) :
    Mech.crl ∉ (verifyProg.run .ocspOnly (envOf o c) ne).consulted := by
  cases o <;> cases c <;> cases ne <;> decide

theorem crl_only_never_ocsp (o c : MechOut) (ne : Bool) :
    Mech.ocsp ∉ (verifyProg.run .crlOnly (envOf o c) ne).consulted := by
  cases o <;> cases c <;> cases ne <;> decide

theorem prefer_enforces_both (m : Mode) (h : m = .preferOCSP ∨ m = .preferCRL) :
    ocspEnabled m = true ∧ crlEnabled m = true := by
  rcases h with h | h <;> subst h <;> decide

/-- No verified chain: accepted, nothing consulted (the TLS layer has already verified; see DESIGN §5 C03). -/
theorem empty_chains (m : Mode) (o c : MechOut) :
    verifyProg.run m (envOf o c) false = { verdict := .accept, consulted := [] } := by
  cases m <;> cases o <;> cases c <;> decide

theorem unset_is_prefer_ocsp : parseMode "" = some .preferOCSP := by decide

theorem parseMode_documented :
    parseMode "prefer_ocsp" = some .preferOCSP ∧ parseMode "prefer_crl" = some .preferCRL ∧
    parseMode "ocsp_only" = some .ocspOnly ∧ parseMode "crl_only" = some .crlOnly ∧
    parseMode "disabled" = some .disabled := by decide

/-- Unknown mode strings are rejected. -/
theorem parseMode_unknown_rejected (s : String)
    (h : s ∉ ["", "prefer_ocsp", "prefer_crl", "ocsp_only", "crl_only", "disabled"]) :
    parseMode s = none := by
  simp only [List.mem_cons, List.not_mem_nil, or_false, not_or] at h
  obtain ⟨h0, h1, h2, h3, h4, h5⟩ := h
  unfold parseMode
  have hl : s.length > 0 := by
    rcases Nat.eq_zero_or_pos s.length with hz | hp
    · exact absurd (String.length_eq_zero_iff.mp hz) h0
    · exact hp
  simp only [hl, ↓reduceIte]

-- Non-vacuity: concrete instances.
example : (verifyProg.run .preferOCSP (envOf .good .revoked) true).verdict = .reject := by decide
example : (verifyProg.run .ocspOnly (envOf .good .revoked) true).verdict = .accept := by decide
example : (verifyProg.run .preferCRL (envOf .error .good) true).consulted = [.ocsp] := by decide

/-- The hand-written `Mode` model this property rests on was transcribed from exactly these sources: the fingerprints are
recomputed from /repo on every run (tools/extract/skeleton.go), so any change to one of the functions breaks this obligation. -/
theorem mode_sources_as_transcribed : Crv.Generated.skeletonMode = Crv.Skeleton.expectedMode :=
  Crv.Skeleton.mode_sources_as_transcribed

end Crv.Props.C03
