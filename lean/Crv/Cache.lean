/-
Cache model (C14): a transcription of the parts of github.com/muesli/cache2go the OCSP checker uses.

* `CacheTable.items`           → association list with unique keys
* `NewCacheItem` / `Add`       → `add`  (createdOn = accessedOn = now, replaces an existing item of the same key)
* `Value`  (+ `KeepAlive`)     → `value` (refreshes `accessedOn` — the *sliding* expiry)
* `Delete`                     → `delete`
* `expirationCheck`            → `sweep` (removes every item with lifeSpan ≠ 0 and now − accessedOn ≥ lifeSpan)
* `Flush`                      → `flush`

Time is `Nat` (the unit is chosen by the caller). The expiration check of cache2go runs from a timer; the model
makes it an explicit operation so that theorems can quantify over *every* schedule of checks, and the driver can
run the idealised schedule (a check fires exactly when an item's idle time reaches its life span).
-/
namespace Crv.Cache

structure Item (α : Type) where
  data : α
  lifeSpan : Nat
  createdOn : Nat
  accessedOn : Nat
  deriving Repr

abbrev Table (κ α : Type) := List (κ × Item α)

variable {κ α : Type} [DecidableEq κ]

def find? (T : Table κ α) (k : κ) : Option (Item α) :=
  match T with
  | [] => none
  | (k', it) :: rest => if k' = k then some it else find? rest k

def delete (T : Table κ α) (k : κ) : Table κ α := T.filter (fun p => !(p.1 = k))

/-- `table.Add(key, lifeSpan, data)` at time `now`. -/
def add (T : Table κ α) (k : κ) (lifeSpan : Nat) (data : α) (now : Nat) : Table κ α :=
  (k, { data := data, lifeSpan := lifeSpan, createdOn := now, accessedOn := now }) :: delete T k

/-- `KeepAlive` on the item of key `k`. -/
def touch (T : Table κ α) (k : κ) (now : Nat) : Table κ α :=
  T.map (fun p => if p.1 = k then (p.1, { p.2 with accessedOn := now }) else p)

/-- `table.Value(key)`: the item (as stored) and the table after `KeepAlive`. -/
def value (T : Table κ α) (k : κ) (now : Nat) : Option (Item α) × Table κ α :=
  match find? T k with
  | none => (none, T)
  | some it => (some it, touch T k now)

def expired (it : Item α) (now : Nat) : Bool := it.lifeSpan != 0 && decide (now - it.accessedOn ≥ it.lifeSpan)

/-- `expirationCheck` at time `now`. -/
def sweep (T : Table κ α) (now : Nat) : Table κ α := T.filter (fun p => !expired p.2 now)

def flush (_ : Table κ α) : Table κ α := []

end Crv.Cache
