/-! Line-protocol helpers for the model driver (core only). -/
namespace Crv.Driver

def hexVal (c : Char) : Option Nat :=
  if '0' ≤ c ∧ c ≤ '9' then some (c.toNat - '0'.toNat)
  else if 'a' ≤ c ∧ c ≤ 'f' then some (c.toNat - 'a'.toNat + 10)
  else if 'A' ≤ c ∧ c ≤ 'F' then some (c.toNat - 'A'.toNat + 10)
  else none

def parseHexAux : List Char → List UInt8 → Option (List UInt8)
  | [], acc => some acc.reverse
  | [_], _ => none
  | a :: b :: rest, acc =>
    match hexVal a, hexVal b with
    | some x, some y => parseHexAux rest (UInt8.ofNat (x * 16 + y) :: acc)
    | _, _ => none

/-- "-" is the empty byte string. -/
def parseHex (s : String) : Option (List UInt8) :=
  if s = "-" then some [] else parseHexAux s.toList []

def hexDigit (n : Nat) : Char :=
  if n < 10 then Char.ofNat ('0'.toNat + n) else Char.ofNat ('a'.toNat + n - 10)

def toHex (bs : List UInt8) : String :=
  if bs.isEmpty then "-" else
  String.ofList (bs.foldr (fun b acc => hexDigit (b.toNat / 16) :: hexDigit (b.toNat % 16) :: acc) [])

/-- Bytes → String, byte-wise (Latin-1 style); only used for ASCII protocol fields. -/
def bytesToAscii (bs : List UInt8) : String := String.ofList (bs.map (fun b => Char.ofNat b.toNat))

def parseBool (s : String) : Option Bool :=
  if s = "true" then some true else if s = "false" then some false else none

def words (s : String) : List String := (s.splitOn " ").filter (· ≠ "")

end Crv.Driver
