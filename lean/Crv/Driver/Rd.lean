import Std.Data.HashMap
import Crv.Reader
import Crv.ReaderFile
import Crv.Driver.Util
/-!
Line-protocol driver for stream `rd` (streaming CRL reader model).
  rd frames <hex>            → `q <kind>:<off>:<len> …` : the leaf-decoder queries of an optimistic run
  rd run <hex> <table>       → outcome line; table = `kind:off:len:answer,…` (answers of the real library)
  rd file <hex>              → `pem=<bool> der=<hex>` : what `newHashingCRLReader` hands to the ASN.1 reader for this file
-/
namespace Crv.Driver.Rd
open Crv Crv.Driver

structure State where
  dummy : Unit := ()

def init : State := {}

def kindName : QKind → String
  | .alg => "alg" | .rdn => "rdn" | .utc => "utc" | .entry => "entry" | .exts => "exts"

def kindOf? : String → Option QKind
  | "alg" => some .alg | "rdn" => some .rdn | "utc" => some .utc | "entry" => some .entry | "exts" => some .exts
  | _ => none

def errName : Err → String
  | .eof => "eof" | .tag => "tag" | .tooLong => "tooLong" | .decode => "decode" | .version => "version"
  | .alg => "alg" | .gate => "gate" | .bitString => "bitString" | .negative => "negative"
  | .stalled => "stalled" | .range => "range"
  | .lenForm => "lenForm" | .algMismatch => "algMismatch" | .outerLen => "outerLen"

def hashName : HashAlg → String
  | .sha1 => "sha1" | .sha224 => "sha224" | .sha256 => "sha256" | .sha384 => "sha384" | .sha512 => "sha512"

def oidToString (o : List Nat) : String := ".".intercalate (o.map toString)

def parseOid (s : String) : Option (List Nat) :=
  (s.splitOn ".").mapM (fun p => p.toNat?)

def optimistic : Oracle :=
  { algOid := fun _ => some [1, 2, 840, 113549, 1, 1, 11]
    rdnOk := fun _ => true, utcOk := fun _ => true, entryOk := fun _ => true
    exts := fun _ => some [] }

def showQueries (qs : List Query) : String :=
  " ".intercalate (qs.map fun q => s!"{kindName q.kind}:{q.off}:{q.len}")

inductive Ans
  | alg (o : Option (List Nat))
  | ok (b : Bool)
  | exts (e : Option (List Ext))

def parseExt (s : String) : Option Ext :=
  match s.splitOn "/" with
  | [o, c, v] => do
    let oid ← parseOid o
    let crit ← (if c = "1" then some true else if c = "0" then some false else none)
    let val ← parseHex v
    pure ⟨oid, crit, val⟩
  | _ => none

def parseAns (k : QKind) (a : String) : Option Ans :=
  match k with
  | .alg => if a = "-" then some (.alg none) else (parseOid a).map (fun o => .alg (some o))
  | .exts =>
    if a = "-" then some (.exts none)
    else if a = "*" then some (.exts (some []))
    else ((a.splitOn ";").mapM parseExt).map (fun l => .exts (some l))
  | _ => if a = "1" then some (.ok true) else if a = "0" then some (.ok false) else none

abbrev Table := Std.HashMap (String × List UInt8) Ans

def buildTable (file : Bytes) (spec : String) : Option Table :=
  if spec = "-" then some {} else
  (spec.splitOn ",").foldlM (init := ({} : Table)) fun t item =>
    match item.splitOn ":" with
    | [k, off, len, a] => do
      let kind ← kindOf? k
      let off ← off.toNat?
      let len ← len.toNat?
      let ans ← parseAns kind a
      pure (t.insert (k, (file.drop off).take len) ans)
    | _ => none

def oracleOf (t : Table) : Oracle :=
  { algOid := fun b => match t.get? ("alg", b) with | some (.alg o) => o | _ => none
    rdnOk := fun b => match t.get? ("rdn", b) with | some (.ok v) => v | _ => false
    utcOk := fun b => match t.get? ("utc", b) with | some (.ok v) => v | _ => false
    entryOk := fun b => match t.get? ("entry", b) with | some (.ok v) => v | _ => false
    exts := fun b => match t.get? ("exts", b) with | some (.exts e) => e | _ => none }

def maxAlloc (as : List Alloc) : Nat := as.foldl (fun m a => max m a.size) 0

/-- largest request not backed by the input that remained when it was made -/
def maxUnbacked (as : List Alloc) : Nat := as.foldl (fun m a => if a.size > a.avail then max m a.size else m) 0

def countInserts (evs : List Event) : Nat := evs.foldl (fun n e => match e with | .insert _ => n + 1 | _ => n) 0

def showNum : Option Nat → String
  | some n => toString n | none => "-"

def showResult (file : Bytes) (t : Table) (rr : RunResult) : String :=
  -- every query made must have an answer in the table (never default silently)
  match rr.queries.find? (fun q => !(t.contains (kindName q.kind, (file.drop q.off).take q.len))) with
  | some q => s!"oracle-missing {kindName q.kind}:{q.off}:{q.len}"
  | none =>
    let tail := s!" ins={countInserts rr.events} q={showQueries rr.queries} maxalloc={maxAlloc rr.allocs} unbacked={maxUnbacked rr.allocs} pos={rr.finalPos}"
    match rr.outcome with
    | .panic => "panic" ++ tail
    | .err e => "err:" ++ errName e ++ tail
    | .ok res =>
      let num := match rr.events.getLast? with | some (.extMeta n) => showNum n | _ => "?"
      let exts := match res.exts with | some es => toString es.length | none => "-"
      s!"ok alg={oidToString res.algOid} hash={hashName res.hashAlg} num={num} exts={exts} " ++
      s!"sig={rr.finalPos - res.sig.bytes.length},{res.sig.bytes.length},{res.sig.bitLen} " ++
      s!"region={res.hashFrom},{res.hashRegion.length}" ++ tail

def step (s : State) (ws : List String) : State × String :=
  match ws with
  | ["frames", h] =>
    match parseHex h with
    | some file => (s, "q " ++ showQueries (readCRL optimistic file).queries)
    | none => (s, "bad-op")
  | ["file", h] =>
    match parseHex h with
    | some file => (s, s!"pem={Pem.isPemFile file} der={toHex (fileBytes file)}")
    | none => (s, "bad-op")
  | ["run", h, spec] =>
    match parseHex h with
    | some file =>
      match buildTable file spec with
      | some t => (s, showResult file t (readCRL (oracleOf t) file))
      | none => (s, "bad-op")
    | none => (s, "bad-op")
  | _ => (s, "bad-op")

end Crv.Driver.Rd
