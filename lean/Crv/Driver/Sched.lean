import Crv.Driver.Util
import Crv.Sched
import Crv.Generated.Sched
/-!
Line-protocol driver for stream `sched` (C15). Stateless; answers come from `Crv.Sched` instantiated with
the regenerated facts. Times are integers in one unit (the harness uses milliseconds).

  sched decide <I> <last> <now> <force>     → run | skip      one call of updateCRLs (last = 0: never finished)
  sched scope                               → instance | global   where the finish stamp lives
  sched pair <I> <lastOwn> <otherFinish> <now> → run | skip   tick of an instance whose own last finish is
        <lastOwn> when another instance finished at <otherFinish>
  sched attempts <n> <mask>                 → k               locations attempted by one UpdateCRLs over n locations,
        bit j of <mask> (decimal) set = refreshing location j fails
  sched inforce <k>                         → old | new       after k failed refreshes (old) … then one success (new)
  sched admits count <I> <T> <n>            → yes | no        n runs observed in a window of length T
  sched admits delay <I> <D> <W> <observed> → yes | no        publish → in force delay within doneBound
  sched bound <I> <D> <W>                   → <doneBound>
  sched provision <active|background> <nUrls> <nFiles> <fail|->  → ok inforce=<k>/<n> ticker=<b> | error
-/
namespace Crv.Driver.Sched
open Crv.Sched Crv.Generated

structure State where
  dummy : Unit := ()

def init : State := {}

def model : Model :=
  { global := schedLastFinishIsGlobal, prog := schedTickProg, recent := schedRecentlyFinished,
    contOnError := schedLoopContinuesOnError }

def facts : RepoFacts :=
  { addStoresLocations := schedAddStoresLocations, addLoadsActively := schedAddLoadsActively,
    updateEntrySetsLoaded := schedUpdateEntrySetsLoaded, updateReturnsError := schedUpdateReturnsError }

def runSkip (b : Bool) : String := if b then "run" else "skip"

def nat? (s : String) : Option Nat := s.toNat?

def step (s : State) (ws : List String) : State × String :=
  match ws with
  | ["decide", i, l, n, f] =>
    match nat? i, nat? l, nat? n, parseBool f with
    | some i, some l, some n, some f =>
      let (_, r) := stepEv model (fun _ => i) (fun _ => l) ⟨0, f, n, 0⟩
      (s, runSkip r.isSome)
    | _, _, _, _ => (s, "bad-op")
  | ["scope"] => (s, if schedLastFinishIsGlobal then "global" else "instance")
  | ["pair", i, lo, fo, n] =>
    match nat? i, nat? lo, nat? fo, nat? n with
    | some i, some lo, some fo, some n =>
      -- instance 1's stamp is lo; instance 0 (forced) finishes at fo; then instance 1 ticks at n
      let last0 : Nat → Nat := fun k => if model.slot k = model.slot 1 then lo else 0
      let rs := exec model (fun _ => i) last0 [⟨0, true, fo, 0⟩, ⟨1, false, n, 0⟩]
      (s, runSkip (rs.any (·.inst == 1)))
    | _, _, _, _ => (s, "bad-op")
  | ["attempts", n, m] =>
    match nat? n, nat? m with
    | some n, some m => (s, toString (attempted model.contOnError (fun j => !m.testBit j) (List.range n)).length)
    | _, _ => (s, "bad-op")
  | ["inforce", k] =>
    match nat? k with
    | some k =>
      -- version 0 in force, every run publishes version 1; the first k refreshes fail, the next succeeds
      let ok : Nat → Bool := fun j => decide (k ≤ j)
      (s, (if inForce (fun _ => 1) ok 0 k = 0 then "old" else "new") ++ "," ++
          (if inForce (fun _ => 1) ok 0 (k + 1) = 0 then "old" else "new"))
    | none => (s, "bad-op")
  | ["admits", "count", i, t, n] =>
    match nat? i, nat? t, nat? n with
    | some i, some t, some n =>
      if i = 0 then (s, "bad-op") else
      let p := t / i
      (s, if p ≤ n + 1 ∧ n ≤ p + 2 then "yes" else "no")
    | _, _, _ => (s, "bad-op")
  | ["admits", "delay", i, d, w, o] =>
    match nat? i, nat? d, nat? w, nat? o with
    | some i, some d, some w, some o => (s, if o ≤ doneBound i schedDivisor d w then "yes" else "no")
    | _, _, _, _ => (s, "bad-op")
  | ["bound", i, d, w] =>
    match nat? i, nat? d, nat? w with
    | some i, some d, some w => (s, toString (doneBound i schedDivisor d w))
    | _, _, _ => (s, "bad-op")
  | ["provision", mode, nu, nf, fl] =>
    let active? : Option Bool := if mode = "active" then some true else if mode = "background" then some false else none
    let fail? : Option (Option Nat) := if fl = "-" then some none else (nat? fl).map some
    match active?, nat? nu, nat? nf, fail? with
    | some a, some nu, some nf, some fl =>
      let cfg : ProvCfg := { urls := List.range nu, files := (List.range nf).map (· + nu), active := a }
      let fetchOk : Nat → Bool := fun l => match fl with | some f => l != f | none => true
      match provision facts sched_addCrlUrlsFromConfig sched_addCrlFilesFromConfig fetchOk cfg schedProvision {} with
      | some st =>
        let k := ((List.range (nu + nf)).filter st.inForce).length
        (s, s!"ok inforce={k}/{nu + nf} ticker={st.tickerStarted}")
      | none => (s, "error")
    | _, _, _, _ => (s, "bad-op")
  | _ => (s, "bad-op")

end Crv.Driver.Sched
