import Crv.Driver.Util
import Crv.Chunk
/-!
Line-protocol driver for stream `chunk` (chunked bufio / wrapper / read-loop model, `Crv/Chunk.lean`).

  open <cap> <hex|->*      → ok                          new reader, buffer size max(cap,16), hashing off, pos 0
  hash on|off              → ok                          StartHashCalculation / FinishHashCalculation
  read <k>                 → <hex|-> pos=<p> | eof pos=<p>            ReadExpectedBytes(&w, k)
  peek <n> <off>           → <hex|-> | eof | bufferfull               PeekExpectedBytes(&w, n, off)
  discard <k>              → ok pos=<p> | eof pos=<p> | negative pos=<p>   w.Discard(k)
  state                    → pos=<p> flat=<hex|->
  buf                      → buffered=<n> srcreads=<n>   b.Buffered(), Read calls on the underlying reader so far
  hashed                   → hashed=<hex|->              (model only: the bytes written to the hash)
  ghost                    → srcReads=<n> allocs=<a,…> parts=<p,…>    (model only)
-/
namespace Crv.Driver.Chunk
open Crv.Driver Crv.Chunk

structure State where
  st : St := {}

def init : State := {}

def ekName : EK → String
  | .eof => "eof" | .bufferFull => "bufferfull" | .stalled => "stalled"

def natList (l : List Nat) : String :=
  if l.isEmpty then "-" else ",".intercalate (l.map toString)

def step (st : State) (ws : List String) : State × String :=
  match ws with
  | "open" :: cap :: chunks =>
    match cap.toNat?, chunks.mapM parseHex with
    | some c, some cs => ({ st := openRd c cs }, "ok")
    | _, _ => (st, "bad-op")
  | ["hash", "on"] => ({ st := startHash st.st }, "ok")
  | ["hash", "off"] => ({ st := finishHash st.st }, "ok")
  | ["read", k] =>
    match k.toNat? with
    | some k =>
      let (r, s') := readFull k st.st
      match r with
      | .ok bs => ({ st := s' }, s!"{toHex bs} pos={s'.pos}")
      | .err e => ({ st := s' }, s!"{ekName e} pos={s'.pos}")
    | none => (st, "bad-op")
  | ["peek", n, off] =>
    match n.toNat?, off.toNat? with
    | some n, some off =>
      let (r, s') := peekExpected n off st.st
      match r with
      | .ok bs => ({ st := s' }, toHex bs)
      | .err e => ({ st := s' }, ekName e)
    | _, _ => (st, "bad-op")
  | ["discard", k] =>
    match k.toInt? with
    | some (.ofNat k) =>
      let (r, s') := discard k st.st
      match r with
      | .ok () => ({ st := s' }, s!"ok pos={s'.pos}")
      | .err e => ({ st := s' }, s!"{ekName e} pos={s'.pos}")
    | some (.negSucc _) => (st, s!"negative pos={st.st.pos}")       -- bufio.ErrNegativeCount, nothing touched
    | none => (st, "bad-op")
  | ["state"] => (st, s!"pos={st.st.pos} flat={toHex (flat st.st)}")
  | ["buf"] => (st, s!"buffered={st.st.buf.length} srcreads={st.st.srcReads}")
  | ["hashed"] => (st, s!"hashed={toHex st.st.hashed}")
  | ["ghost"] => (st, s!"srcReads={st.st.srcReads} allocs={natList st.st.allocs} parts={natList st.st.parts}")
  | _ => (st, "bad-op")

end Crv.Driver.Chunk
