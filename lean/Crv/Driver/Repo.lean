import Crv.Driver.Util
/-! Line-protocol driver for stream `repo` (stub: every op is `bad-op` until the model is wired in). -/
namespace Crv.Driver.Repo

/-- Model state carried between the lines of this stream. -/
structure State where
  dummy : Unit := ()

def init : State := {}

/-- One line (already split into words, stream tag removed) → new state and the answer line. -/
def step (s : State) (ws : List String) : State × String := (s, "bad-op")

end Crv.Driver.Repo
