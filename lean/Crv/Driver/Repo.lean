import Crv.Repo
import Crv.Cand
import Crv.Driver.Util
/-!
Line-protocol driver for stream `repo` (repository state machine).
  repo cfg <none|verify_log|verify> <actively|background> <strict:bool> <disk:bool>
  repo serve <loc> down|garbage|doc:<issuer>:<signer>:<number>:<serials,|->
  repo unsupported <loc>
  repo hs <issuer> <serial> <cdp|-> <cands,|->      → <status> spawn=<b> <snapshot>
  repo tick                                          → <snapshot>
  repo provision <loc> <cands,|->                    → ok|err <snapshot>
  repo restart | repo close                          → <snapshot>
Snapshot: entries sorted by location: `E[<loc>:L<0|1>:C<0|1>:<number|->,…]`.
-/
namespace Crv.Driver.Repo
open Crv Crv.Driver Crv.Repo

structure State where
  s : Crv.Repo.State := {}

def init : State := {}

def parseNats (s : String) : Option (List Nat) :=
  if s = "-" then some [] else (s.splitOn ",").mapM (·.toNat?)

def parseInts (s : String) : Option (List Int) :=
  if s = "-" then some [] else (s.splitOn ",").mapM (·.toInt?)

def parseServed (s : String) : Option Served :=
  if s = "down" then some .down
  else if s = "garbage" then some .garbage
  else match s.splitOn ":" with
    | ["doc", i, sg, n, ser] => do
      let i ← i.toNat?
      let sg ← sg.toNat?
      let n ← n.toNat?
      let ser ← parseInts ser
      pure (.doc ⟨i, ser, sg, n⟩)
    | _ => none

def insertSorted (p : Loc × Entry) : List (Loc × Entry) → List (Loc × Entry)
  | [] => [p]
  | q :: t => if p.1 ≤ q.1 then p :: q :: t else q :: insertSorted p t

def sortEntries (l : List (Loc × Entry)) : List (Loc × Entry) := l.foldr insertSorted []

def b01 (b : Bool) : String := if b then "1" else "0"

def snapshot (s : Crv.Repo.State) : String :=
  let items := (sortEntries s.entries).map fun (loc, e) =>
    let num := match e.store.doc with
      | some d => if e.loaded && !e.closed then toString d.number else "-"
      | none => "-"
    s!"{loc}:L{b01 e.loaded}:C{b01 e.closed}:{num}"
  "E[" ++ ",".intercalate items ++ "]"

def statusName : Status → String
  | .notRevoked => "notRevoked" | .revoked => "revoked" | .error => "error"

def sigModeOf? : String → Option SigMode
  | "none" => some .none | "verify_log" => some .verifyLog | "verify" => some .verify | _ => none

/-! `repo cand <crlIssuer> <aki> <alg r|e> <signerKey> <chains> <trusted>` — candidate selection and acceptance (C04).
aki: `-` or `kid=<n|->;ser=<n|->;iss=<n|->`; chains: chains separated by `/`, certificates by `,` (or `-`);
certificate: `key:subject:issuer:serial:ski|-:r|e:-|1|0`. Answer: `accepted key=<k> origin=<trusted|chainP>` | `rejected` | `panic` (the candidate search panicked). -/
def optNat (s : String) : Option (Option Nat) := if s = "-" then some none else s.toNat?.map some
def optInt (s : String) : Option (Option Int) := if s = "-" then some none else s.toInt?.map some
def algOf? (s : String) : Option KeyAlg := if s = "r" then some .rsa else if s = "e" then some .ecdsa else none

def parseCertA (s : String) : Option Cand.CertA :=
  match s.splitOn ":" with
  | [k, sub, iss, ser, ski, alg, ku] => do
    let k ← k.toNat?
    let sub ← sub.toNat?
    let iss ← iss.toNat?
    let ser ← ser.toInt?
    let ski ← optNat ski
    let alg ← algOf? alg
    let ku ← (if ku = "-" then some none else if ku = "1" then some (some true) else if ku = "0" then some (some false) else none)
    pure ⟨k, sub, iss, ser, ski, alg, ku⟩
  | _ => none

def parseCertList (s : String) : Option (List Cand.CertA) :=
  if s = "-" then some [] else (s.splitOn ",").mapM parseCertA

def parseAKI (s : String) : Option (Option Cand.AKI) :=
  if s = "-" then some none else
  match s.splitOn ";" with
  | [a, b, c] =>
    match a.splitOn "=", b.splitOn "=", c.splitOn "=" with
    | ["kid", k], ["ser", sr], ["iss", i] => do
      let k ← optNat k
      let sr ← optInt sr
      let i ← optNat i
      pure (some ⟨k, sr, i⟩)
    | _, _, _ => none
  | _ => none

def stepCand (ws : List String) : String :=
  match ws with
  | [iss, aki, alg, sk, chains, trusted] =>
    match iss.toNat?, parseAKI aki, algOf? alg, sk.toNat?, (if chains = "-" then some [] else (chains.splitOn "/").mapM parseCertList),
        parseCertList trusted with
    | some i, some a, some al, some k, some chs, some tr =>
      match Cand.verifyCRL (fun x => x == k) i a al chs tr with
      | .accepted av =>
        let o := match av.origin with | .trusted => "trusted" | .chain p => s!"chain{p}"
        s!"accepted key={av.cert.key} origin={o}"
      | .rejected => "rejected"
      | .panic => "panic"
    | _, _, _, _, _, _ => "bad-op"
  | _ => "bad-op"

def step (st : State) (ws : List String) : State × String :=
  let s := st.s
  match ws with
  | "cand" :: rest => (st, stepCand rest)
  | ["cfg", sm, fm, strict, disk] =>
    match sigModeOf? sm, parseBool strict, parseBool disk with
    | some m, some b, some d =>
      let f? : Option FetchMode := if fm = "actively" then some .actively else if fm = "background" then some .background else none
      match f? with
      | some f => ({ s := { cfg := { sigMode := m, fetch := f, strict := b, disk := d } } }, "ok")
      | none => (st, "bad-op")
    | _, _, _ => (st, "bad-op")
  | ["serve", loc, sv] =>
    match loc.toNat?, parseServed sv with
    | some l, some v => ({ s := serve s l v }, "ok")
    | _, _ => (st, "bad-op")
  | ["unsupported", loc] =>
    match loc.toNat? with
    | some l => ({ s := { s with unsupported := l :: s.unsupported } }, "ok")
    | none => (st, "bad-op")
  | ["hs", iss, ser, cdp, cands] =>
    match iss.toNat?, ser.toInt?, parseNats cands with
    | some i, some n, some cs =>
      let cdp? : Option (Option Loc) := if cdp = "-" then some none else cdp.toNat?.map some
      match cdp? with
      | some c =>
        let (s', status, spawn) := handshake s ⟨i, n, c⟩ cs
        -- The walk over the repository map has no defined order (Go map): with a closed entry AND an open entry that lists
        -- the certificate in the map, the lookup ends at whichever comes first — `error` or `revoked`, a rejection either
        -- way. Both sides of the comparison print that pair of outcomes in this one situation.
        let hasClosed := s'.entries.any (fun p => p.2.closed)
        let isListed := s'.entries.any (fun p => !p.2.closed && p.2.loaded && listed p.2.store ⟨i, n, c⟩)
        let shown := if hasClosed && isListed && status != .notRevoked then "revoked|error" else statusName status
        -- a spawned background refresh races with the observer: the snapshot is taken by the following `tick`
        ({ s := s' }, s!"{shown} spawn={spawn} {if spawn then "E[*]" else snapshot s'}")
      | none => (st, "bad-op")
    | _, _, _ => (st, "bad-op")
  | ["tick"] =>
    let s' := updateAll s ((sortEntries s.entries).map (·.1))
    ({ s := s' }, snapshot s')
  | ["provision", loc, cands] =>
    match loc.toNat?, parseNats cands with
    | some l, some cs =>
      let (s', o) := provisionOne s l cs
      ({ s := s' }, (if o == .ok then "ok " else "err ") ++ snapshot s')
    | _, _ => (st, "bad-op")
  | ["restart"] => let s' := restart s; ({ s := s' }, snapshot s')
  | ["restartcfg", m] =>
    match sigModeOf? m with
    | some sm => let s' := reconfigure s sm; ({ s := s' }, snapshot s')
    | none => (st, "bad-op")
  | ["close"] => let s' := close s; ({ s := s' }, snapshot s')
  | _ => (st, "bad-op")

end Crv.Driver.Repo
