import Crv.Mode
import Crv.Generated.Mode
import Crv.Driver.Util
namespace Crv.Driver
open Crv Crv.Generated

def modeToString : Mode → String
  | .preferOCSP => "prefer_ocsp" | .preferCRL => "prefer_crl" | .crlOnly => "crl_only"
  | .ocspOnly => "ocsp_only" | .disabled => "disabled"

def stepMode (ws : List String) : String :=
  match ws with
  | ["parse", h] =>
    match parseHex h with
    | some bs =>
      -- the Go string is a byte string; mode names are ASCII, so a byte-wise view suffices to decide equality with them
      match String.fromUTF8? ⟨bs.toArray⟩ with
      | some s => (match parseMode s with | some m => modeToString m | none => "none")
      | none => if bs.isEmpty then (match parseMode "" with | some m => modeToString m | none => "none") else
          (match parseMode (bytesToAscii bs ++ String.singleton (Char.ofNat 0xfffd)) with | some m => modeToString m | none => "none")
    | none => "bad-op"
  | ["v", m, o, c, ne, obsO, obsC] =>
    let mode? : Option Mode := if m = "unset" then parseMode "" else parseMode m
    match mode?, MechOut.ofString? o, MechOut.ofString? c, parseBool ne, parseBool obsO, parseBool obsC with
    | some mode, some o, some c, some ne, some obsO, some obsC =>
      let r := verifyProg.run mode (envOf o c) ne
      let cs := r.consulted.filter (fun x => match x with | .ocsp => obsO | .crl => obsC)
      r.verdict.toString ++ " consulted=" ++ ",".intercalate (cs.map Mech.toString)
    | _, _, _, _, _, _ => "bad-op"
  | _ => "bad-op"

end Crv.Driver
