import Crv.Driver.Util
import Crv.Cache
/-!
Line-protocol driver for stream `ct` (cache2go table model, `Crv/Cache.lean`). Stateless: every line is one operation
sequence on a fresh table; keys, data are natural numbers, life spans and waits are milliseconds.

  ct <op>;<op>;…        → <res>;<res>;…
     a:<k>:<life>:<d>   table.Add(k, life, d)                         → ok
     v:<k>              table.Value(k) (with KeepAlive)               → <data>/<life> | -
     d:<k>              table.Delete(k)                               → 1 (was there) | 0 (ErrKeyNotFound)
     e:<k>              table.Exists(k)                               → 1 | 0
     c                  table.Count()                                 → <n>
     f                  table.Flush()                                 → ok
     w:<dt>             dt ms pass, then the expiration check fires   → ok
  anything else         → bad-op
-/
namespace Crv.Driver
open Crv.Cache

structure CtSt where
  T : Table Nat Nat := []
  now : Nat := 0

def ctOp (s : CtSt) (op : String) : Option (CtSt × String) :=
  match op.splitOn ":" with
  | ["a", k, l, d] =>
    match k.toNat?, l.toNat?, d.toNat? with
    | some k, some l, some d => some ({ s with T := add s.T k l d s.now }, "ok")
    | _, _, _ => none
  | ["v", k] =>
    k.toNat?.map fun k =>
      let r := value s.T k s.now
      ({ s with T := r.2 }, match r.1 with
        | some it => s!"{it.data}/{it.lifeSpan}"
        | none => "-")
  | ["d", k] => k.toNat?.map fun k => ({ s with T := delete s.T k }, if (find? s.T k).isSome then "1" else "0")
  | ["e", k] => k.toNat?.map fun k => (s, if (find? s.T k).isSome then "1" else "0")
  | ["c"] => some (s, toString s.T.length)
  | ["f"] => some ({ s with T := flush s.T }, "ok")
  | ["w", dt] => dt.toNat?.map fun dt => ({ T := sweep s.T (s.now + dt), now := s.now + dt }, "ok")
  | _ => none

def ctRun : CtSt → List String → Option (List String)
  | _, [] => some []
  | s, op :: ops =>
    match ctOp s op with
    | some (s', r) => (ctRun s' ops).map (r :: ·)
    | none => none

def stepCache (args : List String) : String :=
  match args with
  | [ops] =>
    match ctRun {} (ops.splitOn ";") with
    | some rs => ";".intercalate rs
    | none => "bad-op"
  | _ => "bad-op"

end Crv.Driver
