import Crv.Driver.Util
import Crv.Disk
import Crv.Generated.Paths
/-!
Line-protocol driver for stream `disk` (C12).

  scn <first|refresh> <verify|verify_log|none> old=<serials|-> new=<serials|-> sig=<true|false> origin=<doc|broken:j|down>
        → hits=<names of the hook hits of a complete run, in order>
  crash <k> p=<serials>     crash at the k-th hook hit (k ≥ 1; 0 = before the operation), then restart
        → img=<live:0|1,tmpf:n,tmpd:n> loaded=<bool> probes=<R|G|N per serial> ls=<names after restart>
  full p=<serials>          complete run, then restart          → same shape
  allowed p=<serials> obs=<loaded>:<verdicts>   is the observation the outcome of some crash point?  → true|false
Names: the location's store prints as `ID`, temp names never survive a restart.
-/
namespace Crv.Driver.Disk
open Crv.Paths Crv.Disk Crv.Generated

structure State where
  sc : Option Scn := none
  first : Bool := false
  fs0 : Fs := []

def init : State := {}

def theId : Name := [73, 68]   -- "ID" (any name that does not match the temp pattern)

def parseNats (s : String) : Option (List Nat) :=
  if s = "-" then some [] else mapOpt (fun (x : String) => x.toNat?) (s.splitOn ",")

def field (k : String) (w : String) : Option String :=
  if w.startsWith (k ++ "=") then some ((w.drop (k.length + 1)).toString) else none

def steps (st : State) (sc : Scn) : List Step :=
  if st.first then loadSteps pathFacts sc else refreshSteps pathFacts sc

def nameStr (n : Name) : String := if n = theId then "ID" else toHex n

def sortStrings (l : List String) : List String :=
  l.foldl (fun acc x => (acc.takeWhile (· < x)) ++ x :: acc.dropWhile (· < x)) []

def verdictStr : Verdict → String
  | .revoked => "R" | .good => "G" | .notLoaded => "N"

def outcome (fs' : Fs) (ps : List Nat) : String :=
  let l := loaded fs' theId
  "loaded=" ++ (if l then "true" else "false") ++ " probes=" ++ String.join (ps.map (fun p => verdictStr (probe fs' theId p)))

def describe (img : Fs) (ps : List Nat) : String :=
  let fs' := restart pathFacts theId img
  let tmpf := (img.filter (fun e => matchesTemp pathFacts e.1 && e.2 == .file)).length
  let tmpd := (img.filter (fun e => matchesTemp pathFacts e.1 && e.2 != .file)).length
  let live := if (img.get theId).isSome then "1" else "0"
  "img=live:" ++ live ++ ",tmpf:" ++ toString tmpf ++ ",tmpd:" ++ toString tmpd ++ " " ++ outcome fs' ps ++
    " ls=" ++ ",".intercalate (sortStrings (fs'.map (fun e => nameStr e.1)))

def step (st : State) (ws : List String) : State × String :=
  match ws with
  | ["scn", kind, mode, o, n, sg, org] =>
    match field "old" o, field "new" n, field "sig" sg, field "origin" org with
    | some o, some n, some sg, some org =>
      match parseNats o, parseNats n, parseBool sg with
      | some olds, some news, some sigOk =>
        let newDoc : Doc := { tag := 2, serials := news, sigOk := sigOk }
        let origin? : Option Origin :=
          match org.splitOn ":" with
          | ["doc"] => some (.doc newDoc)
          | ["down"] => some .down
          | ["broken", j] => j.toNat?.map (fun j => Origin.broken newDoc j)
          | _ => none
        let modeOk := mode = "verify" ∨ mode = "verify_log" ∨ mode = "none"
        match origin?, (kind = "first" ∨ kind = "refresh") && modeOk with
        | some origin, true =>
          let first := kind = "first"
          let sc : Scn := { disk := true, sigChecked := mode != "none", sigRequired := mode = "verify", origin := origin,
                            id := theId, hasLoc := true, loc := 0,
                            t := tmpName pathFacts 1, s := tmpName pathFacts 2, a := tmpName pathFacts 3 }
          let oldDoc : Doc := { tag := 1, serials := olds, sigOk := true }
          let fs0 : Fs := if first then [(theId, .dir (DbImage.put [] .locations 0))]
                          else [(theId, .dir (fullImage 0 oldDoc (mode != "none")))]
          let st' : State := { sc := some sc, first := first, fs0 := fs0 }
          (st', "hits=" ++ ",".intercalate (hitNames (steps st' sc)))
        | _, _ => (st, "bad-op")
      | _, _, _ => (st, "bad-op")
    | _, _, _, _ => (st, "bad-op")
  | ["crash", k, p] =>
    match st.sc, k.toNat?, (field "p" p).bind parseNats with
    | some sc, some k, some ps => (st, describe (run (uptoHit (steps st sc) k) st.fs0) ps)
    | _, _, _ => (st, "bad-op")
  | ["full", p] =>
    match st.sc, (field "p" p).bind parseNats with
    | some sc, some ps => (st, describe (run (steps st sc) st.fs0) ps)
    | _, _ => (st, "bad-op")
  | ["allowed", p, obs] =>
    match st.sc, (field "p" p).bind parseNats, field "obs" obs with
    | some sc, some ps, some obs =>
      let all := steps st sc
      let outs := (List.range (all.length + 1)).map (fun k =>
        let fs' := restart pathFacts theId (crashAt k all st.fs0)
        (if loaded fs' theId then "true" else "false") ++ ":" ++ String.join (ps.map (fun p => verdictStr (probe fs' theId p))))
      (st, if outs.contains obs then "true" else "false")
    | _, _, _ => (st, "bad-op")
  | _ => (st, "bad-op")

end Crv.Driver.Disk
