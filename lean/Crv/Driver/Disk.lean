import Crv.Driver.Util
/-! Line-protocol driver for stream `disk` (stub: every op is `bad-op` until the model is wired in). -/
namespace Crv.Driver.Disk

/-- Model state carried between the lines of this stream. -/
structure State where
  dummy : Unit := ()

def init : State := {}

/-- One line (already split into words, stream tag removed) → new state and the answer line. -/
def step (s : State) (ws : List String) : State × String := (s, "bad-op")

end Crv.Driver.Disk
