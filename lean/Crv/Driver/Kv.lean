import Crv.Driver.Util
import Crv.Store
import Crv.Generated.Mode
/-!
Line-protocol driver for stream `kv` (C18, C09, C11): the storage model behind named store handles, one shared
file-system model, the deserializer oracle as a set of values the real deserializer rejected, and the lookup
path of the repository (entries → IsRevoked → handshake verdict).

  reset                                  → ok
  hash <hex> | key <iss> <dec> | dec <dec>   → <hex>          (hashing.Sum64, key string, big.Int.String)
  new <sid> map | new <sid> ldb <ident> <temporary>           → ok | error
  bad <kind> <hex>                        → ok                (kind ∈ entry meta ext sig loc: deserializer rejects <hex>)
  start|ext|sig|loc <sid> <hex> ; ins <sid> <iss> <dec> <hex> → ok | error | panic
  get <sid> <iss> <dec>                   → revoked <hex> | absent | error
  meta?|ext?|sig?|loc? <sid>              → some <hex> | none
  empty? <sid>                            → true | false
  replace <sid> <other> ; close <sid> ; delete <sid> ; reopen <sid> → ok | error
  fault <sid> none|io|corrupt|<n>         → ok
  entry <eid> none | entry <eid> <sid|nil> <loaded>           → ok
  repoclose                               → ok | panic        (Repository.Close over all entries)
  metart <year|->                         → readable | unreadable   (CRLMetaInfo.NextUpdate serializer round trip)
  isrevoked <gateError> <iss> <dec> <eid>*                    → good | revoked | error | panic
  verify <mode> <ocspOutcome> <gateError> <iss> <dec> <eid>*  → accept | reject | panic
-/
namespace Crv.Driver.Kv
open Crv Crv.Store

structure DEntry where
  loaded : Bool
  store : Option String   -- none: CRLStore == nil
  closed : Bool := false

structure State where
  disk : Disk := Disk.empty
  maps : List (String × MapStore) := []
  ldbs : List (String × Ldb) := []
  idents : List String := []
  bad : List (Kind × Val) := []
  entries : List (String × Option DEntry) := []

def init : State := {}

def lookupS {α : Type} (l : List (String × α)) (k : String) : Option α :=
  match l with
  | [] => none
  | (k', v) :: r => if k' = k then some v else lookupS r k

def setS {α : Type} (l : List (String × α)) (k : String) (v : α) : List (String × α) :=
  (k, v) :: l.filter (fun p => p.1 ≠ k)

def State.dec (s : State) : Kind → Val → Bool := fun k v => !(s.bad.contains (k, v))

def identOf (s : State) (name : String) : State × Nat :=
  match s.idents.idxOf? name with
  | some n => (s, n)
  | none => ({ s with idents := s.idents ++ [name] }, s.idents.length)

def parseKind : String → Option Kind
  | "entry" => some .entry | "meta" => some .minfo | "ext" => some .ext | "sig" => some .sig | "loc" => some .loc
  | _ => none

def wres : WRes → String
  | .ok => "ok" | .error => "error" | .panic => "panic"

def lookupStr : Lookup → String
  | .revoked v => "revoked " ++ toHex v
  | .absent => "absent"
  | .error => "error"

def slotStr : Option Val → String
  | some v => "some " ++ toHex v
  | none => "none"

def put (s : State) (sid : String) (k : AKey) (v : Val) : State × String :=
  match lookupS s.maps sid with
  | some m =>
    let (m', r) := m.put k.str v
    ({ s with maps := setS s.maps sid m' }, wres r)
  | none =>
    match lookupS s.ldbs sid with
    | some h =>
      let (d', r) := h.put s.disk k.str v
      ({ s with disk := d' }, wres r)
    | none => (s, "bad-op")

def slot (s : State) (sid : String) (k : AKey) : String :=
  match lookupS s.maps sid with
  | some m => slotStr (m.slot s.dec k)
  | none =>
    match lookupS s.ldbs sid with
    | some h => slotStr (h.slot s.dec s.disk k)
    | none => "bad-op"

def anyStore (s : State) (sid : String) : Option AnyStore :=
  match lookupS s.maps sid with
  | some m => some (.map m)
  | none => (lookupS s.ldbs sid).map .ldb

/-- Resolves the named entries; `none` if a name is unknown. -/
def resolve (s : State) : List String → Option (List (Option Entry))
  | [] => some []
  | e :: rest =>
    match lookupS s.entries e, resolve s rest with
    | some none, some r => some (none :: r)
    | some (some de), some r =>
      match de.store with
      | none => some (some { loaded := de.loaded, store := none, closed := de.closed } :: r)
      | some sid =>
        match anyStore s sid with
        | some st => some (some { loaded := de.loaded, store := some st, closed := de.closed } :: r)
        | none => none
    | _, _ => none

def chkStr : Chk → String
  | .notRevoked => "good" | .revoked _ => "revoked" | .error => "error" | .panic => "panic"

def parseFault (w : String) : Option (Option Fault) :=
  match w with
  | "none" => some none
  | "io" => some (some .io)
  | "corrupt" => some (some .corrupt)
  | _ => w.toNat?.map (fun n => some (.other n))

def step (s : State) (ws : List String) : State × String :=
  match ws with
  | ["reset"] => (init, "ok")
  | ["hash", h] =>
    match parseHex h with
    | some bs => (s, toHex (sum64 bs))
    | none => (s, "bad-op")
  | ["key", i, n] =>
    match parseHex i, n.toInt? with
    | some bs, some z => (s, toHex (key bs z))
    | _, _ => (s, "bad-op")
  | ["dec", n] =>
    match n.toInt? with
    | some z => (s, toHex (decimal z))
    | none => (s, "bad-op")
  | ["new", sid, "map"] =>
    ({ s with maps := setS s.maps sid MapStore.new, ldbs := s.ldbs.filter (fun p => p.1 ≠ sid) }, "ok")
  | ["new", sid, "ldb", ident, temp] =>
    match parseBool temp with
    | none => (s, "bad-op")
    | some t =>
      let (s1, n) := identOf s ident
      match Ldb.create s1.disk n t with
      | (d, some h) => ({ s1 with disk := d, ldbs := setS s1.ldbs sid h, maps := s1.maps.filter (fun p => p.1 ≠ sid) }, "ok")
      | (d, none) => ({ s1 with disk := d }, "error")
  | ["bad", k, h] =>
    match parseKind k, parseHex h with
    | some k, some v => ({ s with bad := (k, v) :: s.bad }, "ok")
    | _, _ => (s, "bad-op")
  | ["start", sid, h] => match parseHex h with | some v => put s sid .minfo v | none => (s, "bad-op")
  | ["ext", sid, h] => match parseHex h with | some v => put s sid .ext v | none => (s, "bad-op")
  | ["sig", sid, h] => match parseHex h with | some v => put s sid .sig v | none => (s, "bad-op")
  | ["loc", sid, h] => match parseHex h with | some v => put s sid .loc v | none => (s, "bad-op")
  | ["ins", sid, i, n, h] =>
    match parseHex i, n.toInt?, parseHex h with
    | some i, some z, some v => put s sid (.ent i z) v
    | _, _, _ => (s, "bad-op")
  | ["get", sid, i, n] =>
    match parseHex i, n.toInt? with
    | some i, some z =>
      match anyStore s sid with
      | some st => (s, lookupStr (st.lookup s.dec s.disk i z))
      | none => (s, "bad-op")
    | _, _ => (s, "bad-op")
  | ["meta?", sid] => (s, slot s sid .minfo)
  | ["ext?", sid] => (s, slot s sid .ext)
  | ["sig?", sid] => (s, slot s sid .sig)
  | ["loc?", sid] => (s, slot s sid .loc)
  | ["empty?", sid] =>
    match anyStore s sid with
    | some (.map m) => (s, toString m.isEmpty)
    | some (.ldb h) => (s, toString (h.isEmpty s.disk))
    | none => (s, "bad-op")
  | ["replace", sid, other] =>
    match anyStore s sid, anyStore s other with
    | some (.map m), some (.map o) =>
      let (m', o', r) := m.update o
      ({ s with maps := setS (setS s.maps sid m') other o' }, wres r)
    | some (.ldb h), some (.ldb o) =>
      let (d, h', o', r) := h.update s.disk o
      ({ s with disk := d, ldbs := setS (setS s.ldbs sid h') other o' }, wres r)
    | some _, some _ => (s, "error")   -- "invalid update store type"
    | _, _ => (s, "bad-op")
  | ["close", sid] =>
    match anyStore s sid with
    | some (.map _) => (s, "ok")
    | some (.ldb h) =>
      let (d, h') := h.close s.disk
      ({ s with disk := d, ldbs := setS s.ldbs sid h' }, "ok")
    | none => (s, "bad-op")
  | ["delete", sid] =>
    match anyStore s sid with
    | some (.map _) => (s, "ok")
    | some (.ldb h) =>
      let (d, r) := h.delete s.disk
      ({ s with disk := d }, wres r)
    | none => (s, "bad-op")
  | ["reopen", sid] =>
    match lookupS s.ldbs sid with
    | some h =>
      let (d1, h1) := h.close s.disk
      match Ldb.create d1 h.ident false with
      | (d2, some h2) => ({ s with disk := d2, ldbs := setS s.ldbs sid h2 }, "ok")
      | (d2, none) => ({ s with disk := d2, ldbs := setS s.ldbs sid h1 }, "error")
    | none => (s, "bad-op")
  | ["fault", sid, f] =>
    match lookupS s.ldbs sid, parseFault f with
    | some h, some f => ({ s with ldbs := setS s.ldbs sid { h with fault := f } }, "ok")
    | _, _ => (s, "bad-op")
  | ["entry", eid, "none"] => ({ s with entries := setS s.entries eid none }, "ok")
  | ["entry", eid, sid, loaded] =>
    match parseBool loaded with
    | some l =>
      if sid = "nil" then ({ s with entries := setS s.entries eid (some { loaded := l, store := none }) }, "ok")
      else match anyStore s sid with
        | some _ => ({ s with entries := setS s.entries eid (some { loaded := l, store := some sid }) }, "ok")
        | none => (s, "bad-op")
    | none => (s, "bad-op")
  | ["repoclose"] =>
    -- Repository.Close over all entries (most recently defined first; the order is immaterial)
    let rec go (s : State) : List (String × Option DEntry) → Option State
      | [] => some s
      | (eid, de) :: rest =>
        match resolve s [eid] with
        | some [e] =>
          match closeEntry s.disk e with
          | none => none
          | some (d1, e1) =>
            let s1 : State := { s with disk := d1 }
            let s2 : State :=
              match e1, de with
              | none, _ => { s1 with entries := setS s1.entries eid none }
              | some e', some de' =>
                let s' : State := { s1 with entries := setS s1.entries eid (some { de' with closed := e'.closed }) }
                match e'.store, de'.store with
                | some (.ldb h'), some sid => { s' with ldbs := setS s'.ldbs sid h' }
                | _, _ => s'
              | some _, none => s1
            go s2 rest
        | _ => none
    match go s s.entries with
    | some s' => (s', "ok")
    | none => (s, "panic")
  | ["metart", y] =>
    if y = "-" then (s, if metaNextUpdateReadable none then "readable" else "unreadable")
    else match y.toNat? with
      | some n => (s, if metaNextUpdateReadable (some n) then "readable" else "unreadable")
      | none => (s, "bad-op")
  | "isrevoked" :: gate :: i :: n :: eids =>
    match parseBool gate, parseHex i, n.toInt?, resolve s eids with
    | some g, some i, some z, some es => (s, chkStr (isRevoked s.dec s.disk g es i z))
    | _, _, _, _ => (s, "bad-op")
  | "verify" :: mode :: o :: gate :: i :: n :: eids =>
    let mode? : Option Mode := if mode = "unset" then Generated.parseMode "" else Generated.parseMode mode
    match mode?, MechOut.ofString? o, parseBool gate, parseHex i, n.toInt?, resolve s eids with
    | some m, some o, some g, some i, some z, some es =>
      -- the CRL mechanism is only called when the mode enables it; its outcome is computed lazily by the env
      match (isRevoked s.dec s.disk g es i z).mech with
      | some c => (s, (Generated.verifyProg.run m (envOf o c) true).verdict.toString)
      | none => (s, if Generated.crlEnabled m && !(Generated.ocspEnabled m && o != .good) then "panic"
                    else (Generated.verifyProg.run m (envOf o .good) true).verdict.toString)
    | _, _, _, _, _, _ => (s, "bad-op")
  | _ => (s, "bad-op")

end Crv.Driver.Kv
