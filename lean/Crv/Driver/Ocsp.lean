import Crv.Driver.Util
import Crv.Ocsp
import Crv.Generated.Ocsp
/-!
Line-protocol driver for stream `ocsp` (C02, C05, C14). One model state: the process-global cache table.

  flush                                         → ok
  evict <defMs> <nowMs> <nu|n>                  → <lifeMs>                 calculateEvictionTime
  filter <urlhex>                               → 0|1                      filterHTTPOCSPServers on one URL
  key <issuerhex> <subjecthex> <serial>         → <keyhex>                 cache key
  parse <serial> <cands> <body>                 → none | <g|r|u> nu=<n|ms> parseOcspResponse
  look <strict> <defMs> <t> <cert> <chains> <trusted> <servers>
                                                → <good|revoked|error> req=<s.k,…|-> hit=<0|1> store=<lifeMs|->
                                                  (s = index of the URL in the certificate, k = key id of the candidate the
                                                   request was built for)

  <cert>    issuerhex,subjecthex,serial,alg,<aki>       aki: n | x | a/<kidhex|n>/<serial|n>/<issuerhex|n>
  <chains>  - | chain|chain|…   verified chains as presented;  chain = entry;entry;…
  <trusted> - | entry;entry;…   configured trusted responder certificates
            entry = certId,key,subjecthex,issuerhex,serial,<skihex|n>,alg
  <cands>   - | certId:key;…
  <servers> - | urlhex=<sel>:<beh>|<sel>:<beh>…;…        sel = candidate certId or *  (first match wins; no match = fetch error)
  <beh>/<body>  E (fetch error the responder log shows) | X (fetch error nobody can observe: refused, TLS failure,
                unsupported scheme — such requests are left out of `req=`) | G (garbage) | R<status>~<typeBasic>~<basicParses>~<ridOk>~<signed>~<emb>~<singles>
  <emb>     n | parses.certId.key.certSigned.eku
  <singles> n | serial.<g|r|u>.<nu|n>.crit.hashKnown+…

Signatures: `V key signed := key == signed` (the harness numbers public keys from 1 and gives every signed object the
number of the key it verifies under, 0 if none of the keys in play).
Before each `look` the idealised expiration check of cache2go runs at `t` (`Cache.sweep`).
-/
namespace Crv.Driver.Ocsp
open Crv Crv.Ocsp Crv.Generated

structure State where
  table : Table := []

def init : State := {}

def Vd : Key → Signed → Bool := fun k s => k == s

def strOfHex (h : String) : Option Str := (parseHex h).map (fun bs => bs.map (fun b => Char.ofNat b.toNat))

def natsOfHex (h : String) : Option (List Nat) := (parseHex h).map (fun bs => bs.map (fun b => b.toNat))

def optOf {α : Type} (f : String → Option α) (s : String) : Option (Option α) :=
  if s = "n" then some none else (f s).map some

def bool01 (s : String) : Option Bool :=
  if s = "1" then some true else if s = "0" then some false else none

def listOf {α : Type} (sep : String) (f : String → Option α) (s : String) (empty : String := "-") : Option (List α) :=
  if s = empty then some [] else (s.splitOn sep).mapM f

def parseStatus (s : String) : Option CertStatus :=
  if s = "g" then some .good else if s = "r" then some .revoked else if s = "u" then some .unknown else none

def parseSingle (s : String) : Option Single :=
  match s.splitOn "." with
  | [ser, st, nu, cr, hk] => do
    let ser ← ser.toNat?
    let st ← parseStatus st
    let nu ← optOf String.toNat? nu
    let cr ← bool01 cr
    let hk ← bool01 hk
    pure { serial := ser, status := st, nextUpdate := nu, criticalExt := cr, hashKnown := hk }
  | _ => none

def parseEmb (s : String) : Option (Option Embedded) :=
  if s = "n" then some none else
  match s.splitOn "." with
  | [p, id, k, cs, eku] => do
    let p ← bool01 p
    let id ← id.toNat?
    let k ← k.toNat?
    let cs ← cs.toNat?
    let eku ← bool01 eku
    pure (some { parses := p, certId := id, key := k, certSigned := cs, ocspEku := eku })
  | _ => none

def parseResp (s : String) : Option Resp :=
  match s.splitOn "~" with
  | [st, tb, bp, rid, sg, emb, singles] => do
    let st ← st.toNat?
    let tb ← bool01 tb
    let bp ← bool01 bp
    let rid ← bool01 rid
    let sg ← sg.toNat?
    let emb ← parseEmb emb
    let singles ← listOf "+" parseSingle singles "n"
    pure { respStatus := st, typeBasic := tb, basicParses := bp, singles := singles, responderIdOk := rid,
           embedded := emb, signed := sg }
  | _ => none

def parseFetch (s : String) : Option Fetch :=
  if s = "E" then some .error
  else if s = "G" then some (.body .garbage)
  else if s.startsWith "R" then (parseResp (s.drop 1).toString).map (fun r => .body (.resp r))
  else none

def parseCand (s : String) : Option Cand :=
  match s.splitOn ":" with
  | [id, k] => do
    let id ← id.toNat?
    let k ← k.toNat?
    pure { certId := id, key := k }
  | _ => none

def parseAki (s : String) : Option (Option (Option Aki)) :=
  if s = "n" then some none
  else if s = "x" then some (some none)
  else match s.splitOn "/" with
    | ["a", kid, ser, iss] => do
      let kid ← optOf natsOfHex kid
      let ser ← optOf String.toNat? ser
      let iss ← optOf strOfHex iss
      pure (some (some { keyId := kid, certSerial := ser, certIssuer := iss }))
    | _ => none

def parseCert (s : String) (servers : List Str) : Option Cert :=
  match s.splitOn "," with
  | [iss, subj, ser, alg, aki] => do
    let iss ← strOfHex iss
    let subj ← strOfHex subj
    let ser ← ser.toNat?
    let alg ← alg.toNat?
    let aki ← parseAki aki
    pure { issuer := iss, subject := subj, serial := ser, servers := servers, alg := alg, aki := aki }
  | _ => none

def parseChainCert (s : String) : Option ChainCert :=
  match s.splitOn "," with
  | [id, k, subj, iss, ser, ski, alg] => do
    let id ← id.toNat?
    let k ← k.toNat?
    let subj ← strOfHex subj
    let iss ← strOfHex iss
    let ser ← ser.toNat?
    let ski ← optOf natsOfHex ski
    let alg ← alg.toNat?
    pure { certId := id, key := k, subject := subj, issuer := iss, serial := ser, ski := ski, alg := alg }
  | _ => none

/-- One scripted responder: URL and its behaviour per candidate certId (`none` = any). -/
structure Srv where
  url : Str
  rules : List (Option Nat × Fetch × Bool)     -- selector, behaviour, observable

def parseRule (s : String) : Option (Option Nat × Fetch × Bool) :=
  match s.splitOn ":" with
  | [sel, beh] => do
    let sel ← if sel = "*" then some none else sel.toNat?.map some
    if beh = "X" then pure (sel, Fetch.error, false) else
    let beh ← parseFetch beh
    pure (sel, beh, true)
  | _ => none

def parseSrv (s : String) : Option Srv :=
  match s.splitOn "=" with
  | [u, rules] => do
    let u ← strOfHex u
    let rules ← listOf "|" parseRule rules
    pure { url := u, rules := rules }
  | _ => none

def ruleOf (srvs : List Srv) (s : Str) (c : Cand) : Option (Option Nat × Fetch × Bool) :=
  match srvs.find? (fun x => x.url == s) with
  | none => none
  | some x => x.rules.find? (fun r => match r.1 with | none => true | some id => id == c.certId)

def answerOf (srvs : List Srv) (s : Str) (c : Cand) : Fetch :=
  match ruleOf srvs s c with
  | none => .error
  | some r => r.2.1

def observable (srvs : List Srv) (q : Str × Cand) : Bool :=
  match ruleOf srvs q.1 q.2 with
  | none => false
  | some r => r.2.2

def statusStr : CertStatus → String
  | .good => "g" | .revoked => "r" | .unknown => "u"

def optNatStr : Option Nat → String
  | none => "n" | some n => toString n

def hexOfStr (s : Str) : String := toHex (s.map (fun c => UInt8.ofNat c.toNat))

def reqStr (servers : List Str) (reqs : List (Str × Cand)) : String :=
  if reqs.isEmpty then "-" else
  ",".intercalate (reqs.map (fun q => toString (servers.idxOf q.1) ++ "." ++ toString q.2.key))

def step (s : State) (ws : List String) : State × String :=
  match ws with
  | ["flush"] => ({ table := Cache.flush s.table }, "ok")
  | ["evict", d, now, nu] =>
    match d.toNat?, now.toNat?, optOf String.toNat? nu with
    | some d, some now, some nu => (s, toString (lifetime ocspFacts d now nu))
    | _, _, _ => (s, "bad-op")
  | ["filter", u] =>
    match strOfHex u with
    | some u => (s, if isHttp ocspFacts u then "1" else "0")
    | none => (s, "bad-op")
  | ["key", iss, subj, ser] =>
    match strOfHex iss, strOfHex subj, ser.toNat? with
    | some iss, some subj, some ser =>
      (s, hexOfStr (mkKey ocspFacts { issuer := iss, subject := subj, serial := ser, servers := [] }))
    | _, _, _ => (s, "bad-op")
  | ["parse", ser, cands, body] =>
    match ser.toNat?, listOf ";" parseCand cands, parseFetch body with
    | some ser, some cands, some (.body b) =>
      match parseOcsp ocspFacts Vd { issuer := [], subject := [], serial := ser, servers := [] } cands b with
      | none => (s, "none")
      | some p => (s, statusStr p.status ++ " nu=" ++ optNatStr p.nextUpdate)
    | _, _, _ => (s, "bad-op")
  | ["look", strict, d, t, cert, chains, trusted, servers] =>
    match bool01 strict, d.toNat?, t.toNat?, listOf ";" parseSrv servers,
          listOf "|" (listOf ";" parseChainCert) chains, listOf ";" parseChainCert trusted with
    | some strict, some d, some t, some srvs, some chains, some trusted =>
      match parseCert cert (srvs.map (·.url)) with
      | some cert =>
        let cands := (candidates cert (issuerPool ocspFacts chains trusted)).map ChainCert.cand
        let T := Cache.sweep s.table t
        let o := lookup ocspFacts Vd { strict := strict, defaultDur := d } cert cands (answerOf srvs) t T
        ({ table := o.table },
         o.result.toString ++ " req=" ++ reqStr cert.servers (o.requests.filter (observable srvs)) ++ " hit=" ++ (if o.hit then "1" else "0") ++
         " store=" ++ (match o.stored with | none => "-" | some l => toString l))
      | none => (s, "bad-op")
    | _, _, _, _, _, _ => (s, "bad-op")
  | _ => (s, "bad-op")

end Crv.Driver.Ocsp
