import Crv.Driver.Util
import Crv.Locks
import Crv.Generated.Locks
/-!
Line-protocol driver for stream `lock` (C13). Stateless: every answer is computed from the lock
programs regenerated from /repo (`Crv.Generated.sys`).

  lock check wf|consistent|ordered|noSelfAcquire          → ok | fail
  lock lockset <field name>                                → ok | fail      (some lock class guards every conflicting access)
  lock admits <prog> <lock> <r|w> <same|otherEntry|otherChecker> <blocks|returns> → yes | no
      a thread running <prog> alone while the environment holds <lock> in the given mode on the entry the
      thread may work on (`same`), on another entry of the same checker, or of another checker instance:
      can it block on that lock / can it return?
  lock nesting                                             → held>requested pairs, sorted
-/
namespace Crv.Driver.Lock
open Crv.Locks Crv.Generated

structure State where
  dummy : Unit := ()

def init : State := {}

def okFail (b : Bool) : String := if b then "ok" else "fail"

def idxOf? (l : List String) (s : String) : Option Nat :=
  let i := l.idxOf s
  if i < l.length then some i else none

/-- does acquiring class `l` in mode `m` conflict with the environment holding `l0` in mode `m0`? -/
def conflicts (l0 : Nat) (m0 : Mode) (n : Node) : Bool :=
  match n.instr with
  | .acq l m => l == l0 && (m0 == .w || m == .w)
  | _ => false

/-- `rel`: 0 = the thread works on the entry whose lock is held (or may pick it), 1 = same checker but
never that entry, 2 = another checker instance. -/
def admits (P : Prog) (l0 : Nat) (m0 : Mode) (rel : Nat) (observed : String) : Option Bool :=
  let relevant := rel == 0 || (rel == 1 && sys.lscope l0 != .ent) || (rel == 2 && sys.lscope l0 == .glob)
  let confl : Node → Bool := fun n => relevant && conflicts l0 m0 n
  match observed with
  | "blocks" => some (P.pathTo (fun _ => false) confl).isSome
  | "returns" => some (P.pathTo confl (fun n => n.instr == .ret)).isSome
  | _ => none

def step (s : State) (ws : List String) : State × String :=
  match ws with
  | ["check", "wf"] => (s, okFail sys.wf)
  | ["check", "consistent"] => (s, okFail sys.consistent)
  | ["check", "ordered"] => (s, okFail sys.ordered)
  | ["check", "noSelfAcquire"] => (s, okFail sys.noSelfAcquire)
  | ["lockset", f] =>
    match idxOf? fieldNames f with
    | some fi => (s, okFail ((List.range lockNames.length).any fun g => sys.locksetField g fi))
    | none => (s, "bad-op")
  | ["admits", p, l, m, e, obs] =>
    match idxOf? progNames p, idxOf? lockNames l with
    | some pi, some li =>
      let mode? : Option Mode := if m = "r" then some .r else if m = "w" then some .w else none
      let same? : Option Nat := if e = "same" then some 0 else if e = "otherEntry" then some 1
        else if e = "otherChecker" then some 2 else none
      match sys.progs[pi]?, mode?, same? with
      | some P, some m0, some same =>
        (match admits P li m0 same obs with
         | some b => (s, if b then "yes" else "no")
         | none => (s, "bad-op"))
      | _, _, _ => (s, "bad-op")
    | _, _ => (s, "bad-op")
  | ["nesting"] =>
    (s, ",".intercalate (lockNesting.map fun e => lockNames.getD e.1 "?" ++ ">" ++ lockNames.getD e.2 "?"))
  | _ => (s, "bad-op")

end Crv.Driver.Lock
