import Crv.Driver.Util
import Crv.Config
import Crv.Generated.Config
/-!
Line-protocol driver for stream `conf` (C19).

    conf caddyfile <env> <token tree>      -- UnmarshalCaddyfile + Provision
    conf json      <env> <raw config>      -- json.Unmarshal (done by the harness) + Provision

    <env>   = D=[dirs] F=[files] U=[<dur string>:<ns>|x …] C=[readable cert files] L=[acceptable CRL locations]
    <tree>  = <n> item^n ; item = e <key> <nargs> <arg>^nargs (n | b <tree>)
    <raw>   = m=<s> crl=<0|1> wd=<s> st=<s> iv=<s> sg=<s> urls=[…] files=[…] sgn=[…] cdp=<0|1> fm=<s> cs=<0|1>
              ocsp=<0|1> cd=<s> rs=[…] as=<0|1>

Strings are lower-case hex of their UTF-8 bytes, `-` for the empty string; lists are `[a,b,…]`.
Answer: `ok mode=… crl=… ocsp=…` | `error-unmarshal` | `error-provision` | `panic-unmarshal` | `panic-provision` | `bad-op`.
-/
namespace Crv.Driver.Conf
open Crv Crv.Config Crv.Driver

structure State where
  dummy : Unit := ()

def init : State := {}

def str? (h : String) : Option String :=
  match parseHex h with
  | some bs => String.fromUTF8? ⟨bs.toArray⟩
  | none => none

def strHex (s : String) : String := toHex s.toUTF8.toList

def allSome {α : Type} : List (Option α) → Option (List α)
  | [] => some []
  | none :: _ => none
  | some a :: rest => (allSome rest).map (a :: ·)

/-- `[a,b,c]` → items (raw). -/
def listItems (s : String) : Option (List String) :=
  if s.startsWith "[" && s.endsWith "]" then
    let inner := ((s.drop 1).dropEnd 1).toString
    if inner.isEmpty then some [] else some (inner.splitOn ",")
  else none

def strList? (s : String) : Option (List String) :=
  match listItems s with
  | some items => allSome (items.map str?)
  | none => none

def field? (pre : String) (w : String) : Option String :=
  if w.startsWith pre then some (w.drop pre.length).toString else none

def bit? (s : String) : Option Bool :=
  if s = "1" then some true else if s = "0" then some false else none

def durItem? (s : String) : Option (String × Option Int) :=
  match s.splitOn ":" with
  | [h, v] =>
    match str? h with
    | some k => if v = "x" then some (k, none) else (v.toInt?).map (fun n => (k, some n))
    | none => none
  | _ => none

def assoc {β : Type} (k : String) : List (String × β) → Option β
  | [] => none
  | (k', v) :: rest => if k = k' then some v else assoc k rest

def parseEnv (d f u c l : String) : Option Env := do
  let dirs ← (field? "D=" d).bind strList?
  let files ← (field? "F=" f).bind strList?
  let durs ← ((field? "U=" u).bind listItems).bind (fun items => allSome (items.map durItem?))
  let certs ← (field? "C=" c).bind strList?
  let crls ← (field? "L=" l).bind strList?
  pure { path := fun p => if dirs.contains p then .dir else if files.contains p then .file else .missing
         dur := fun s => (assoc s durs).join
         certOk := fun p => certs.contains p
         crlOk := fun p => crls.contains p }

def takeStrs : Nat → List String → Option (List String × List String)
  | 0, ws => some ([], ws)
  | n+1, w :: ws => do
    let s ← str? w
    let (more, rest) ← takeStrs n ws
    pure (s :: more, rest)
  | _+1, [] => none

/-- `fuel` bounds the recursion depth (every call consumes at least one word). -/
def parseItems : Nat → Nat → List String → Option (List Tok × List String)
  | 0, _, _ => none
  | _+1, 0, ws => some ([], ws)
  | fuel+1, n+1, ws =>
    match ws with
    | "e" :: k :: na :: rest => do
      let key ← str? k
      let nargs ← na.toNat?
      let (args, rest1) ← takeStrs nargs rest
      match rest1 with
      | "n" :: rest2 => do
        let (more, r) ← parseItems fuel n rest2
        pure (.entry key args none :: more, r)
      | "b" :: cnt :: rest2 => do
        let c ← cnt.toNat?
        let (sub, r2) ← parseItems fuel c rest2
        let (more, r3) ← parseItems fuel n r2
        pure (.entry key args (some sub) :: more, r3)
      | _ => none
    | _ => none

def parseTree (ws : List String) : Option (List Tok) :=
  match ws with
  | cnt :: rest =>
    match cnt.toNat? with
    | some n =>
      match parseItems (ws.length + 1) n rest with
      | some (toks, []) => some toks
      | _ => none
    | none => none
  | [] => none

def parseRaw (ws : List String) : Option RawCfg :=
  match ws with
  | [m, crl, wd, st, iv, sg, urls, files, sgn, cdp, fm, cs, ocsp, cd, rs, as] => do
    let m ← (field? "m=" m).bind str?
    let crl ← (field? "crl=" crl).bind bit?
    let wd ← (field? "wd=" wd).bind str?
    let st ← (field? "st=" st).bind str?
    let iv ← (field? "iv=" iv).bind str?
    let sg ← (field? "sg=" sg).bind str?
    let urls ← (field? "urls=" urls).bind strList?
    let files ← (field? "files=" files).bind strList?
    let sgn ← (field? "sgn=" sgn).bind strList?
    let cdp ← (field? "cdp=" cdp).bind bit?
    let fm ← (field? "fm=" fm).bind str?
    let cs ← (field? "cs=" cs).bind bit?
    let ocsp ← (field? "ocsp=" ocsp).bind bit?
    let cd ← (field? "cd=" cd).bind str?
    let rs ← (field? "rs=" rs).bind strList?
    let as ← (field? "as=" as).bind bit?
    pure { mode := m
           crl := if crl then some { workDir := wd, storage := st, interval := iv, sigMode := sg, urls := urls, files := files,
                                     signers := sgn, cdp := if cdp then some { fetchMode := fm, strict := cs } else none } else none
           ocsp := if ocsp then some { cacheDuration := cd, responders := rs, aiaStrict := as } else none }
  | _ => none

def modeStr : Mode → String
  | .preferOCSP => "prefer_ocsp" | .preferCRL => "prefer_crl" | .crlOnly => "crl_only"
  | .ocspOnly => "ocsp_only" | .disabled => "disabled"
def storageStr : Storage → String
  | .memory => "memory" | .disk => "disk"
def sigStr : SigMode → String
  | .none => "none" | .verifyLog => "verify_log" | .verify => "verify"
def fetchStr : FetchMode → String
  | .actively => "fetch_actively" | .background => "fetch_background"
def boolStr (b : Bool) : String := if b then "true" else "false"
def listStr (l : List String) : String := "[" ++ ",".intercalate (l.map strHex) ++ "]"

def cdpStr : Option EffCdp → String
  | none => "nil"
  | some c => "{" ++ fetchStr c.fetchMode ++ "," ++ boolStr c.strict ++ "}"

def crlStr : Option EffCrl → String
  | none => "nil"
  | some c => "{wd=" ++ strHex c.workDir ++ " st=" ++ storageStr c.storage ++ " iv=" ++ toString c.intervalNs ++
      " sg=" ++ sigStr c.sigMode ++ " urls=" ++ listStr c.urls ++ " files=" ++ listStr c.files ++
      " sgn=" ++ listStr c.signers ++ " cdp=" ++ cdpStr c.cdp ++ "}"

def ocspStr : Option EffOcsp → String
  | none => "nil"
  | some o => "{cd=" ++ toString o.cacheNs ++ " rs=" ++ listStr o.responders ++ " as=" ++ boolStr o.aiaStrict ++ "}"

def effStr (e : Effective) : String :=
  "ok mode=" ++ modeStr e.mode ++ " crl=" ++ crlStr e.crl ++ " ocsp=" ++ ocspStr e.ocsp

def provisionStr (env : Env) (st : VState) : String :=
  match provision Generated.configFacts.load env st with
  | .ok st' => effStr st'.effective
  | .error => "error-provision"
  | .panic => "panic-provision"

def answer (ws : List String) : String :=
  match ws with
  | "caddyfile" :: d :: f :: u :: c :: l :: tree =>
    match parseEnv d f u c l, parseTree tree with
    | some env, some toks =>
      match unmarshalCaddyfile Generated.configFacts env toks with
      | .ok st => provisionStr env st
      | .error => "error-unmarshal"
      | .panic => "panic-unmarshal"
    | _, _ => "bad-op"
  | "json" :: d :: f :: u :: c :: l :: raw =>
    match parseEnv d f u c l, parseRaw raw with
    | some env, some r => provisionStr env { VState.zero Generated.configFacts.load with raw := r }
    | _, _ => "bad-op"
  | _ => "bad-op"

/-- One line (already split into words, stream tag removed) → new state and the answer line. -/
def step (s : State) (ws : List String) : State × String := (s, answer ws)

end Crv.Driver.Conf
