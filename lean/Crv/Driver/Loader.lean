import Crv.Driver.Util
import Crv.Loader
/-!
Line-protocol driver for stream `ld` (loader layer model, `Crv/Loader.lean`). Stateless: every line is self-contained.

  retry <attempts> <outcomes>            → ok calls=<n> | err calls=<n>
        utils.Retry(attempts, …, f); <attempts> is an integer (may be ≤ 0); <outcomes> is a string over 0/1
        (`-` = empty): call k of f succeeds iff position k is `1`, every call beyond the end of the string fails.
  factory <urlhex|-> <filehex|-> <cdps|->  → url <hex> | file <hex> | multi <hex>,<hex>,… | error
        CreatePreferredCrlLoader; hex of the raw bytes, `-` = empty string / empty list; <cdps> = hex strings joined
        by `,`, an empty distribution-point string inside the list is written `.`.
  multi <n> <call>;<call>;…              → <res>;<res>;…
        a fresh MultiSchemesCRLLoader with n loaders (lastSuccessfulLoader == nil), one LoadCRL per <call>;
        <call> = n characters 0/1 (loader j answers in that call), `-` for the empty string when n = 0;
        <res> = ok@<j>:<trace> | fail:<trace>, <trace> = indices of the loaders called, in call order, joined by `.`
        (`-` when no loader was called).
  anything else                          → bad-op
-/
namespace Crv.Driver
open Crv.Loader

/-- A string over `0`/`1` (`-` = empty) as a list of outcomes. -/
def parseBits (s : String) : Option (List Bool) :=
  if s = "-" then some [] else
  s.toList.mapM (fun c => if c = '1' then some true else if c = '0' then some false else none)

def bitsFn (bs : List Bool) : Nat → Bool := fun k => bs.getD k false

/-- Distribution-point list: `-` = none, else `,`-separated hex strings, `.` = the empty string. -/
def parseCdps (s : String) : Option (List (List UInt8)) :=
  if s = "-" then some [] else
  (s.splitOn ",").mapM (fun p => if p = "." then some [] else if p = "" ∨ p = "-" then none else parseHex p)

def hexOrDot (bs : List UInt8) : String := if bs.isEmpty then "." else toHex bs

def traceStr (tr : List Nat) : String :=
  if tr.isEmpty then "-" else ".".intercalate (tr.map toString)

/-- Fold the calls through `load`, collecting one result per call. -/
def runMulti (m : Multi) : List (List Bool) → List String
  | [] => []
  | c :: cs =>
    let (m', res, tr) := load m (bitsFn c)
    (match res with
     | some j => s!"ok@{j}:{traceStr tr}"
     | none => s!"fail:{traceStr tr}") :: runMulti m' cs

def stepLoader (args : List String) : String :=
  match args with
  | ["retry", a, outs] =>
    match a.toInt?, parseBits outs with
    | some a, some bs =>
      let (ok, calls) := retry a (bitsFn bs)
      (if ok then "ok" else "err") ++ s!" calls={calls}"
    | _, _ => "bad-op"
  | ["factory", u, f, cs] =>
    match parseHex u, parseHex f, parseCdps cs with
    | some u, some f, some cs =>
      match create { url := u, file := f, cdps := cs } with
      | .url u => s!"url {toHex u}"
      | .file f => s!"file {toHex f}"
      | .multi us => "multi " ++ ",".intercalate (us.map hexOrDot)
      | .error => "error"
    | _, _, _ => "bad-op"
  | ["multi", n, calls] =>
    match n.toNat? with
    | some n =>
      match (calls.splitOn ";").mapM parseBits with
      | some cs =>
        if cs.all (fun c => c.length == n) then ";".intercalate (runMulti (fresh n) cs) else "bad-op"
      | none => "bad-op"
    | none => "bad-op"
  | _ => "bad-op"

end Crv.Driver
