import Crv.Pem
import Crv.Driver.Util
/-! Line protocol for the PEM pipeline model (stream `pem`). -/
namespace Crv.Driver
open Crv.Pem

def pemEndToString : Crv.Pem.End → String
  | .eof => "eof" | .corrupt => "corrupt" | .unexpectedEOF => "unexpectedEOF" | .lineTooLong => "lineTooLong"

def b64EndToString : B64End → String
  | .eof => "eof" | .corrupt => "corrupt" | .unexpectedEOF => "unexpectedEOF"

def stepPem (ws : List String) : String :=
  match ws with
  | ["decode", h] =>
    match parseHex h with
    | some bs => let r := pemDecode bs; toHex r.1 ++ " " ++ pemEndToString r.2
    | none => "bad-op"
  | ["ispem", h] =>
    match parseHex h with
    | some bs => toString (isPemFile bs)
    | none => "bad-op"
  | ["armour", h] =>
    match parseHex h with
    | some bs => toString (isArmour bs)
    | none => "bad-op"
  | ["encode", e, hl, hd] =>
    match (if e = "lf" then some false else if e = "crlf" then some true else none), parseHex hl, parseHex hd with
    | some crlf, some l, some d => toHex (pemEncode crlf l d)
    | _, _, _ => "bad-op"
  -- extra: the base64 stream decoder alone, over a text without line breaks
  | ["b64", h] =>
    match parseHex h with
    | some bs => let r := b64DecodeStream bs; toHex r.1 ++ " " ++ b64EndToString r.2
    | none => "bad-op"
  | _ => "bad-op"

end Crv.Driver
