import Crv.Driver.Util
import Crv.Paths
import Crv.Generated.Paths
/-!
Line-protocol driver for stream `path` (C20).

The theorems of `Crv.Props.C20` keep SHA-256 opaque; the driver instantiates it with an executable SHA-256 (below) so
that the identifier functions of the model can be compared with the real ones end to end (the first `sha` lines of
every run compare this implementation itself with `crypto/sha256`). The URL normaliser stays an oracle: the harness
sends each raw string together with what `url.Parse(..).String()` made of it.

Ops:
  sha <hex>                                  → digest
  id url <norm-hex|!>                        → 64-hex name | none
  id file <name-hex>                         → 64-hex name
  id cdp <raw-hex>:<norm-hex|!> …            → 64-hex name | none
  tmp? <name-hex>                            → true|false      (sweep pattern)
  normal? <name-hex>                         → true|false
  join <wd-hex> <name-hex>                   → hex of filepath.Join
  life init <disk|memory> <wd-hex> | life foreign <name-hex> <file|dir> | life provision <v> <urls> <files>
  life hs <v> <id-hex> <origin> | life refresh <v> <id-hex> <origin> | life cleanup     → state line
-/
namespace Crv.Driver.Path
open Crv.Paths Crv.Generated

/-! ### SHA-256 (FIPS 180-4), driver only -/

def shaK : Array UInt32 := #[
  0x428a2f98, 0x71374491, 0xb5c0fbcf, 0xe9b5dba5, 0x3956c25b, 0x59f111f1, 0x923f82a4, 0xab1c5ed5,
  0xd807aa98, 0x12835b01, 0x243185be, 0x550c7dc3, 0x72be5d74, 0x80deb1fe, 0x9bdc06a7, 0xc19bf174,
  0xe49b69c1, 0xefbe4786, 0x0fc19dc6, 0x240ca1cc, 0x2de92c6f, 0x4a7484aa, 0x5cb0a9dc, 0x76f988da,
  0x983e5152, 0xa831c66d, 0xb00327c8, 0xbf597fc7, 0xc6e00bf3, 0xd5a79147, 0x06ca6351, 0x14292967,
  0x27b70a85, 0x2e1b2138, 0x4d2c6dfc, 0x53380d13, 0x650a7354, 0x766a0abb, 0x81c2c92e, 0x92722c85,
  0xa2bfe8a1, 0xa81a664b, 0xc24b8b70, 0xc76c51a3, 0xd192e819, 0xd6990624, 0xf40e3585, 0x106aa070,
  0x19a4c116, 0x1e376c08, 0x2748774c, 0x34b0bcb5, 0x391c0cb3, 0x4ed8aa4a, 0x5b9cca4f, 0x682e6ff3,
  0x748f82ee, 0x78a5636f, 0x84c87814, 0x8cc70208, 0x90befffa, 0xa4506ceb, 0xbef9a3f7, 0xc67178f2]

def shaInit : Array UInt32 := #[0x6a09e667, 0xbb67ae85, 0x3c6ef372, 0xa54ff53a, 0x510e527f, 0x9b05688c, 0x1f83d9ab, 0x5be0cd19]

def rotr (x : UInt32) (n : UInt32) : UInt32 := (x >>> n) ||| (x <<< (32 - n))

def shaPad (msg : List UInt8) : List UInt8 :=
  let l := msg.length
  let zeros := (119 - l % 64) % 64
  let bits := l * 8
  msg ++ [(0x80 : UInt8)] ++ List.replicate zeros (0 : UInt8) ++
    (List.range 8).map (fun i => UInt8.ofNat ((bits >>> (8 * (7 - i))) % 256))

def be32 (a b c d : UInt8) : UInt32 :=
  (a.toUInt32 <<< 24) ||| (b.toUInt32 <<< 16) ||| (c.toUInt32 <<< 8) ||| d.toUInt32

def blockWords : List UInt8 → List UInt32
  | a :: b :: c :: d :: rest => be32 a b c d :: blockWords rest
  | _ => []

def schedule (w16 : Array UInt32) : Array UInt32 := Id.run do
  let mut w := w16
  for i in [16:64] do
    let w15 := w[i - 15]!
    let w2 := w[i - 2]!
    let s0 := rotr w15 7 ^^^ rotr w15 18 ^^^ (w15 >>> 3)
    let s1 := rotr w2 17 ^^^ rotr w2 19 ^^^ (w2 >>> 10)
    w := w.push (w[i - 16]! + s0 + w[i - 7]! + s1)
  return w

def compress (h : Array UInt32) (block : List UInt8) : Array UInt32 := Id.run do
  let w := schedule (blockWords block).toArray
  let mut a := h[0]!
  let mut b := h[1]!
  let mut c := h[2]!
  let mut d := h[3]!
  let mut e := h[4]!
  let mut f := h[5]!
  let mut g := h[6]!
  let mut hh := h[7]!
  for i in [0:64] do
    let s1 := rotr e 6 ^^^ rotr e 11 ^^^ rotr e 25
    let ch := (e &&& f) ^^^ ((~~~ e) &&& g)
    let t1 := hh + s1 + ch + shaK[i]! + w[i]!
    let s0 := rotr a 2 ^^^ rotr a 13 ^^^ rotr a 22
    let maj := (a &&& b) ^^^ (a &&& c) ^^^ (b &&& c)
    let t2 := s0 + maj
    hh := g; g := f; f := e; e := d + t1; d := c; c := b; b := a; a := t1 + t2
  return #[h[0]! + a, h[1]! + b, h[2]! + c, h[3]! + d, h[4]! + e, h[5]! + f, h[6]! + g, h[7]! + hh]

partial def shaBlocks (h : Array UInt32) (bs : List UInt8) : Array UInt32 :=
  if bs.length < 64 then h else shaBlocks (compress h (bs.take 64)) (bs.drop 64)

def sha256 (msg : List UInt8) : List UInt8 :=
  let h := shaBlocks shaInit (shaPad msg)
  h.toList.flatMap (fun (x : UInt32) => [(x >>> 24).toUInt8, (x >>> 16).toUInt8, (x >>> 8).toUInt8, x.toUInt8])

/-! ### helpers -/

def nameStr (n : Name) : String := toHex n

def parseName (s : String) : Option Name := parseHex s

def boolStr (b : Bool) : String := if b then "true" else "false"

/-- insertion sort on names by their hex text (canonical listing order = byte order) -/
def sortStrings (l : List String) : List String :=
  l.foldl (fun acc x => (acc.takeWhile (· < x)) ++ x :: acc.dropWhile (· < x)) []

def parseOrigin (s : String) : Option Origin :=
  match s.splitOn ":" with
  | ["down"] => some .down
  | ["broken", tag, j, n] =>
    match tag.toNat?, j.toNat?, n.toNat? with
    | some t, some j, some n => some (.broken { tag := t, serials := (List.range n).map (· + 1), sigOk := true } j)
    | _, _, _ => none
  | ["doc", tag, n, sig] =>
    match tag.toNat?, n.toNat?, parseBool sig with
    | some t, some n, some ok => some (.doc { tag := t, serials := (List.range n).map (· + 1), sigOk := ok })
    | _, _, _ => none
  | _ => none

def parseLocation (s : String) : Option Location :=
  match s.splitOn "/" with
  | [id, a, b] =>
    match parseName id, parseOrigin a, parseOrigin b with
    | some id, some a, some b => some { id := id, first := a, update := b }
    | _, _, _ => none
  | _ => none

def parseLocations (s : String) : Option (List Location) :=
  if s = "-" then some [] else mapOpt parseLocation (s.splitOn ",")

structure State where
  sys : Sys := { disk := true, wd := [], fs := [] }
  lastOk : Bool := true

def init : State := {}

def showState (s : Sys) (ok : Bool) : String :=
  let ls := sortStrings (s.fs.map (fun e => nameStr e.1 ++ (match e.2 with | .file => ":f" | .dir _ => ":d")))
  let hs := sortStrings (s.handles.map nameStr)
  let loaded := sortStrings ((s.inst.entries.filter (·.2)).map (fun e => nameStr e.1))
  "ok=" ++ boolStr ok ++ " ls=[" ++ ",".intercalate ls ++ "] handles=[" ++ ",".intercalate hs ++
    "] reg=" ++ boolStr (s.wd ∈ s.registered) ++ " updater=" ++ boolStr s.inst.stop ++
    " loaded=[" ++ ",".intercalate (if provisioned s then loaded else []) ++ "]"

def stepLife (st : State) (ws : List String) : State × String :=
  match ws with
  | ["init", kind, wd] =>
    match parseName wd with
    | some wd =>
      if kind = "disk" ∨ kind = "memory" then
        let s : Sys := { disk := kind = "disk", wd := wd, fs := [] }
        ({ sys := s, lastOk := true }, showState s true)
      else (st, "bad-op")
    | none => (st, "bad-op")
  | ["foreign", n, kind] =>
    match parseName n with
    | some n =>
      if kind = "file" ∨ kind = "dir" then
        let s := stepEv pathFacts st.sys (.foreign n (if kind = "file" then .file else .dir []))
        ({ st with sys := s }, showState s true)
      else (st, "bad-op")
    | none => (st, "bad-op")
  | ["provision", v, urls, files] =>
    match parseBool v, parseLocations urls, parseLocations files with
    | some v, some urls, some files =>
      let ok := (provision pathFacts v urls files st.sys).2
      let s := stepEv pathFacts st.sys (.provision v urls files)
      ({ sys := s, lastOk := ok }, showState s ok)
    | _, _, _ => (st, "bad-op")
  | ["cycle", v, urls, files] =>
    -- Provision followed at once by Cleanup; only the settled state is reported
    match parseBool v, parseLocations urls, parseLocations files with
    | some v, some urls, some files =>
      let s := stepEv pathFacts (stepEv pathFacts st.sys (.provision v urls files)) .cleanup
      ({ sys := s, lastOk := true }, showState s true)
    | _, _, _ => (st, "bad-op")
  | ["hs", v, id, o] =>
    match parseBool v, parseName id, parseOrigin o with
    | some v, some id, some o =>
      let s := stepEv pathFacts st.sys (.handshake v id o)
      ({ st with sys := s }, showState s true)
    | _, _, _ => (st, "bad-op")
  | ["refresh", v, id, o] =>
    match parseBool v, parseName id, parseOrigin o with
    | some v, some id, some o =>
      let s := stepEv pathFacts st.sys (.refresh v id o)
      ({ st with sys := s }, showState s true)
    | _, _, _ => (st, "bad-op")
  | ["cleanup"] =>
    let s := stepEv pathFacts st.sys .cleanup
    ({ st with sys := s }, showState s true)
  | _ => (st, "bad-op")

def parseCdp (s : String) : Option (Name × Option Name) :=
  match s.splitOn ":" with
  | [raw, nrm] =>
    match parseName raw with
    | some raw => if nrm = "!" then some (raw, none) else (parseName nrm).map (fun n => (raw, some n))
    | none => none
  | _ => none

/-- One line (already split into words, stream tag removed) → new state and the answer line. -/
def step (s : State) (ws : List String) : State × String :=
  match ws with
  | ["sha", h] =>
    match parseHex h with
    | some bs => (s, toHex (sha256 bs))
    | none => (s, "bad-op")
  | ["id", "url", n] =>
    if n = "!" then (s, "none") else
    match parseName n with
    | some n => (s, match urlId sha256 (fun x => some x) n with | some i => String.ofList (i.map (fun b => Char.ofNat b.toNat)) | none => "none")
    | none => (s, "bad-op")
  | ["id", "file", n] =>
    match parseName n with
    | some n => (s, String.ofList ((fileId sha256 pathFacts n).map (fun b => Char.ofNat b.toNat)))
    | none => (s, "bad-op")
  | "id" :: "cdp" :: items =>
    match mapOpt parseCdp items with
    | some ps =>
      -- the oracle for the normaliser: the table the harness sent (first match)
      let norm : Name → Option Name := fun raw => match ps.find? (fun p => p.1 = raw) with | some p => p.2 | none => none
      (s, match cdpId sha256 norm pathFacts (ps.map (·.1)) with
          | some i => String.ofList (i.map (fun b => Char.ofNat b.toNat))
          | none => "none")
    | none => (s, "bad-op")
  | ["tmp?", n] =>
    match parseName n with
    | some n => (s, boolStr (matchesTemp pathFacts n))
    | none => (s, "bad-op")
  | ["normal?", n] =>
    match parseName n with
    | some n => (s, boolStr (decide (normalComponent n)))
    | none => (s, "bad-op")
  | ["join", a, b] =>
    match parseName a, parseName b with
    | some a, some b => (s, toHex (join a b).render)
    | _, _ => (s, "bad-op")
  | "life" :: rest => stepLife s rest
  | _ => (s, "bad-op")

end Crv.Driver.Path
