import Crv.Key
import Crv.Mode
/-!
Storage model (C18, C09, C11, C01): the abstract map `Abs`, the memory backend `MapStore`
(crl/crlstore/map.go) and the disk backend `Ldb` over a small file-system model `Disk`
(crl/crlstore/leveldb.go), with every method of the `CRLStore` interface, and the lookup path of the
repository (`checkCrl`, `Repository.IsRevoked`) down to the handshake verdict.

Values are opaque byte strings (what the serializer produced); whether a deserializer accepts a stored
value is an oracle parameter `dec : Kind → Val → Bool`. What each lookup function turns its error
conditions into is taken from the regenerated facts `Crv.Generated.Store.*`.
-/
namespace Crv.Store
open Crv

abbrev Val := List UInt8
abbrev HKey := List UInt8
/-- Association on hashed keys, newest binding first (a later `Put` shadows). -/
abbrev Assoc := List (HKey × Val)

def aget : Assoc → HKey → Option Val
  | [], _ => none
  | (k', v) :: r, k => if k' = k then some v else aget r k

/-- Which deserializer reads a value. -/
inductive Kind | entry | minfo | ext | sig | loc
  deriving DecidableEq, Repr

/-- Abstract keys: an (issuer, serial) pair or one of the four metadata slots. -/
inductive AKey
  | ent (issuer : List UInt8) (serial : Int)
  | minfo | ext | sig | loc
  deriving DecidableEq, Repr

/-- The key string a backend uses for an abstract key. -/
def AKey.str : AKey → List UInt8
  | .ent i s => key i s
  | .minfo => Generated.Store.metaKey
  | .ext => Generated.Store.extKey
  | .sig => Generated.Store.sigKey
  | .loc => Generated.Store.locKey

def AKey.kind : AKey → Kind
  | .ent _ _ => .entry | .minfo => .minfo | .ext => .ext | .sig => .sig | .loc => .loc

/-- Result of `GetCertRevocationStatus`: `(&{Revoked:true, entry}, nil)`, `(&{Revoked:false}, nil)`, `(nil, err)`. -/
inductive Lookup | revoked (v : Val) | absent | error
  deriving DecidableEq, Repr

/-- Result of a mutating method. `panic`: write into the nil map of a consumed `MapStore`. -/
inductive WRes | ok | error | panic
  deriving DecidableEq, Repr

def retOf (r : Generated.Store.LRet) (v : Val) : Lookup :=
  match r with
  | .notRevoked => .absent
  | .revoked => .revoked v
  | .error => .error

/-! ## Abstract specification -/

/-- Partial map from (issuer, serial) to the stored entry, plus four optional metadata slots. -/
structure Abs where
  ent : List UInt8 → Int → Option Val
  minfo : Option Val
  ext : Option Val
  sig : Option Val
  loc : Option Val

def Abs.empty : Abs := { ent := fun _ _ => none, minfo := none, ext := none, sig := none, loc := none }

def Abs.get (a : Abs) : AKey → Option Val
  | .ent i s => a.ent i s
  | .minfo => a.minfo | .ext => a.ext | .sig => a.sig | .loc => a.loc

def Abs.set (a : Abs) (k : AKey) (v : Val) : Abs :=
  match k with
  | .ent i s => { a with ent := fun i' s' => if i = i' ∧ s = s' then some v else a.ent i' s' }
  | .minfo => { a with minfo := some v }
  | .ext => { a with ext := some v }
  | .sig => { a with sig := some v }
  | .loc => { a with loc := some v }

/-- Specified lookup: revoked exactly for the stored pairs, with the stored entry; a stored value the
deserializer rejects is an error. -/
def Abs.lookup (dec : Kind → Val → Bool) (a : Abs) (i : List UInt8) (s : Int) : Lookup :=
  match a.ent i s with
  | none => .absent
  | some v => if dec .entry v then .revoked v else .error

/-- Specified metadata read: the written value, or failure (nothing written / undecodable). -/
def Abs.slot (dec : Kind → Val → Bool) (a : Abs) (k : AKey) : Option Val :=
  match a.get k with
  | none => none
  | some v => if dec k.kind v then some v else none

/-! ## Memory backend (map.go) -/

/-- `map = none` is Go's `S.Map == nil`: the state of a store after it was consumed by `Update`
(`storeNew.close()`). Reading a nil map finds nothing, writing panics. Stored values are never nil
slices (asn1.Marshal / RawCertificate of a parsed certificate), so `bytes == nil` is exactly "no binding". -/
structure MapStore where
  map : Option Assoc
  deriving DecidableEq, Repr

/-- `MapStoreFactory.CreateStore` -/
def MapStore.new : MapStore := { map := some [] }

def MapStore.rawGet (s : MapStore) (k : List UInt8) : Option Val :=
  match s.map with
  | none => none
  | some m => aget m (hkey k)

def MapStore.put (s : MapStore) (k : List UInt8) (v : Val) : MapStore × WRes :=
  match s.map with
  | none => (s, .panic)
  | some m => ({ map := some ((hkey k, v) :: m) }, .ok)

/-- `MapStore.GetCertRevocationStatus` -/
def MapStore.lookup (dec : Kind → Val → Bool) (s : MapStore) (i : List UInt8) (n : Int) : Lookup :=
  match s.rawGet (key i n) with
  | none => retOf Generated.Store.mapOnNotFound []
  | some v => if dec .entry v then retOf Generated.Store.mapOnOk v else retOf Generated.Store.mapOnDecodeErr v

/-- `GetCRLMetaInfo`, `GetCRLExtMetaInfo`, `GetCRLSignatureCert`, `GetCRLLocations`: value or error. -/
def MapStore.slot (dec : Kind → Val → Bool) (s : MapStore) (k : AKey) : Option Val :=
  match s.rawGet k.str with
  | none => none
  | some v => if dec k.kind v then some v else none

/-- `IsEmpty`: `len(S.Map) == 0` -/
def MapStore.isEmpty (s : MapStore) : Bool :=
  match s.map with
  | none => true
  | some m => m.isEmpty

/-- `S.Update(storeNew)` for a `*MapStore` argument: copy the content, consume the argument. Returns (S, storeNew). -/
def MapStore.update (_s other : MapStore) : MapStore × MapStore × WRes :=
  ({ map := some (other.map.getD []) }, { map := none }, .ok)

/-- `Close`: nothing. -/
def MapStore.close (s : MapStore) : MapStore := s
/-- `Delete`: nothing. -/
def MapStore.delete (s : MapStore) : MapStore × WRes := (s, .ok)

/-! ## Disk backend (leveldb.go) -/

/-- Directories under the base path: `BasePath/identifier` or a `crl_<uuid>_tmp` directory. -/
inductive Path | final (ident : Nat) | temp (n : Nat)
  deriving DecidableEq, Repr

/-- File system as far as the stores are concerned: which directories exist with which database content,
which are currently opened (LevelDB LOCK), and a counter for fresh temporary names. -/
structure Disk where
  dirs : Path → Option Assoc
  locked : Path → Bool
  next : Nat

def Disk.empty : Disk := { dirs := fun _ => none, locked := fun _ => false, next := 0 }

def Disk.setDir (d : Disk) (p : Path) (c : Option Assoc) : Disk :=
  { d with dirs := fun q => if q = p then c else d.dirs q }

def Disk.setLock (d : Disk) (p : Path) (b : Bool) : Disk :=
  { d with locked := fun q => if q = p then b else d.locked q }

/-- Injected read/write failure of the underlying database other than "closed" and "not found"
(I/O error, corrupted table block, ...). -/
inductive Fault | io | corrupt | other (code : Nat)
  deriving DecidableEq, Repr

structure Ldb where
  path : Path          -- S.LevelDBPath
  ident : Nat          -- S.Identifier
  isOpen : Bool        -- S.Db not yet closed
  fault : Option Fault
  deriving DecidableEq, Repr

/-- Result of `Db.Get`. -/
inductive GetRes | found (v : Val) | notFound | closed | fault (f : Fault)
  deriving DecidableEq, Repr

/-- `LevelDbStoreFactory.CreateStore(identifier, temporary)`; opening a directory another handle has open fails. -/
def Ldb.create (d : Disk) (ident : Nat) (temporary : Bool) : Disk × Option Ldb :=
  if temporary then
    let p := Path.temp d.next
    let d1 : Disk := { d with next := d.next + 1 }
    let d2 := (d1.setDir p (some ((d1.dirs p).getD []))).setLock p true
    (d2, some { path := p, ident := ident, isOpen := true, fault := none })
  else
    let p := Path.final ident
    let d1 := d.setDir p (some ((d.dirs p).getD []))
    if d1.locked p then (d1, none)
    else (d1.setLock p true, some { path := p, ident := ident, isOpen := true, fault := none })

def Ldb.dbGet (d : Disk) (h : Ldb) (hk : HKey) : GetRes :=
  if !h.isOpen then .closed
  else match h.fault with
    | some f => .fault f
    | none => match d.dirs h.path with
      | none => .fault .io
      | some m => match aget m hk with
        | none => .notFound
        | some v => .found v

def Ldb.dbPut (d : Disk) (h : Ldb) (hk : HKey) (v : Val) : Disk × WRes :=
  if !h.isOpen then (d, .error)
  else match h.fault with
    | some _ => (d, .error)
    | none => match d.dirs h.path with
      | none => (d, .error)
      | some m => (d.setDir h.path (some ((hk, v) :: m)), .ok)

def Ldb.put (d : Disk) (h : Ldb) (k : List UInt8) (v : Val) : Disk × WRes := h.dbPut d (hkey k) v

/-- `LevelDbStore.GetCertRevocationStatus` -/
def Ldb.lookup (dec : Kind → Val → Bool) (d : Disk) (h : Ldb) (i : List UInt8) (n : Int) : Lookup :=
  match h.dbGet d (hkey (key i n)) with
  | .notFound => retOf Generated.Store.ldbOnNotFound []
  | .closed => retOf Generated.Store.ldbOnGetErr []
  | .fault _ => retOf Generated.Store.ldbOnGetErr []
  | .found v => if dec .entry v then retOf Generated.Store.ldbOnOk v else retOf Generated.Store.ldbOnDecodeErr v

def Ldb.slot (dec : Kind → Val → Bool) (d : Disk) (h : Ldb) (k : AKey) : Option Val :=
  match h.dbGet d (hkey k.str) with
  | .found v => if dec k.kind v then some v else none
  | _ => none

/-- `IsEmpty`: `Db.Has(metaKey)`; an error counts as empty. -/
def Ldb.isEmpty (d : Disk) (h : Ldb) : Bool :=
  match h.dbGet d (hkey Generated.Store.metaKey) with
  | .found _ => false
  | _ => true

/-- `Close`: `Db.Close()` (an error of a second close is only logged). -/
def Ldb.close (d : Disk) (h : Ldb) : Disk × Ldb :=
  if h.isOpen then (d.setLock h.path false, { h with isOpen := false }) else (d, h)

/-- `Delete`: `os.RemoveAll(S.LevelDBPath)` -/
def Ldb.delete (d : Disk) (h : Ldb) : Disk × WRes := ((d.setDir h.path none).setLock h.path false, .ok)

/-- `S.Update(levelDbNew)`: close both, move the old directory aside, move the new one to
`BasePath/Identifier`, remove the old one, open. Returns (disk, S, levelDbNew). A failing step returns an
error and leaves what the earlier steps did. -/
def Ldb.update (d : Disk) (h new : Ldb) : Disk × Ldb × Ldb × WRes :=
  if !h.isOpen then (d, h, new, .error) else          -- closing a closed DB: ErrClosed after the retries
  let (d1, h1) := h.close d
  if !new.isOpen then (d1, h1, new, .error) else
  let (d2, new1) := new.close d1
  let target := Path.final h.ident
  match d2.dirs h.path with
  | none => (d2, h1, new1, .error)                     -- rename of a missing directory
  | some old =>
    let tmp := Path.temp d2.next
    let d3 : Disk := { (d2.setDir h.path none).setDir tmp (some old) with next := d2.next + 1 }
    match d3.dirs new.path, d3.dirs target with
    | some content, none =>
      let d4 := (d3.setDir new.path none).setDir target (some content)
      let d5 := d4.setDir tmp none
      if d5.locked target then (d5, h1, new1, .error)
      else (d5.setLock target true, { h1 with isOpen := true }, new1, .ok)
    | _, _ => (d3, h1, new1, .error)                   -- source missing or target exists

/-! ## The serializer's own limit (asn1serializer.go, crlreader.CRLMetaInfo) -/

/-- How `asn1.Marshal` writes a `time.Time`: UTCTime content for years 1950..2049, GeneralizedTime content otherwise. -/
inductive TimeForm | utc | generalized
  deriving DecidableEq, Repr

def marshalTimeForm (year : Nat) : TimeForm := if 1950 ≤ year ∧ year < 2050 then .utc else .generalized

/-- `CRLMetaInfo.NextUpdate` carries `asn1:"tag:0,optional"` (implicit tag, no `generalized`): the tag hides which
form was written and `asn1.Unmarshal` reads the content as UTCTime. `none` = field absent (zero time, omitted).
With the fallback of `DeserializeMetaInfo` (regenerated fact) a value rejected that way is read again with the
`generalized` parameter, which accepts exactly the other form. -/
def metaNextUpdateReadable : Option Nat → Bool
  | none => true
  | some year => marshalTimeForm year == .utc || Generated.Store.metaGeneralizedFallback

/-! ## Operation sequences (C18) -/

/-- Operations on one store: a write of an entry or of a metadata slot (`StartUpdateCrl`, `InsertRevokedCert`,
`UpdateExtendedMetaInfo`, `UpdateSignatureCertificate`, `UpdateCRLLocations`), a read (lookup or metadata
getter), replacement by another store that was filled by its own writes (`Update`), and, for the disk
backend, `Close` followed by a new `CreateStore` on the same identifier. -/
inductive Op
  | w (k : AKey) (v : Val)
  | rd (k : AKey)
  | replace (ws : List (AKey × Val))
  | reopen

inductive Obs | w (r : WRes) | look (l : Lookup) | slot (v : Option Val)
  deriving DecidableEq, Repr

/-- Key strings an operation sequence touches (the reserved keys are always in play). -/
def opKeys : Op → List (List UInt8)
  | .w k _ => [k.str]
  | .rd k => [k.str]
  | .replace ws => ws.map (·.1.str)
  | .reopen => []

def keysOf (ops : List Op) : List (List UInt8) := reservedKeys ++ ops.flatMap opKeys

-- abstract run
def Abs.fill (a : Abs) (ws : List (AKey × Val)) : Abs := ws.foldl (fun a w => a.set w.1 w.2) a

def Abs.read (dec : Kind → Val → Bool) (a : Abs) : AKey → Obs
  | .ent i s => .look (a.lookup dec i s)
  | k => .slot (a.slot dec k)

def Abs.step (dec : Kind → Val → Bool) (a : Abs) : Op → Abs × Obs
  | .w k v => (a.set k v, .w .ok)
  | .rd k => (a, a.read dec k)
  | .replace ws => (Abs.empty.fill ws, .w .ok)
  | .reopen => (a, .w .ok)

def runAbs (dec : Kind → Val → Bool) : Abs → List Op → Abs × List Obs
  | a, [] => (a, [])
  | a, op :: rest =>
    let (a1, o) := a.step dec op
    let (a2, os) := runAbs dec a1 rest
    (a2, o :: os)

-- memory run
def MapStore.fill (s : MapStore) (ws : List (AKey × Val)) : MapStore := ws.foldl (fun s w => (s.put w.1.str w.2).1) s

def MapStore.read (dec : Kind → Val → Bool) (s : MapStore) : AKey → Obs
  | .ent i n => .look (s.lookup dec i n)
  | k => .slot (s.slot dec k)

/-- `reopen` does not exist for the memory backend (a new `CreateStore` is a new empty store); the handle is kept. -/
def MapStore.step (dec : Kind → Val → Bool) (s : MapStore) : Op → MapStore × Obs
  | .w k v => let (s1, r) := s.put k.str v; (s1, .w r)
  | .rd k => (s, s.read dec k)
  | .replace ws =>
    let other := MapStore.new.fill ws
    let (s1, _, r) := s.update other
    (s1, .w r)
  | .reopen => (s, .w .ok)

def runMap (dec : Kind → Val → Bool) : MapStore → List Op → MapStore × List Obs
  | s, [] => (s, [])
  | s, op :: rest =>
    let (s1, o) := s.step dec op
    let (s2, os) := runMap dec s1 rest
    (s2, o :: os)

-- disk run
def Ldb.fill (h : Ldb) : Disk → List (AKey × Val) → Disk
  | d, [] => d
  | d, w :: rest => h.fill (h.put d w.1.str w.2).1 rest

def Ldb.read (dec : Kind → Val → Bool) (d : Disk) (h : Ldb) : AKey → Obs
  | .ent i n => .look (h.lookup dec d i n)
  | k => .slot (h.slot dec d k)

def Ldb.step (dec : Kind → Val → Bool) (d : Disk) (h : Ldb) : Op → Disk × Ldb × Obs
  | .w k v => let (d1, r) := h.put d k.str v; (d1, h, .w r)
  | .rd k => (d, h, h.read dec d k)
  | .replace ws =>
    match Ldb.create d h.ident true with
    | (d1, none) => (d1, h, .w .error)
    | (d1, some other) =>
      let d2 := other.fill d1 ws
      let (d3, h1, _, r) := h.update d2 other
      (d3, h1, .w r)
  | .reopen =>
    let (d1, _) := h.close d
    match Ldb.create d1 h.ident false with
    | (d2, none) => (d2, { h with isOpen := false }, .w .error)
    | (d2, some h2) => (d2, h2, .w .ok)

def runLdb (dec : Kind → Val → Bool) : Disk → Ldb → List Op → (Disk × Ldb) × List Obs
  | d, h, [] => ((d, h), [])
  | d, h, op :: rest =>
    let (d1, h1, o) := h.step dec d op
    let (s2, os) := runLdb dec d1 h1 rest
    (s2, o :: os)

/-- A fresh non-temporary disk store `ident` on an empty file system. -/
def Ldb.fresh (ident : Nat) : Disk × Ldb :=
  ((Disk.empty.setDir (.final ident) (some [])).setLock (.final ident) true,
   { path := .final ident, ident := ident, isOpen := true, fault := none })

/-! ## Lookup path of the repository (C09): checkCrl, Repository.IsRevoked, handshake verdict -/

inductive AnyStore | map (s : MapStore) | ldb (h : Ldb)

def AnyStore.lookup (dec : Kind → Val → Bool) (d : Disk) : AnyStore → List UInt8 → Int → Lookup
  | .map s, i, n => s.lookup dec i n
  | .ldb h, i, n => h.lookup dec d i n

/-- Repository entry as far as a lookup sees it; `store = none` is `entry.CRLStore == nil`
(dropped by a failed swap in `updateEntry`). -/
structure Entry where
  loaded : Bool
  store : Option AnyStore
  closed : Bool := false     -- Entry.Closed: set by Repository.Close

/-- Outcome of `checkCrl` (and of `IsRevoked`): a status, an error, or a nil dereference. -/
inductive Chk | notRevoked | revoked (v : Val) | error | panic
  deriving DecidableEq, Repr

def chkOf (r : Generated.Store.CRet) (status : Chk) : Chk :=
  match r with
  | .notRevoked => .notRevoked
  | .passStatus => status
  | .error => .error
  | .panic => .panic
  | .skip => status

/-- `Repository.checkCrl` for one identifier; `none` = no entry under that identifier (or a nil entry). -/
def checkCrl (dec : Kind → Val → Bool) (d : Disk) (e : Option Entry) (i : List UInt8) (n : Int) : Chk :=
  match e with
  | none => chkOf Generated.Store.checkFallthrough .notRevoked
  | some e =>
    if e.closed && Generated.Store.checkOnClosed != .skip then chkOf Generated.Store.checkOnClosed .notRevoked
    else if e.loaded then
      match e.store with
      | none => chkOf Generated.Store.checkOnStoreNil .notRevoked
      | some st =>
        match st.lookup dec d i n with
        | .error => chkOf Generated.Store.checkOnLookupErr .notRevoked
        | .revoked v => chkOf Generated.Store.checkOnRevoked (.revoked v)
        | .absent => chkOf Generated.Store.checkFallthrough .notRevoked
    else chkOf Generated.Store.checkFallthrough .notRevoked

/-- The loop of `Repository.IsRevoked` over the identifiers (in whatever order the Go map yields them). -/
def walk (dec : Kind → Val → Bool) (d : Disk) (i : List UInt8) (n : Int) : List (Option Entry) → Chk
  | [] => chkOf Generated.Store.walkEnd .notRevoked
  | e :: rest =>
    match checkCrl dec d e i n with
    | .panic => .panic
    | .error => chkOf Generated.Store.walkOnErr .error
    | .revoked v => chkOf Generated.Store.walkOnRevoked (.revoked v)
    | .notRevoked => walk dec d i n rest

/-- `Repository.IsRevoked`: the strict-CDP gate can only add an error before the walk. -/
def isRevoked (dec : Kind → Val → Bool) (d : Disk) (gateError : Bool) (es : List (Option Entry))
    (i : List UInt8) (n : Int) : Chk :=
  if gateError then .error else walk dec d i n es

/-- `entry.CRLStore.Close()`: the disk handle is closed (and its LOCK released), the memory store is untouched. -/
def closeStore (d : Disk) : AnyStore → Disk × AnyStore
  | .map m => (d, .map m)
  | .ldb h => let (d1, h1) := h.close d; (d1, .ldb h1)

/-- `Repository.closeRepositoryEntry`, following the regenerated facts about its shape: the repaired code closes the
store (if there is one), keeps the entry and marks it closed, and does nothing on an entry that is already closed;
the earlier code closed the store unconditionally and set the map slot to nil. Outer `none` = nil dereference. -/
def closeEntry (d : Disk) (e : Option Entry) : Option (Disk × Option Entry) :=
  match e with
  | none => none                                        -- entry.entryLock of a nil entry
  | some e =>
    if Generated.Store.closeIdempotent && e.closed then some (d, some e)
    else
      match e.store with
      | none =>
        if Generated.Store.closeNilStoreGuard then
          some (d, if Generated.Store.closeDropsEntry then none
                   else some { e with closed := e.closed || Generated.Store.closeMarksClosed })
        else none                                       -- entry.CRLStore.Close() on a nil store
      | some st =>
        let (d1, st1) := closeStore d st
        some (d1, if Generated.Store.closeDropsEntry then none
                  else some { e with store := some st1, closed := e.closed || Generated.Store.closeMarksClosed })

/-- `Repository.Close` (called by `Cleanup`): `closeRepositoryEntry` for every entry. `none` = panic. -/
def repoClose (d : Disk) : List (Option Entry) → Option (Disk × List (Option Entry))
  | [] => some (d, [])
  | e :: rest =>
    match closeEntry d e with
    | none => none
    | some (d1, e1) =>
      match repoClose d1 rest with
      | none => none
      | some (d2, es) => some (d2, e1 :: es)

/-- `updateCrlEntry` after a failed `updateEntry` (directory swap failed): `deleteEntrySync` drops the k-th entry. -/
def failedSwap (es : List (Option Entry)) (k : Nat) : List (Option Entry) := es.eraseIdx k

/-- What the CRL mechanism hands to `VerifyClientCertificate`. -/
def Chk.mech : Chk → Option MechOut
  | .notRevoked => some .good
  | .revoked _ => some .revoked
  | .error => some .error
  | .panic => none

end Crv.Store
