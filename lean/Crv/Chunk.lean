/-!
Chunked model of the byte source under the streaming CRL reader:

  underlying `io.Reader` (delivers the stream in arbitrary non-empty chunks)
    → `bufio.Reader` (`Read`, `fill`, `Peek`, `Discard`; Go 1.23 `bufio/bufio.go`)
      → `hashing.HashingReaderWrapper` (`Read` counts + hashes, `Peek`, `Discard` counts)
        → `asn1parser.ReadExpectedBytes[Recursive]`, `asn1parser.PeekExpectedBytes`.

The flat model in `Crv/Reader.lean` (`Rd.rest` = all unread input) abstracts all of this; `flat` below is the
abstraction function and `Crv/Props/C06Chunk.lean` proves that the three primitives commute with it.

Core Lean only; every function is total and computable (the Go loops carry a fuel argument whose sufficiency
is proved in `Crv/Proofs/Chunk.lean`).
-/
namespace Crv.Chunk

abbrev Bytes := List UInt8

/-- State of `bufio.Reader` + `HashingReaderWrapper` + the scripted underlying reader.

* `buf` = `b.buf[b.r:b.w]` (buffered, unread), `cap` = `len(b.buf)`;
* `src` = the chunks the following `Read` calls of the underlying reader deliver (a call with a slice shorter
  than the head chunk takes a prefix and leaves the remainder at the head; no chunk left = `(0, io.EOF)`);
* `err` = `b.err != nil` (sticky; the only error this source produces is `io.EOF`);
* `pos` = `*bytesRead`, `hashing` = `CalculateSignature`, `hashed` = everything written to `t.hash`;
* ghost logs: `srcReads` = number of `Read` calls on the underlying reader, `allocs` = sizes of the
  `make([]byte, n)` calls of `ReadExpectedBytes[Recursive]`, `parts` = sizes returned by the wrapper's `Read`. -/
structure St where
  buf : Bytes := []
  cap : Nat := 4096
  src : List Bytes := []
  err : Bool := false
  pos : Nat := 0
  hashing : Bool := false
  hashed : Bytes := []
  srcReads : Nat := 0
  allocs : List Nat := []
  parts : List Nat := []
  deriving Repr, DecidableEq

/-- Abstraction function: all unread input. -/
def flat (s : St) : Bytes := s.buf ++ s.src.flatten

/-- Well-formedness: the underlying reader never returns `(0, nil)` (no empty chunk), a pending `b.err`
(always `io.EOF` here) means the source is exhausted, and `len(b.buf) ≥ minReadBufferSize`. -/
def WF (s : St) : Prop :=
  (∀ c ∈ s.src, c ≠ []) ∧ (s.err = true → s.src = []) ∧ 16 ≤ s.cap

instance (s : St) : Decidable (WF s) := by unfold WF; infer_instance

/-- One `Read(p)` of the underlying reader with `len p = m`: `(data, remaining source, err == io.EOF)`. -/
def srcRead (m : Nat) : List Bytes → Bytes × List Bytes × Bool
  | [] => ([], [], true)
  | c :: rest => if c.length ≤ m then (c, rest, false) else (c.take m, c.drop m :: rest, false)

/-- `(*Reader).fill`: slide to the front, then one `b.rd.Read(b.buf[b.w:])`, i.e. a request for `cap - buffered`
bytes. (The retry loop for `(0, nil)` reads is not modelled: excluded by `WF`.) Callers guarantee `buffered < cap`. -/
def fill (s : St) : St :=
  let r := srcRead (s.cap - s.buf.length) s.src
  { s with buf := s.buf ++ r.1, src := r.2.1, err := r.2.2 || s.err, srcReads := s.srcReads + 1 }

/-- `(*Reader).Read(p)` with `len p = m`: `((bytes, err == io.EOF), state)`. At most one underlying `Read`. -/
def bRead (m : Nat) (s : St) : (Bytes × Bool) × St :=
  if m = 0 then
    if s.buf ≠ [] then (([], false), s)
    else (([], s.err), { s with err := false })                       -- `return 0, b.readErr()`
  else if s.buf = [] then                                              -- `b.r == b.w`
    if s.err then (([], true), { s with err := false })
    else if s.cap ≤ m then                                             -- large read, empty buffer: directly into p
      let r := srcRead m s.src
      ((r.1, r.2.2), { s with src := r.2.1, srcReads := s.srcReads + 1 })
    else                                                               -- one read into the buffer, not `fill`
      let r := srcRead s.cap s.src
      if r.1 = [] then (([], r.2.2), { s with src := r.2.1, srcReads := s.srcReads + 1 })
      else ((r.1.take m, false), { s with buf := r.1.drop m, src := r.2.1, srcReads := s.srcReads + 1 })
  else ((s.buf.take m, false), { s with buf := s.buf.drop m })         -- copy as much as we can

/-- `HashingReaderWrapper.Read`: position advanced by the byte count; hashed when hashing and `err == nil`. -/
def wRead (m : Nat) (s : St) : (Bytes × Bool) × St :=
  let r := bRead m s
  let s1 := { r.2 with pos := r.2.pos + r.1.1.length, parts := r.2.parts ++ [r.1.1.length] }
  if s.hashing && !r.1.2 then (r.1, { s1 with hashed := s1.hashed ++ r.1.1 }) else (r.1, s1)

inductive EK
  | eof          -- `io.EOF` / "end of file reached while still expecting bytes"
  | bufferFull   -- `bufio.ErrBufferFull`
  | stalled      -- fuel exhausted (unreachable under `WF`; Go would recurse / loop forever)
  deriving Repr, DecidableEq

inductive Res (α : Type)
  | ok (a : α)
  | err (e : EK)
  deriving Repr, DecidableEq

/-- `ReadExpectedBytesRecursive(reader, byteSize, &arr, byteSize - left)`; `acc` = `arr[:byteSize-left]`. -/
def readLoop : Nat → Nat → Bytes → St → Res Bytes × St
  | 0, _, _, s => (.err .stalled, s)
  | fuel + 1, left, acc, s =>
    let r := wRead left { s with allocs := s.allocs ++ [left] }        -- `make([]byte, bytesLeftToRead)`
    if r.1.2 then (.err .eof, r.2)
    else if r.1.1.length = left then (.ok (acc ++ r.1.1), r.2)
    else readLoop fuel (left - r.1.1.length) (acc ++ r.1.1) r.2

/-- `ReadExpectedBytes(reader, k)` for `k ≥ 0`. -/
def readFull (k : Nat) (s : St) : Res Bytes × St :=
  readLoop (k + 1) k [] { s with allocs := s.allocs ++ [k] }           -- `make([]byte, byteSize)`

/-- The fill loop of `Peek`: `for b.w-b.r < n && b.w-b.r < len(b.buf) && b.err == nil { b.fill() }`. -/
def peekLoop : Nat → Nat → St → St
  | 0, _, s => s
  | fuel + 1, n, s =>
    if s.buf.length < n ∧ s.buf.length < s.cap ∧ s.err = false then peekLoop fuel n (fill s) else s

/-- `(*Reader).Peek(n)`: `((bytes, error), state)`. -/
def bPeek (n : Nat) (s : St) : (Bytes × Option EK) × St :=
  let s1 := peekLoop n n s
  if s1.cap < n then ((s1.buf, some .bufferFull), s1)                  -- `b.err` stays pending
  else if s1.buf.length < n then
    ((s1.buf, some (if s1.err then .eof else .bufferFull)), { s1 with err := false })
  else ((s1.buf.take n, none), s1)

/-- `PeekExpectedBytes(reader, n, off)` through the wrapper (`Peek` changes neither position nor hash). -/
def peekExpected (n off : Nat) (s : St) : Res Bytes × St :=
  let r := bPeek (n + off) s
  match r.1.2 with
  | some e => (.err e, r.2)
  | none => (.ok ((r.1.1.drop off).take n), r.2)

/-- The loop of `(*Reader).Discard(n)` (`n > 0`): `((discarded, err == io.EOF), state)`. -/
def discLoop : Nat → Nat → Nat → St → (Nat × Bool) × St
  | 0, n, remain, s => ((n - remain, false), s)
  | fuel + 1, n, remain, s =>
    let s1 := if s.buf = [] then fill s else s
    let skip := min s1.buf.length remain
    let s2 := { s1 with buf := s1.buf.drop skip }
    let remain' := remain - skip
    if remain' = 0 then ((n, false), s2)
    else if s2.err then ((n - remain', true), { s2 with err := false })
    else discLoop fuel n remain' s2

def bDiscard (n : Nat) (s : St) : (Nat × Bool) × St :=
  if n = 0 then ((0, false), s) else discLoop n n n s

/-- `HashingReaderWrapper.Discard(k)` for `k ≥ 0`: position advanced by what was discarded, never hashed. -/
def discard (k : Nat) (s : St) : Res Unit × St :=
  let r := bDiscard k s
  let s1 := { r.2 with pos := r.2.pos + r.1.1 }
  if r.1.2 then (.err .eof, s1)
  else if r.1.1 < k then (.err .stalled, s1)
  else (.ok (), s1)

/-- `StartHashCalculation`: a fresh hash. -/
def startHash (s : St) : St := { s with hashing := true, hashed := [] }

/-- `FinishHashCalculation`: the digest is over `hashed`. -/
def finishHash (s : St) : St := { s with hashing := false }

/-- `bufio.NewReaderSize(src, size)` + `NewHashingReaderWrapper`. -/
def openRd (size : Nat) (chunks : List Bytes) : St :=
  { cap := max size 16, src := chunks.filter (· ≠ []) }

end Crv.Chunk
