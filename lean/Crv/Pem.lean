/-!
# PEM input pipeline of the CRL reader (core only)

Model of

    file -> bufio.Reader -> pemreader.PemReader -> base64.NewDecoder(StdEncoding, &pemReader)
         -> bufio.Reader -> ASN.1 parser

as found in `/repo/crl/crlreader/crlreader.go` (`newHashingPEMCRLReader`) and
`/repo/core/pemreader/pemreader.go`, together with Go 1.23 `encoding/base64` (`decoder.Read`,
`newlineFilteringReader.Read`, `Encoding.Decode`, `decodeQuantum`).

Facts taken from the Go sources which shape the model:

* `PemReader.Read` hands out exactly one line per call (including its `\n`), never data together with an
  error.  A final piece of text without `\n` comes back from `ReadString` together with `io.EOF` and is dropped.
* `newlineFilteringReader.Read` removes every `\r` and `\n` of what one `PemReader.Read` call delivered and
  reads again when nothing is left; so the base64 decoder sees one *chunk* per non-blank line.
* `decoder.Read(p)` (p = the 4096-byte buffer of the outer bufio.Reader, or a caller slice ≥ 4096) refills
  `d.buf[d.nbuf:nn]`, `nn = min 1024 (max 4 (len p / 3 * 4))`, until it holds at least 4 characters or the
  source failed, decodes the longest prefix whose length is a multiple of 4 with `Encoding.Decode` and keeps
  the 0‥3 remaining characters.  Each `Decode` call treats the end of *its* slice as the end of the text:
  padding is accepted only at the end of such a slice — hence padding at the end of a line followed by further
  lines is accepted by the stream (`b64Chunks`), padding in the middle of a line is not.
* When `Decode` fails, the bytes of the complete quanta before the failure are still delivered (and, when the
  failure is "data after padding", the bytes of the padded quantum too); the error comes afterwards.
* When the source fails (EOF, line too long), complete quanta already buffered are decoded and delivered
  first; then: EOF with 1‥3 characters left → `io.ErrUnexpectedEOF`; otherwise the source error.
* The outer `bufio.Reader` calls `decoder.Read` with its whole buffer (`Read` on an empty buffer, `Discard`)
  or with `4096 - buffered` bytes (`Peek n`, only while `buffered < n`; the parser peeks at most 17 bytes).
  So `len p ≥ 4080`, `nn = 1024`, and `PemReader.Read` gets at least 1021 bytes of room: its
  "buffer need to be at least 66 bytes long" error is unreachable in this pipeline (`readRoom`,
  `Crv.Props.C06Pem.read_room_ok`).
-/
namespace Crv.Pem

/-! ## Armour lines -/

/-- `-----` -/
def dashes : List UInt8 := [45, 45, 45, 45, 45]

/-- `[A-Z0-9 ]` -/
def isLabelChar (c : UInt8) : Bool :=
  (65 ≤ c && c ≤ 90) || (48 ≤ c && c ≤ 57) || c == 32

/-- `(\n|\r\n){0,1}$` -/
def isEol (l : List UInt8) : Bool := l == [] || l == [10] || l == [13, 10]

/-- `-{5}(\n|\r\n){0,1}$` -/
def closes (l : List UInt8) : Bool := l.take 5 == dashes && isEol (l.drop 5)

/-- `[A-Z0-9 ]*-{5}(\n|\r\n){0,1}$`; deterministic because `-` is not in the class. -/
def armourTail : List UInt8 → Bool
  | [] => false
  | c :: cs => if isLabelChar c then armourTail cs else closes (c :: cs)

/-- Go regexp `^-{5}[A-Z0-9 ]*-{5}(\n|\r\n){0,1}$` (no multiline flag: `$` is the end of the text). -/
def isArmour (l : List UInt8) : Bool := l.take 5 == dashes && armourTail (l.drop 5)

/-! ## Lines -/

/-- `bufio.Reader.ReadString('\n')` with err == nil: the text up to and including the first `\n`, and the
rest.  `none`: no `\n` left (the remaining text is returned together with io.EOF). -/
def nextLine : List UInt8 → Option (List UInt8 × List UInt8)
  | [] => none
  | c :: cs =>
    if c = 10 then some ([10], cs)
    else match nextLine cs with
      | none => none
      | some (l, rest) => some (c :: l, rest)

/-- All complete lines (each including its `\n`) and the unterminated remainder. -/
def splitLines : List UInt8 → List (List UInt8) × List UInt8
  | [] => ([], [])
  | c :: cs =>
    let r := splitLines cs
    if c = 10 then ([10] :: r.1, r.2)
    else match r.1 with
      | [] => ([], c :: r.2)
      | l :: ls => ((c :: l) :: ls, r.2)

inductive PemEnd where
  | eof | lineTooLong
  deriving DecidableEq, Repr

/-- `pemMaxLineLength` -/
def maxLine : Nat := 66

/-- What successive `PemReader.Read` calls hand out for the given complete lines. -/
def deliver : List (List UInt8) → List (List UInt8) × PemEnd
  | [] => ([], .eof)
  | l :: ls =>
    if isArmour l then deliver ls
    else if l.length > maxLine then ([], .lineTooLong)
    else let r := deliver ls; (l :: r.1, r.2)

/-- The lines delivered by successive `PemReader.Read` calls (one per call) and how the stream ends.
The unterminated remainder `(splitLines input).2` is dropped. -/
def pemLines (input : List UInt8) : List (List UInt8) × PemEnd := deliver (splitLines input).1

/-- Concatenation of everything `PemReader.Read` delivers. -/
def pemStream (input : List UInt8) : List UInt8 × PemEnd :=
  let r := pemLines input; (r.1.flatten, r.2)

/-- Room offered to `PemReader.Read` by `decoder.Read(p)` with `len p = pLen` and `nbuf` characters kept:
`len(d.buf[d.nbuf:nn])`. -/
def readRoom (pLen nbuf : Nat) : Nat := min 1024 (max 4 (pLen / 3 * 4)) - nbuf

/-! ## base64 (StdEncoding) -/

def b64Char (n : Nat) : UInt8 :=
  if n < 26 then UInt8.ofNat (65 + n)
  else if n < 52 then UInt8.ofNat (97 + (n - 26))
  else if n < 62 then UInt8.ofNat (48 + (n - 52))
  else if n = 62 then 43 else 47

def b64Val (c : UInt8) : Option Nat :=
  let n := c.toNat
  if 65 ≤ n ∧ n ≤ 90 then some (n - 65)
  else if 97 ≤ n ∧ n ≤ 122 then some (n - 97 + 26)
  else if 48 ≤ n ∧ n ≤ 57 then some (n - 48 + 52)
  else if n = 43 then some 62
  else if n = 47 then some 63
  else none

/-- `=` -/
def pad : UInt8 := 61

def enc1 (a : UInt8) : UInt8 := b64Char (a.toNat / 4)
def enc2 (a b : UInt8) : UInt8 := b64Char (a.toNat % 4 * 16 + b.toNat / 16)
def enc3 (b c : UInt8) : UInt8 := b64Char (b.toNat % 16 * 4 + c.toNat / 64)
def enc4 (c : UInt8) : UInt8 := b64Char (c.toNat % 64)

/-- `base64.StdEncoding.EncodeToString` -/
def b64Encode : List UInt8 → List UInt8
  | a :: b :: c :: rest => enc1 a :: enc2 a b :: enc3 b c :: enc4 c :: b64Encode rest
  | [a, b] => [enc1 a, enc2 a b, enc3 b 0, pad]
  | [a] => [enc1 a, enc2 a 0, pad, pad]
  | [] => []

def dec1 (va vb : Nat) : UInt8 := UInt8.ofNat (va * 4 + vb / 16)
def dec2 (vb vc : Nat) : UInt8 := UInt8.ofNat (vb % 16 * 16 + vc / 4)
def dec3 (vc vd : Nat) : UInt8 := UInt8.ofNat (vc % 4 * 64 + vd)

/-- `Encoding.Decode` (non-strict, with padding) on a slice whose length is a multiple of 4 and which has no
`\r`/`\n`: the bytes written and whether it succeeded (`false` = `CorruptInputError`).  A slice whose length is
not a multiple of 4 is corrupt (never happens in the stream decoder). -/
def decodeQuads : List UInt8 → List UInt8 × Bool
  | [] => ([], true)
  | a :: b :: c :: d :: rest =>
    match b64Val a, b64Val b with
    | some va, some vb =>
      match b64Val c with
      | some vc =>
        match b64Val d with
        | some vd => let r := decodeQuads rest; (dec1 va vb :: dec2 vb vc :: dec3 vc vd :: r.1, r.2)
        | none =>
          -- `xxx=`: two bytes; anything after it in this slice is "trailing garbage" but the bytes count
          if d = pad then ([dec1 va vb, dec2 vb vc], rest.isEmpty) else ([], false)
      | none =>
        -- `xx==`: one byte
        if c = pad ∧ d = pad then ([dec1 va vb], rest.isEmpty) else ([], false)
    | _, _ => ([], false)
  | _ => ([], false)

inductive B64End where
  | eof | corrupt | unexpectedEOF
  deriving DecidableEq, Repr

/-- Go's streaming decoder fed with the given chunks (one per successful read of the newline-filtered source;
empty chunks are what the filter re-reads over) and then io.EOF.  `carry` = `d.buf[:d.nbuf]`, fewer than 4
characters between calls. -/
def b64Chunks : List UInt8 → List (List UInt8) → List UInt8 × B64End
  | carry, [] => ([], if carry.isEmpty then .eof else .unexpectedEOF)
  | carry, c :: cs =>
    let buf := carry ++ c
    if buf.length < 4 then b64Chunks buf cs
    else
      let nr := buf.length / 4 * 4
      let d := decodeQuads (buf.take nr)
      if d.2 then
        let r := b64Chunks (buf.drop nr) cs
        (d.1 ++ r.1, r.2)
      else (d.1, .corrupt)

def chunksOfAux (n : Nat) : Nat → List UInt8 → List (List UInt8)
  | 0, _ => []
  | fuel + 1, l => if l.isEmpty then [] else l.take n :: chunksOfAux n fuel (l.drop n)

/-- Consecutive pieces of `n` elements, the last one shorter (none for the empty list). -/
def chunksOf (n : Nat) (l : List UInt8) : List (List UInt8) := chunksOfAux n l.length l

/-- Go's `base64.NewDecoder(base64.StdEncoding, src)` read to the end, where `src` holds `text` (no `\r`,
`\n` in it) and fills every read completely (bytes.Reader, file): the decoder takes the text in slices of
`len(d.buf) = 1024` characters. -/
def b64DecodeStream (text : List UInt8) : List UInt8 × B64End := b64Chunks [] (chunksOf 1024 text)

/-! ## The pipeline -/

inductive End where
  | eof | corrupt | unexpectedEOF | lineTooLong
  deriving DecidableEq, Repr

/-- `newlineFilteringReader`: drop every `\r` and `\n`. -/
def filterNl (l : List UInt8) : List UInt8 := l.filter (fun c => c != 13 && c != 10)

/-- How the decoder's end and the PemReader's end combine: a decode error stops the stream before the source
ends; a source error other than EOF surfaces as itself, also when 1‥3 characters are left over. -/
def combineEnd : B64End → PemEnd → End
  | .corrupt, _ => .corrupt
  | .eof, .eof => .eof
  | .unexpectedEOF, .eof => .unexpectedEOF
  | _, .lineTooLong => .lineTooLong

/-- The bytes the ASN.1 parser can consume from a PEM file with the given content, and the error which ends
the stream. -/
def pemDecode (input : List UInt8) : List UInt8 × End :=
  let r := pemLines input
  let d := b64Chunks [] (r.1.map filterNl)
  (d.1, combineEnd d.2 r.2)

/-! ## Encoding (Go `pem.EncodeToMemory`, without headers) -/

def eol (crlf : Bool) : List UInt8 := if crlf then [13, 10] else [10]

/-- `BEGIN ` -/
def beginWord : List UInt8 := [66, 69, 71, 73, 78, 32]
/-- `END ` -/
def endWord : List UInt8 := [69, 78, 68, 32]

def beginLine (label : List UInt8) : List UInt8 := dashes ++ (beginWord ++ label) ++ dashes
def endLine (label : List UInt8) : List UInt8 := dashes ++ (endWord ++ label) ++ dashes

/-- The label consists of characters of `[A-Z0-9 ]` only (what the armour regexp of the reader accepts). -/
def labelOk (label : List UInt8) : Prop := ∀ c ∈ label, isLabelChar c = true

instance (label : List UInt8) : Decidable (labelOk label) := by unfold labelOk; infer_instance

def bodyLines (crlf : Bool) (der : List UInt8) : List (List UInt8) :=
  (chunksOf 64 (b64Encode der)).map (· ++ eol crlf)

def pemEncode (crlf : Bool) (label der : List UInt8) : List UInt8 :=
  (beginLine label ++ eol crlf) ++ ((bodyLines crlf der).flatten ++ (endLine label ++ eol crlf))

/-! ## PEM detection -/

/-- What `bufio.Reader.ReadLine` removes from a line: a final `\n`, and a `\r` before it. -/
def stripEol (l : List UInt8) : List UInt8 :=
  match l.reverse with
  | 10 :: 13 :: r => r.reverse
  | 10 :: r => r.reverse
  | _ => l

/-- `bufio.NewReader` default buffer size. -/
def bufSize : Nat := 4096

/-- `pemreader.IsPemFile`: the first line as `ReadLine` returns it (error on an empty file; "prefix" when the
first 4096 bytes hold no `\n` and the buffer is full) matches the armour regexp. -/
def isPemFile (input : List UInt8) : Bool :=
  if input.isEmpty then false
  else match nextLine (input.take bufSize) with
    | some (l, _) => isArmour (stripEol l)
    | none => if input.length ≥ bufSize then false else isArmour input

end Crv.Pem
