import Crv.Reader
import Crv.Pem
/-!
`StreamingCRLFileReader.ReadCRL` on a *file*: `newHashingCRLReader` looks at the first line (`IsPemFile`); a PEM file is read
through `PemReader` + base64 decoder, anything else as it is. The flat reader model runs on the bytes that pipeline delivers.
(An error of the PEM pipeline surfaces, like the end of the input, when the reader asks for more bytes than were delivered.)
-/
namespace Crv

/-- The byte stream the ASN.1 reader consumes for a file. -/
def fileBytes (file : Bytes) : Bytes :=
  if Pem.isPemFile file then (Pem.pemDecode file).1 else file

/-- `ReadCRL` on a file (both passes open the file the same way). -/
def readCRLFile (O : Oracle) (file : Bytes) : RunResult := readCRL O (fileBytes file)

end Crv
