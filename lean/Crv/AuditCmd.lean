import Lean
/-! `#audit_props Ns` prints, for every theorem whose name starts with `Ns`, the axioms it depends on. -/
open Lean Elab Command

elab "#audit_props " ns:ident : command => do
  let env ← getEnv
  let pre := ns.getId
  let mut names : Array Name := #[]
  for (n, ci) in env.constants.toList do
    if pre.isPrefixOf n && !n.isInternal then
      match ci with
      | .thmInfo _ => names := names.push n
      | _ => pure ()
  let sorted := names.qsort (fun a b => a.toString < b.toString)
  for n in sorted do
    let axs ← Lean.collectAxioms n
    let axs := axs.qsort (fun a b => a.toString < b.toString)
    logInfo m!"AUDIT {n} : {axs.toList}"
