/-! Types shared by the generated reader facts and the reader model. -/
namespace Crv

inductive HashAlg | sha1 | sha224 | sha256 | sha384 | sha512
  deriving DecidableEq, Repr, Inhabited

inductive KeyAlg | rsa | ecdsa
  deriving DecidableEq, Repr, Inhabited

end Crv
