import Crv.ReaderTypes
import Crv.Generated.Repo
/-!
Model of CRL signer selection and signature acceptance (core/certificatechains.go:
NewCertificateChains / FindCertificateIssuerCandidates, crl/crlrevocationchecker.go:issuerChains,
crl/crlrepository/crlrepository.go:verifyCRLSignature) — C04.
The order and guards of the AKI rules are not hard-coded: `findCandidates` interprets `candRules` / `candNoRuleIsError`, which the
translator regenerates from the if / else-if chain of `FindCertificateIssuerCandidates`; a rule run without the field its loop
dereferences ends in `CandRes.panic`.
Names and key identifiers are abstract numbers; `sigOK key` is the opaque statement "the signature over the
digest of tbsCertList verifies under this public key with the declared algorithm" (the cryptography is trusted).
-/
namespace Crv.Cand
open Crv Crv.Generated

structure CertA where
  key : Nat                 -- identity of the public key
  subject : Nat             -- subject name (RDN string)
  issuerName : Nat          -- issuer name
  serial : Int
  ski : Option Nat          -- subjectKeyIdentifier extension
  keyAlg : KeyAlg
  keyUsage : Option Bool    -- none: no keyUsage extension; some b: present, b = cRLSign asserted
  deriving DecidableEq, Repr

/-- Where an available certificate comes from. -/
inductive Origin
  | chain (pos : Nat)       -- position in a verified chain (0 = the end-entity)
  | trusted                 -- configured trusted signer
  deriving DecidableEq, Repr

structure Avail where
  cert : CertA
  origin : Origin
  deriving DecidableEq, Repr

def enumFrom (n : Nat) : List CertA → List Avail
  | [] => []
  | c :: t => ⟨c, .chain n⟩ :: enumFrom (n + 1) t

/-- `NewCertificateChains(issuerChains(verifiedChains), trustedSignatureCerts)`, flattened in enumeration order. -/
def available (verified : List (List CertA)) (trusted : List CertA) : List Avail :=
  (verified.map (fun ch =>
      if crlCandidatesSkipEndEntity then (if ch.length > 1 then enumFrom 1 (ch.drop 1) else [])
      else enumFrom 0 ch)).flatten ++ trusted.map (fun c => ⟨c, .trusted⟩)

/-- AuthorityKeyIdentifier of the CRL, as far as the selection looks at it. -/
structure AKI where
  keyId : Option Nat
  certSerial : Option Int
  certIssuer : Option Nat        -- directoryName of authorityCertIssuer; none: absent or empty
  deriving DecidableEq, Repr

inductive CandRes
  | ok (l : List Avail)
  | err
  | panic                   -- Go run-time panic (nil-pointer dereference) inside the candidate search
  deriving DecidableEq, Repr

/-- Is the AKI field a rule guard names present? "serial": `AuthorityCertSerialNumber != nil`; "issuer": directoryName bytes
non-empty; "keyid": `KeyIdentifier != nil`. A field name the model does not know is never present (the rule cannot fire). -/
def fieldPresent (a : AKI) (f : String) : Bool :=
  if f = "serial" then a.certSerial.isSome
  else if f = "issuer" then a.certIssuer.isSome
  else if f = "keyid" then a.keyId.isSome
  else false

/-- The AKI names an issuer (directoryName present, non-empty) and it equals the certificate's issuer name. -/
def issuerMatches (a : AKI) (x : Avail) : Bool :=
  match a.certIssuer with
  | some n => x.cert.issuerName == n
  | none => false

/-- `findCertificateBySerialAndIssuer`: serial equal AND issuer name present and equal. Without a serial in the AKI the loop
body evaluates `certCandidate.Certificate.SerialNumber.Cmp(nil)` for the first available certificate — a nil-pointer
dereference; with no certificate available the body never runs. -/
def serialIssuerRule (a : AKI) (av : List Avail) : CandRes :=
  match a.certSerial with
  | some s => .ok (av.filter fun x => x.cert.serial == s && issuerMatches a x)
  | none => if av.isEmpty then .ok [] else .panic

/-- `findCertificateCandidatesFromKeyIdentifier`: subjectKeyIdentifier equal to the AKI's key identifier
(total: a nil key identifier equals no decoded subjectKeyIdentifier). -/
def keyIdRule (a : AKI) (av : List Avail) : CandRes :=
  match a.keyId with
  | some k => .ok (av.filter fun x => x.cert.ski == some k)
  | none => .ok []

/-- Body of the rule of that name; `none`: a rule name the model does not know (treated as not firing). -/
def runRule (name : String) (a : AKI) (av : List Avail) : Option CandRes :=
  if name = "serial+issuer" then some (serialIssuerRule a av)
  else if name = "keyid" then some (keyIdRule a av)
  else none

/-- The if / else-if chain: the first rule whose guard fields are all present fires. `none`: no rule fired. -/
def interpRules (a : AKI) (av : List Avail) : List (String × List String) → Option CandRes
  | [] => none
  | (name, req) :: t =>
    if req.all (fieldPresent a) then
      match runRule name a av with
      | some r => some r
      | none => interpRules a av t
    else interpRules a av t

/-- `FindCertificateIssuerCandidates` (RFC 5280 §5.2.1) for a given rule chain: by name and key algorithm without AKI; with an
AKI the first rule of `rules` whose guard holds; no rule: an error (`noRuleErr`) or no candidates. -/
def findCandidatesWith (rules : List (String × List String)) (noRuleErr : Bool)
    (crlIssuer : Nat) (aki : Option AKI) (alg : KeyAlg) (av : List Avail) : CandRes :=
  match aki with
  | none => .ok (av.filter fun a => a.cert.subject == crlIssuer && a.cert.keyAlg == alg)
  | some a =>
    match interpRules a av rules with
    | some r => r
    | none => if noRuleErr then .err else .ok []

/-- `FindCertificateIssuerCandidates` with the rule chain the translator regenerates from the source on every run
(`candRules`, `candNoRuleIsError`): today by issuer+serial when the AKI carries a serial; else by key identifier; an AKI with
neither is an error. -/
def findCandidates (crlIssuer : Nat) (aki : Option AKI) (alg : KeyAlg) (av : List Avail) : CandRes :=
  findCandidatesWith candRules candNoRuleIsError crlIssuer aki alg av

def kuAllows (c : CertA) : Bool :=
  match c.keyUsage with
  | none => true
  | some b => b

/-- `verifyCRLSignature`: first candidate (in order) whose key usage permits CRL signing and under whose key the signature verifies. -/
def firstVerifying (sigOK : Nat → Bool) : List Avail → Option Avail
  | [] => none
  | a :: t =>
    if crlSignKeyUsageChecked && !kuAllows a.cert then firstVerifying sigOK t
    else if sigOK a.cert.key then some a
    else firstVerifying sigOK t

/-- Outcome of `verifyCRLSignature` on top of the candidate search. -/
inductive VerifyRes
  | accepted (a : Avail)    -- the signature verifies under this candidate's key
  | rejected                -- candidate search failed with an error, or no candidate verifies
  | panic                   -- the candidate search panicked
  deriving DecidableEq, Repr

def verifyCRL (sigOK : Nat → Bool) (crlIssuer : Nat) (aki : Option AKI) (alg : KeyAlg)
    (verified : List (List CertA)) (trusted : List CertA) : VerifyRes :=
  match findCandidates crlIssuer aki alg (available verified trusted) with
  | .err => .rejected
  | .panic => .panic
  | .ok l =>
    match firstVerifying sigOK l with
    | some a => .accepted a
    | none => .rejected

/-- Matches the CRL's issuer name or its authority key identifier. -/
def matchesCRL (crlIssuer : Nat) (aki : Option AKI) (c : CertA) : Prop :=
  c.subject = crlIssuer ∨ (∃ a, aki = some a ∧ ((∃ k, a.keyId = some k ∧ c.ski = some k) ∨
    (∃ s n, a.certSerial = some s ∧ a.certIssuer = some n ∧ c.serial = s ∧ c.issuerName = n)))

/-- Entitled to issue the CRL: above the end-entity in a presented chain or a configured trusted signer; matching name or AKI;
key usage absent or permitting cRLSign. -/
def Entitled (crlIssuer : Nat) (aki : Option AKI) (a : Avail) : Prop :=
  (a.origin = .trusted ∨ ∃ p, a.origin = .chain p ∧ p ≥ 1) ∧ matchesCRL crlIssuer aki a.cert ∧
  (a.cert.keyUsage = none ∨ a.cert.keyUsage = some true)

end Crv.Cand
