import Crv.ReaderTypes
import Crv.Generated.Repo
/-!
Model of CRL signer selection and signature acceptance (core/certificatechains.go:
NewCertificateChains / FindCertificateIssuerCandidates, crl/crlrevocationchecker.go:issuerChains,
crl/crlrepository/crlrepository.go:verifyCRLSignature) — C04.
Names and key identifiers are abstract numbers; `sigOK key` is the opaque statement "the signature over the
digest of tbsCertList verifies under this public key with the declared algorithm" (the cryptography is trusted).
-/
namespace Crv.Cand
open Crv Crv.Generated

structure CertA where
  key : Nat                 -- identity of the public key
  subject : Nat             -- subject name (RDN string)
  issuerName : Nat          -- issuer name
  serial : Int
  ski : Option Nat          -- subjectKeyIdentifier extension
  keyAlg : KeyAlg
  keyUsage : Option Bool    -- none: no keyUsage extension; some b: present, b = cRLSign asserted
  deriving DecidableEq, Repr

/-- Where an available certificate comes from. -/
inductive Origin
  | chain (pos : Nat)       -- position in a verified chain (0 = the end-entity)
  | trusted                 -- configured trusted signer
  deriving DecidableEq, Repr

structure Avail where
  cert : CertA
  origin : Origin
  deriving DecidableEq, Repr

def enumFrom (n : Nat) : List CertA → List Avail
  | [] => []
  | c :: t => ⟨c, .chain n⟩ :: enumFrom (n + 1) t

/-- `NewCertificateChains(issuerChains(verifiedChains), trustedSignatureCerts)`, flattened in enumeration order. -/
def available (verified : List (List CertA)) (trusted : List CertA) : List Avail :=
  (verified.map (fun ch =>
      if crlCandidatesSkipEndEntity then (if ch.length > 1 then enumFrom 1 (ch.drop 1) else [])
      else enumFrom 0 ch)).flatten ++ trusted.map (fun c => ⟨c, .trusted⟩)

/-- AuthorityKeyIdentifier of the CRL, as far as the selection looks at it. -/
structure AKI where
  keyId : Option Nat
  certSerial : Option Int
  certIssuer : Option Nat        -- directoryName of authorityCertIssuer; none: absent or empty
  deriving DecidableEq, Repr

inductive CandRes
  | ok (l : List Avail)
  | err
  deriving DecidableEq, Repr

/-- `FindCertificateIssuerCandidates` (RFC 5280 §5.2.1): by name and key algorithm without AKI; by issuer+serial when the
AKI carries a serial; else by key identifier; an AKI with neither is an error. -/
def findCandidates (crlIssuer : Nat) (aki : Option AKI) (alg : KeyAlg) (av : List Avail) : CandRes :=
  match aki with
  | none => .ok (av.filter fun a => a.cert.subject == crlIssuer && a.cert.keyAlg == alg)
  | some a =>
    match a.certSerial with
    | some s => .ok (av.filter fun x => x.cert.serial == s &&
        (match a.certIssuer with | some n => x.cert.issuerName == n | none => false))
    | none =>
      match a.keyId with
      | some k => .ok (av.filter fun x => x.cert.ski == some k)
      | none => .err

def kuAllows (c : CertA) : Bool :=
  match c.keyUsage with
  | none => true
  | some b => b

/-- `verifyCRLSignature`: first candidate (in order) whose key usage permits CRL signing and under whose key the signature verifies. -/
def firstVerifying (sigOK : Nat → Bool) : List Avail → Option Avail
  | [] => none
  | a :: t =>
    if crlSignKeyUsageChecked && !kuAllows a.cert then firstVerifying sigOK t
    else if sigOK a.cert.key then some a
    else firstVerifying sigOK t

def verifyCRL (sigOK : Nat → Bool) (crlIssuer : Nat) (aki : Option AKI) (alg : KeyAlg)
    (verified : List (List CertA)) (trusted : List CertA) : Option Avail :=
  match findCandidates crlIssuer aki alg (available verified trusted) with
  | .err => none
  | .ok l => firstVerifying sigOK l

/-- Matches the CRL's issuer name or its authority key identifier. -/
def matchesCRL (crlIssuer : Nat) (aki : Option AKI) (c : CertA) : Prop :=
  c.subject = crlIssuer ∨ (∃ a, aki = some a ∧ ((∃ k, a.keyId = some k ∧ c.ski = some k) ∨
    (∃ s n, a.certSerial = some s ∧ a.certIssuer = some n ∧ c.serial = s ∧ c.issuerName = n)))

/-- Entitled to issue the CRL: above the end-entity in a presented chain or a configured trusted signer; matching name or AKI;
key usage absent or permitting cRLSign. -/
def Entitled (crlIssuer : Nat) (aki : Option AKI) (a : Avail) : Prop :=
  (a.origin = .trusted ∨ ∃ p, a.origin = .chain p ∧ p ≥ 1) ∧ matchesCRL crlIssuer aki a.cert ∧
  (a.cert.keyUsage = none ∨ a.cert.keyUsage = some true)

end Crv.Cand
