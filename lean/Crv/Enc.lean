import Crv.Reader
/-!
Abstract CRL documents (`Doc`) and their DER encoding (`enc`) with minimal definite lengths at the four
size classes (1, 2, 3, 4 length bytes), and the well-formedness predicate of the supported profile (`WF`).
Leaf structures (AlgorithmIdentifier, Name, RevokedCertificate, Extensions) are carried as the *content*
bytes of their SEQUENCE; what they decode to is the business of the trusted leaf decoders (`Oracle`).
-/
namespace Crv
open Crv.Generated

def b8 (n : Nat) : UInt8 := UInt8.ofNat n

/-- DER definite length, minimal, for `n < 2^32`. -/
def encLen (n : Nat) : Bytes :=
  if n < 128 then [b8 n]
  else if n < 256 then [0x81, b8 n]
  else if n < 65536 then [0x82, b8 (n / 256), b8 (n % 256)]
  else if n < 16777216 then [0x83, b8 (n / 65536), b8 (n / 256 % 256), b8 (n % 256)]
  else [0x84, b8 (n / 16777216), b8 (n / 65536 % 256), b8 (n / 256 % 256), b8 (n % 256)]

def tlv (tag : UInt8) (content : Bytes) : Bytes := tag :: (encLen content.length ++ content)

def seqOf (content : Bytes) : Bytes := tlv 0x30 content

structure Doc where
  version : Option UInt8          -- `none`: field absent (v1); `some b`: INTEGER with the single content byte `b`
  innerAlg : Bytes                -- content of tbsCertList.signature (AlgorithmIdentifier)
  issuer : Bytes                  -- content of the issuer Name
  thisUpdate : Bytes              -- UTCTime value
  nextUpdate : Option Bytes       -- UTCTime value
  entries : Option (List Bytes)   -- `none`: revokedCertificates absent; contents of each entry SEQUENCE
  exts : Option Bytes             -- content of the SEQUENCE OF Extension inside [0]
  outerAlg : Bytes                -- content of signatureAlgorithm
  sig : Bytes                     -- signature bytes (BIT STRING payload, no unused bits)

def encVersion : Option UInt8 → Bytes
  | none => []
  | some b => [0x02, 0x01, b]

def encOptTime : Option Bytes → Bytes
  | none => []
  | some t => tlv 23 t

def encEntries (es : List Bytes) : Bytes := (es.map seqOf).flatten

def encList : Option (List Bytes) → Bytes
  | none => []
  | some es => seqOf (encEntries es)

def encExts : Option Bytes → Bytes
  | none => []
  | some x => tlv 0xA0 (seqOf x)

def tbsContent (d : Doc) : Bytes :=
  encVersion d.version ++ (seqOf d.innerAlg ++ (seqOf d.issuer ++ (tlv 23 d.thisUpdate ++
    (encOptTime d.nextUpdate ++ (encList d.entries ++ encExts d.exts)))))

def encTbs (d : Doc) : Bytes := seqOf (tbsContent d)

def encSig (d : Doc) : Bytes := tlv 3 (0 :: d.sig)

def enc (d : Doc) : Bytes := seqOf (encTbs d ++ (seqOf d.outerAlg ++ encSig d))

/-- CRL number as `parseCRlNumberIfExists` computes it from the decoded extension list; `none` = the value is not readable. -/
def crlNumberPure (es : List Ext) : Option (Option Nat) :=
  match findExt oidCrlNumber es with
  | none => some none
  | some e =>
    match readBigInt { rest := e.value } with
    | .ok n _ => some (some n)
    | _ => none

def verOf : Option UInt8 → Nat
  | none => 1
  | some b => versionOf b

def docVersion (d : Doc) : Nat := verOf d.version

/-- The supported profile. -/
structure WF (O : Oracle) (d : Doc) (oid : List Nat) (h : HashAlg) (es : Option (List Ext)) (num : Option Nat) : Prop where
  versionOk : docVersion d ≤ maxVersion
  extsV2 : d.exts.isSome → docVersion d > 1
  innerLen : d.innerAlg.length ≤ 81920
  issuerLen : d.issuer.length ≤ 81920
  thisLen : d.thisUpdate.length ≤ 81920
  nextLen : ∀ t, d.nextUpdate = some t → t.length ≤ 81920
  entryLen : ∀ l, d.entries = some l → ∀ e ∈ l, e.length ≤ 81920
  extsLen : ∀ x, d.exts = some x → x.length ≤ 81920
  outerLen : d.outerAlg.length ≤ 81920
  sigLen : d.sig.length < 81920
  total : (enc d).length < 2 ^ 32
  algSame : d.innerAlg = d.outerAlg   -- RFC 5280 §5.1.1.2 / §5.1.2.2: `signature` MUST equal `signatureAlgorithm` (the reader now checks it)
  algOk : O.algOid (seqOf d.outerAlg) = some oid
  hashOk : lookupHash oid = some h
  issuerOk : O.rdnOk (seqOf d.issuer) = true
  thisOk : O.utcOk d.thisUpdate = true
  nextOk : ∀ t, d.nextUpdate = some t → O.utcOk t = true
  entriesOk : ∀ l, d.entries = some l → ∀ e ∈ l, O.entryOk (seqOf e) = true
  extsOk : match d.exts with
    | none => es = none ∧ num = none
    | some x => ∃ l, O.exts (seqOf x) = some l ∧ es = some l ∧ criticalGate l = true ∧ crlNumberPure l = some num

def entryEvents (es : List Bytes) : List Event := es.map (fun e => .insert (seqOf e))

def eventsOf (d : Doc) (num : Option Nat) : List Event :=
  [.start (seqOf d.issuer) d.thisUpdate d.nextUpdate] ++
  (match d.entries with | none => [] | some l => entryEvents l) ++ [.extMeta num]

end Crv
