import Crv.Reader
import Crv.Store
/-!
The interface between reader and store: `CRLPersisterProcessor` (crl/crlstore/crlpesisterprocessor.go) as a function from
the reader's callback sequence (`Event`) to the store's write sequence (`AKey × Val`).

Every callback is forwarded one to one:
* `StartUpdateCrl(meta)`            → `CRLStore.StartUpdateCrl`        → `set(MetaInfoKey, SerializeMetaInfo(meta))`
* `InsertRevokedCertificate(entry)` → `CRLStore.InsertRevokedCert`     → `set(entry.Issuer.String() + "_" + serial.String(), SerializeRevokedCert(..))`
* `UpdateExtendedMetaInfo(info)`    → `CRLStore.UpdateExtendedMetaInfo`→ `set(ExtendedMetaInfoKey, SerializeMetaInfoExt(info))`
(map.go, leveldb.go; the key string is `Crv.key`, hashed by the backend: `AKey.str`, `hkey`).

`CRLEntry.Issuer` is not taken from the entry: `parseRevokedCertificateList(issuer, …)` (crl/crlreader/crlreader.go) builds
`CRLEntry{issuer, revokedCert}` with the issuer of the CRL that was parsed before `StartUpdateCrl` — the same name the
`start` event carries. The persister model therefore threads the issuer frame announced by the last `start` event
(`cur`); an `insert` before any `start` does not occur in the reader (the initial `cur` is the empty frame).

Leaf decoding is a parameter, as everywhere: what `pkix.RDNSequence.String()` makes of the issuer frame, which serial
number `asn1.Unmarshal` finds in an entry frame, and what the serializer produces for the three kinds of values.

A callback that returns an error (serializer or backend failure) aborts `ReadCRL`; the reader model has no such
failure (`emit` always succeeds), so `writesOf` describes the run in which every forwarded write succeeded — which is the
only kind of run after which `ReadCRL` can return a result at all.
-/
namespace Crv.Persist
open Crv Crv.Store

/-- The trusted leaf functions between a reader callback and a store write. -/
structure EntryDec where
  /-- `pkix.RDNSequence.String()` of the name decoded from the issuer frame (complete TLV). -/
  issuer : Bytes → List UInt8
  /-- `RevokedCertificate.SerialNumber` decoded from the entry frame (complete TLV). -/
  serial : Bytes → Int
  /-- `Serializer.SerializeRevokedCert` of the entry decoded from the entry frame. -/
  value : Bytes → Val
  /-- `Serializer.SerializeMetaInfo` of `CRLMetaInfo{issuer, thisUpdate, nextUpdate}`. -/
  minfo : Bytes → Bytes → Option Bytes → Val
  /-- `Serializer.SerializeMetaInfoExt` of `ExtendedCRLMetaInfo{crlNumber}`. -/
  ext : Option Nat → Val

/-- The write an `insert` callback causes, for a CRL whose issuer frame is `cur`. -/
def entryWrite (dec : EntryDec) (cur : Bytes) (frame : Bytes) : AKey × Val :=
  (AKey.ent (dec.issuer cur) (dec.serial frame), dec.value frame)

/-- The persister, with the issuer frame of the CRL being read (`cur`) threaded through. -/
def writesFrom (dec : EntryDec) : Bytes → List Event → List (AKey × Val)
  | _, [] => []
  | _, .start issuer thisUpdate nextUpdate :: rest =>
    (AKey.minfo, dec.minfo issuer thisUpdate nextUpdate) :: writesFrom dec issuer rest
  | cur, .insert frame :: rest => entryWrite dec cur frame :: writesFrom dec cur rest
  | cur, .extMeta n :: rest => (AKey.ext, dec.ext n) :: writesFrom dec cur rest

/-- `CRLPersisterProcessor` over a whole callback sequence. -/
def writesOf (dec : EntryDec) (events : List Event) : List (AKey × Val) := writesFrom dec [] events

/-- One write per callback, in the same order. -/
theorem writesFrom_length (dec : EntryDec) (cur : Bytes) (evs : List Event) :
    (writesFrom dec cur evs).length = evs.length := by
  induction evs generalizing cur with
  | nil => rfl
  | cons e r ih => cases e <;> simp [writesFrom, ih]

/-- A run of `insert` callbacks is forwarded entry by entry under the current issuer. -/
theorem writesFrom_inserts (dec : EntryDec) (cur : Bytes) (frames : List Bytes) (rest : List Event) :
    writesFrom dec cur (frames.map Event.insert ++ rest) =
      frames.map (entryWrite dec cur) ++ writesFrom dec cur rest := by
  induction frames with
  | nil => rfl
  | cons f fs ih => simp only [List.map_cons, List.cons_append, writesFrom, ih]

/-- The shape the reader produces for an accepted CRL: `start`, the entries, `extMeta`. -/
theorem writesOf_crl (dec : EntryDec) (issuer thisUpdate : Bytes) (nextUpdate : Option Bytes) (frames : List Bytes)
    (num : Option Nat) :
    writesOf dec ([.start issuer thisUpdate nextUpdate] ++ frames.map Event.insert ++ [.extMeta num]) =
      (AKey.minfo, dec.minfo issuer thisUpdate nextUpdate) :: (frames.map (entryWrite dec issuer) ++ [(AKey.ext, dec.ext num)]) := by
  simp only [writesOf, List.cons_append, List.nil_append, writesFrom, writesFrom_inserts]

end Crv.Persist
