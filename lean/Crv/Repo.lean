import Crv.Mode
import Crv.Generated.Repo
/-!
Model of the CRL repository state machine (crl/crlrepository/crlrepository.go, crl/crlrevocationchecker.go):
first load (staged), refresh, strict gate, lookup walk, restart, shutdown — DESIGN.md §4.4.

Abstractions: a location identifier is a `Nat` (its injectivity is C20's subject); a document is
`DocA` (issuer name, listed serials, signer, CRL number); what an origin serves now is `Served`;
signature verification is "the document's signer is among the candidate signers" (entitlement of
candidates is C04's subject, the cryptography is trusted). One operation = one lock-protected section.
-/
namespace Crv.Repo
open Crv Crv.Generated

abbrev Loc := Nat
abbrev Name := Nat
abbrev Signer := Nat

structure DocA where
  issuer : Name
  serials : List Int
  signer : Signer
  number : Nat
  deriving DecidableEq, Repr

/-- What the origin behind a location answers at the moment. -/
inductive Served
  | down                 -- fetch fails (connection refused, file missing, …), after the loader's retries
  | garbage              -- something is fetched but the reader rejects it (not a CRL, truncated, bad version, critical extension)
  | doc (d : DocA)
  deriving DecidableEq, Repr

/-- Content of one CRLStore: a complete image of one document (or no document), stored locations, stored signer. -/
structure Store where
  doc : Option DocA := none
  hasLocs : Bool := false
  signer : Option Signer := none
  deriving DecidableEq, Repr

structure Entry where
  store : Store := {}
  loaded : Bool := false
  closed : Bool := false
  sigFailed : Bool := false          -- LastUpdateSignatureVerifyFailed
  lastDoc : Option DocA := none      -- LastUpdateSignature (result of the update whose verification failed)
  chains : List Signer := []         -- Entry.Chains: candidates kept for the background first load
  deriving DecidableEq, Repr

structure Cfg where
  sigMode : SigMode := .verify
  fetch : FetchMode := .actively
  strict : Bool := false
  disk : Bool := true
  deriving DecidableEq, Repr

/-- Ghost record of an acceptance: which document came into force where, against which candidate signers,
under which signature mode (the mode configured at that intake). -/
structure Accept where
  loc : Loc
  doc : DocA
  cands : List Signer
  mode : SigMode
  deriving DecidableEq, Repr

structure State where
  cfg : Cfg := {}
  entries : List (Loc × Entry) := []      -- the repository map (Go map: iteration order arbitrary)
  disk : List (Loc × Store) := []          -- persisted store directories (disk backend only)
  served : List (Loc × Served) := []       -- environment: what each origin serves
  unsupported : List Loc := []             -- location sets for which no loader can be created (e.g. only ldap://)
  log : List Accept := []                  -- ghost: acceptances so far
  deriving Repr

def lookup (l : List (Loc × α)) (k : Loc) : Option α := (l.find? (fun p => p.1 == k)).map (·.2)

def upsert (l : List (Loc × α)) (k : Loc) (v : α) : List (Loc × α) :=
  match l with
  | [] => [(k, v)]
  | (k', v') :: t => if k' == k then (k, v) :: t else (k', v') :: upsert t k v

def servedAt (s : State) (loc : Loc) : Served := (lookup s.served loc).getD .down

def verifies (d : DocA) (cands : List Signer) : Bool := cands.contains d.signer

/-- The acceptance policy, the same wherever a CRL is taken in. -/
def acceptable (m : SigMode) (d : DocA) (cands : List Signer) : Bool :=
  match m with
  | .none => true
  | .verifyLog => true
  | .verify => verifies d cands

inductive StageRes
  | fetchFail | parseFail | sigFail (d : DocA) | ok (st : Store) (d : DocA) (verified : Bool)
  deriving DecidableEq, Repr

/-- Download + parse into a temporary store + signature check according to the mode. Nothing live is touched.
`honourMode = false` models a refresh that verifies regardless of the configured mode. -/
def stage (m : SigMode) (honourMode : Bool) (sv : Served) (cands : List Signer) : StageRes :=
  match sv with
  | .down => .fetchFail
  | .garbage => .parseFail
  | .doc d =>
    if honourMode && m == .none then .ok ⟨some d, true, none⟩ d false
    else if verifies d cands then .ok ⟨some d, true, some d.signer⟩ d true
    else if honourMode && m == .verifyLog then .ok ⟨some d, true, none⟩ d false
    else .sigFail d

def setEntry (s : State) (loc : Loc) (e : Entry) : State :=
  { s with entries := upsert s.entries loc e,
           disk := if s.cfg.disk then upsert s.disk loc e.store else s.disk }

inductive Outcome | ok | err
  deriving DecidableEq, Repr

/-- A closed LevelDB store fails every operation (the swap cannot happen); the memory store's Close is a no-op. -/
def loadRefused (s : State) (e : Entry) : Bool := e.closed && s.cfg.disk

/-- A refresh of a closed entry is refused: `updateEntry` does not swap into a closed entry (and a closed LevelDB store
cannot even be asked for its locations). -/
def refreshRefused (s : State) (e : Entry) : Bool := e.closed && (s.cfg.disk || closedEntriesSkipped)

/-- `loadCRL` (first load; caller holds the entry write lock): stage, then swap and mark loaded. -/
def loadCRL (s : State) (loc : Loc) (e : Entry) (cands : List Signer) : State × Outcome :=
  -- a closed LevelDB store fails every operation (the swap cannot happen); the memory store's Close is a no-op
  if loadRefused s e then (s, .err) else
  match stage s.cfg.sigMode firstLoadHonoursMode (servedAt s loc) cands with
  | .ok st d _ =>
    let e' := { e with store := st, loaded := true, chains := [] }
    ({ setEntry s loc e' with log := s.log ++ [⟨loc, d, cands, s.cfg.sigMode⟩] }, .ok)
  | _ => (s, .err)

/-- Candidates of a refresh: the given chains, or else the persisted signer certificate (`getStoredCertAsChain`). -/
def refreshCands (e : Entry) : Option (List Signer) → List Signer
  | some c => c
  | none => e.store.signer.toList

/-- `updateCrlEntry`: refresh of a loaded entry. `newCands = none`: use the persisted signer certificate. -/
def updateCrlEntry (s : State) (loc : Loc) (e : Entry) (newCands : Option (List Signer)) : State × Outcome :=
  if refreshRefused s e then (s, .err)
  else if !e.store.hasLocs then (s, .err)     -- GetCRLLocations fails
  else
    let cands := refreshCands e newCands
    match stage s.cfg.sigMode refreshHonoursMode (servedAt s loc) cands with
    | .ok st d verified =>
      let e' := { e with store := st, loaded := e.loaded || updateMarksLoaded,
                         sigFailed := if verified then false else (if s.cfg.sigMode == .none then e.sigFailed else true),
                         lastDoc := if verified then none else (if s.cfg.sigMode == .none then e.lastDoc else some d) }
      ({ setEntry s loc e' with log := s.log ++ [⟨loc, d, cands, s.cfg.sigMode⟩] }, .ok)
    | .sigFail d => (setEntry s loc { e with sigFailed := true, lastDoc := some d }, .err)
    | _ => (s, .err)

/-- `getOrAddEntry` / `addNewEmptyEntry`: a new entry opens the persisted directory if there is one. -/
def newEntry (s : State) (loc : Loc) (cands : List Signer) : Entry :=
  let st : Store := if s.cfg.disk then (lookup s.disk loc).getD {} else {}
  -- under 'verify' a list found on disk without a stored signer certificate was never verified: not loaded (regenerated fact)
  let usable := !(persistedNeedsSignerUnderVerify && s.cfg.sigMode == .verify) || st.signer.isSome
  { store := st, loaded := st.doc.isSome && usable, chains := cands }

/-- `loadActively` (entry write lock held): refused on a closed entry, else store the locations and load. -/
def loadActively (s : State) (loc : Loc) (e : Entry) (cands : List Signer) : State × Outcome :=
  if e.closed && closedEntriesSkipped then (s, .err)
  else
    let e3 := { e with store := { e.store with hasLocs := true } }
    loadCRL (setEntry s loc e3) loc e3 cands

/-- `Repository.AddCRL`. Returns (state, added, outcome). -/
def addCRL (s : State) (loc : Loc) (cands : List Signer) : State × Bool × Outcome :=
  if s.unsupported.contains loc then (s, false, .err)
  else
    let (s1, e1, added) := match lookup s.entries loc with
      | some e => (s, e, false)
      | none => let e := newEntry s loc cands; (setEntry s loc e, e, true)
    -- remember the locations of a new, not yet loaded entry
    let (s2, e2) := if added && !e1.loaded && locationsStoredOnAdd then
        let e := { e1 with store := { e1.store with hasLocs := true } }; (setEntry s1 loc e, e)
      else (s1, e1)
    if s2.cfg.fetch == .actively && !e2.loaded then
      let (s3, o) := loadActively s2 loc e2 cands
      (s3, added, o)
    else
      -- signature certificate retry after a refresh whose verification failed
      let s4 := if e2.sigFailed && (e2.loaded || !retryOnlyWhenLoaded) then
          match e2.lastDoc with
          | some d => if verifies d cands then
                -- ghost: the later verification of `d` against the presented candidates is recorded
                { setEntry s2 loc { e2 with sigFailed := false, store := { e2.store with signer := some d.signer } } with
                  log := s2.log ++ [⟨loc, d, cands, s2.cfg.sigMode⟩] }
              else s2
          | none => s2
        else s2
      (s4, added, .ok)

structure Cert where
  issuer : Name
  serial : Int
  cdp : Option Loc := none
  deriving DecidableEq, Repr

inductive Status | notRevoked | revoked | error
  deriving DecidableEq, Repr

def listed (st : Store) (c : Cert) : Bool :=
  match st.doc with
  | some d => d.issuer == c.issuer && d.serials.contains c.serial
  | none => false

/-- The lookup walk of `Repository.IsRevoked` over the entries in the given enumeration order. -/
def walk (c : Cert) : List (Loc × Entry) → Status
  | [] => .notRevoked
  | (_, e) :: t =>
    if e.closed then .error
    else if e.loaded && listed e.store c then .revoked
    else walk c t

def presentAndLoaded (s : State) (loc : Loc) : Bool :=
  match lookup s.entries loc with
  | some e => e.loaded
  | none => false

/-- `Repository.IsRevoked` with the strict gate (only evaluated in strict mode). -/
def isRevoked (s : State) (order : List (Loc × Entry)) (c : Cert) : Status :=
  match c.cdp with
  | some loc =>
    if (s.cfg.strict || !gateOnlyWhenStrict) && s.unsupported.contains loc then .error
    else if s.cfg.strict && !presentAndLoaded s loc then .error
    else walk c order
  | none => walk c order

/-- One entry of `UpdateCRLs` (`updateCRL`): first load for entries not yet loaded, refresh otherwise. -/
def updateOne (s : State) (loc : Loc) : State :=
  match lookup s.entries loc with
  | none => s
  | some e =>
    if e.closed && closedEntriesSkipped then s      -- `updateCRL`: nothing to update after shutdown
    else if !e.loaded then (loadCRL s loc e e.chains).1
    else (updateCrlEntry s loc e none).1

/-- `UpdateCRLs`: every identifier known at the start, in the given order; a failure does not stop the walk. -/
def updateAll (s : State) (order : List Loc) : State := order.foldl updateOne s

/-- `CRLRevocationChecker.IsRevoked` without the asynchronous part: AddCRL for the CDP (error only logged), then the lookup.
Returns the state, the status and whether a background refresh was spawned. -/
def handshake (s : State) (c : Cert) (cands : List Signer) : State × Status × Bool :=
  match c.cdp with
  | some loc =>
    let (s1, added, o) := addCRL s loc cands
    let spawn := o == .ok && added && s1.cfg.fetch == .background
    (s1, isRevoked s1 s1.entries c, spawn)
  | none => (s, isRevoked s s.entries c, false)

/-- Provision of one configured CRL: AddCRL then UpdateCRL with the trusted signers as candidates. -/
def provisionOne (s : State) (loc : Loc) (trusted : List Signer) : State × Outcome :=
  let (s1, _, o1) := addCRL s loc trusted
  if o1 == .err then (s1, .err)
  else
    match lookup s1.entries loc with
    | none => (s1, .ok)
    | some e => updateCrlEntry s1 loc e (some trusted)

/-- Process restart: the repository map is gone; persisted directories stay (disk), the sweep removes temporaries. -/
def restart (s : State) : State := { s with entries := [] }

/-- Process restart with another `signature_validation_mode` in the configuration (same work_dir). -/
def reconfigure (s : State) (m : SigMode) : State := { s with entries := [], cfg := { s.cfg with sigMode := m } }

/-- `Repository.Close`. -/
def close (s : State) : State :=
  if closeMarksEntries then { s with entries := s.entries.map (fun p => (p.1, { p.2 with closed := true })) }
  else { s with entries := [] }   -- entries set to nil in the map: later lookups skip them

def serve (s : State) (loc : Loc) (sv : Served) : State := { s with served := upsert s.served loc sv }

/-- A CRL is in force at `loc`: a loaded, open entry whose store is the image of `d`. -/
def inForce (s : State) (loc : Loc) (d : DocA) : Prop :=
  ∃ e, (loc, e) ∈ s.entries ∧ e.loaded = true ∧ e.closed = false ∧ e.store.doc = some d

end Crv.Repo
