import Crv.Generated.Loader
/-!
Model of the CRL *loader layer* (`/repo/crl/crlloader`, `utils.Retry`). Core only, total, computable.

* `retry`  — `utils.Retry(attempts, sleep, logger, f)`: how often `f` is called and whether the call succeeds,
  as a function of the outcomes of the successive calls of `f` (the sleeps and log lines are not modelled).
  `URLLoader.LoadCRL` / `FileLoader.LoadCRL` are `retry retryCount`.
* `create` — `DefaultCRLLoaderFactory.CreatePreferredCrlLoader`: which loader is built for a `CRLLocations`.
* `load`   — `MultiSchemesCRLLoader.LoadCRL`: which of the loaders are called, in which order, which one succeeds
  and what `lastSuccessfulLoader` is afterwards.

Everything whose shape the translator extracts from the Go sources is read from `Crv.Generated.Loader`
(`retryCallsBeforeTest`, `retryBoundIsAttemptsMinusOne`, `factoryOrder`, `cdpPrefix`, `cdpPrefixLowered`,
`factoryEmptyIsError`, `multiTriesLastSuccessfulFirst`, `multiSkipsLastSuccessfulInLoop`, `multiRemembersSuccess`,
`multiAllFailedIsError`, `retryCount`): another generated value is another behaviour of the model.
-/
namespace Crv.Loader
open Crv.Generated.Loader

/-! ### `utils.Retry` -/

/-- The bound the 0-based loop index is compared with (`i >= attempts - 1`), as a natural number: the index is never
negative, so `i ≥ b` for an integer `b` is `i ≥ b.toNat`. -/
def retryBound (attempts : Int) : Nat :=
  (if retryBoundIsAttemptsMinusOne then attempts - 1 else attempts).toNat

/-- The loop of `utils.Retry` from index `i` on, `fuel = retryBound attempts - i` (so `fuel = 0` ⇔ `i ≥ attempts - 1`).
Returns (success, number of calls of `f` made since the loop started at index 0):
`err = f(); if err == nil { return }; if i >= attempts-1 { break }; …; i++`. -/
def retryFrom (out : Nat → Bool) : (fuel : Nat) → (i : Nat) → Bool × Nat
  | 0, i => if retryCallsBeforeTest then (out i, i + 1) else (false, i)
  | fuel + 1, i => if out i then (true, i + 1) else retryFrom out fuel (i + 1)

/-- `utils.Retry(attempts, …, f)`; `outcomes k` = the `k`-th call of `f` (0-based) returns `nil`. -/
def retry (attempts : Int) (outcomes : Nat → Bool) : Bool × Nat :=
  retryFrom outcomes (retryBound attempts) 0

/-- `URLLoader.LoadCRL` (after normalising the URL) / `FileLoader.LoadCRL`: `utils.Retry(CRLLoaderRetryCount, …)`. -/
def loaderRetry (outcomes : Nat → Bool) : Bool × Nat := retry (Int.ofNat retryCount) outcomes

/-! ### `CreatePreferredCrlLoader` -/

/-- `core.CRLLocations`; Go strings as byte lists. -/
structure Locs where
  url : List UInt8 := []
  file : List UInt8 := []
  cdps : List (List UInt8) := []
  deriving Repr, DecidableEq

/-- What the factory returns: `&URLLoader{u}`, `&FileLoader{f}`, `&MultiSchemesCRLLoader{Loaders: URLLoader per element}`,
or the error "no suitable crl loader found". -/
inductive Created where
  | url (u : List UInt8)
  | file (f : List UInt8)
  | multi (us : List (List UInt8))
  | error
  deriving Repr, DecidableEq

/-- ASCII lower-casing of one byte (`A`..`Z` only). `strings.ToLower` maps no rune outside ASCII to `h`, `t` or `p`
(the only non-ASCII runes with an ASCII lower case are U+0130 → `i` and U+212A → `k`), and a byte ≥ 0x80 is never
part of the encoding of an ASCII rune, so for the question "do the first bytes lower-case to `http`" this is exact. -/
def lowerByte (b : UInt8) : UInt8 :=
  if 0x41 ≤ b.toNat ∧ b.toNat ≤ 0x5A then UInt8.ofNat (b.toNat + 0x20) else b

/-- The bytes of the (ASCII) prefix string `cdpPrefix`. -/
def prefixBytes : List UInt8 := cdpPrefix.toList.map (fun c => UInt8.ofNat c.toNat)

/-- `strings.HasPrefix(strings.ToLower(cdp), "http")`. -/
def httpPrefixed (s : List UInt8) : Bool :=
  prefixBytes.isPrefixOf (if cdpPrefixLowered then s.map lowerByte else s)

/-- One kind of location, by the name the translator gives it in `factoryOrder`; `none` = fall through to the next. -/
def tryKind (l : Locs) (kind : String) : Option Created :=
  if kind = "url" then (if l.url.length > 0 then some (.url l.url) else none)
  else if kind = "file" then (if l.file.length > 0 then some (.file l.file) else none)
  else if kind = "cdp" then
    let us := l.cdps.filter httpPrefixed
    if us.length == 0 && factoryEmptyIsError then some .error else some (.multi us)
  else none

/-- `CreatePreferredCrlLoader`: the kinds are looked at in `factoryOrder`, the first that answers wins. -/
def create (l : Locs) : Created := (factoryOrder.findSome? (tryKind l)).getD .error

/-! ### `MultiSchemesCRLLoader.LoadCRL` -/

/-- `Loaders` are identified by their index `0..n-1` (distinct pointers), `last` = `lastSuccessfulLoader`. -/
structure Multi where
  n : Nat
  last : Option Nat := none
  deriving Repr, DecidableEq

/-- The state invariant: `lastSuccessfulLoader` is nil or one of `Loaders`. -/
def Multi.wf (m : Multi) : Bool := m.last.all (· < m.n)

/-- `for _, loader := range f.Loaders { if loader == f.lastSuccessfulLoader { continue }; err := loader.LoadCRL(..);
if err != nil { warn } else { <remember>; return nil } }` — (index that succeeded, indices called in call order). -/
def scan (out : Nat → Bool) (skip : Option Nat) : List Nat → Option Nat × List Nat
  | [] => (none, [])
  | j :: js =>
    if multiSkipsLastSuccessfulInLoop && skip == some j then scan out skip js
    else if out j then (some j, [j])
    else ((scan out skip js).1, j :: (scan out skip js).2)

/-- After the loop: `f.lastSuccessfulLoader = loader` on success, untouched otherwise. -/
def remember (m : Multi) (r : Option Nat) : Multi :=
  match r with
  | some j => if multiRemembersSuccess then { m with last := some j } else m
  | none => m

/-- The value returned after the loop. All loaders failed: `fmt.Errorf("failed to load CRL from all loaders")` = `none`.
(Were it not an error, the call would "succeed" through no loader at all, written as the out-of-range index `n`.) -/
def loopResult (m : Multi) (r : Option Nat) : Option Nat :=
  match r with
  | some j => some j
  | none => if multiAllFailedIsError then none else some m.n

/-- One `LoadCRL` call. `out j` = loader `j`'s `LoadCRL` returns `nil` in this call.
Result: new state, `some j` = returned `nil` through loader `j` / `none` = error, loaders called in call order. -/
def load (m : Multi) (out : Nat → Bool) : Multi × Option Nat × List Nat :=
  match (if multiTriesLastSuccessfulFirst then m.last else none) with
  | some l =>
    if out l then (m, some l, [l])
    else
      let r := scan out m.last (List.range m.n)
      (remember m r.1, loopResult m r.1, l :: r.2)
  | none =>
    let r := scan out m.last (List.range m.n)
    (remember m r.1, loopResult m r.1, r.2)

/-- A sequence of `LoadCRL` calls on the same loader object. -/
def runCalls (m : Multi) : List (Nat → Bool) → Multi
  | [] => m
  | o :: os => runCalls (load m o).1 os

/-- The loader object as the factory builds it: `lastSuccessfulLoader == nil`. -/
def fresh (n : Nat) : Multi := { n := n, last := none }

end Crv.Loader
