/-
Mode composition model (C03): data types for the facts the translator regenerates from
revocation.go / configparser.go / config/config.go, and an interpreter for the statement
list of `VerifyClientCertificate`.
-/
namespace Crv

inductive Mode | preferOCSP | preferCRL | crlOnly | ocspOnly | disabled
  deriving DecidableEq, Repr, Inhabited

inductive SigMode | none | verifyLog | verify
  deriving DecidableEq, Repr, Inhabited

inductive Storage | memory | disk
  deriving DecidableEq, Repr, Inhabited

inductive FetchMode | actively | background
  deriving DecidableEq, Repr, Inhabited

/-- The two revocation mechanisms. -/
inductive Mech | ocsp | crl
  deriving DecidableEq, Repr

/-- What a `return` statement of `VerifyClientCertificate` returns. -/
inductive Ret | err | nil | newErr
  deriving DecidableEq, Repr

/-- Conditions that occur in `VerifyClientCertificate`. -/
inductive Cond | errNotNil | errIsNil | revokedTrue | revokedFalse
  deriving DecidableEq, Repr

inductive Simple
  | call (m : Mech)              -- revoked, err := c.<m>RevocationChecker.IsRevoked(clientCertificate, verifiedChains)
  | ifRet (c : Cond) (r : Ret)   -- if <c> { return <r> }

inductive Stmt
  | simple (s : Simple)
  | guarded (g : Mode → Bool) (body : List Simple)   -- if is<M>CheckingEnabled(c) { body }

structure VerifyProg where
  chainsGuard : Bool          -- whole body wrapped in `if len(verifiedChains) > 0`
  body : List Stmt
  final : Ret

/-- What one mechanism's `IsRevoked` returns: `(&{Revoked:false}, nil)`, `(&{Revoked:true}, nil)`, `(nil, err)`. -/
inductive MechOut | good | revoked | error
  deriving DecidableEq, Repr

inductive Verdict | accept | reject | panic
  deriving DecidableEq, Repr

structure Locals where
  err : Bool := false               -- err != nil
  revoked : Option Bool := none     -- none: `revoked` is a nil pointer
  deriving DecidableEq, Repr

structure Run where
  verdict : Verdict
  consulted : List Mech
  deriving DecidableEq, Repr

def retVerdict (r : Ret) (l : Locals) : Verdict :=
  match r with
  | .nil => .accept
  | .newErr => .reject
  | .err => if l.err then .reject else .accept

def evalCond (c : Cond) (l : Locals) : Option Bool :=
  match c with
  | .errNotNil => some l.err
  | .errIsNil => some (!l.err)
  | .revokedTrue => l.revoked
  | .revokedFalse => l.revoked.map (!·)

/-- Runs a block of simple statements; `inl v` = returned with verdict `v`. -/
def runSimples (env : Mech → MechOut) : List Simple → Locals → List Mech → (Option Verdict × Locals × List Mech)
  | [], l, cs => (none, l, cs)
  | .call m :: rest, _, cs =>
      let l' : Locals := match env m with
        | .good => { err := false, revoked := some false }
        | .revoked => { err := false, revoked := some true }
        | .error => { err := true, revoked := none }
      runSimples env rest l' (cs ++ [m])
  | .ifRet c r :: rest, l, cs =>
      match evalCond c l with
      | none => (some .panic, l, cs)
      | some true => (some (retVerdict r l), l, cs)
      | some false => runSimples env rest l cs

def runStmts (mode : Mode) (env : Mech → MechOut) : List Stmt → Locals → List Mech → (Option Verdict × Locals × List Mech)
  | [], l, cs => (none, l, cs)
  | .simple s :: rest, l, cs =>
      match runSimples env [s] l cs with
      | (some v, l', cs') => (some v, l', cs')
      | (none, l', cs') => runStmts mode env rest l' cs'
  | .guarded g body :: rest, l, cs =>
      if g mode then
        -- block-scoped `revoked, err :=` : fresh locals inside, outer locals unchanged after
        match runSimples env body {} cs with
        | (some v, l', cs') => (some v, l', cs')
        | (none, _, cs') => runStmts mode env rest l cs'
      else runStmts mode env rest l cs

def VerifyProg.run (p : VerifyProg) (mode : Mode) (env : Mech → MechOut) (chainsNonEmpty : Bool) : Run :=
  if p.chainsGuard && !chainsNonEmpty then { verdict := retVerdict p.final {}, consulted := [] }
  else
    match runStmts mode env p.body {} [] with
    | (some v, _, cs) => { verdict := v, consulted := cs }
    | (none, l, cs) => { verdict := retVerdict p.final l, consulted := cs }

def envOf (o c : MechOut) : Mech → MechOut
  | .ocsp => o
  | .crl => c

def Mode.ofString? : String → Option Mode
  | "prefer_ocsp" => some .preferOCSP | "prefer_crl" => some .preferCRL | "crl_only" => some .crlOnly
  | "ocsp_only" => some .ocspOnly | "disabled" => some .disabled | _ => none

def MechOut.ofString? : String → Option MechOut
  | "good" => some .good | "revoked" => some .revoked | "error" => some .error | _ => none

def Verdict.toString : Verdict → String
  | .accept => "accept" | .reject => "reject" | .panic => "panic"

def Mech.toString : Mech → String
  | .ocsp => "ocsp" | .crl => "crl"

end Crv
