/-!
# Crv.Paths — names inside work_dir, the work_dir file system, load/refresh as step lists, lifecycle (C20, C12)

Core Lean only. Go strings and file names are byte strings: `Name = List UInt8`.

Part A  names: `hex`, the store directory name `hex (sha x)`, `filepath.Clean/Join` on the fragment that is
        used (`Join workDir name`), the temp-name pattern `^<P>.*<S>$`, location identifiers.
Part B  the listing of work_dir as a finite map name ↦ node, atomic file-system / database steps.
Part C  `loadCRL` / `updateCrlEntry` / `LevelDbStore.Update` as *programs* (lists of operations in source
        order — the translator regenerates them from /repo on every run) and their compilation to step lists
        for a scenario (origin down / broken after j writes / document with good or bad signature).
Part D  lifecycle machine: work_dir registry, open database handles, ticker, updater goroutine.

The facts that come from the source (`Facts`) are a parameter of every definition; `Crv.Generated.pathFacts`
is the instance the theorems of `Crv.Props.C20` / `Crv.Props.C12` are stated about.

What is assumed about the library (said once, here):
* `filepath.Join(a, b)` with `a ≠ ""`, `b ≠ ""` is `filepath.Clean(a + "/" + b)` (Unix); `Clean` is the lexical
  procedure of its documentation: split at '/', drop "" and ".", let ".." remove the preceding non-".."
  element (at the root it is dropped, in a relative path it is kept), rooted iff the first byte is '/'.
  (`clean`/`join` below; diffed against the real `filepath.Join` by the harness.)
* Go `regexp` without flags: `^`/`$` match only at the ends of the text and `.` matches every rune except
  '\n'; a byte that is not valid UTF-8 is one rune (U+FFFD). Hence on byte strings `^P.*S$` (P, S literal)
  holds iff the name is `P ++ u ++ S` with no byte 0x0A in `u` (0x0A never occurs inside a multi-byte rune).
* `os.CreateTemp(dir, "p*s")` creates `dir/p<decimal digits>s`, a name not present before.
* SHA-256 is an opaque function `sha : List UInt8 → List UInt8` with 32-byte results; collision freedom is an
  explicit hypothesis wherever it is needed. `url.Parse(..).String()` is an opaque function `norm`.
-/
namespace Crv.Paths

abbrev Name := List UInt8

/-! ## Part A — names -/

def hexDigit (n : Nat) : UInt8 := if n < 10 then UInt8.ofNat (48 + n) else UInt8.ofNat (87 + n)

/-- `encoding/hex.EncodeToString`: lower case, two characters per byte. -/
def hex : List UInt8 → Name
  | [] => []
  | b :: bs => hexDigit (b.toNat / 16) :: hexDigit (b.toNat % 16) :: hex bs

def isHexDigit (c : UInt8) : Bool := (48 ≤ c && c ≤ 57) || (97 ≤ c && c ≤ 102)

/-- `calculateHashHexString`: the directory name of a store. -/
def storeName (sha : List UInt8 → List UInt8) (preimage : List UInt8) : Name := hex (sha preimage)

/-- A name that `filepath.Join` appends as exactly one path element. -/
def normalComponent (n : Name) : Prop := n ≠ [] ∧ n ≠ [46] ∧ n ≠ [46, 46] ∧ (47 : UInt8) ∉ n

instance (n : Name) : Decidable (normalComponent n) := by unfold normalComponent; exact inferInstance

def splitOn (sep : UInt8) : Name → List Name
  | [] => [[]]
  | c :: cs =>
    if c = sep then [] :: splitOn sep cs
    else match splitOn sep cs with
      | [] => [[c]]
      | h :: t => (c :: h) :: t

/-- One element of `filepath.Clean`'s scan; `acc` is the cleaned path so far. -/
def pushComp (rooted : Bool) (acc : List Name) (c : Name) : List Name :=
  if c = [] ∨ c = [46] then acc
  else if c = [46, 46] then
    match acc.getLast? with
    | none => if rooted then acc else acc ++ [c]
    | some l => if l = [46, 46] then acc ++ [c] else acc.dropLast
  else acc ++ [c]

/-- A cleaned path: rooted or relative, and its elements. -/
structure CPath where
  rooted : Bool
  comps : List Name
  deriving DecidableEq, Repr

def isRooted (p : Name) : Bool := p.head? == some 47

def clean (p : Name) : CPath :=
  { rooted := isRooted p, comps := (splitOn 47 p).foldl (pushComp (isRooted p)) [] }

def intercalateSlash : List Name → Name
  | [] => []
  | [c] => c
  | c :: cs => c ++ 47 :: intercalateSlash cs

def CPath.render (p : CPath) : Name :=
  if p.rooted then 47 :: intercalateSlash p.comps
  else if p.comps = [] then [46] else intercalateSlash p.comps

/-- `filepath.Join(a, b)` (two arguments). -/
def join (a b : Name) : CPath :=
  if a = [] then clean b else if b = [] then clean a else clean (a ++ 47 :: b)

/-- `stripPrefix p n = some r` iff `n = p ++ r`. -/
def stripPrefix : Name → Name → Option Name
  | [], n => some n
  | _ :: _, [] => none
  | p :: ps, c :: cs => if p = c then stripPrefix ps cs else none

/-- The regular expression `^P.*S$` on a byte string (see the header for what is assumed about `regexp`). -/
def matchesPattern (P S : Name) (n : Name) : Bool :=
  match stripPrefix P n with
  | none => false
  | some r =>
    match stripPrefix S.reverse r.reverse with
    | none => false
    | some m => m.all (· != 10)

def lowerAscii (c : UInt8) : UInt8 := if 65 ≤ c ∧ c ≤ 90 then c + 32 else c

/-- `strings.HasPrefix(strings.ToLower(cdp), prefix)` for an ASCII lower-case prefix. -/
def hasLowerPrefix (pre : Name) (u : Name) : Bool := (u.take pre.length).map lowerAscii == pre

/-! ### Facts regenerated from the source -/

/-- `LevelDbStore.Update`, in source order. -/
inductive UpdOp
  | closeOld | closeNew | moveOldAside | moveNewIn | removeAside | reopen
  | hit (name : String)
  deriving DecidableEq, Repr

/-- Where `CRLPersisterProcessor{CRLStore: …}` writes. -/
inductive Target | staged | live
  deriving DecidableEq, Repr

/-- `loadCRL` / `updateCrlEntry`, in source order. -/
inductive RepoOp
  | createTempFile                 -- R.createTempFile()
  | deferDeleteStoreOnError        -- defer: if err != nil && store != nil { store.Close(); store.Delete() }
  | deferRemoveTempFile            -- defer os.Remove(tempFileName)
  | readUpdateInfo                 -- getCrlUpdateInformation (reads the live store)
  | download                       -- loader.LoadCRL(tempFileName)
  | createStore (temporary : Bool) -- R.Factory.CreateStore(identifier, temporary)
  | processorOn (t : Target)
  | copyLocationsIfPresent         -- GetCRLLocations of the live store, UpdateCRLLocations if there are any
  | putLocations                   -- processor.UpdateCRLLocations(points)
  | read                           -- R.crlReader.ReadCRL(processor, tempFileName)
  | verify (hits : List String) (returnsOnFailureUnderVerify storesSignerOnSuccess : Bool)
  | swap                           -- entry.CRLStore.Update(store) (directly or in updateEntry)
  | markLoaded
  | hit (name : String)
  deriving DecidableEq, Repr

inductive ProvisionOp | register | setConfig | newRepository | sweep | addUrls | addFiles | initTicker
  deriving DecidableEq, Repr

inductive CleanupOp | deregister | closeRepository | stopTicker | closeStop
  deriving DecidableEq, Repr

structure Facts where
  tempPrefix : Name            -- sweep pattern `^P.*S$`
  tempSuffix : Name
  createTempPrefix : Name      -- os.CreateTemp(workDir, "p*s")
  createTempSuffix : Name
  randomPrefix : Name          -- createRandomFileName: p + uuid + s
  randomSuffix : Name
  cdpSchemePrefix : Name       -- strings.HasPrefix(strings.ToLower(cdp), …)
  fileIdPrefix : Name          -- FileLoader.GetCRLLocationIdentifier hashes this literal followed by the file name
  updateOps : List UpdOp
  metaWriteHits : List String  -- hook hits after the Put of StartUpdateCrl
  entryWriteHits : List String -- … of InsertRevokedCert
  loadProgram : List RepoOp
  refreshProgram : List RepoOp
  provisionOps : List ProvisionOp
  cleanupOps : List CleanupOp

def matchesTemp (F : Facts) (n : Name) : Bool := matchesPattern F.tempPrefix F.tempSuffix n

/-- The name `os.CreateTemp` gives the download file (`r`: the random decimal digits). -/
def createTempName (F : Facts) (r : Name) : Name := F.createTempPrefix ++ r ++ F.createTempSuffix

/-- `createRandomFileName` (`u`: the UUID text). -/
def randomName (F : Facts) (u : Name) : Name := F.randomPrefix ++ u ++ F.randomSuffix

/-! ### Location identifiers -/

section ids
variable (sha : List UInt8 → List UInt8) (norm : Name → Option Name)

/-- `URLLoader.GetCRLLocationIdentifier` -/
def urlId (u : Name) : Option Name := (norm u).map (storeName sha)

/-- `FileLoader.GetCRLLocationIdentifier`: the pre-image is a literal (it starts with a control byte, which no
normalised URL and no hex string contains) followed by the file name. -/
def fileId (F : Facts) (f : Name) : Name := storeName sha (F.fileIdPrefix ++ f)

/-- The distribution points `CreatePreferredCrlLoader` keeps. -/
def cdpKept (F : Facts) (cdps : List Name) : List Name := cdps.filter (hasLowerPrefix F.cdpSchemePrefix)

def mapOpt {α β} (f : α → Option β) : List α → Option (List β)
  | [] => some []
  | a :: as => match f a, mapOpt f as with
    | some b, some bs => some (b :: bs)
    | _, _ => none

/-- `MultiSchemesCRLLoader.GetCRLLocationIdentifier` on the loaders the factory built (`none`: no loader or
a distribution point that does not parse). -/
def cdpId (F : Facts) (cdps : List Name) : Option Name :=
  if cdpKept F cdps = [] then none
  else (mapOpt (urlId sha norm) (cdpKept F cdps)).map (fun ids => storeName sha ids.flatten)

end ids

/-! ## Part B — the listing of work_dir -/

inductive DbKey | locations | metaInfo | extMeta | signer | entry (serial : Nat)
  deriving DecidableEq, Repr

/-- Content of one LevelDB directory: key ↦ value (values are ghost tags: which document wrote the record). -/
abbrev DbImage := List (DbKey × Nat)

def DbImage.put (img : DbImage) (k : DbKey) (v : Nat) : DbImage := (k, v) :: img.filter (fun e => e.1 ≠ k)

def DbImage.get (img : DbImage) (k : DbKey) : Option Nat :=
  match img with
  | [] => none
  | (k', v) :: rest => if k' = k then some v else DbImage.get rest k

inductive Node | file | dir (img : DbImage)
  deriving DecidableEq, Repr

abbrev Fs := List (Name × Node)

def Fs.get (fs : Fs) (n : Name) : Option Node :=
  match fs with
  | [] => none
  | (m, x) :: rest => if m = n then some x else Fs.get rest n

def Fs.erase (fs : Fs) (n : Name) : Fs := fs.filter (fun e => e.1 ≠ n)
def Fs.set (fs : Fs) (n : Name) (x : Node) : Fs := (n, x) :: Fs.erase fs n
def Fs.names (fs : Fs) : List Name := fs.map (·.1)

/-- `DeleteTempFilesIfExist`: every direct child of work_dir whose name matches the pattern is removed (`RemoveAll`). -/
def sweep (F : Facts) (fs : Fs) : Fs := fs.filter (fun e => !matchesTemp F e.1)

/-! ### The clean-up as the `filepath.Walk` it is

`DeleteTempFilesIfExist` is `filepath.Walk(workDir, callback)`. Walk calls the callback for work_dir itself and then for
its children in byte-wise lexical order of their names (`readDirNames` sorts them). The callback may call
`deleteIfTempFileOrDir` (`RemoveAll` iff the entry's *name* matches the pattern) and may return `filepath.SkipDir`.
`SkipDir` returned for a directory: Walk does not descend into it and goes on with the next sibling. `SkipDir` returned
for a non-directory: Walk skips *all remaining entries of the parent*, i.e. the rest of work_dir. For which entries the
callback does the one and the other is regenerated from the source as two strings (`Crv.Generated.walkDeleteGuard`,
`walkSkipGuard`); the definitions here take them as parameters, `Crv.PathsWalk.startupSweep` instantiates them.

Only the direct children of work_dir are modelled. -/

/-- Byte-wise lexical order on names (`sort.Strings` on Go strings): a proper prefix sorts first. -/
def nameLe : Name → Name → Bool
  | [], _ => true
  | _ :: _, [] => false
  | a :: as, b :: bs => if a < b then true else if a = b then nameLe as bs else false

def entryLe (a b : Name × Node) : Bool := nameLe a.1 b.1

/-- The children of work_dir in the order in which Walk visits them. -/
def sortedChildren (fs : Fs) : List (Name × Node) := fs.mergeSort entryLe

def Node.isFile : Node → Bool
  | .file => true
  | .dir _ => false

/-- Does a guard of the callback ("nonroot": every entry except work_dir itself; "dir-nonroot": every directory except
work_dir itself; "never"; any other string is read as "never") hold for a *child* of work_dir with node `x`? -/
def guardApplies (g : String) (x : Node) : Bool :=
  if g = "nonroot" then true
  else if g = "dir-nonroot" then !x.isFile
  else false

/-- The names the walk removes, given the children in visiting order. For each visited child: it is removed iff the
delete guard holds for it and its name matches the pattern. Then
* the skip guard holds and the child is a *file*: `SkipDir` for a non-directory — the walk ends here, the remaining
  children are not visited;
* the skip guard holds and the child is a directory: it is not descended into, the walk goes on with the next sibling;
* the skip guard does not hold and the child is a directory: Walk descends into it. Its content is not modelled (names
  inside a LevelDB directory never match the pattern, nothing there is removed) and the descent is ignored — **except**
  when the directory has just been removed: Walk has read the directory's names before it called the callback, now
  `lstat` fails on the first of them, Walk hands the error to the callback, the callback returns it (first statement of
  the callback in the source; not part of the regenerated facts) and the whole walk ends with that error. Directories in
  work_dir are taken to be non-empty on disk (a LevelDB directory always is), so "removed and descended into" ends the
  walk. With the guards of the source every directory is skipped and this case does not occur. -/
def walkDeleted (delGuard skipGuard : String) (F : Facts) : List (Name × Node) → List Name
  | [] => []
  | e :: rest =>
    let removed := guardApplies delGuard e.2 && matchesTemp F e.1
    let here := if removed then [e.1] else []
    let skip := guardApplies skipGuard e.2
    if skip && e.2.isFile then here                      -- SkipDir for a file: rest of work_dir is skipped
    else if !skip && !e.2.isFile && removed then here    -- descent into a directory that is gone: walk ends with the error
    else here ++ walkDeleted delGuard skipGuard F rest

/-- work_dir after `DeleteTempFilesIfExist` with a callback of the given shape (`RemoveAll` on a name removes the entry). -/
def walkSweep (delGuard skipGuard : String) (F : Facts) (fs : Fs) : Fs :=
  fs.filter (fun e => !(walkDeleted delGuard skipGuard F (sortedChildren fs)).contains e.1)

inductive Step
  | mkFile (n : Name)            -- os.CreateTemp
  | writeFile (n : Name)         -- download / copy into the file (content is not modelled)
  | rmFile (n : Name)            -- os.Remove
  | mkStore (n : Name)           -- os.Mkdir + leveldb.OpenFile: a new, empty database directory
  | openStore (n : Name)         -- os.MkdirAll + leveldb.OpenFile: empty database only if nothing is there
  | put (n : Name) (k : DbKey) (v : Nat)
  | closeDb (n : Name)
  | rename (a b : Name)
  | rmAll (n : Name)
  | hit (name : String)          -- verifhook.Hit
  deriving DecidableEq, Repr

def Step.apply (st : Step) (fs : Fs) : Fs :=
  match st with
  | .mkFile n => fs.set n .file
  | .writeFile _ => fs
  | .rmFile n => match fs.get n with
    | some .file => fs.erase n
    | _ => fs
  | .mkStore n => fs.set n (.dir [])
  | .openStore n => match fs.get n with
    | none => fs.set n (.dir [])
    | some _ => fs
  | .put n k v => match fs.get n with
    | some (.dir img) => fs.set n (.dir (img.put k v))
    | _ => fs
  | .closeDb _ => fs
  | .rename a b => match fs.get a with
    | none => fs
    | some x => (fs.erase a).set b x
  | .rmAll n => fs.erase n
  | .hit _ => fs

def run (steps : List Step) (fs : Fs) : Fs := steps.foldl (fun fs st => st.apply fs) fs

/-- Open database handles (the LOCK files held by this process). -/
def addH (h : List Name) (n : Name) : List Name := if n ∈ h then h else n :: h

def Step.handles (st : Step) (h : List Name) : List Name :=
  match st with
  | .mkStore n => addH h n
  | .openStore n => addH h n
  | .closeDb n => h.filter (· ≠ n)
  | _ => h

def runHandles (steps : List Step) (h : List Name) : List Name := steps.foldl (fun h st => st.handles h) h

/-! ## Part C — load and refresh as step lists -/

structure Doc where
  tag : Nat              -- identifies the document (ghost value of every record it writes)
  serials : List Nat
  sigOk : Bool           -- verifyCRLSignature succeeds with the chains at hand
  deriving DecidableEq, Repr

inductive Origin
  | down                              -- LoadCRL fails after its retries
  | broken (d : Doc) (writes : Nat)   -- ReadCRL fails after `writes` store writes (0: before the meta record)
  | doc (d : Doc)
  deriving DecidableEq, Repr

structure Scn where
  disk : Bool            -- storage_type disk (memory: no store step touches work_dir)
  sigChecked : Bool      -- signature_validation_mode ≠ none
  sigRequired : Bool     -- signature_validation_mode = verify
  origin : Origin
  id : Name              -- live store directory
  hasLoc : Bool          -- the live store holds a locations record
  loc : Nat
  t : Name               -- download file   (os.CreateTemp)
  s : Name               -- staged store    (createRandomFileName)
  a : Name               -- old store moved aside (createRandomFileName)
  deriving DecidableEq, Repr

/-- Store writes of `ReadCRL` in order, without the extended meta record. -/
def headWrites (d : Doc) : List (DbKey × Nat) := (DbKey.metaInfo, d.tag) :: d.serials.map (fun x => (DbKey.entry x, d.tag))

/-- All store writes of a complete `ReadCRL`. -/
def readWrites (d : Doc) : List (DbKey × Nat) := headWrites d ++ [(DbKey.extMeta, d.tag)]

def writeHits (F : Facts) : DbKey → List String
  | .metaInfo => F.metaWriteHits
  | .entry _ => F.entryWriteHits
  | _ => []

def writeSteps (F : Facts) (dir : Name) (ws : List (DbKey × Nat)) : List Step :=
  ws.flatMap (fun w => Step.put dir w.1 w.2 :: (writeHits F w.1).map Step.hit)

def updStep (sc : Scn) : UpdOp → Step
  | .closeOld => .closeDb sc.id
  | .closeNew => .closeDb sc.s
  | .moveOldAside => .rename sc.id sc.a
  | .moveNewIn => .rename sc.s sc.id
  | .removeAside => .rmAll sc.a
  | .reopen => .openStore sc.id
  | .hit n => .hit n

/-- `LevelDbStore.Update` for the scenario's names. -/
def swapSteps (F : Facts) (sc : Scn) : List Step := F.updateOps.map (updStep sc)

inductive Defer | deleteStoreOnError | removeTempFile
  deriving DecidableEq, Repr

structure CState where
  store : Bool := false          -- `store != nil`
  target : Target := .staged
  defers : List Defer := []      -- most recent first
  sigOk : Bool := false
  deriving DecidableEq, Repr

def onDisk (sc : Scn) (l : List Step) : List Step := if sc.disk then l else []

def runDefers (sc : Scn) (st : CState) (err : Bool) : List Step :=
  st.defers.flatMap (fun d => match d with
    | .removeTempFile => [Step.rmFile sc.t]
    | .deleteStoreOnError => if err && st.store then onDisk sc [Step.closeDb sc.s, Step.rmAll sc.s] else [])

def targetDir (sc : Scn) (st : CState) : Name := match st.target with | .staged => sc.s | .live => sc.id

/-- The steps a program performs in a scenario (an operation that fails runs the deferred calls and returns). -/
def compile (F : Facts) (sc : Scn) : List RepoOp → CState → List Step
  | [], st => runDefers sc st false
  | op :: rest, st =>
    match op with
    | .createTempFile => Step.mkFile sc.t :: compile F sc rest st
    | .deferDeleteStoreOnError => compile F sc rest { st with defers := .deleteStoreOnError :: st.defers }
    | .deferRemoveTempFile => compile F sc rest { st with defers := .removeTempFile :: st.defers }
    | .readUpdateInfo => compile F sc rest st
    | .download =>
      match sc.origin with
      | .down => Step.writeFile sc.t :: runDefers sc st true
      | _ => Step.writeFile sc.t :: compile F sc rest st
    | .createStore temporary =>
      if temporary then onDisk sc [Step.mkStore sc.s] ++ compile F sc rest { st with store := true }
      else onDisk sc [Step.openStore sc.id] ++ compile F sc rest { st with store := true }
    | .processorOn t => compile F sc rest { st with target := t }
    | .copyLocationsIfPresent =>
      (if sc.hasLoc then onDisk sc [Step.put (targetDir sc st) .locations sc.loc] else []) ++ compile F sc rest st
    | .putLocations => onDisk sc [Step.put (targetDir sc st) .locations sc.loc] ++ compile F sc rest st
    | .read =>
      match sc.origin with
      | .down => runDefers sc st true
      | .broken d j => onDisk sc (writeSteps F (targetDir sc st) ((headWrites d).take j)) ++ runDefers sc st true
      | .doc d => onDisk sc (writeSteps F (targetDir sc st) (readWrites d)) ++ compile F sc rest { st with sigOk := d.sigOk }
    | .verify hits retOnFail storesSigner =>
      if sc.sigChecked then
        hits.map Step.hit ++
          (if st.sigOk then
            (if storesSigner then onDisk sc [Step.put (targetDir sc st) .signer sc.loc] else []) ++ compile F sc rest st
           else if sc.sigRequired && retOnFail then runDefers sc st true
           else compile F sc rest st)
      else compile F sc rest st
    | .swap => onDisk sc (swapSteps F sc) ++ compile F sc rest st
    | .markLoaded => compile F sc rest st
    | .hit n => Step.hit n :: compile F sc rest st

def loadSteps (F : Facts) (sc : Scn) : List Step := compile F sc F.loadProgram {}
def refreshSteps (F : Facts) (sc : Scn) : List Step := compile F sc F.refreshProgram {}

/-- What a complete, accepted staging of document `d` holds (first load: locations only if the live store had them). -/
def stagedImage (sc : Scn) (d : Doc) (withLoc signed : Bool) : DbImage :=
  let i0 : DbImage := if withLoc then DbImage.put [] .locations sc.loc else []
  let i1 := (readWrites d).foldl (fun img w => img.put w.1 w.2) i0
  if signed then i1.put .signer sc.loc else i1

/-- Does the scenario end with the document in force (the acceptance policy of the configured mode)? -/
def accepted (sc : Scn) : Option Doc :=
  match sc.origin with
  | .doc d => if sc.sigChecked && sc.sigRequired && !d.sigOk then none else some d
  | _ => none

/-! ## Part D — lifecycle -/

/-- Mirror of the `CRLRevocationChecker` fields that `Cleanup` looks at, plus the repository's entries. -/
structure Inst where
  cfgSet : Bool := false                -- c.crlConfig != nil
  repo : Bool := false                  -- c.crlRepository != nil
  entries : List (Name × Bool) := []    -- repository map: identifier ↦ Loaded
  ticker : Bool := false                -- ticker created and not stopped
  stop : Bool := false                  -- crlUpdateStop != nil: the updater goroutine is alive
  deriving DecidableEq, Repr

structure Sys where
  disk : Bool
  wd : Name                             -- the configured work_dir string
  fs : Fs                               -- listing of work_dir
  registered : List Name := []          -- workDirsInUse (process global)
  handles : List Name := []             -- open LevelDB handles below work_dir held by this process
  inst : Inst := {}
  dropped : List Name := []             -- ghost: names put into work_dir by someone else
  deriving Repr

/-- A name longer than every name in the listing (stands for the fresh random part of a temp name). -/
def freshLen (fs : Fs) : Nat := (fs.map (fun e => e.1.length)).foldl max 0 + 1

def tmpName (F : Facts) (len : Nat) : Name := F.tempPrefix ++ List.replicate len 120 ++ F.tempSuffix

structure Location where
  id : Name
  first : Origin        -- what the origin serves when the location is first loaded
  update : Origin       -- … at the update that follows in Provision
  deriving DecidableEq, Repr

def mkScn (F : Facts) (sys : Sys) (verifyMode : Bool) (id : Name) (o : Origin) (hasLoc : Bool) : Scn :=
  let l := freshLen sys.fs
  { disk := sys.disk, sigChecked := verifyMode, sigRequired := verifyMode, origin := o, id := id, hasLoc := hasLoc, loc := 0,
    t := tmpName F l, s := tmpName F (l + 1), a := tmpName F (l + 2) }

def setLoaded (es : List (Name × Bool)) (id : Name) (b : Bool) : List (Name × Bool) :=
  es.map (fun e => if e.1 = id then (e.1, b) else e)

def isLoaded (es : List (Name × Bool)) (id : Name) : Bool := es.any (fun e => e.1 = id && e.2)

def hasEntry (es : List (Name × Bool)) (id : Name) : Bool := es.any (fun e => e.1 = id)

def imageLoaded (fs : Fs) (id : Name) : Bool :=
  match fs.get id with
  | some (.dir img) => (img.get .metaInfo).isSome
  | _ => false

def applySteps (sys : Sys) (steps : List Step) : Sys :=
  { sys with fs := run steps sys.fs, handles := runHandles steps sys.handles }

/-- `getOrAddEntry` + `storeCRLLocationsIfNotLoaded`: a new entry opens (creates) the live store; on disk `Loaded`
is inferred from the meta record. -/
def addEntry (sys : Sys) (id : Name) : Sys :=
  if hasEntry sys.inst.entries id then sys
  else
    let sys1 := if sys.disk then applySteps sys [Step.openStore id] else sys
    let loaded := sys.disk && imageLoaded sys1.fs id
    let sys2 := if sys.disk && !loaded then applySteps sys1 [Step.put id .locations 0] else sys1
    { sys2 with inst := { sys2.inst with entries := (id, loaded) :: sys2.inst.entries } }

/-- `loadCRL` on an entry that is not loaded; returns the new state and whether it failed. -/
def doLoad (F : Facts) (verifyMode : Bool) (sys : Sys) (id : Name) (o : Origin) : Sys × Bool :=
  let sc := mkScn F sys verifyMode id o sys.disk
  let sys' := applySteps sys (loadSteps F sc)
  match accepted sc with
  | some _ => ({ sys' with inst := { sys'.inst with entries := setLoaded sys'.inst.entries id true } }, false)
  | none => (sys', true)

/-- `updateCrlEntry` on a loaded entry. -/
def doRefresh (F : Facts) (verifyMode : Bool) (sys : Sys) (id : Name) (o : Origin) : Sys × Bool :=
  let sc := mkScn F sys verifyMode id o true
  let sys' := applySteps sys (refreshSteps F sc)
  match accepted sc with
  | some _ => (sys', false)
  | none => (sys', true)

/-- `AddCRL` (fetch_actively) followed by `UpdateCRL`, as `addCrlUrlsFromConfig` does per configured location. -/
def addConfigured (F : Facts) (verifyMode : Bool) (sys : Sys) (l : Location) : Sys × Bool :=
  let sys1 := addEntry sys l.id
  let (sys2, failed) := if isLoaded sys1.inst.entries l.id then (sys1, false) else doLoad F verifyMode sys1 l.id l.first
  if failed then (sys2, true) else doRefresh F verifyMode sys2 l.id l.update

def addAll (F : Facts) (verifyMode : Bool) : Sys → List Location → Sys × Bool
  | sys, [] => (sys, false)
  | sys, l :: ls =>
    match addConfigured F verifyMode sys l with
    | (sys', true) => (sys', true)
    | (sys', false) => addAll F verifyMode sys' ls

def cleanupOp (sys : Sys) : CleanupOp → Sys
  | .deregister => if sys.inst.cfgSet then { sys with registered := sys.registered.filter (· ≠ sys.wd) } else sys
  | .closeRepository =>
    if sys.inst.repo then
      -- every entry's store is closed; the entries stay in the repository (marked closed)
      { sys with handles := sys.handles.filter (fun h => !hasEntry sys.inst.entries h) }
    else sys
  | .stopTicker => if sys.inst.ticker then { sys with inst := { sys.inst with ticker := false } } else sys
  | .closeStop => if sys.inst.stop then { sys with inst := { sys.inst with stop := false } } else sys

/-- `CRLRevocationChecker.Cleanup` -/
def cleanup (F : Facts) (sys : Sys) : Sys := F.cleanupOps.foldl cleanupOp sys

/-- One statement of `CRLRevocationChecker.Provision`; the state carries "an earlier statement returned an error". -/
def provisionOp (F : Facts) (verifyMode : Bool) (urls files : List Location) (st : Sys × Bool) (op : ProvisionOp) : Sys × Bool :=
  if st.2 then st
  else
    let sys := st.1
    match op with
    | .register =>
      if sys.wd ∈ sys.registered then (sys, true)
      else ({ sys with registered := sys.wd :: sys.registered }, false)
    | .setConfig => ({ sys with inst := { sys.inst with cfgSet := true } }, false)
    | .newRepository => ({ sys with inst := { sys.inst with repo := true } }, false)
    | .sweep => ({ sys with fs := sweep F sys.fs }, false)
    | .addUrls => addAll F verifyMode sys urls
    | .addFiles => addAll F verifyMode sys files
    | .initTicker => ({ sys with inst := { sys.inst with ticker := true, stop := true } }, false)

/-- `CRLRevocationChecker.Provision` on a fresh checker object; when a statement fails the error is returned and Caddy
calls `Cleanup` on the half-provisioned module. Result: new state and whether Provision succeeded. -/
def provision (F : Facts) (verifyMode : Bool) (urls files : List Location) (sys : Sys) : Sys × Bool :=
  let r := F.provisionOps.foldl (provisionOp F verifyMode urls files) ({ sys with inst := {} }, false)
  if r.2 then (cleanup F r.1, false) else (r.1, true)

inductive Ev
  | provision (verifyMode : Bool) (urls files : List Location)
  | handshake (verifyMode : Bool) (id : Name) (o : Origin)   -- first use of a distribution point set (fetch_actively)
  | refresh (verifyMode : Bool) (id : Name) (o : Origin)     -- one location's turn in UpdateCRLs / UpdateCRL
  | cleanup
  | foreign (n : Name) (x : Node)                            -- somebody else creates something in work_dir
  deriving Repr

def provisioned (sys : Sys) : Bool := sys.inst.repo && sys.inst.stop

def stepEv (F : Facts) (sys : Sys) : Ev → Sys
  | .provision v urls files =>
    -- A checker object that finds the work_dir registered fails; the object that holds the registration is a
    -- different one and keeps its fields (what the failed attempt does to the process is in `provision`).
    if sys.wd ∈ sys.registered then { (provision F v urls files sys).1 with inst := sys.inst }
    else (provision F v urls files sys).1
  | .handshake v id o =>
    if provisioned sys then
      let sys1 := addEntry sys id
      if isLoaded sys1.inst.entries id then sys1 else (doLoad F v sys1 id o).1
    else sys
  | .refresh v id o =>
    if provisioned sys && hasEntry sys.inst.entries id then
      if isLoaded sys.inst.entries id then (doRefresh F v sys id o).1 else (doLoad F v sys id o).1
    else sys
  | .cleanup => cleanup F sys
  | .foreign n x =>
    match sys.fs.get n with
    | none => { sys with fs := sys.fs.set n x, dropped := n :: sys.dropped }
    | some _ => sys

def runEvs (F : Facts) (sys : Sys) (evs : List Ev) : Sys := evs.foldl (stepEv F) sys

end Crv.Paths
