import Crv.Mode
/-!
Configuration model (C19).

Two load paths of the validator are modelled:

* JSON: `json.Unmarshal` (std-lib, trusted) fills the Go structs; the JSON form is therefore the raw
  record `RawCfg` itself (absent object = `none`, absent string = `""`, absent bool = `false`,
  absent list = `[]`).
* Caddyfile: `UnmarshalCaddyfile` walks a `caddyfile.Dispenser`. The dispenser (Caddy, trusted) is
  abstracted to a token tree `Tok`; the four block parsers of caddyfile.go are *not* written here:
  the translator regenerates, per block, the key table (key → action on a field), whether an unknown
  key is an error, and whether the per-entry helper receives its struct by pointer
  (`Crv.Generated.configFacts`). `parseBlock` below interprets such a table over a token tree.

Then `Provision` (revocation.go) = ParseConfig (configparser.go) + validateConfig + checker
provisioning, again interpreted from regenerated step lists. `time.ParseDuration`, `os.Stat`,
reading certificate files and "the configured CRL at this location is acceptable" are oracle
parameters (`Env`).
-/
namespace Crv.Config
open Crv

/-! ### Results -/

/-- Outcome class of a load step: value, `error` returned, or a Go panic. -/
inductive Res (α : Type) where
  | ok (a : α)
  | error
  | panic
  deriving DecidableEq, Repr

namespace Res
def bind {α β : Type} (r : Res α) (f : α → Res β) : Res β :=
  match r with
  | .ok a => f a
  | .error => .error
  | .panic => .panic

def map {α β : Type} (f : α → β) (r : Res α) : Res β :=
  match r with
  | .ok a => .ok (f a)
  | .error => .error
  | .panic => .panic

def isOk {α : Type} : Res α → Bool
  | .ok _ => true
  | _ => false
end Res

/-! ### Token tree of a Caddyfile block -/

/-- One line of a block: `key args… [{ block }]`. `block = none`: the line has no `{`. -/
inductive Tok where
  | entry (key : String) (args : List String) (block : Option (List Tok))

/-! ### The Go structs as filled by `json.Unmarshal` / by the Caddyfile parsers -/

structure RawCdp where
  fetchMode : String := ""
  strict : Bool := false
  deriving DecidableEq, Repr

structure RawCrl where
  workDir : String := ""
  storage : String := ""
  interval : String := ""
  sigMode : String := ""
  urls : List String := []
  files : List String := []
  signers : List String := []
  cdp : Option RawCdp := none
  deriving DecidableEq, Repr

structure RawOcsp where
  cacheDuration : String := ""
  responders : List String := []
  aiaStrict : Bool := false
  deriving DecidableEq, Repr

structure RawCfg where
  mode : String := ""
  crl : Option RawCrl := none
  ocsp : Option RawOcsp := none
  deriving DecidableEq, Repr

/-! ### Field names the translator maps Go struct fields to -/

inductive TopField | mode | crl | ocsp
  deriving DecidableEq, Repr
inductive CrlField | workDir | storage | interval | sigMode | urls | files | signers | cdp
  deriving DecidableEq, Repr
inductive CdpField | fetchMode | strict
  deriving DecidableEq, Repr
inductive OcspField | cacheDuration | responders | aiaStrict
  deriving DecidableEq, Repr

/-- What a `case "<key>":` of a block parser does. -/
inductive Act (F : Type) where
  | str (f : F)                    -- `if !d.NextArg() {ArgErr}; X.f = d.Val()`
  | append (f : F)                 -- `if !d.NextArg() {ArgErr}; X.f = append(X.f, d.Val())`
  | parsedBool (f : F)             -- `…; b, err := strconv.ParseBool(d.Val()); if err != nil {ArgErr}; X.f = b`
  | constBool (f : F) (b : Bool)   -- `…; X.f = <literal>`
  | sub (f : F)                    -- `v, err := parse<Sub>(d); if err != nil {return err}; X.f = v`
  deriving DecidableEq, Repr

structure BlockFacts (F : Type) where
  keys : List (String × Act F)
  /-- the switch has a `default:` branch returning an error -/
  hasDefault : Bool
  /-- the struct the cases assign to is the parser's own local or reaches the entry helper by pointer;
      `false`: the helper receives a copy, every assignment is lost -/
  byPointer : Bool

/-- `strconv.ParseBool` (std-lib), its table transcribed. -/
def parseBoolGo (s : String) : Option Bool :=
  if s = "1" ∨ s = "t" ∨ s = "T" ∨ s = "TRUE" ∨ s = "true" ∨ s = "True" then some true
  else if s = "0" ∨ s = "f" ∨ s = "F" ∨ s = "FALSE" ∨ s = "false" ∨ s = "False" then some false
  else none

def lookupKey {F : Type} (k : String) : List (String × Act F) → Option (Act F)
  | [] => none
  | (k', a) :: rest => if k = k' then some a else lookupKey k rest

/-- How a block's struct is updated; one instance per Go struct. -/
structure Setters (F σ : Type) where
  setStr : F → String → σ → σ
  append : F → String → σ → σ
  setBool : F → Bool → σ → σ
  /-- parse a sub-block (its lines) and return the assignment of the result -/
  sub : F → List Tok → Res (σ → σ)

section Interp
variable {F σ : Type}

def assign (B : BlockFacts F) (g : σ → σ) (s : σ) : σ := if B.byPointer then g s else s

/-- One line: `words` = key and the remaining tokens of the line, `blk` = the block opened at the end
of the line. Mirrors the dispenser: an action that takes an argument consumes exactly one word
(`NextArg`), the loop's `NextBlock` then takes the next token of the line as the next key; a `{` met
where a key is expected is an unknown key. -/
def procWords (B : BlockFacts F) (S : Setters F σ) : List String → Option (List Tok) → σ → Res σ
  | [], none, s => .ok s
  | [], some _, s => if B.hasDefault then .error else .ok s
  | key :: rest, blk, s =>
    match lookupKey key B.keys with
    | none => if B.hasDefault then .error else procWords B S rest blk s
    | some (.str f) =>
      match rest with
      | [] => .error
      | v :: rest' => procWords B S rest' blk (assign B (S.setStr f v) s)
    | some (.append f) =>
      match rest with
      | [] => .error
      | v :: rest' => procWords B S rest' blk (assign B (S.append f v) s)
    | some (.parsedBool f) =>
      match rest with
      | [] => .error
      | v :: rest' =>
        match parseBoolGo v with
        | none => .error
        | some b => procWords B S rest' blk (assign B (S.setBool f b) s)
    | some (.constBool f b) =>
      match rest with
      | [] => .error
      | _ :: rest' => procWords B S rest' blk (assign B (S.setBool f b) s)
    | some (.sub f) =>
      match rest with
      | [] =>
        match S.sub f (blk.getD []) with
        | .ok g => .ok (assign B g s)
        | .error => .error
        | .panic => .panic
      | r :: rest' =>
        -- the sub-parser finds no `{` right after the key: empty struct, the rest of the line are keys
        match S.sub f [] with
        | .ok g => procWords B S (r :: rest') blk (assign B g s)
        | .error => .error
        | .panic => .panic

def procEntry (B : BlockFacts F) (S : Setters F σ) (t : Tok) (s : σ) : Res σ :=
  match t with
  | .entry key args blk => procWords B S (key :: args) blk s

def parseBlock (B : BlockFacts F) (S : Setters F σ) : List Tok → σ → Res σ
  | [], s => .ok s
  | t :: ts, s =>
    match procEntry B S t s with
    | .ok s' => parseBlock B S ts s'
    | .error => .error
    | .panic => .panic

end Interp

/-! ### Setters of the four structs -/

def cdpSetters : Setters CdpField RawCdp where
  setStr f v c := match f with
    | .fetchMode => { c with fetchMode := v }
    | .strict => c
  append _ _ c := c
  setBool f b c := match f with
    | .strict => { c with strict := b }
    | .fetchMode => c
  sub _ _ := .error

def ocspSetters : Setters OcspField RawOcsp where
  setStr f v c := match f with
    | .cacheDuration => { c with cacheDuration := v }
    | _ => c
  append f v c := match f with
    | .responders => { c with responders := c.responders ++ [v] }
    | _ => c
  setBool f b c := match f with
    | .aiaStrict => { c with aiaStrict := b }
    | _ => c
  sub _ _ := .error

/-- Facts of caddyfile.go. -/
structure CaddyFacts where
  top : BlockFacts TopField
  crl : BlockFacts CrlField
  cdp : BlockFacts CdpField
  ocsp : BlockFacts OcspField
  /-- pointers set by the initial struct of `parseConfigFromCaddyfile` -/
  initCrl : Bool
  initCdp : Bool
  initOcsp : Bool

def crlSetters (K : CaddyFacts) : Setters CrlField RawCrl where
  setStr f v c := match f with
    | .workDir => { c with workDir := v }
    | .storage => { c with storage := v }
    | .interval => { c with interval := v }
    | .sigMode => { c with sigMode := v }
    | _ => c
  append f v c := match f with
    | .urls => { c with urls := c.urls ++ [v] }
    | .files => { c with files := c.files ++ [v] }
    | .signers => { c with signers := c.signers ++ [v] }
    | _ => c
  setBool _ _ c := c
  sub f blk := match f with
    | .cdp => (parseBlock K.cdp cdpSetters blk {}).map (fun r c => { c with cdp := some r })
    | _ => .error

def topSetters (K : CaddyFacts) : Setters TopField RawCfg where
  setStr f v c := match f with
    | .mode => { c with mode := v }
    | _ => c
  append _ _ c := c
  setBool _ _ c := c
  sub f blk := match f with
    | .crl => (parseBlock K.crl (crlSetters K) blk {}).map (fun r c => { c with crl := some r })
    | .ocsp => (parseBlock K.ocsp ocspSetters blk {}).map (fun r c => { c with ocsp := some r })
    | .mode => .error

/-- The struct `parseConfigFromCaddyfile` starts from. -/
def topInit (K : CaddyFacts) : RawCfg :=
  { mode := ""
    crl := if K.initCrl then some { cdp := if K.initCdp then some {} else none } else none
    ocsp := if K.initOcsp then some {} else none }

/-- caddyfile.go:parseConfigFromCaddyfile on the lines of the verifier's block. -/
def parseCaddyfile (K : CaddyFacts) (toks : List Tok) : Res RawCfg :=
  parseBlock K.top (topSetters K) toks (topInit K)

/-! ### ParseConfig / validateConfig / Provision -/

inductive PathKind | missing | file | dir
  deriving DecidableEq, Repr

/-- Oracles: std-lib and file system. -/
structure Env where
  /-- `os.Stat` -/
  path : String → PathKind
  /-- `time.ParseDuration`, nanoseconds -/
  dur : String → Option Int
  /-- `parseCertFromFile` succeeds -/
  certOk : String → Bool
  /-- the CRL configured at this url/file is loaded and accepted by `AddCRL`+`UpdateCRL` under the
      chosen signature mode and trusted signers (subject of C16/C04) -/
  crlOk : String → Bool

structure EffCdp where
  fetchMode : FetchMode
  strict : Bool
  deriving DecidableEq, Repr

/-- CRLConfig with its `…Parsed` fields. -/
structure EffCrl where
  workDir : String
  storage : Storage
  intervalNs : Int
  sigMode : SigMode
  urls : List String
  files : List String
  signers : List String
  cdp : Option EffCdp
  deriving DecidableEq, Repr

structure EffOcsp where
  cacheNs : Int
  responders : List String
  aiaStrict : Bool
  deriving DecidableEq, Repr

/-- What the provisioned validator works with. -/
structure Effective where
  mode : Mode
  crl : Option EffCrl
  ocsp : Option EffOcsp
  deriving DecidableEq, Repr

inductive CrlStep | sigMode | storage | interval | signers | cdp
  deriving DecidableEq, Repr
inductive OcspStep | cacheDuration | responders
  deriving DecidableEq, Repr
inductive ParseStep
  | crl                         -- `if CRLConfig != nil { parseCRLConfig }`
  | ocsp (elseDefault : Bool)   -- `if OCSPConfig != nil { parseOCSPConfig } else { OCSPConfig = &{…} }`
  | mode                        -- `parseMode`
  deriving DecidableEq, Repr
inductive VCheck | crlNil | workDirEmpty | statErr | notDir
  deriving DecidableEq, Repr
inductive UStep | copyMode | copyCrl | copyOcsp | parseMode | validate
  deriving DecidableEq, Repr
inductive PStep | allocCrlIfEnabled | allocOcsp | parseConfig | validate | crlProvisionIfEnabled | ocspProvision
  deriving DecidableEq, Repr

/-- Facts of configparser.go / revocation.go / config/config.go. -/
structure LoadFacts where
  parseMode : String → Option Mode
  parseSigMode : String → Option SigMode
  parseStorage : String → Option Storage
  parseFetchMode : String → Option FetchMode
  modeZero : Mode
  sigZero : SigMode
  storageZero : Storage
  fetchZero : FetchMode
  defaultIntervalNs : Int
  defaultCacheNs : Int
  /-- parseUpdateInterval / parseDefaultCacheDuration return an error for a parsed duration ≤ 0 -/
  intervalMustBePositive : Bool
  cacheMustBePositive : Bool
  /-- literal assigned when `CDPConfig == nil` -/
  nilCdpDefault : EffCdp
  /-- `DefaultCacheDurationParsed` / strict flag of the literal assigned when `OCSPConfig == nil` -/
  nilOcspDefault : EffOcsp
  crlSteps : List CrlStep
  ocspSteps : List OcspStep
  parseSteps : List ParseStep
  crlEnabled : Mode → Bool
  validateDisabledShortcut : Bool
  validateGuarded : Bool
  validateChecks : List VCheck
  unmarshalSteps : List UStep
  provisionSteps : List PStep

section Load
variable (L : LoadFacts) (env : Env)

def parseDurationField (s : String) (dflt : Int) (mustBePositive : Bool) : Res Int :=
  if s.length > 0 then
    match env.dur s with
    | some d => if mustBePositive && decide (d ≤ 0) then .error else .ok d
    | none => .error
  else .ok dflt

def optRes {α : Type} : Option α → Res α
  | some a => .ok a
  | none => .error

def crlStep (raw : RawCrl) (e : EffCrl) : CrlStep → Res EffCrl
  | .sigMode => (optRes (L.parseSigMode raw.sigMode)).map (fun m => { e with sigMode := m })
  | .storage => (optRes (L.parseStorage raw.storage)).map (fun m => { e with storage := m })
  | .interval => (parseDurationField env raw.interval L.defaultIntervalNs L.intervalMustBePositive).map (fun d => { e with intervalNs := d })
  | .signers => if raw.signers.all env.certOk then .ok e else .error
  | .cdp =>
    match raw.cdp with
    | some c => (optRes (L.parseFetchMode c.fetchMode)).map (fun m => { e with cdp := some { fetchMode := m, strict := c.strict } })
    | none => .ok { e with cdp := some L.nilCdpDefault }

def runCrlSteps (raw : RawCrl) : List CrlStep → EffCrl → Res EffCrl
  | [], e => .ok e
  | st :: rest, e =>
    match crlStep L env raw e st with
    | .ok e' => runCrlSteps raw rest e'
    | .error => .error
    | .panic => .panic

/-- The struct before any `…Parsed` field is written (zero values; a present CDPConfig keeps its flag). -/
def crlUnparsed (raw : RawCrl) : EffCrl :=
  { workDir := raw.workDir, storage := L.storageZero, intervalNs := 0, sigMode := L.sigZero,
    urls := raw.urls, files := raw.files, signers := raw.signers,
    cdp := raw.cdp.map (fun c => { fetchMode := L.fetchZero, strict := c.strict }) }

/-- configparser.go:parseCRLConfig -/
def parseCrl (raw : RawCrl) : Res EffCrl := runCrlSteps L env raw L.crlSteps (crlUnparsed L raw)

def ocspStep (raw : RawOcsp) (e : EffOcsp) : OcspStep → Res EffOcsp
  | .cacheDuration => (parseDurationField env raw.cacheDuration L.defaultCacheNs L.cacheMustBePositive).map (fun d => { e with cacheNs := d })
  | .responders => if raw.responders.all env.certOk then .ok e else .error

def runOcspSteps (raw : RawOcsp) : List OcspStep → EffOcsp → Res EffOcsp
  | [], e => .ok e
  | st :: rest, e =>
    match ocspStep L env raw e st with
    | .ok e' => runOcspSteps raw rest e'
    | .error => .error
    | .panic => .panic

/-- configparser.go:parseOCSPConfig -/
def parseOcsp (raw : RawOcsp) : Res EffOcsp :=
  runOcspSteps L env raw L.ocspSteps { cacheNs := 0, responders := raw.responders, aiaStrict := raw.aiaStrict }

/-- The validator struct: configured part, parsed part, which checkers exist. -/
structure VState where
  raw : RawCfg := {}
  modeParsed : Mode
  crlP : Option EffCrl := none
  ocspP : Option EffOcsp := none
  crlChecker : Bool := false
  ocspChecker : Bool := false
  deriving DecidableEq, Repr

def VState.zero : VState := { modeParsed := L.modeZero }

def parseStep (st : VState) : ParseStep → Res VState
  | .crl =>
    match st.raw.crl with
    | some c => (parseCrl L env c).map (fun e => { st with crlP := some e })
    | none => .ok st
  | .ocsp elseDefault =>
    match st.raw.ocsp with
    | some o => (parseOcsp L env o).map (fun e => { st with ocspP := some e })
    | none => if elseDefault then .ok { st with ocspP := some L.nilOcspDefault } else .ok st
  | .mode => (optRes (L.parseMode st.raw.mode)).map (fun m => { st with modeParsed := m })

def runParseSteps : List ParseStep → VState → Res VState
  | [], st => .ok st
  | p :: rest, st =>
    match parseStep L env st p with
    | .ok st' => runParseSteps rest st'
    | .error => .error
    | .panic => .panic

/-- configparser.go:ParseConfig -/
def parseConfig (st : VState) : Res VState := runParseSteps L env L.parseSteps st

def runChecks (crl : Option RawCrl) : List VCheck → Res Unit
  | [] => .ok ()
  | .crlNil :: rest => match crl with
    | none => .error
    | some _ => runChecks crl rest
  | .workDirEmpty :: rest => match crl with
    | none => .panic
    | some c => if c.workDir = "" then .error else runChecks crl rest
  | .statErr :: rest => match crl with
    | none => .panic
    | some c => if env.path c.workDir = .missing then .error else runChecks crl rest
  | .notDir :: rest => match crl with
    | none => .panic
    | some c => match env.path c.workDir with
      | .dir => runChecks crl rest
      | .file => .error
      | .missing => .panic   -- `stat` is nil when the stat error was not checked

/-- revocation.go:validateConfig -/
def validate (st : VState) : Res Unit :=
  if L.validateDisabledShortcut && st.modeParsed == .disabled then .ok ()
  else if L.validateGuarded && !L.crlEnabled st.modeParsed then .ok ()
  else runChecks env st.raw.crl L.validateChecks

def uStep (parsed : RawCfg) (st : VState) : UStep → Res VState
  | .copyMode => .ok { st with raw := { st.raw with mode := parsed.mode } }
  | .copyCrl => .ok { st with raw := { st.raw with crl := parsed.crl } }
  | .copyOcsp => .ok { st with raw := { st.raw with ocsp := parsed.ocsp } }
  | .parseMode => (optRes (L.parseMode st.raw.mode)).map (fun m => { st with modeParsed := m })
  | .validate => (validate L env st).map (fun _ => st)

def runUSteps (parsed : RawCfg) : List UStep → VState → Res VState
  | [], st => .ok st
  | u :: rest, st =>
    match uStep L env parsed st u with
    | .ok st' => runUSteps parsed rest st'
    | .error => .error
    | .panic => .panic

/-- crl/crlrevocationchecker.go:Provision, abstractly: configured CRLs must load, then the ticker is
created (`time.NewTicker` panics on a non-positive interval). -/
def crlProvision (e : EffCrl) : Res Unit :=
  if !(e.urls.all env.crlOk && e.files.all env.crlOk) then .error
  else if e.intervalNs ≤ 0 then .panic
  else .ok ()

def pStep (st : VState) : PStep → Res VState
  | .allocCrlIfEnabled => .ok (if L.crlEnabled st.modeParsed then { st with crlChecker := true } else st)
  | .allocOcsp => .ok { st with ocspChecker := true }
  | .parseConfig => parseConfig L env st
  | .validate => (validate L env st).map (fun _ => st)
  | .crlProvisionIfEnabled =>
    if L.crlEnabled st.modeParsed then
      if !st.crlChecker then .panic
      else match st.crlP with
        | none => .panic
        | some e => (crlProvision env e).map (fun _ => st)
    else .ok st
  | .ocspProvision => if st.ocspChecker then .ok st else .panic

def runPSteps : List PStep → VState → Res VState
  | [], st => .ok st
  | p :: rest, st =>
    match pStep L env st p with
    | .ok st' => runPSteps rest st'
    | .error => .error
    | .panic => .panic

/-- revocation.go:Provision -/
def provision (st : VState) : Res VState := runPSteps L env L.provisionSteps st

def VState.effective (st : VState) : Effective := { mode := st.modeParsed, crl := st.crlP, ocsp := st.ocspP }

/-- JSON path: `json.Unmarshal` into a fresh validator, then `Provision`. -/
def loadJSON (raw : RawCfg) : Res Effective :=
  (provision L env { VState.zero L with raw := raw }).map VState.effective

end Load

/-- All regenerated facts. -/
structure Facts where
  caddy : CaddyFacts
  load : LoadFacts

/-- revocation.go:UnmarshalCaddyfile -/
def unmarshalCaddyfile (Fx : Facts) (env : Env) (toks : List Tok) : Res VState :=
  match parseCaddyfile Fx.caddy toks with
  | .ok parsed => runUSteps Fx.load env parsed Fx.load.unmarshalSteps (VState.zero Fx.load)
  | .error => .error
  | .panic => .panic

/-- Caddyfile path: `UnmarshalCaddyfile` on a fresh validator, then `Provision`. -/
def loadCaddyfile (Fx : Facts) (env : Env) (toks : List Tok) : Res Effective :=
  match unmarshalCaddyfile Fx env toks with
  | .ok st => (provision Fx.load env st).map VState.effective
  | .error => .error
  | .panic => .panic

/-! ### Abstract settings and their two renderings -/

structure CdpCfg where
  fetchMode : Option String := none
  strict : Option Bool := none
  deriving DecidableEq, Repr

structure CrlCfg where
  workDir : Option String := none
  storage : Option String := none
  interval : Option String := none
  sigMode : Option String := none
  urls : List String := []
  files : List String := []
  signers : List String := []
  cdp : Option CdpCfg := none
  deriving DecidableEq, Repr

structure OcspCfg where
  cacheDuration : Option String := none
  responders : List String := []
  aiaStrict : Option Bool := none
  deriving DecidableEq, Repr

/-- The documented option space: every option may be omitted. -/
structure Cfg where
  mode : Option String := none
  crl : Option CrlCfg := none
  ocsp : Option OcspCfg := none
  deriving DecidableEq, Repr

/-- JSON form: an omitted member leaves the Go zero value. -/
def jsonOfCdp (c : CdpCfg) : RawCdp := { fetchMode := c.fetchMode.getD "", strict := c.strict.getD false }
def jsonOfCrl (c : CrlCfg) : RawCrl :=
  { workDir := c.workDir.getD "", storage := c.storage.getD "", interval := c.interval.getD "",
    sigMode := c.sigMode.getD "", urls := c.urls, files := c.files, signers := c.signers,
    cdp := c.cdp.map jsonOfCdp }
def jsonOfOcsp (c : OcspCfg) : RawOcsp :=
  { cacheDuration := c.cacheDuration.getD "", responders := c.responders, aiaStrict := c.aiaStrict.getD false }
def jsonOf (c : Cfg) : RawCfg :=
  { mode := c.mode.getD "", crl := c.crl.map jsonOfCrl, ocsp := c.ocsp.map jsonOfOcsp }

def line (k v : String) : Tok := .entry k [v] none
def optLine (k : String) : Option String → List Tok
  | none => []
  | some v => [line k v]
def boolStr (b : Bool) : String := if b then "true" else "false"

/-- Caddyfile form, documented directive names (README "Caddyfile Config"). -/
def renderCdp (c : CdpCfg) : List Tok :=
  optLine "crl_fetch_mode" c.fetchMode ++ optLine "crl_cdp_strict" (c.strict.map boolStr)
def renderCrl (c : CrlCfg) : List Tok :=
  optLine "work_dir" c.workDir ++ optLine "storage_type" c.storage ++ optLine "update_interval" c.interval ++
  optLine "signature_validation_mode" c.sigMode ++
  c.urls.map (line "crl_url") ++ c.files.map (line "crl_file") ++ c.signers.map (line "trusted_signature_cert_file") ++
  (match c.cdp with
   | none => []
   | some d => [.entry "cdp_config" [] (some (renderCdp d))])
def renderOcsp (c : OcspCfg) : List Tok :=
  optLine "default_cache_duration" c.cacheDuration ++ c.responders.map (line "trusted_responder_cert_file") ++
  optLine "ocsp_aia_strict" (c.aiaStrict.map boolStr)
def renderCaddyfile (c : Cfg) : List Tok :=
  optLine "mode" c.mode ++
  (match c.crl with
   | none => []
   | some d => [.entry "crl_config" [] (some (renderCrl d))]) ++
  (match c.ocsp with
   | none => []
   | some d => [.entry "ocsp_config" [] (some (renderOcsp d))])

/-- The CRL part of a validator is consulted (handshake: C03 `verify_consulted`; provisioning:
`crlProvisionIfEnabled`) only when the mode enables CRL checking; this is what two validators are
compared on. -/
def Effective.obs (crlEnabled : Mode → Bool) (e : Effective) : Effective :=
  { e with crl := if crlEnabled e.mode then e.crl else none }

end Crv.Config
