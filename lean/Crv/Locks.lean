/-
Locks (C13, C08): a generic small-step semantics of threads running *lock programs* over
mutexes and RW locks with Go's non-reentrant semantics.

A lock program is a control-flow graph whose nodes carry one instruction each
(`acq`/`rel` of a lock class in a mode, `rd`/`wr` of a shared field class, `spawn`, `pick`,
`nop`, `ret`). The concrete programs are generated from /repo's sources by
tools/extract/locks.go (`Crv.Generated.Locks`); this file only fixes their meaning.

Lock and field *classes* are instantiated per checker instance / per repository entry:
a thread carries the checker instance it belongs to (`chk`, inherited by spawned threads)
and the repository entry it currently works on (`cur`, re-chosen arbitrarily by `pick`,
which is where the source assigns its entry variable). A class of scope `glob` has one
instance, `chk` one per checker, `ent` one per (checker, entry).

Core Lean only; everything is computable (the driver executes `exec`).
-/
namespace Crv.Locks

inductive Mode | r | w
  deriving DecidableEq, Repr, Inhabited

inductive Scope | glob | chk | ent
  deriving DecidableEq, Repr, Inhabited

/-- An instance of a lock class or of a field class. -/
structure Inst where
  cls : Nat
  a : Nat
  b : Nat
  deriving DecidableEq, Repr

inductive Instr
  | acq (l : Nat) (m : Mode)   -- X.Lock() / X.RLock()
  | rel (l : Nat) (m : Mode)   -- X.Unlock() / X.RUnlock()
  | rd (f : Nat)
  | wr (f : Nat)
  | spawn (p : Nat)            -- go f(...)
  | pick                       -- the entry variable is (re)assigned
  | nop
  | ret
  deriving DecidableEq, Repr, Inhabited

/-- `held` is the annotation "lock classes (with mode) held on entry to this node, most recent
first"; it is *checked* (`consistent`), not trusted. -/
structure Node where
  instr : Instr
  succ : List Nat
  held : List (Nat × Mode)
  deriving Repr, Inhabited

structure Prog where
  name : String
  entry : Nat
  nodes : List Node
  deriving Repr, Inhabited

structure Sys where
  lockScope : List Scope
  lockRank : List Nat
  fieldScope : List Scope
  progs : List Prog
  deriving Repr, Inhabited

structure Thread where
  prog : Nat
  pc : Nat
  chk : Nat
  cur : Nat
  held : List (Inst × Mode)
  deriving DecidableEq, Repr

abbrev Config := List Thread

def inst (sc : Scope) (cls chk cur : Nat) : Inst :=
  match sc with
  | .glob => ⟨cls, 0, 0⟩
  | .chk => ⟨cls, chk, 0⟩
  | .ent => ⟨cls, chk, cur⟩

def Sys.lscope (S : Sys) (l : Nat) : Scope := S.lockScope.getD l .glob
def Sys.fscope (S : Sys) (f : Nat) : Scope := S.fieldScope.getD f .glob
def Sys.rank (S : Sys) (l : Nat) : Nat := S.lockRank.getD l 0

def Sys.lockInst (S : Sys) (l chk cur : Nat) : Inst := inst (S.lscope l) l chk cur
def Sys.fieldInst (S : Sys) (f chk cur : Nat) : Inst := inst (S.fscope f) f chk cur

def Sys.node (S : Sys) (p pc : Nat) : Option Node :=
  match S.progs[p]? with
  | some P => P.nodes[pc]?
  | none => none

/-- Can a thread take `lid` in mode `m` now? Go's locks are not reentrant: the requesting
thread's own holdings count like anybody else's (a writer request needs the lock to be free,
a reader request needs it to be free of writers). -/
def free (c : Config) (lid : Inst) : Mode → Bool
  | .w => c.all fun t => t.held.all fun h => h.1 != lid
  | .r => c.all fun t => t.held.all fun h => !(h.1 == lid && h.2 == .w)

/-- Effect of thread `t` executing its current node `n` and continuing at `s`:
the updated thread and the thread it spawns, if any. `none` = blocked (or `ret`). -/
def stepThread (S : Sys) (c : Config) (t : Thread) (n : Node) (s pv : Nat) : Option (Thread × Option Thread) :=
  match n.instr with
  | .acq l m =>
    let lid := S.lockInst l t.chk t.cur
    if free c lid m then some ({ t with pc := s, held := (lid, m) :: t.held }, none) else none
  | .rel l m =>
    let lid := S.lockInst l t.chk t.cur
    if (lid, m) ∈ t.held then some ({ t with pc := s, held := t.held.erase (lid, m) }, none) else none
  | .rd _ | .wr _ | .nop => some ({ t with pc := s }, none)
  | .pick => some ({ t with pc := s, cur := pv }, none)
  | .spawn p =>
    match S.progs[p]? with
    | some P => some ({ t with pc := s }, some { prog := p, pc := P.entry, chk := t.chk, cur := t.cur, held := [] })
    | none => none
  | .ret => none

/-- Thread `i` takes its `choice`-th successor; `pv` is the entry chosen by a `pick`. -/
def exec (S : Sys) (c : Config) (i choice pv : Nat) : Option Config :=
  match c[i]? with
  | none => none
  | some t =>
    match S.node t.prog t.pc with
    | none => none
    | some n =>
      match n.succ[choice]? with
      | none => none
      | some s =>
        match stepThread S c t n s pv with
        | none => none
        | some (t', none) => some (c.set i t')
        | some (t', some u) => some (c.set i t' ++ [u])

def Step (S : Sys) (c c' : Config) : Prop := ∃ i ch pv, exec S c i ch pv = some c'

/-- Initial configurations: any number of threads, each at the entry of some program, holding nothing. -/
def Init (S : Sys) (c : Config) : Prop :=
  ∀ t ∈ c, t.held = [] ∧ ∃ P, S.progs[t.prog]? = some P ∧ t.pc = P.entry

inductive Reachable (S : Sys) : Config → Prop
  | init {c} : Init S c → Reachable S c
  | step {c c'} : Reachable S c → Step S c c' → Reachable S c'

def Thread.finished (S : Sys) (t : Thread) : Bool :=
  match S.node t.prog t.pc with
  | some n => n.instr == .ret
  | none => false

/-- Some thread still has work to do. -/
def Unfinished (S : Sys) (c : Config) : Prop := ∃ t ∈ c, t.finished S = false

/-- Is thread `t` about to request `lid` for writing? -/
def wantsW (S : Sys) (t : Thread) (lid : Inst) : Bool :=
  match S.node t.prog t.pc with
  | some n => (match n.instr with
    | .acq l .w => S.lockInst l t.chk t.cur == lid
    | _ => false)
  | none => false

def pendingFrom (S : Sys) (lid : Inst) (i : Nat) : Nat → List Thread → Bool
  | _, [] => false
  | j, t :: ts => (j != i && wantsW S t lid) || pendingFrom S lid i (j + 1) ts

/-- Is a thread other than `i` about to request `lid` for writing (a *pending writer*)? Go's RWMutex
stops admitting readers as soon as a writer has announced itself. -/
def pendingWriter (S : Sys) (c : Config) (i : Nat) (lid : Inst) : Bool := pendingFrom S lid i 0 c

/-- Enabled under the *strictest* reading of Go's semantics: a read request is also held back by
any other thread whose next instruction is a write request for the same lock (whether or not it
has announced itself yet). `progress` shows that even so some thread can move. -/
def strictEnabled (S : Sys) (c : Config) (i : Nat) : Bool :=
  match c[i]? with
  | none => false
  | some t =>
    match S.node t.prog t.pc with
    | none => false
    | some n =>
      match n.instr with
      | .ret => false
      | .acq l .w => free c (S.lockInst l t.chk t.cur) .w
      | .acq l .r => free c (S.lockInst l t.chk t.cur) .r && !pendingWriter S c i (S.lockInst l t.chk t.cur)
      | _ => true

/-! ### Static side conditions (decidable checks over the generated programs) -/

def Node.wf (S : Sys) (len : Nat) (n : Node) : Bool :=
  n.succ.all (· < len) &&
  (match n.instr with
   | .ret => n.succ.isEmpty
   | .spawn p => !n.succ.isEmpty && p < S.progs.length
   | _ => !n.succ.isEmpty)

def Prog.wf (S : Sys) (P : Prog) : Bool :=
  P.entry < P.nodes.length && P.nodes.all (Node.wf S P.nodes.length)

def Sys.wf (S : Sys) : Bool := S.progs.all (Prog.wf S)

/-- The annotation after executing `i` with annotation `h` before; `none` = not allowed here. -/
def transfer (S : Sys) (i : Instr) (h : List (Nat × Mode)) : Option (List (Nat × Mode)) :=
  match i with
  | .acq l m => some ((l, m) :: h)
  | .rel l m => if (l, m) ∈ h then some (h.erase (l, m)) else none
  | .pick => if h.all (fun x => S.lscope x.1 != .ent) then some h else none
  | .ret => if h.isEmpty then some h else none
  | _ => some h

def Prog.consistent (S : Sys) (P : Prog) : Bool :=
  (match P.nodes[P.entry]? with | some n => n.held.isEmpty | none => false) &&
  P.nodes.all fun n =>
    match transfer S n.instr n.held with
    | none => false
    | some h' => n.succ.all fun s => match P.nodes[s]? with | some n' => n'.held == h' | none => false

/-- The `held` annotations are an inductive invariant of every program, every `rel` releases
something held in that mode, every `ret` holds nothing (no Lock without matching Unlock on any
path), and the entry variable is never re-assigned while an entry lock is held. -/
def Sys.consistent (S : Sys) : Bool := S.progs.all (Prog.consistent S)

/-- Every acquisition requests a lock class of strictly higher rank than everything held:
one strict order for all nested acquisitions; in particular no lock is requested while a lock of
the same class is held (no self-deadlock, no recursive read locking). -/
def Sys.ordered (S : Sys) : Bool :=
  S.progs.all fun P => P.nodes.all fun n =>
    match n.instr with
    | .acq l _ => n.held.all fun x => S.rank x.1 < S.rank l
    | _ => true

/-- Weaker, separately reported: no program requests a lock class it already holds. -/
def Sys.noSelfAcquire (S : Sys) : Bool :=
  S.progs.all fun P => P.nodes.all fun n =>
    match n.instr with
    | .acq l _ => n.held.all fun x => x.1 != l
    | _ => true

def scopeLe : Scope → Scope → Bool
  | .glob, _ => true
  | .chk, .chk => true
  | .chk, .ent => true
  | .ent, .ent => true
  | _, _ => false

def Sys.hasWrite (S : Sys) (f : Nat) : Bool :=
  S.progs.any fun P => P.nodes.any fun n => n.instr == .wr f

/-- Lockset discipline for field class `f` with guard lock class `g`: the guard's instance is
determined by the field's instance, and, if the field is written anywhere, every read holds the
guard (any mode) and every write holds it exclusively. -/
def Sys.locksetField (S : Sys) (g f : Nat) : Bool :=
  scopeLe (S.lscope g) (S.fscope f) &&
  (!S.hasWrite f ||
    S.progs.all fun P => P.nodes.all fun n =>
      match n.instr with
      | .rd f' => f' != f || n.held.any (fun x => x.1 == g)
      | .wr f' => f' != f || n.held.any (fun x => x.1 == g && x.2 == .w)
      | _ => true)

/-- `guards` : list of (field class, guard lock class). -/
def Sys.lockset (S : Sys) (guards : List (Nat × Nat)) : Bool :=
  guards.all fun gf => S.locksetField gf.2 gf.1

/-- The shared access thread `t` is about to perform: (field instance, isWrite). -/
def access (S : Sys) (t : Thread) : Option (Inst × Bool) :=
  match S.node t.prog t.pc with
  | some n => (match n.instr with
    | .rd f => some (S.fieldInst f t.chk t.cur, false)
    | .wr f => some (S.fieldInst f t.chk t.cur, true)
    | _ => none)
  | none => none

/-- Two distinct threads are both about to access the same instance of field class `f`, at least
one of them writing: a data race on `f` is enabled. -/
def ConflictEnabled (S : Sys) (c : Config) (f : Nat) : Prop :=
  ∃ (i j : Nat) (ti tj : Thread) (x : Inst) (wi wj : Bool), i ≠ j ∧ c[i]? = some ti ∧ c[j]? = some tj ∧
    access S ti = some (x, wi) ∧ access S tj = some (x, wj) ∧ x.cls = f ∧ (wi = true ∨ wj = true)

/-! ### Executable helpers for the driver and for counterexample replay -/

/-- Run a schedule (thread index, successor choice, pick value); `none` if some step is not enabled. -/
def runSched (S : Sys) : Config → List (Nat × Nat × Nat) → Option Config
  | c, [] => some c
  | c, (i, ch, pv) :: rest =>
    match exec S c i ch pv with
    | some c' => runSched S c' rest
    | none => none

def startThread (S : Sys) (p chk cur : Nat) : Thread :=
  { prog := p, pc := (S.progs.getD p default).entry, chk := chk, cur := cur, held := [] }

def conflictNow (S : Sys) (c : Config) (i j f : Nat) : Bool :=
  i != j &&
  match c[i]?, c[j]? with
  | some ti, some tj =>
    (match access S ti, access S tj with
     | some (x, wi), some (y, wj) => x == y && x.cls == f && (wi || wj)
     | _, _ => false)
  | _, _ => false

/-! ### path search in one program (used for witnesses and for the driver's may/must-block answers) -/

mutual
/-- Depth-first search from `pc` for a node satisfying `tgt` along nodes not satisfying `avoid`;
returns the successor choices of the path found and the visited set. -/
def dfs (P : Prog) (avoid tgt : Node → Bool) : Nat → Nat → List Nat → Option (List Nat) × List Nat
  | 0, _, vis => (none, vis)
  | fuel + 1, pc, vis =>
    if vis.contains pc then (none, vis) else
    match P.nodes[pc]? with
    | none => (none, vis)
    | some n =>
      if avoid n then (none, pc :: vis)
      else if tgt n then (some [], pc :: vis)
      else dfsSucc P avoid tgt fuel n.succ 0 (pc :: vis)
def dfsSucc (P : Prog) (avoid tgt : Node → Bool) : Nat → List Nat → Nat → List Nat → Option (List Nat) × List Nat
  | 0, _, _, vis => (none, vis)
  | _ + 1, [], _, vis => (none, vis)
  | fuel + 1, s :: ss, k, vis =>
    match dfs P avoid tgt fuel s vis with
    | (some p, v) => (some (k :: p), v)
    | (none, v) => dfsSucc P avoid tgt fuel ss (k + 1) v
end

def Prog.pathTo (P : Prog) (avoid tgt : Node → Bool) : Option (List Nat) :=
  (dfs P avoid tgt (4 * P.nodes.length + 16) P.entry []).1

/-- Schedule that moves thread `i` along the successor choices `p` (every `pick` chooses entry `pv`). -/
def schedOf (i pv : Nat) (p : List Nat) : List (Nat × Nat × Nat) := p.map fun ch => (i, ch, pv)

end Crv.Locks
