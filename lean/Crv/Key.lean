import Crv.Fnv
/-!
Store keys. Both backends build the key string of a revoked-certificate entry as
`issuer.String() + "_" + serial.String()` (separator regenerated from the source), then hash it with
`hashing.Sum64`. `issuer.String()` (pkix.RDNSequence.String) is an opaque byte string here — it may contain
any byte, including the separator. `serial.String()` is `big.Int.String()`: optional '-' then decimal
digits without leading zeros ("0" for zero).
-/
namespace Crv

/-- ASCII digit for `d < 10`. -/
def digit (d : Nat) : UInt8 := UInt8.ofNat (48 + d)

/-- Decimal digits of `n`, most significant first, with explicit fuel (structural recursion so that the
kernel can evaluate it); `decNat` supplies enough fuel. -/
def decNatF : Nat → Nat → List UInt8
  | 0, _ => []
  | f + 1, n => if n < 10 then [digit n] else decNatF f (n / 10) ++ [digit (n % 10)]

def decNat (n : Nat) : List UInt8 := decNatF (n + 1) n

/-- `big.Int.String()`. -/
def decimal (z : Int) : List UInt8 := if z < 0 then 45 :: decNat z.natAbs else decNat z.natAbs

/-- The key string of an entry. -/
def key (issuer : List UInt8) (serial : Int) : List UInt8 :=
  issuer ++ Generated.Store.keySep ++ decimal serial

/-- The 8-byte hashed key under which a key string is stored. -/
def hkey (k : List UInt8) : List UInt8 := sum64 k

/-- The four reserved key strings (metadata slots). -/
def reservedKeys : List (List UInt8) :=
  [Generated.Store.metaKey, Generated.Store.extKey, Generated.Store.sigKey, Generated.Store.locKey]

/-- No two distinct key strings of `ks` have the same FNV-1a 64 hash. -/
def CollisionFree (ks : List (List UInt8)) : Prop :=
  ∀ a ∈ ks, ∀ b ∈ ks, hkey a = hkey b → a = b

instance (ks : List (List UInt8)) : Decidable (CollisionFree ks) := by unfold CollisionFree; infer_instance

def IsDigit (b : UInt8) : Prop := 48 ≤ b.toNat ∧ b.toNat ≤ 57

end Crv
