import Crv.Generated.Store
/-!
FNV-1a 64 exactly as `core/hashing/hashes.go:Sum64`: start from `offset64`, for every byte
`hash ^= byte; hash *= prime64` (mod 2^64), output = the 8 bytes of the hash, little endian.
Offset and prime (and the statement shape of `Sum64`) are regenerated from the source on every run.
-/
namespace Crv

def fnvOffset : BitVec 64 := BitVec.ofNat 64 Generated.Store.fnvOffset
def fnvPrime : BitVec 64 := BitVec.ofNat 64 Generated.Store.fnvPrime

def fnvStep (h : BitVec 64) (b : UInt8) : BitVec 64 := (h ^^^ BitVec.ofNat 64 b.toNat) * fnvPrime

def fnv64 (bs : List UInt8) : BitVec 64 := bs.foldl fnvStep fnvOffset

/-- `binary.LittleEndian.PutUint64` on the value `n < 2^64`. -/
def le8Nat (n : Nat) : List UInt8 :=
  [UInt8.ofNat (n % 256), UInt8.ofNat (n / 256 % 256), UInt8.ofNat (n / 65536 % 256),
   UInt8.ofNat (n / 16777216 % 256), UInt8.ofNat (n / 4294967296 % 256),
   UInt8.ofNat (n / 1099511627776 % 256), UInt8.ofNat (n / 281474976710656 % 256),
   UInt8.ofNat (n / 72057594037927936 % 256)]

def le8 (h : BitVec 64) : List UInt8 := le8Nat h.toNat

/-- `hashing.Sum64(key)` as a byte string. -/
def sum64 (bs : List UInt8) : List UInt8 := le8 (fnv64 bs)

theorem fnv64_nil : fnv64 [] = fnvOffset := rfl

theorem fnv64_append (a b : List UInt8) : fnv64 (a ++ b) = b.foldl fnvStep (fnv64 a) := by
  simp [fnv64, List.foldl_append]

theorem fnv64_snoc (a : List UInt8) (b : UInt8) : fnv64 (a ++ [b]) = fnvStep (fnv64 a) b := by
  simp [fnv64_append]

theorem sum64_length (bs : List UInt8) : (sum64 bs).length = 8 := rfl

private theorem ofNat_toNat_mod (a : Nat) : (UInt8.ofNat (a % 256)).toNat = a % 256 := by
  simp [UInt8.toNat_ofNat']

/-- Value of an 8-byte little-endian string. -/
def le8Val : List UInt8 → Nat
  | [b0, b1, b2, b3, b4, b5, b6, b7] =>
    b0.toNat + 256 * b1.toNat + 65536 * b2.toNat + 16777216 * b3.toNat + 4294967296 * b4.toNat +
      1099511627776 * b5.toNat + 281474976710656 * b6.toNat + 72057594037927936 * b7.toNat
  | _ => 0

theorem le8Val_le8Nat (n : Nat) (h : n < 2 ^ 64) : le8Val (le8Nat n) = n := by
  simp only [le8Val, le8Nat, ofNat_toNat_mod]
  omega

theorem le8_injective {a b : BitVec 64} (h : le8 a = le8 b) : a = b := by
  have ha := le8Val_le8Nat a.toNat a.isLt
  have hb := le8Val_le8Nat b.toNat b.isLt
  unfold le8 at h
  rw [h] at ha
  exact BitVec.eq_of_toNat_eq (ha.symm.trans hb)

/-- The byte-string form and the 64-bit value carry the same information. -/
theorem sum64_eq_iff (a b : List UInt8) : sum64 a = sum64 b ↔ fnv64 a = fnv64 b :=
  ⟨fun h => le8_injective h, fun h => by simp [sum64, h]⟩

end Crv
