import Crv.Generated.Reader
/-!
Model of the streaming CRL reader (core/asn1parser, core/hashing/hashingreaderwrapper,
crl/crlreader, crl/crlreader/extensionsupport) — DESIGN.md §4.1.

* `Rd` is the reader state: unread input, read position, hashing flag, the bytes fed to the
  hash so far, and a ghost log of every `make([]byte, n)` request.
* Outcomes are `ok | err | panic`; `panic` models `make` with a negative size (Go's
  `int(big.Int.Int64())` narrowing) — the code paths that can reach it are exactly those the
  translator reports as uncapped.
* Leaf decoding done by `encoding/asn1` / `time.Parse` is an `Oracle` parameter; positions never
  depend on oracle answers, only "stop with error or continue" does.
-/
namespace Crv
open Crv.Generated

abbrev Bytes := List UInt8

/-- Ghost log entry: an allocation of `size` bytes requested while `avail` unread bytes remained. -/
structure Alloc where
  size : Nat
  avail : Nat
  deriving Repr, DecidableEq

/-- What the reader hands to its `CRLProcessor` (ghost log in the reader state, so that the events
emitted before a failure are visible too). Frames are the complete TLV bytes / value bytes. -/
inductive Event
  | start (issuer : Bytes) (thisUpdate : Bytes) (nextUpdate : Option Bytes)
  | insert (entry : Bytes)
  | extMeta (crlNumber : Option Nat)
  deriving Repr, DecidableEq

inductive QKind | alg | rdn | utc | entry | exts
  deriving Repr, DecidableEq

/-- Ghost log entry: the trusted leaf decoder was asked about the `len` bytes ending at the current position. -/
structure Query where
  kind : QKind
  off : Nat
  len : Nat
  deriving Repr, DecidableEq

structure Rd where
  rest : Bytes
  pos : Nat := 0
  hashing : Bool := false
  hashed : Bytes := []
  hashFrom : Nat := 0          -- ghost: position at which hashing was switched on
  allocs : List Alloc := []
  events : List Event := []
  queries : List Query := []
  deriving Repr

inductive Err
  | eof | tag | tooLong | decode | version | alg | gate | bitString | negative | stalled | range
  | lenForm | algMismatch | outerLen
  deriving Repr, DecidableEq

inductive Res (α : Type)
  | ok (a : α) (r : Rd)
  | err (e : Err) (r : Rd)
  | panic (r : Rd)

abbrev RdM (α : Type) := Rd → Res α

@[inline] def RdM.pure (a : α) : RdM α := fun r => .ok a r

@[inline] def RdM.bind (m : RdM α) (f : α → RdM β) : RdM β := fun r =>
  match m r with
  | .ok a r' => f a r'
  | .err e r' => .err e r'
  | .panic r' => .panic r'

instance : Monad RdM where
  pure := RdM.pure
  bind := RdM.bind

def fail (e : Err) : RdM α := fun r => .err e r

/-- Runs `m`, ignoring an error result (`_, _ = f(&reader)`), keeping its effect on the reader. -/
def ignoreErr (m : RdM α) : RdM Unit := fun r =>
  match m r with
  | .ok _ r' => .ok () r'
  | .err _ r' => .ok () r'
  | .panic r' => .panic r'

/-- `int(x.Int64())` for a non-negative big.Int `x`: low 64 bits, two's complement. -/
def narrow64 (n : Nat) : Int :=
  let m : Nat := n % 2 ^ 64
  if m < 2 ^ 63 then Int.ofNat m else Int.ofNat m - 2 ^ 64

/-- `ReadExpectedBytes(reader, k)`: `make([]byte, k)` then read exactly `k` bytes. -/
def readN (k : Int) : RdM Bytes := fun r =>
  if k < 0 then .panic r
  else
    let n := k.toNat
    let r1 : Rd := { r with allocs := r.allocs ++ [Alloc.mk n r.rest.length] }
    if r.rest.length < n then
      .err .eof { r1 with rest := [], pos := r.pos + r.rest.length,
                          hashed := if r.hashing then r.hashed ++ r.rest else r.hashed }
    else
      .ok (r.rest.take n) { r1 with rest := r.rest.drop n, pos := r.pos + n,
                                    hashed := if r.hashing then r.hashed ++ r.rest.take n else r.hashed }

/-- `PeekExpectedBytes(reader, n, off)`; the peeks of this reader are at most 17 bytes (< 4096 window). -/
def peekN (n off : Nat) : RdM Bytes := fun r =>
  if r.rest.length < n + off then .err .eof r
  else .ok ((r.rest.drop off).take n) { r with allocs := r.allocs ++ [Alloc.mk n r.rest.length] }

/-- `bufio.Reader.Discard(int(k))` through the hashing wrapper (position counted, never hashed: pre-scan only). -/
def discard (k : Int) : RdM Unit := fun r =>
  if k < 0 then .err .negative r
  else
    let n := k.toNat
    if r.rest.length < n then .err .eof { r with rest := [], pos := r.pos + r.rest.length }
    else .ok () { r with rest := r.rest.drop n, pos := r.pos + n }

def beNat (bs : Bytes) : Nat := bs.foldl (fun acc b => acc * 256 + b.toNat) 0

structure TL where
  tag : UInt8
  len : Nat
  lenSize : Nat
  deriving Repr, DecidableEq

def TL.tlvLen (t : TL) : Nat := 1 + t.lenSize + t.len

def readU8 : RdM UInt8 := do
  let bs ← readN 1
  match bs with
  | b :: _ => pure b
  | [] => fail .eof

def peekU8 (off : Nat) : RdM UInt8 := do
  let bs ← peekN 1 off
  match bs with
  | b :: _ => pure b
  | [] => fail .eof

/-- `expectSupportedLengthForm`: with the strict form, a long-form first byte with one of the bits `0x70` set (more than
15 length bytes — previously aliased to `0x80..0x8f`) or with count 0 (the indefinite form — previously length 0) is rejected. -/
def lenFormOk (b : UInt8) : Bool :=
  !lengthFormStrict || (b &&& 0x70 == 0 && b &&& lengthCountMask != 0)

/-- `ReadLength`: short form when bit 8 is clear, else `b & lengthMask` length bytes, big endian. -/
def readLen : RdM (Nat × Nat) := do
  let b ← readU8
  if b &&& 0x80 = 0 then pure (b.toNat, 1)
  else if !lenFormOk b then fail .lenForm
  else
    let k := (b &&& lengthCountMask).toNat
    let bs ← readN k
    pure (beNat bs, k + 1)

def peekLen (off : Nat) : RdM (Nat × Nat) := do
  let b ← peekU8 off
  if b &&& 0x80 = 0 then pure (b.toNat, 1)
  else if !lenFormOk b then fail .lenForm
  else
    let k := (b &&& lengthCountMask).toNat
    let bs ← peekN k (off + 1)
    pure (beNat bs, k + 1)

def readTL : RdM TL := do
  let t ← readU8
  let (l, s) ← readLen
  pure ⟨t, l, s⟩

def peekTL (off : Nat) : RdM TL := do
  let t ← peekU8 off
  let (l, s) ← peekLen (off + 1)
  pure ⟨t, l, s⟩

/-- `PeekTagLength(&reader, 0)` whose error only means "not present" (`versionExists`, `nextUpdateTimeExists`, …). -/
def tryPeekTL : RdM (Option TL) := fun r =>
  match peekTL 0 r with
  | .ok t _ => .ok (some t) r
  | _ => .ok none r

def expectTag (want got : UInt8) : RdM Unit :=
  if want = got then pure () else fail .tag

/-- Value bytes of an already read TL: `ReadValueBytesWithLimit` when the translator found the cap, else the raw narrowing read. -/
def readValue (cap : Option Nat) (len : Nat) : RdM Bytes :=
  match cap with
  | some c => if len > c then fail .tooLong else readN (narrow64 len)
  | none => readN (narrow64 len)

/-- `ReadStruct` up to (not including) `asn1.Unmarshal`: the whole TLV frame. -/
def readStructFrame : RdM Bytes := do
  let tl ← peekTL 0
  expectTag 0x30 tl.tag
  match structCap with
  | some c => if tl.len > c then fail .tooLong else readN (narrow64 tl.len + (tl.lenSize + 1 : Nat))
  | none => readN (narrow64 tl.len + (tl.lenSize + 1 : Nat))

structure Ext where
  oid : List Nat
  critical : Bool
  value : Bytes
  deriving Repr, DecidableEq

/-- What the trusted leaf decoders say about a frame / value. -/
structure Oracle where
  algOid : Bytes → Option (List Nat)   -- asn1.Unmarshal into pkix.AlgorithmIdentifier
  rdnOk : Bytes → Bool                 -- … into pkix.RDNSequence
  utcOk : Bytes → Bool                 -- ParseUTCTime on the value bytes
  entryOk : Bytes → Bool               -- … into pkix.RevokedCertificate
  exts : Bytes → Option (List Ext)     -- … into []pkix.Extension

def emit (e : Event) : RdM Unit := fun r => .ok () { r with events := r.events ++ [e] }

/-- Logs that the leaf decoder `k` is consulted on the `n` bytes just consumed. -/
def logQuery (k : QKind) (n : Nat) : RdM Unit := fun r =>
  .ok () { r with queries := r.queries ++ [⟨k, r.pos - n, n⟩] }

def readStruct (k : QKind) (ok : Bytes → Bool) : RdM Bytes := do
  let f ← readStructFrame
  logQuery k f.length
  if ok f then pure f else fail .decode

def readUtcTime (O : Oracle) : RdM Bytes := do
  let tl ← readTL
  expectTag tl.tag 23
  let v ← readValue utcTimeCap tl.len
  logQuery .utc v.length
  if O.utcOk v then pure v else fail .decode

structure BitStr where
  bytes : Bytes
  bitLen : Nat
  deriving Repr, DecidableEq

def lastByte : Bytes → UInt8
  | [] => 0
  | [b] => b
  | _ :: t => lastByte t

def parseBitString : RdM BitStr := do
  let tl ← readTL
  expectTag 3 tl.tag
  let v ← readValue bitStringCap tl.len
  match v with
  | [] => fail .bitString
  | p :: body =>
    let pad := p.toNat
    if pad > 7 ∨ (body.isEmpty ∧ pad > 0) ∨ (lastByte v).toNat % (2 ^ pad) ≠ 0 then fail .bitString
    else pure ⟨body, body.length * 8 - pad⟩

/-- `ReadBigInt` (tag INTEGER, unsigned big-endian value as `SetBytes`). -/
def readBigInt : RdM Nat := do
  let tl ← readTL
  expectTag 2 tl.tag
  let v ← readValue bigIntCap tl.len
  pure (beNat v)

def parseOctetString : RdM Bytes := do
  let tl ← readTL
  expectTag 4 tl.tag
  readValue octetStringCap tl.len

/-- `calculateEndPosition`: the end must fit an int64. -/
def endPosition (len : Nat) : RdM Nat := fun r =>
  if len < 2 ^ 63 ∧ len ≤ 2 ^ 63 - 1 - r.pos then .ok (r.pos + len) r else .err .range r

def getPos : RdM Nat := fun r => .ok r.pos r

structure ReadResult where
  algOid : List Nat
  hashAlg : HashAlg
  issuer : Bytes
  exts : Option (List Ext)
  sig : BitStr
  hashRegion : Bytes          -- exactly the bytes fed to the hash between Start and Finish
  hashFrom : Nat              -- ghost: file offset of the first hashed byte
  deriving Repr, DecidableEq

/-- The entry loop of `parseRevokedCertificateList`: runs while the position is before the end of
the list. Each successful iteration consumes input; the `stalled` branch exists only to make
termination evident and is proved unreachable (`Props.C07.entryLoop_never_stalls`). -/
def entryLoop (O : Oracle) (listEnd : Nat) : RdM Unit := fun r =>
  if r.pos < listEnd then
    match (do let f ← readStruct .entry O.entryOk; emit (.insert f)) r with
    | .ok _ r' =>
      if r'.rest.length < r.rest.length then entryLoop O listEnd r'
      else .err .stalled r'
    | .err e r' => .err e r'
    | .panic r' => .panic r'
  else .ok () r
termination_by r => r.rest.length

def isCtx0 (t : UInt8) : Bool := (t &&& 0xF0 == 0xA0) && (t &&& 0x0F == 0)

def oidCrlNumber : List Nat := [2, 5, 29, 20]

def findExt (oid : List Nat) : List Ext → Option Ext
  | [] => none
  | e :: es => if e.oid = oid then some e else findExt oid es

def criticalGate : List Ext → Bool
  | [] => true
  | e :: es => (!e.critical || handledCriticalOids.contains e.oid) && criticalGate es

/-- Runs a sub-reader over `bs` (as `bufio.NewReader(bytes.NewReader(bs))`), merging its allocation log. -/
def onBytes (bs : Bytes) (m : RdM α) : RdM α := fun r =>
  match m { rest := bs } with
  | .ok a r' => .ok a { r with allocs := r.allocs ++ r'.allocs }
  | .err e r' => .err e { r with allocs := r.allocs ++ r'.allocs }
  | .panic r' => .panic { r with allocs := r.allocs ++ r'.allocs }

/-- `findAlgorithmIdentifierInCRL`: first pass over the file. Returns the OID the leaf decoder found in the outer
signatureAlgorithm and the frame (complete TLV) it was decoded from. -/
def prescan (O : Oracle) : RdM (List Nat × Bytes) := do
  let outer ← readTL
  expectTag 0x30 outer.tag
  let tbs ← peekTL 0
  discard (narrow64 tbs.tlvLen)
  let f ← readStructFrame
  logQuery .alg f.length
  match O.algOid f with
  | some oid => pure (oid, f)
  | none => fail .decode

/-- The `signature` field at the start of tbsCertList. Old code: `_, _ = readAlgorithmIdentifier(&reader)` (result and
error ignored). With the comparison: decoded (an error is returned) and required to equal the outer signatureAlgorithm
(`isSameAlgorithmIdentifier`: same OID and same parameter bytes — for the strict DER decoder that is frame equality). -/
def readInnerAlg (O : Oracle) (outerFrame : Bytes) : RdM Unit :=
  if algIdsCompared then do
    let f ← readStruct .alg (fun b => (O.algOid b).isSome)
    if f = outerFrame then pure () else fail .algMismatch
  else ignoreErr readStructFrame

/-- After the signature: no unused bits (when checked), and the list ends where the outer length said (when checked). -/
def checkEnvelope (sig : BitStr) (outerEnd : Nat) : RdM Unit := do
  if sigUnusedBitsRejected && sig.bitLen % 8 != 0 then fail .bitString
  if outerLengthChecked then do
    let p ← getPos
    if p = outerEnd then pure () else fail .outerLen
  else pure ()

def setHashing (b : Bool) : RdM Unit := fun r =>
  .ok () { r with hashing := b, hashed := if b then [] else r.hashed, hashFrom := if b then r.pos else r.hashFrom }

def getHashed : RdM Bytes := fun r => .ok r.hashed r

def getHashFrom : RdM Nat := fun r => .ok r.hashFrom r

def lookupHashM (oid : List Nat) : RdM HashAlg :=
  match lookupHash oid with
  | some h => pure h
  | none => fail .alg

/-- `versionExists` / `parseVersion`: an INTEGER of length exactly 1 at this position is the version. -/
def readVersion : RdM Nat := do
  let vtl ← tryPeekTL
  let hasVersion := match vtl with | some t => t.tag == 2 && t.len == 1 | none => false
  if hasVersion then do
    ignoreErr readTL
    let b ← readU8
    pure (versionOf b)
  else pure 1

/-- `nextUpdateTimeExists` + `ReadUtcTime`. -/
def readNextUpdate (O : Oracle) : RdM (Option Bytes) := do
  let ntl ← tryPeekTL
  let hasNext := match ntl with | some t => t.tag == 23 | none => false
  if hasNext then do
    let v ← readUtcTime O
    pure (some v)
  else pure none

/-- `revokedCertificateListExists` (+ position guard) and `parseRevokedCertificateList`. -/
def readEntryList (O : Oracle) (tbsEnd : Nat) : RdM Unit := do
  let p1 ← getPos
  let ltl ← tryPeekTL
  let hasList := (!listGuardedByTbsEnd || decide (p1 < tbsEnd)) && (match ltl with | some t => t.tag == 0x30 | none => false)
  if hasList then do
    let l ← readTL
    expectTag 0x30 l.tag
    let listEnd ← endPosition l.len
    entryLoop O listEnd
  else pure ()

/-- `parseCRlNumberIfExists`. -/
def readCrlNumber (es : List Ext) : RdM (Option Nat) :=
  match findExt oidCrlNumber es with
  | some e => do
    let n ← onBytes e.value readBigInt
    pure (some n)
  | none => pure none

/-- `extensionsExists` (+ position guard), `parseExtensions`, CRL number. -/
def readExtensions (O : Oracle) (tbsEnd version : Nat) : RdM (Option (List Ext) × Option Nat) := do
  let p2 ← getPos
  let etl ← tryPeekTL
  let hasExts := (!extsGuardedByTbsEnd || decide (p2 < tbsEnd)) &&
    (match etl with | some t => decide (version > 1) && isCtx0 t.tag | none => false)
  if hasExts then do
    ignoreErr readTL
    let f ← readStructFrame
    logQuery .exts f.length
    match O.exts f with
    | none => fail .decode
    | some es => do
      let n ← readCrlNumber es
      pure (some es, n)
  else pure (none, none)

def checkGate : Option (List Ext) → RdM Unit
  | some es => if criticalGate es then pure () else fail .gate
  | none => pure ()

/-- Second pass: `ReadCRL` after the pre-scan. -/
def readBody (O : Oracle) (oid : List Nat) (outerFrame : Bytes) : RdM ReadResult := do
  let outer ← readTL
  expectTag 0x30 outer.tag
  let outerEnd ← if outerLengthChecked then endPosition outer.len else pure 0
  let hashAlg ← lookupHashM oid
  setHashing true
  let tbs ← readTL
  expectTag 0x30 tbs.tag
  let tbsEnd ← endPosition tbs.len
  let version ← readVersion
  if version > maxVersion then fail .version
  readInnerAlg O outerFrame                       -- inner AlgorithmIdentifier (`signature` field)
  let issuer ← readStruct .rdn O.rdnOk
  let thisUpdate ← readUtcTime O
  let nextUpdate ← readNextUpdate O
  emit (.start issuer thisUpdate nextUpdate)
  readEntryList O tbsEnd
  let (exts, crlNumber) ← readExtensions O tbsEnd version
  emit (.extMeta crlNumber)
  checkGate exts
  let region ← getHashed
  let hashFrom ← getHashFrom
  setHashing false
  ignoreErr readStructFrame                       -- skip outer AlgorithmIdentifier
  let sig ← parseBitString
  checkEnvelope sig outerEnd
  pure { algOid := oid, hashAlg := hashAlg, issuer := issuer, exts := exts, sig := sig, hashRegion := region, hashFrom := hashFrom }

inductive Outcome
  | ok (res : ReadResult)
  | err (e : Err)
  | panic
  deriving Repr

structure RunResult where
  outcome : Outcome
  events : List Event
  allocs : List Alloc
  queries : List Query
  finalPos : Nat

/-- `ReadCRL` on DER bytes: pre-scan on a first reader, then the body on a fresh reader over the same bytes. -/
def readCRL (O : Oracle) (file : Bytes) : RunResult :=
  match prescan O { rest := file } with
  | .err e r => ⟨.err e, [], r.allocs, r.queries, r.pos⟩
  | .panic r => ⟨.panic, [], r.allocs, r.queries, r.pos⟩
  | .ok (oid, frame) r1 =>
    match readBody O oid frame { rest := file } with
    | .ok res r2 => ⟨.ok res, r2.events, r1.allocs ++ r2.allocs, r1.queries ++ r2.queries, r2.pos⟩
    | .err e r2 => ⟨.err e, r2.events, r1.allocs ++ r2.allocs, r1.queries ++ r2.queries, r2.pos⟩
    | .panic r2 => ⟨.panic, r2.events, r1.allocs ++ r2.allocs, r1.queries ++ r2.queries, r2.pos⟩

end Crv
