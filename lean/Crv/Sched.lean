/-
Sched (C15): discrete-time model of CRL refresh scheduling.

n checker instances, each with its own update interval. An *event* is one call of `updateCRLs` at the
moment it has obtained the process-wide refresh mutex (`time`): a tick of the instance's ticker
(`forced = false`; the first one is the initial run when the ticker goroutine starts) or a forced
refresh (first use of a location in fetch_background mode). A call either skips (recently finished) or
*runs*: `Repository.UpdateCRLs` visits every location known at that moment, taking `dur` time units;
when it returns, the finish time is stamped. Where the stamp lives (per instance, or one for the whole
process), the skip rule and the statement order of `updateCRLs` are **generated facts**
(`Crv.Generated.sched*`); this file fixes their meaning.

What other instances can do to instance i is (a) delay the moment its calls obtain the mutex — that is
part of the event's `time` — and (b), only if the stamp is process-global, change its skip decisions.

Also here: the model of Provision for configured CRLs (`provision`).
Core Lean only; computable.
-/
namespace Crv.Sched

/-! ### `updateCRLs`, statement by statement -/

inductive TickStmt
  | lock                       -- crlUpdateMutex.Lock()
  | deferUnlock                -- defer crlUpdateMutex.Unlock()
  | skipIfRecentUnlessForced   -- if !forceUpdate && c.updateWasRecentlyFinished() { return }
  | deferStamp                 -- defer func() { lastCrlUpdateFinishTime = time.Now() }()
  | runAll                     -- c.crlRepository.UpdateCRLs()
  deriving DecidableEq, Repr

structure TickResult where
  ran : Bool        -- UpdateCRLs was called
  stamped : Bool    -- the finish time was recorded when the call returned
  unlocked : Bool   -- the mutex was released when the call returned
  deriving DecidableEq, Repr

structure TickState where
  locked : Bool := false
  dUnlock : Bool := false
  dStamp : Bool := false
  ran : Bool := false

def TickState.exit (s : TickState) : TickResult :=
  { ran := s.ran, stamped := s.dStamp, unlocked := !s.locked || s.dUnlock }

def runTickAux (force recent : Bool) : List TickStmt → TickState → TickResult
  | [], s => s.exit
  | .lock :: r, s => runTickAux force recent r { s with locked := true }
  | .deferUnlock :: r, s => runTickAux force recent r { s with dUnlock := true }
  | .skipIfRecentUnlessForced :: r, s => if !force && recent then s.exit else runTickAux force recent r s
  | .deferStamp :: r, s => runTickAux force recent r { s with dStamp := true }
  | .runAll :: r, s => runTickAux force recent r { s with ran := true }

def runTick (prog : List TickStmt) (force recent : Bool) : TickResult := runTickAux force recent prog {}

/-! ### events, runs, the stamp -/

structure Model where
  global : Bool                          -- is the stamp one process-wide variable?
  prog : List TickStmt
  recent : Nat → Nat → Nat → Bool        -- last now interval ↦ "recently finished"
  contOnError : Bool                     -- UpdateCRLs goes on after a failing location

structure Ev where
  inst : Nat
  forced : Bool
  time : Nat      -- when the call holds the refresh mutex and decides
  dur : Nat       -- how long UpdateCRLs takes if it runs
  deriving DecidableEq, Repr

/-- One refresh run of instance `inst`: every location known at `start` is fetched within [start, finish]. -/
structure Run where
  inst : Nat
  start : Nat
  finish : Nat
  deriving DecidableEq, Repr

def upd (f : Nat → Nat) (k v : Nat) : Nat → Nat := fun x => if x = k then v else f x

def Model.slot (M : Model) (i : Nat) : Nat := if M.global then 0 else i

/-- `last` maps a stamp slot to the last recorded finish time (0 = the zero time, never). -/
def stepEv (M : Model) (I : Nat → Nat) (last : Nat → Nat) (e : Ev) : (Nat → Nat) × Option Run :=
  let r := runTick M.prog e.forced (M.recent (last (M.slot e.inst)) e.time (I e.inst))
  let fin := e.time + (if r.ran then e.dur else 0)
  (if r.stamped then upd last (M.slot e.inst) fin else last,
   if r.ran then some ⟨e.inst, e.time, fin⟩ else none)

def exec (M : Model) (I : Nat → Nat) : (Nat → Nat) → List Ev → List Run
  | _, [] => []
  | last, e :: es =>
    match stepEv M I last e with
    | (last', some r) => r :: exec M I last' es
    | (last', none) => exec M I last' es

def finalLast (M : Model) (I : Nat → Nat) : (Nat → Nat) → List Ev → (Nat → Nat)
  | last, [] => last
  | last, e :: es => finalLast M I (stepEv M I last e).1 es

/-! ### what a run does with the locations (failures do not stop it) -/

/-- The locations attempted by one `UpdateCRLs` over `locs` when `ok l` tells whether refreshing `l` succeeds. -/
def attempted (cont : Bool) (ok : Nat → Bool) : List Nat → List Nat
  | [] => []
  | l :: ls => l :: (if ok l || cont then attempted cont ok ls else [])

/-- Version of location `l` in force after a sequence of runs; run j fetches version `pub j` and installs
it iff `ok j` (a failed refresh keeps the previous list, C08). -/
def inForce (pub : Nat → Nat) (ok : Nat → Bool) (v0 : Nat) : Nat → Nat
  | 0 => v0
  | j + 1 => if ok j then pub j else inForce pub ok v0 j

/-! ### Provision for configured CRLs -/

inductive ProvStmt | addUrls | addFiles | startTicker
  deriving DecidableEq, Repr

inductive LocStmt | addCRL | updateCRL
  deriving DecidableEq, Repr

structure RepoFacts where
  addStoresLocations : Bool
  addLoadsActively : Bool
  updateEntrySetsLoaded : Bool
  updateReturnsError : Bool

structure Entry where
  loaded : Bool
  hasLocations : Bool
  deriving DecidableEq, Repr

structure PState where
  ent : Nat → Option Entry := fun _ => none
  tickerStarted : Bool := false

def PState.find (s : PState) (l : Nat) : Option Entry := s.ent l

def PState.put (s : PState) (l : Nat) (e : Entry) : PState :=
  { s with ent := fun x => if x = l then some e else s.ent x }

/-- A location is in force when its entry exists and is loaded (lookups consult it). -/
def PState.inForce (s : PState) (l : Nat) : Bool :=
  match s.find l with
  | some e => e.loaded
  | none => false

/-- `fetchOk l`: downloading, parsing and accepting the CRL of `l` succeeds (a constant of the environment
during Provision). Returns `none` on error (the statement's `err != nil`, which the caller returns). -/
def runLocStmt (F : RepoFacts) (active : Bool) (fetchOk : Nat → Bool) (l : Nat) (s : PState) : LocStmt → Option PState
  | .addCRL =>
    -- getOrAddEntry, storeCRLLocationsIfNotLoaded, then loadActively in fetch_actively mode
    let e := match s.find l with
      | some e => e
      | none => { loaded := false, hasLocations := F.addStoresLocations }
    if active && F.addLoadsActively && !e.loaded then
      if fetchOk l then some (s.put l { e with loaded := true, hasLocations := true }) else none
    else some (s.put l e)
  | .updateCRL =>
    match s.find l with
    | none => some s
    | some e =>
      -- updateCrlEntry: needs the stored locations, fetches into a temporary store, swaps
      if e.hasLocations && fetchOk l then
        some (s.put l { e with loaded := e.loaded || F.updateEntrySetsLoaded })
      else if F.updateReturnsError then none else some s

def runLoc (F : RepoFacts) (active : Bool) (fetchOk : Nat → Bool) (prog : List LocStmt) (l : Nat) (s : PState) : Option PState :=
  prog.foldl (fun acc st => acc.bind fun s => runLocStmt F active fetchOk l s st) (some s)

def runLocs (F : RepoFacts) (active : Bool) (fetchOk : Nat → Bool) (prog : List LocStmt) : List Nat → PState → Option PState
  | [], s => some s
  | l :: ls, s =>
    match runLoc F active fetchOk prog l s with
    | some s' => runLocs F active fetchOk prog ls s'
    | none => none

structure ProvCfg where
  urls : List Nat
  files : List Nat
  active : Bool

def provision (F : RepoFacts) (urlProg fileProg : List LocStmt) (fetchOk : Nat → Bool) (cfg : ProvCfg) :
    List ProvStmt → PState → Option PState
  | [], s => some s
  | .addUrls :: r, s =>
    match runLocs F cfg.active fetchOk urlProg cfg.urls s with
    | some s' => provision F urlProg fileProg fetchOk cfg r s'
    | none => none
  | .addFiles :: r, s =>
    match runLocs F cfg.active fetchOk fileProg cfg.files s with
    | some s' => provision F urlProg fileProg fetchOk cfg r s'
    | none => none
  | .startTicker :: r, s => provision F urlProg fileProg fetchOk cfg r { s with tickerStarted := true }

/-! ### bounds used by the driver -/

/-- Bound of `bounded_refresh`: a run starts within this delay after any instant. -/
def startBound (I divisor D W : Nat) : Nat := I + I / divisor + D + W

/-- … and has fetched every location known when it started within this delay. -/
def doneBound (I divisor D W : Nat) : Nat := startBound I divisor D W + D

end Crv.Sched
