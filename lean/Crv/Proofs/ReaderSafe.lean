import Crv.Reader
/-!
Safety of the reader model for **every** input (C07): no panic, every allocation request bounded,
the entry loop never stalls. `Holds B m P`: started in a state whose allocation log is within `B`,
`m` does not panic, keeps the log within `B`, never reports `stalled`, and on success its value satisfies `P`.
-/
namespace Crv
open Crv.Generated

def AllocOK (B : Nat) (r : Rd) : Prop := ∀ a ∈ r.allocs, a.size ≤ B

def Holds (B : Nat) (m : RdM α) (P : α → Prop) : Prop :=
  ∀ r, AllocOK B r →
    match m r with
    | .ok a r' => AllocOK B r' ∧ P a
    | .err e r' => AllocOK B r' ∧ e ≠ .stalled
    | .panic _ => False

theorem holds_weaken {m : RdM α} {P Q : α → Prop} (h : Holds B m P) (hpq : ∀ a, P a → Q a) : Holds B m Q := by
  intro r hr
  have := h r hr
  split <;> simp_all

theorem holds_pure (a : α) (h : P a) : Holds B (pure a : RdM α) P := by
  intro r hr
  simp only [Pure.pure, RdM.pure]
  exact ⟨hr, h⟩

theorem holds_bind {m : RdM α} {f : α → RdM β} {P : α → Prop} {Q : β → Prop}
    (hm : Holds B m P) (hf : ∀ a, P a → Holds B (f a) Q) : Holds B (m >>= f) Q := by
  intro r hr
  have h1 := hm r hr
  simp only [Bind.bind, RdM.bind]
  cases hres : m r with
  | ok a r' =>
    simp only [hres] at h1 ⊢
    exact hf a h1.2 r' h1.1
  | err e r' =>
    simp only [hres] at h1 ⊢
    exact h1
  | panic r' =>
    simp only [hres] at h1

theorem holds_fail (e : Err) (he : e ≠ .stalled) : Holds B (fail e : RdM α) P := by
  intro r hr
  simp only [Crv.fail]
  exact ⟨hr, he⟩

theorem holds_ignoreErr {m : RdM α} (hm : Holds B m P) : Holds B (ignoreErr m) (fun _ => True) := by
  intro r hr
  have h1 := hm r hr
  simp only [Crv.ignoreErr]
  cases hres : m r with
  | ok a r' => simp only [hres] at h1 ⊢; exact ⟨h1.1, trivial⟩
  | err e r' => simp only [hres] at h1 ⊢; exact ⟨h1.1, trivial⟩
  | panic r' => simp only [hres] at h1

theorem holds_ite {c : Prop} [Decidable c] {m₁ m₂ : RdM α} (h₁ : c → Holds B m₁ P) (h₂ : ¬c → Holds B m₂ P) :
    Holds B (if c then m₁ else m₂) P := by
  split
  · exact h₁ ‹_›
  · exact h₂ ‹_›

theorem allocOK_append {r : Rd} {a : Alloc} (hr : AllocOK B r) (ha : a.size ≤ B) :
    ∀ x ∈ r.allocs ++ [a], x.size ≤ B := by
  intro x hx
  simp only [List.mem_append, List.mem_singleton] at hx
  rcases hx with hx | hx
  · exact hr x hx
  · rw [hx]; exact ha

theorem holds_readN {B : Nat} (k : Int) (h0 : 0 ≤ k) (hB : k ≤ (B : Int)) : Holds B (readN k) (fun bs => bs.length = k.toNat) := by
  intro r hr
  unfold Crv.readN
  have hneg : ¬ k < 0 := by omega
  simp only [hneg, ↓reduceIte]
  have hsz : k.toNat ≤ B := by omega
  by_cases hlen : r.rest.length < k.toNat
  · simp only [hlen, ↓reduceIte]
    exact ⟨allocOK_append hr hsz, by decide⟩
  · simp only [hlen, ↓reduceIte]
    refine ⟨allocOK_append hr hsz, ?_⟩
    rw [List.length_take]; omega

theorem holds_peekN (n off : Nat) (hB : n ≤ B) : Holds B (peekN n off) (fun bs => bs.length = n) := by
  intro r hr
  unfold Crv.peekN
  by_cases hlen : r.rest.length < n + off
  · simp only [hlen, ↓reduceIte]
    exact ⟨hr, by decide⟩
  · simp only [hlen, ↓reduceIte]
    refine ⟨allocOK_append hr hB, ?_⟩
    rw [List.length_take, List.length_drop]; omega

theorem holds_discard (k : Int) : Holds B (discard k) (fun _ => True) := by
  intro r hr
  unfold Crv.discard
  by_cases hk : k < 0
  · simp only [hk, ↓reduceIte]
    exact ⟨hr, by decide⟩
  · simp only [hk, ↓reduceIte]
    by_cases hlen : r.rest.length < k.toNat
    · simp only [hlen, ↓reduceIte]
      exact ⟨hr, by decide⟩
    · simp only [hlen, ↓reduceIte]
      exact ⟨hr, trivial⟩

theorem holds_stateOnly {f : Rd → Rd} {g : Rd → α} (hf : ∀ r, (f r).allocs = r.allocs) (hg : ∀ r, P (g r)) :
    Holds B (fun r => Res.ok (g r) (f r)) P := by
  intro r hr
  refine ⟨?_, hg r⟩
  intro a ha
  rw [hf] at ha
  exact hr a ha

end Crv

namespace Crv
open Crv.Generated

/-- The bound on every allocation request of the reader: the struct cap plus tag and length bytes. -/
def allocBound : Nat := 81920 + 17

theorem narrow64_small {n : Nat} (h : n < 2 ^ 63) : narrow64 n = (n : Int) := by
  unfold narrow64
  have h1 : n % 2 ^ 64 = n := Nat.mod_eq_of_lt (by omega)
  simp only [h1]
  have : n < 2 ^ 63 := h
  simp [this]

theorem mask_le (b : UInt8) : (b &&& lengthCountMask).toNat ≤ 15 := by
  have : (b &&& lengthCountMask).toNat = b.toNat &&& lengthCountMask.toNat := UInt8.toNat_and b lengthCountMask
  rw [this]
  exact Nat.and_le_right

section
variable {B : Nat}

theorem holds_readU8 (hB : 1 ≤ B) : Holds B readU8 (fun _ => True) := by
  unfold Crv.readU8
  apply holds_bind (holds_readN 1 (by omega) (by omega))
  intro bs _
  cases bs with
  | nil => exact holds_fail _ (by decide)
  | cons b t => exact holds_pure _ trivial

theorem holds_peekU8 (off : Nat) (hB : 1 ≤ B) : Holds B (peekU8 off) (fun _ => True) := by
  unfold Crv.peekU8
  apply holds_bind (holds_peekN 1 off hB)
  intro bs _
  cases bs with
  | nil => exact holds_fail _ (by decide)
  | cons b t => exact holds_pure _ trivial

theorem holds_readLen (hB : 15 ≤ B) : Holds B readLen (fun p => 1 ≤ p.2 ∧ p.2 ≤ 16) := by
  unfold Crv.readLen
  apply holds_bind (holds_readU8 (by omega))
  intro b _
  apply holds_ite
  · intro _; exact holds_pure _ (by simp)
  · intro _
    apply holds_ite
    · intro _; exact holds_fail _ (by decide)
    · intro _
      have hk := mask_le b
      have hk' : b.toNat &&& lengthCountMask.toNat ≤ 15 := Nat.and_le_right
      apply holds_bind (holds_readN _ (by omega) (by omega))
      intro bs _
      exact holds_pure _ (by simp; omega)

theorem holds_peekLen (off : Nat) (hB : 15 ≤ B) : Holds B (peekLen off) (fun p => 1 ≤ p.2 ∧ p.2 ≤ 16) := by
  unfold Crv.peekLen
  apply holds_bind (holds_peekU8 off (by omega))
  intro b _
  apply holds_ite
  · intro _; exact holds_pure _ (by simp)
  · intro _
    apply holds_ite
    · intro _; exact holds_fail _ (by decide)
    · intro _
      have hk := mask_le b
      have hk' : b.toNat &&& lengthCountMask.toNat ≤ 15 := Nat.and_le_right
      apply holds_bind (holds_peekN _ _ (by omega))
      intro bs _
      exact holds_pure _ (by simp; omega)

def TLOK (tl : TL) : Prop := 1 ≤ tl.lenSize ∧ tl.lenSize ≤ 16

theorem holds_readTL (hB : 15 ≤ B) : Holds B readTL TLOK := by
  unfold Crv.readTL
  apply holds_bind (holds_readU8 (by omega))
  intro t _
  apply holds_bind (holds_readLen hB)
  intro p hp
  obtain ⟨l, s⟩ := p
  exact holds_pure _ hp

theorem holds_peekTL (off : Nat) (hB : 15 ≤ B) : Holds B (peekTL off) TLOK := by
  unfold Crv.peekTL
  apply holds_bind (holds_peekU8 off (by omega))
  intro t _
  apply holds_bind (holds_peekLen _ hB)
  intro p hp
  obtain ⟨l, s⟩ := p
  exact holds_pure _ hp

theorem holds_expectTag (a b : UInt8) : Holds B (expectTag a b) (fun _ => True) := by
  unfold Crv.expectTag
  apply holds_ite
  · intro _; exact holds_pure _ trivial
  · intro _; exact holds_fail _ (by decide)

/-- A capped value read: the cap must exist (`some c`) and be within the bound. -/
theorem holds_readValue (c len : Nat) (hc : c ≤ B) (hc63 : c < 2 ^ 63) :
    Holds B (readValue (some c) len) (fun _ => True) := by
  unfold Crv.readValue
  simp only
  apply holds_ite
  · intro _; exact holds_fail _ (by decide)
  · intro h
    have hl : len ≤ c := by omega
    rw [narrow64_small (by omega)]
    exact holds_weaken (holds_readN _ (by omega) (by omega)) (fun _ _ => trivial)

end
end Crv

namespace Crv
open Crv.Generated

/-! ### Progress: successful reads shrink the input -/

/-- On success the unread input got shorter by at least `d`. -/
def Shrinks (m : RdM α) (d : Nat) : Prop :=
  ∀ r a r', m r = .ok a r' → r'.rest.length + d ≤ r.rest.length

theorem shrinks_mono {m : RdM α} {d d' : Nat} (h : Shrinks m d) (hd : d' ≤ d) : Shrinks m d' := by
  intro r a r' he; have := h r a r' he; omega

theorem shrinks_pure (a : α) : Shrinks (pure a : RdM α) 0 := by
  intro r x r' he
  simp only [Pure.pure, RdM.pure, Res.ok.injEq] at he
  rw [← he.2]; omega

theorem shrinks_fail (e : Err) (d : Nat) : Shrinks (fail e : RdM α) d := by
  intro r x r' he; simp [Crv.fail] at he

theorem shrinks_bind {m : RdM α} {f : α → RdM β} {d₁ d₂ : Nat}
    (hm : Shrinks m d₁) (hf : ∀ a, Shrinks (f a) d₂) : Shrinks (m >>= f) (d₁ + d₂) := by
  intro r b r'' he
  simp only [Bind.bind, RdM.bind] at he
  cases hres : m r with
  | ok a r' =>
    simp only [hres] at he
    have h1 := hm r a r' hres
    have h2 := hf a r' b r'' he
    omega
  | err e r' => simp [hres] at he
  | panic r' => simp [hres] at he

theorem shrinks_bind0 {m : RdM α} {f : α → RdM β} {d : Nat}
    (hm : Shrinks m 0) (hf : ∀ a, Shrinks (f a) d) : Shrinks (m >>= f) d := by
  have := shrinks_bind hm hf
  simpa using this

theorem shrinks_ite {c : Prop} [Decidable c] {m₁ m₂ : RdM α} (h₁ : Shrinks m₁ d) (h₂ : Shrinks m₂ d) :
    Shrinks (if c then m₁ else m₂) d := by
  split <;> assumption

theorem shrinks_readN (k : Int) (h0 : 0 ≤ k) : Shrinks (readN k) k.toNat := by
  intro r a r' he
  unfold Crv.readN at he
  have hneg : ¬ k < 0 := by omega
  simp only [hneg, ↓reduceIte] at he
  by_cases hlen : r.rest.length < k.toNat
  · simp [hlen] at he
  · simp only [hlen, ↓reduceIte, Res.ok.injEq] at he
    rw [← he.2]
    simp only [List.length_drop]
    omega

theorem shrinks_peekN (n off : Nat) : Shrinks (peekN n off) 0 := by
  intro r a r' he
  unfold Crv.peekN at he
  by_cases hlen : r.rest.length < n + off
  · simp [hlen] at he
  · simp only [hlen, ↓reduceIte, Res.ok.injEq] at he
    rw [← he.2]; simp

theorem shrinks_peekU8 (off : Nat) : Shrinks (peekU8 off) 0 := by
  unfold Crv.peekU8
  apply shrinks_bind0 (shrinks_peekN 1 off)
  intro bs
  cases bs with
  | nil => exact shrinks_fail _ _
  | cons b t => exact shrinks_pure _

theorem shrinks_peekLen (off : Nat) : Shrinks (peekLen off) 0 := by
  unfold Crv.peekLen
  apply shrinks_bind0 (shrinks_peekU8 off)
  intro b
  apply shrinks_ite
  · exact shrinks_pure _
  · apply shrinks_ite
    · exact shrinks_fail _ _
    · apply shrinks_bind0 (shrinks_peekN _ _)
      intro bs
      exact shrinks_pure _

theorem shrinks_peekTL (off : Nat) : Shrinks (peekTL off) 0 := by
  unfold Crv.peekTL
  apply shrinks_bind0 (shrinks_peekU8 off)
  intro t
  apply shrinks_bind0 (shrinks_peekLen _)
  intro p
  obtain ⟨l, s⟩ := p
  exact shrinks_pure _

theorem shrinks_expectTag (a b : UInt8) : Shrinks (expectTag a b) 0 := by
  unfold Crv.expectTag
  exact shrinks_ite (shrinks_pure _) (shrinks_fail _ _)

/-- With the struct cap in force, a successfully read frame consumes at least one byte. -/
theorem shrinks_readStructFrame : Shrinks readStructFrame 1 := by
  unfold Crv.readStructFrame
  apply shrinks_bind0 (shrinks_peekTL 0)
  intro tl
  apply shrinks_bind0 (shrinks_expectTag _ _)
  intro _
  simp only [structCap]
  by_cases hl : tl.len > 81920
  · simp only [hl, ↓reduceIte]
    exact shrinks_fail _ _
  · simp only [hl, ↓reduceIte]
    have hle : tl.len ≤ 81920 := by omega
    rw [narrow64_small (by omega)]
    have hk : (0 : Int) ≤ (tl.len : Int) + ((tl.lenSize + 1 : Nat) : Int) := by omega
    exact shrinks_mono (shrinks_readN _ hk) (by omega)

end Crv

namespace Crv
open Crv.Generated

/-! ### Safety of the compound parsers -/

theorem allocBound_ge : 81937 ≤ allocBound := by decide

theorem holds_readStructFrame : Holds allocBound readStructFrame (fun _ => True) := by
  unfold Crv.readStructFrame
  apply holds_bind (holds_peekTL 0 (by decide))
  intro tl htl
  apply holds_bind (holds_expectTag _ _)
  intro _ _
  simp only [structCap]
  by_cases hl : tl.len > 81920
  · simp only [hl, ↓reduceIte]
    exact holds_fail _ (by decide)
  · simp only [hl, ↓reduceIte]
    have hle : tl.len ≤ 81920 := by omega
    rw [narrow64_small (by omega)]
    obtain ⟨h1, h16⟩ := htl
    have hb : (tl.len : Int) + ((tl.lenSize + 1 : Nat) : Int) ≤ (allocBound : Int) := by
      have : allocBound = 81937 := rfl
      omega
    exact holds_weaken (holds_readN _ (by omega) hb) (fun _ _ => trivial)

theorem holds_emit (e : Event) : Holds B (emit e) (fun _ => True) := by
  intro r hr; exact ⟨hr, trivial⟩

theorem holds_logQuery (k : QKind) (n : Nat) : Holds B (logQuery k n) (fun _ => True) := by
  intro r hr; exact ⟨hr, trivial⟩

theorem holds_setHashing (b : Bool) : Holds B (setHashing b) (fun _ => True) := by
  intro r hr; exact ⟨hr, trivial⟩

theorem holds_getHashed : Holds B getHashed (fun _ => True) := by
  intro r hr; exact ⟨hr, trivial⟩

theorem holds_getHashFrom : Holds B getHashFrom (fun _ => True) := by
  intro r hr; exact ⟨hr, trivial⟩

theorem holds_getPos : Holds B getPos (fun _ => True) := by
  intro r hr; exact ⟨hr, trivial⟩

theorem holds_endPosition (len : Nat) : Holds B (endPosition len) (fun _ => True) := by
  intro r hr
  unfold Crv.endPosition
  by_cases hc : len < 2 ^ 63 ∧ len ≤ 2 ^ 63 - 1 - r.pos
  · simp only [hc, and_self, ↓reduceIte]
    exact ⟨hr, trivial⟩
  · simp only [hc, ↓reduceIte]
    exact ⟨hr, by decide⟩

theorem holds_tryPeekTL : Holds allocBound tryPeekTL (fun o => ∀ t, o = some t → TLOK t) := by
  intro r hr
  have h := holds_peekTL (B := allocBound) 0 (by decide) r hr
  unfold Crv.tryPeekTL
  cases hres : peekTL 0 r with
  | ok t r' =>
    simp only [hres] at h ⊢
    exact ⟨hr, fun t' ht' => by cases ht'; exact h.2⟩
  | err e r' => simp only; exact ⟨hr, fun t' ht' => by cases ht'⟩
  | panic r' => simp only [hres] at h

theorem holds_readStruct (k : QKind) (ok : Bytes → Bool) : Holds allocBound (readStruct k ok) (fun _ => True) := by
  unfold Crv.readStruct
  apply holds_bind holds_readStructFrame
  intro f _
  apply holds_bind (holds_logQuery _ _)
  intro _ _
  apply holds_ite
  · intro _; exact holds_pure _ trivial
  · intro _; exact holds_fail _ (by decide)

theorem holds_readUtcTime (O : Oracle) : Holds allocBound (readUtcTime O) (fun _ => True) := by
  unfold Crv.readUtcTime
  apply holds_bind (holds_readTL (by decide))
  intro tl _
  apply holds_bind (holds_expectTag _ _)
  intro _ _
  simp only [utcTimeCap]
  apply holds_bind (holds_readValue 81920 tl.len (by decide) (by decide))
  intro v _
  apply holds_bind (holds_logQuery _ _)
  intro _ _
  apply holds_ite
  · intro _; exact holds_pure _ trivial
  · intro _; exact holds_fail _ (by decide)

/-- What `parseBitString` guarantees about its result: at most 7 unused bits, none for an empty string. -/
def BitStrOK (s : BitStr) : Prop := s.bitLen % 8 = 0 → s.bitLen = 8 * s.bytes.length

theorem holds_parseBitString_post : Holds allocBound parseBitString BitStrOK := by
  unfold Crv.parseBitString
  apply holds_bind (holds_readTL (by decide))
  intro tl _
  apply holds_bind (holds_expectTag _ _)
  intro _ _
  simp only [bitStringCap]
  apply holds_bind (holds_readValue 81920 tl.len (by decide) (by decide))
  intro v _
  cases v with
  | nil => exact holds_fail _ (by decide)
  | cons p body =>
    simp only
    apply holds_ite
    · intro _; exact holds_fail _ (by decide)
    · intro hc
      apply holds_pure
      intro h8
      simp only [not_or, Nat.not_lt, not_and] at hc
      obtain ⟨h7, he, _⟩ := hc
      show body.length * 8 - p.toNat = 8 * body.length
      have h8' : (body.length * 8 - p.toNat) % 8 = 0 := h8
      cases body with
      | nil =>
        have := he rfl
        simp only [List.length_nil]
        omega
      | cons x xs =>
        simp only [List.length_cons] at h8' ⊢
        omega

theorem holds_parseBitString : Holds allocBound parseBitString (fun _ => True) :=
  holds_weaken holds_parseBitString_post (fun _ _ => trivial)

theorem holds_readBigInt : Holds allocBound readBigInt (fun _ => True) := by
  unfold Crv.readBigInt
  apply holds_bind (holds_readTL (by decide))
  intro tl _
  apply holds_bind (holds_expectTag _ _)
  intro _ _
  simp only [bigIntCap]
  apply holds_bind (holds_readValue 81920 tl.len (by decide) (by decide))
  intro v _
  exact holds_pure _ trivial

theorem holds_parseOctetString : Holds allocBound parseOctetString (fun _ => True) := by
  unfold Crv.parseOctetString
  apply holds_bind (holds_readTL (by decide))
  intro tl _
  apply holds_bind (holds_expectTag _ _)
  intro _ _
  simp only [octetStringCap]
  exact holds_readValue 81920 tl.len (by decide) (by decide)

theorem holds_onBytes (bs : Bytes) {m : RdM α} (hm : Holds B m P) : Holds B (onBytes bs m) P := by
  intro r hr
  have h0 : AllocOK B ({ rest := bs } : Rd) := by intro a ha; cases ha
  have h := hm { rest := bs } h0
  unfold Crv.onBytes
  have happ : ∀ r' : Rd, AllocOK B r' → AllocOK B { r with allocs := r.allocs ++ r'.allocs } := by
    intro r' hr' a ha
    simp only [List.mem_append] at ha
    rcases ha with ha | ha
    · exact hr a ha
    · exact hr' a ha
  cases hres : m { rest := bs } with
  | ok a r' => simp only [hres] at h ⊢; exact ⟨happ r' h.1, h.2⟩
  | err e r' => simp only [hres] at h ⊢; exact ⟨happ r' h.1, h.2⟩
  | panic r' => simp only [hres] at h

/-- One iteration body of the entry loop. -/
def entryBody (O : Oracle) : RdM Unit := do
  let f ← readStruct .entry O.entryOk
  emit (.insert f)

theorem holds_entryBody (O : Oracle) : Holds allocBound (entryBody O) (fun _ => True) := by
  unfold entryBody
  apply holds_bind (holds_readStruct _ _)
  intro f _
  exact holds_emit _

theorem shrinks_emit (e : Event) : Shrinks (emit e) 0 := by
  intro r a r' he
  simp only [Crv.emit, Res.ok.injEq] at he
  rw [← he.2]; simp

theorem shrinks_logQuery (k : QKind) (n : Nat) : Shrinks (logQuery k n) 0 := by
  intro r a r' he
  simp only [Crv.logQuery, Res.ok.injEq] at he
  rw [← he.2]; simp

theorem shrinks_entryBody (O : Oracle) : Shrinks (entryBody O) 1 := by
  unfold entryBody Crv.readStruct
  have h1 : Shrinks (do
      let f ← readStructFrame
      logQuery .entry f.length
      if O.entryOk f then pure f else fail .decode) 1 := by
    have := shrinks_bind (shrinks_readStructFrame) (f := fun f => do
      logQuery .entry f.length
      if O.entryOk f then (pure f : RdM Bytes) else fail .decode) (d₂ := 0) (by
        intro f
        apply shrinks_bind0 (shrinks_logQuery _ _)
        intro _
        exact shrinks_ite (shrinks_pure _) (shrinks_fail _ _))
    simpa using this
  have := shrinks_bind h1 (f := fun f => emit (.insert f)) (d₂ := 0) (fun f => shrinks_emit _)
  simpa using this

/-- The entry loop is safe for every input and never takes its `stalled` branch. -/
theorem holds_entryLoop (O : Oracle) (listEnd : Nat) : Holds allocBound (entryLoop O listEnd) (fun _ => True) := by
  intro r
  induction hn : r.rest.length using Nat.strongRecOn generalizing r with
  | _ n ih =>
    intro hr
    rw [entryLoop]
    by_cases hpos : r.pos < listEnd
    · simp only [hpos, ↓reduceIte]
      have hb := holds_entryBody O r hr
      have hs := shrinks_entryBody O r
      unfold entryBody at hb hs
      cases hres : (do let f ← readStruct .entry O.entryOk; emit (.insert f) : RdM Unit) r with
      | ok a r' =>
        simp only [hres] at hb ⊢
        have hlt := hs a r' hres
        have hlt' : r'.rest.length < r.rest.length := by omega
        simp only [hlt', ↓reduceIte]
        exact ih r'.rest.length (by omega) r' rfl hb.1
      | err e r' =>
        simp only [hres] at hb ⊢
        exact hb
      | panic r' =>
        simp only [hres] at hb
    · simp only [hpos, ↓reduceIte]
      exact ⟨hr, trivial⟩

end Crv

namespace Crv
open Crv.Generated

theorem holds_prescan (O : Oracle) : Holds allocBound (prescan O) (fun _ => True) := by
  unfold Crv.prescan
  apply holds_bind (holds_readTL (by decide))
  intro outer _
  apply holds_bind (holds_expectTag _ _)
  intro _ _
  apply holds_bind (holds_peekTL 0 (by decide))
  intro tbs _
  apply holds_bind (holds_discard _)
  intro _ _
  apply holds_bind holds_readStructFrame
  intro f _
  apply holds_bind (holds_logQuery _ _)
  intro _ _
  cases O.algOid f with
  | none => exact holds_fail _ (by decide)
  | some oid => exact holds_pure _ trivial

theorem holds_readInnerAlg (O : Oracle) (outerFrame : Bytes) :
    Holds allocBound (readInnerAlg O outerFrame) (fun _ => True) := by
  unfold Crv.readInnerAlg
  apply holds_ite
  · intro _
    apply holds_bind (holds_readStruct _ _)
    intro f _
    apply holds_ite
    · intro _; exact holds_pure _ trivial
    · intro _; exact holds_fail _ (by decide)
  · intro _; exact holds_ignoreErr holds_readStructFrame

/-- The envelope check lets only whole-octet signatures through (`sigUnusedBitsRejected`). -/
theorem holds_checkEnvelope (sig : BitStr) (outerEnd : Nat) :
    Holds B (checkEnvelope sig outerEnd) (fun _ => sig.bitLen % 8 = 0) := by
  unfold Crv.checkEnvelope
  apply holds_ite
  · intro _; exact holds_fail _ (by decide)
  · intro hc
    have h8 : sig.bitLen % 8 = 0 := by
      simp only [sigUnusedBitsRejected, Bool.true_and, bne_iff_ne, ne_eq, Decidable.not_not] at hc
      exact hc
    apply holds_ite
    · intro _
      apply holds_bind holds_getPos
      intro p _
      apply holds_ite
      · intro _; exact holds_pure _ h8
      · intro _; exact holds_fail _ (by decide)
    · intro _; exact holds_pure _ h8

theorem holds_lookupHashM (oid : List Nat) : Holds B (lookupHashM oid) (fun _ => True) := by
  unfold Crv.lookupHashM
  cases lookupHash oid with
  | none => exact holds_fail _ (by decide)
  | some h => exact holds_pure _ trivial

theorem holds_readVersion : Holds allocBound readVersion (fun _ => True) := by
  unfold Crv.readVersion
  apply holds_bind holds_tryPeekTL
  intro vtl _
  apply holds_ite
  · intro _
    apply holds_bind (holds_ignoreErr (holds_readTL (by decide)))
    intro _ _
    apply holds_bind (holds_readU8 (by decide))
    intro b _
    exact holds_pure _ trivial
  · intro _; exact holds_pure _ trivial

theorem holds_readNextUpdate (O : Oracle) : Holds allocBound (readNextUpdate O) (fun _ => True) := by
  unfold Crv.readNextUpdate
  apply holds_bind holds_tryPeekTL
  intro ntl _
  apply holds_ite
  · intro _
    apply holds_bind (holds_readUtcTime O)
    intro v _
    exact holds_pure _ trivial
  · intro _; exact holds_pure _ trivial

theorem holds_readEntryList (O : Oracle) (tbsEnd : Nat) : Holds allocBound (readEntryList O tbsEnd) (fun _ => True) := by
  unfold Crv.readEntryList
  apply holds_bind holds_getPos
  intro p1 _
  apply holds_bind holds_tryPeekTL
  intro ltl _
  apply holds_ite
  · intro _
    apply holds_bind (holds_readTL (by decide))
    intro l _
    apply holds_bind (holds_expectTag _ _)
    intro _ _
    apply holds_bind (holds_endPosition _)
    intro listEnd _
    exact holds_entryLoop O listEnd
  · intro _; exact holds_pure _ trivial

theorem holds_readCrlNumber (es : List Ext) : Holds allocBound (readCrlNumber es) (fun _ => True) := by
  unfold Crv.readCrlNumber
  cases findExt oidCrlNumber es with
  | none => exact holds_pure _ trivial
  | some e =>
    simp only
    apply holds_bind (holds_onBytes _ holds_readBigInt)
    intro n _
    exact holds_pure _ trivial

theorem holds_readExtensions (O : Oracle) (tbsEnd version : Nat) :
    Holds allocBound (readExtensions O tbsEnd version) (fun _ => True) := by
  unfold Crv.readExtensions
  apply holds_bind holds_getPos
  intro p2 _
  apply holds_bind holds_tryPeekTL
  intro etl _
  apply holds_ite
  · intro _
    apply holds_bind (holds_ignoreErr (holds_readTL (by decide)))
    intro _ _
    apply holds_bind holds_readStructFrame
    intro f _
    apply holds_bind (holds_logQuery _ _)
    intro _ _
    cases O.exts f with
    | none => exact holds_fail _ (by decide)
    | some es =>
      simp only
      apply holds_bind (holds_readCrlNumber es)
      intro n _
      exact holds_pure _ trivial
  · intro _; exact holds_pure _ trivial

theorem holds_checkGate (e : Option (List Ext)) : Holds B (checkGate e) (fun _ => True) := by
  cases e with
  | none => exact holds_pure _ trivial
  | some es =>
    unfold Crv.checkGate
    apply holds_ite
    · intro _; exact holds_pure _ trivial
    · intro _; exact holds_fail _ (by decide)

/-- What every successful second pass guarantees about its result, for every input: the critical-extension gate
was passed and the signature BIT STRING has no unused bits. -/
def BodyPost (res : ReadResult) : Prop :=
  (∀ es, res.exts = some es → criticalGate es = true) ∧ res.sig.bitLen % 8 = 0 ∧ res.sig.bitLen = 8 * res.sig.bytes.length

theorem holds_checkGate_post (e : Option (List Ext)) :
    Holds B (checkGate e) (fun _ => ∀ es, e = some es → criticalGate es = true) := by
  cases e with
  | none => exact holds_pure _ (by intro es h; cases h)
  | some es =>
    unfold Crv.checkGate
    apply holds_ite
    · intro hg; exact holds_pure _ (by intro es' h; cases h; exact hg)
    · intro _; exact holds_fail _ (by decide)

/-- The part of `readBody` after the outer header (the continuation of the `outerEnd` computation). -/
theorem holds_readBody_post (O : Oracle) (oid : List Nat) (outerFrame : Bytes) :
    Holds allocBound (readBody O oid outerFrame) BodyPost := by
  unfold Crv.readBody
  apply holds_bind (holds_readTL (by decide)); intro outer _
  apply holds_bind (holds_expectTag _ _); intro _ _
  have tail : ∀ outerEnd : Nat, Holds allocBound (do
      let hashAlg ← lookupHashM oid
      setHashing true
      let tbs ← readTL
      expectTag 0x30 tbs.tag
      let tbsEnd ← endPosition tbs.len
      let version ← readVersion
      if version > maxVersion then fail .version
      readInnerAlg O outerFrame
      let issuer ← readStruct .rdn O.rdnOk
      let thisUpdate ← readUtcTime O
      let nextUpdate ← readNextUpdate O
      emit (.start issuer thisUpdate nextUpdate)
      readEntryList O tbsEnd
      let (exts, crlNumber) ← readExtensions O tbsEnd version
      emit (.extMeta crlNumber)
      checkGate exts
      let region ← getHashed
      let hashFrom ← getHashFrom
      setHashing false
      ignoreErr readStructFrame
      let sig ← parseBitString
      checkEnvelope sig outerEnd
      pure ({ algOid := oid, hashAlg := hashAlg, issuer := issuer, exts := exts, sig := sig, hashRegion := region,
              hashFrom := hashFrom } : ReadResult)) BodyPost := by
    intro outerEnd
    apply holds_bind (holds_lookupHashM _); intro hashAlg _
    apply holds_bind (holds_setHashing _); intro _ _
    apply holds_bind (holds_readTL (by decide)); intro tbs _
    apply holds_bind (holds_expectTag _ _); intro _ _
    apply holds_bind (holds_endPosition _); intro tbsEnd _
    apply holds_bind holds_readVersion; intro version _
    apply holds_ite
    · intro _; exact holds_fail _ (by decide)
    · intro _
      apply holds_bind (holds_readInnerAlg O outerFrame); intro _ _
      apply holds_bind (holds_readStruct _ _); intro issuer _
      apply holds_bind (holds_readUtcTime O); intro thisUpdate _
      apply holds_bind (holds_readNextUpdate O); intro nextUpdate _
      apply holds_bind (holds_emit _); intro _ _
      apply holds_bind (holds_readEntryList O tbsEnd); intro _ _
      apply holds_bind (holds_readExtensions O tbsEnd version); intro p _
      obtain ⟨exts, crlNumber⟩ := p
      simp only
      apply holds_bind (holds_emit _); intro _ _
      apply holds_bind (holds_checkGate_post exts); intro _ hgate
      apply holds_bind holds_getHashed; intro region _
      apply holds_bind holds_getHashFrom; intro hashFrom _
      apply holds_bind (holds_setHashing _); intro _ _
      apply holds_bind (holds_ignoreErr holds_readStructFrame); intro _ _
      apply holds_bind holds_parseBitString_post; intro sig hsig
      apply holds_bind (holds_checkEnvelope sig outerEnd); intro _ h8
      exact holds_pure _ ⟨hgate, h8, hsig h8⟩
  apply holds_ite
  · intro _
    apply holds_bind (holds_endPosition _); intro outerEnd _
    exact tail outerEnd
  · intro _
    apply holds_bind (holds_pure (P := fun _ => True) _ trivial); intro outerEnd _
    exact tail outerEnd

theorem holds_readBody (O : Oracle) (oid : List Nat) (outerFrame : Bytes) :
    Holds allocBound (readBody O oid outerFrame) (fun _ => True) :=
  holds_weaken (holds_readBody_post O oid outerFrame) (fun _ _ => trivial)

theorem allocOK_init (file : Bytes) : AllocOK allocBound ({ rest := file } : Rd) := by
  intro a ha; cases ha

/-- For every oracle and every byte string: the outcome is not `panic`, it is not the `stalled`
error, and every allocation request is at most `allocBound`. -/
theorem readCRL_safe (O : Oracle) (file : Bytes) :
    (∀ a ∈ (readCRL O file).allocs, a.size ≤ allocBound) ∧
    (match (readCRL O file).outcome with | .panic => False | .err e => e ≠ .stalled | .ok _ => True) := by
  unfold Crv.readCRL
  have h1 := holds_prescan O { rest := file } (allocOK_init file)
  cases hp : prescan O { rest := file } with
  | err e r =>
    simp only [hp] at h1 ⊢
    exact ⟨h1.1, h1.2⟩
  | panic r => simp only [hp] at h1
  | ok p r1 =>
    obtain ⟨oid, frame⟩ := p
    simp only [hp] at h1 ⊢
    have h2 := holds_readBody O oid frame { rest := file } (allocOK_init file)
    cases hb : readBody O oid frame { rest := file } with
    | ok res r2 =>
      simp only [hb] at h2 ⊢
      refine ⟨?_, trivial⟩
      intro a ha
      simp only [List.mem_append] at ha
      rcases ha with ha | ha
      · exact h1.1 a ha
      · exact h2.1 a ha
    | err e r2 =>
      simp only [hb] at h2 ⊢
      refine ⟨?_, h2.2⟩
      intro a ha
      simp only [List.mem_append] at ha
      rcases ha with ha | ha
      · exact h1.1 a ha
      · exact h2.1 a ha
    | panic r2 => simp only [hb] at h2

end Crv

namespace Crv
open Crv.Generated

/-! ### The critical-extension gate holds for every successful read (all inputs) -/

theorem holds_readBody_gate (O : Oracle) (oid : List Nat) (outerFrame : Bytes) :
    Holds allocBound (readBody O oid outerFrame) (fun res => ∀ es, res.exts = some es → criticalGate es = true) :=
  holds_weaken (holds_readBody_post O oid outerFrame) (fun _ h => h.1)

end Crv
