import Crv.Ocsp
/-! Lemmas about the generic loops `inner` / `outer` of the OCSP model: for loop bodies that never `break`,
the nested loop is a single scan over the lexicographically ordered pair list, and a scan stops at the first
element whose body does not `continue`. -/
namespace Crv.Ocsp

/-- Servers × candidates in the order the nested loop visits them. -/
def pairs {α β : Type} (as : List α) (bs : List β) : List (α × β) :=
  as.flatMap (fun a => bs.map (fun b => (a, b)))

theorem inner_all_cont {β : Type} (f : β → PairOut) (l : List β) (h : ∀ y ∈ l, f y = .cont) :
    inner f l = (l, .cont) := by
  induction l with
  | nil => rfl
  | cons x xs ih =>
    have hx : f x = .cont := h x (List.mem_cons_self ..)
    have := ih (fun y hy => h y (List.mem_cons_of_mem _ hy))
    simp only [inner, hx, this]

theorem inner_first {β : Type} (f : β → PairOut) (pre : List β) (x : β) (post : List β)
    (hpre : ∀ y ∈ pre, f y = .cont) (hx : f x ≠ .cont) :
    inner f (pre ++ x :: post) = (pre ++ [x], f x) := by
  induction pre with
  | nil =>
    simp only [List.nil_append, inner]
  | cons y ys ih =>
    have hy : f y = .cont := hpre y (List.mem_cons_self ..)
    have := ih (fun z hz => hpre z (List.mem_cons_of_mem _ hz))
    simp only [List.cons_append, inner, hy, this]

/-- Every scan either runs to the end with every body continuing, or stops at the first non-continuing element. -/
theorem inner_cases {β : Type} (f : β → PairOut) (l : List β) :
    ((∀ y ∈ l, f y = .cont) ∧ inner f l = (l, .cont)) ∨
    (∃ pre x post, l = pre ++ x :: post ∧ (∀ y ∈ pre, f y = .cont) ∧ f x ≠ .cont ∧ inner f l = (pre ++ [x], f x)) := by
  induction l with
  | nil => left; exact ⟨fun _ h => absurd h List.not_mem_nil, rfl⟩
  | cons x xs ih =>
    by_cases hx : f x = .cont
    · rcases ih with ⟨hall, _⟩ | ⟨pre, y, post, hl, hpre, hy, _⟩
      · left
        have : ∀ y ∈ x :: xs, f y = .cont := by
          intro y hy
          rcases List.mem_cons.mp hy with h | h
          · exact h ▸ hx
          · exact hall y h
        exact ⟨this, inner_all_cont f _ this⟩
      · right
        refine ⟨x :: pre, y, post, by rw [hl]; rfl, ?_, hy, ?_⟩
        · intro z hz
          rcases List.mem_cons.mp hz with h | h
          · exact h ▸ hx
          · exact hpre z h
        · have hpre' : ∀ z ∈ x :: pre, f z = .cont := by
            intro z hz
            rcases List.mem_cons.mp hz with h | h
            · exact h ▸ hx
            · exact hpre z h
          have := inner_first f (x :: pre) y post hpre' hy
          rw [hl]; exact this
    · right
      refine ⟨[], x, xs, rfl, fun _ h => absurd h List.not_mem_nil, hx, ?_⟩
      exact inner_first f [] x xs (fun _ h => absurd h List.not_mem_nil) hx

theorem inner_append {β : Type} (f : β → PairOut) (l₁ l₂ : List β) :
    inner f (l₁ ++ l₂) =
      if (inner f l₁).2 = .cont then ((inner f l₁).1 ++ (inner f l₂).1, (inner f l₂).2) else inner f l₁ := by
  induction l₁ with
  | nil => simp [inner]
  | cons x xs ih =>
    cases hx : f x with
    | cont =>
      simp only [List.cons_append, inner, hx, ih]
      split <;> simp_all
    | brk => simp [inner, hx]
    | fail => simp [inner, hx]
    | answer p => simp [inner, hx]

theorem inner_map {α β : Type} (g : α → β) (f : β → PairOut) (l : List α) :
    inner f (l.map g) = (((inner (fun a => f (g a)) l).1).map g, (inner (fun a => f (g a)) l).2) := by
  induction l with
  | nil => rfl
  | cons x xs ih =>
    cases hx : f (g x) with
    | cont => simp only [List.map_cons, inner, hx, ih]
    | brk => simp [inner, hx]
    | fail => simp [inner, hx]
    | answer p => simp [inner, hx]

/-- A loop body that never breaks: the nested loop is one scan over the ordered pair list. -/
theorem outer_eq_inner_pairs {α β : Type} (tp : α → β → PairOut) (hb : ∀ a b, tp a b ≠ .brk)
    (bs : List β) (as : List α) :
    outer tp bs as = inner (fun p => tp p.1 p.2) (pairs as bs) := by
  induction as with
  | nil => rfl
  | cons a as ih =>
    have hm : inner (fun p : α × β => tp p.1 p.2) (bs.map (fun b => (a, b))) =
        (((inner (tp a) bs).1).map (fun b => (a, b)), (inner (tp a) bs).2) :=
      inner_map (fun b => (a, b)) (fun p : α × β => tp p.1 p.2) bs
    have hnb : (inner (tp a) bs).2 ≠ .brk := by
      rcases inner_cases (tp a) bs with ⟨_, h⟩ | ⟨pre, x, post, _, _, _, h⟩
      · rw [h]; simp
      · rw [h]; exact hb a x
    simp only [pairs, List.flatMap_cons] at *
    rw [inner_append, hm]
    simp only [outer]
    cases h2 : (inner (tp a) bs).2 with
    | cont => simp [ih]
    | brk => exact absurd h2 hnb
    | fail => simp
    | answer p => simp

theorem mem_pairs {α β : Type} {as : List α} {bs : List β} {p : α × β} :
    p ∈ pairs as bs ↔ p.1 ∈ as ∧ p.2 ∈ bs := by
  simp only [pairs, List.mem_flatMap, List.mem_map]
  constructor
  · rintro ⟨a, ha, b, hb, rfl⟩; exact ⟨ha, hb⟩
  · rintro ⟨ha, hb⟩; exact ⟨p.1, ha, p.2, hb, rfl⟩

end Crv.Ocsp
