import Crv.Proofs.Paths
import Crv.Proofs.PathsOps
/-! Lemmas about the lifecycle machine (Part D of `Crv.Paths`) instantiated with the regenerated facts. -/
namespace Crv.Paths
open Crv.Generated

/-! ### fresh temporary names -/

theorem le_foldl_max (l : List Nat) (a : Nat) : a ≤ l.foldl max a := by
  induction l generalizing a with
  | nil => exact Nat.le_refl _
  | cons x l ih => exact Nat.le_trans (Nat.le_max_left a x) (ih _)

theorem mem_le_foldl_max (l : List Nat) (a x : Nat) (h : x ∈ l) : x ≤ l.foldl max a := by
  induction l generalizing a with
  | nil => cases h
  | cons y l ih =>
    rcases List.mem_cons.mp h with e | e
    · subst e; exact Nat.le_trans (Nat.le_max_right a x) (le_foldl_max l _)
    · exact ih _ e

theorem length_lt_freshLen (fs : Fs) (e : Name × Node) (h : e ∈ fs) : e.1.length < freshLen fs := by
  unfold freshLen
  have : e.1.length ∈ fs.map (fun e => e.1.length) := List.mem_map.mpr ⟨e, h, rfl⟩
  have := mem_le_foldl_max _ 0 _ this
  omega

theorem get_none_of_not_mem (fs : Fs) (n : Name) (h : ∀ e ∈ fs, e.1 ≠ n) : Fs.get fs n = none := by
  induction fs with
  | nil => rfl
  | cons e rest ih =>
    obtain ⟨k, x⟩ := e
    simp only [Fs.get]
    rw [if_neg (h (k, x) (by simp)), ih (fun e he => h e (by simp [he]))]

theorem get_none_of_long (fs : Fs) (n : Name) (h : freshLen fs ≤ n.length) : Fs.get fs n = none := by
  apply get_none_of_not_mem
  intro e he heq
  have := length_lt_freshLen fs e he
  rw [heq] at this
  omega

theorem tmpName_length (F : Facts) (len : Nat) :
    (tmpName F len).length = F.tempPrefix.length + len + F.tempSuffix.length := by
  simp [tmpName, Nat.add_assoc]

theorem tmpName_matches (F : Facts) (len : Nat) : matchesTemp F (tmpName F len) = true := by
  unfold matchesTemp tmpName
  rw [matchesPattern_iff]
  refine ⟨List.replicate len 120, rfl, ?_⟩
  intro h
  have := List.eq_of_mem_replicate h
  exact absurd this (by decide)

theorem mkScn_namesOk (sys : Sys) (v : Bool) (id : Name) (o : Origin) (hl : Bool) (hid : matchesTemp pathFacts id = false) :
    NamesOk (mkScn pathFacts sys v id o hl) (Fs.get sys.fs) := by
  have hne : ∀ len, tmpName pathFacts len ≠ id := by
    intro len e
    have := tmpName_matches pathFacts len
    rw [e, hid] at this; cases this
  have hlen : ∀ a b, a ≠ b → tmpName pathFacts a ≠ tmpName pathFacts b := by
    intro a b hab e
    have := congrArg List.length e
    rw [tmpName_length, tmpName_length] at this
    omega
  have hfresh : ∀ len, freshLen sys.fs ≤ len → Fs.get sys.fs (tmpName pathFacts len) = none := by
    intro len h
    apply get_none_of_long
    rw [tmpName_length]; omega
  exact { ts := hlen _ _ (by omega), ta := hlen _ _ (by omega), sa := hlen _ _ (by omega),
          tid := hne _, sid := hne _, aid := hne _,
          ft := hfresh _ (Nat.le_refl _), fs := hfresh _ (by omega), fa := hfresh _ (by omega) }

/-! ### handles -/

theorem mem_addH (h : List Name) (m n : Name) : n ∈ addH h m ↔ n = m ∨ n ∈ h := by
  unfold addH
  split
  · next hm => constructor
               · exact Or.inr
               · rintro (e | e)
                 · exact e ▸ hm
                 · exact e
  · simp

theorem runHandles_append (a b : List Step) (h : List Name) : runHandles (a ++ b) h = runHandles b (runHandles a h) := by
  simp [runHandles, List.foldl_append]

theorem runHandles_inert (l : List Step) (h : List Name)
    (hl : ∀ st ∈ l, (∃ n k v, st = Step.put n k v) ∨ (∃ x, st = Step.hit x) ∨ (∃ n, st = Step.mkFile n) ∨
      (∃ n, st = Step.writeFile n) ∨ (∃ n, st = Step.rmFile n)) : runHandles l h = h := by
  induction l generalizing h with
  | nil => rfl
  | cons st l ih =>
    simp only [runHandles, List.foldl_cons] at ih ⊢
    have : st.handles h = h := by
      rcases hl st (by simp) with ⟨n, k, v, e⟩ | ⟨x, e⟩ | ⟨n, e⟩ | ⟨n, e⟩ | ⟨n, e⟩ <;> subst e <;> rfl
    rw [this]
    exact ih h (fun s hs => hl s (by simp [hs]))

theorem runHandles_writeSteps (F : Facts) (dir : Name) (ws : List (DbKey × Nat)) (h : List Name) :
    runHandles (writeSteps F dir ws) h = h := by
  apply runHandles_inert
  intro st hst
  simp only [writeSteps, List.mem_flatMap, List.mem_cons, List.mem_map] at hst
  obtain ⟨w, _, e | ⟨x, _, e⟩⟩ := hst
  · exact Or.inl ⟨_, _, _, e⟩
  · exact Or.inr (Or.inl ⟨x, e.symm⟩)

theorem runHandles_preSteps (hn : String) (sc : Scn) (ws : List (DbKey × Nat)) (wl : Bool) (h : List Name) :
    runHandles (preSteps hn sc ws wl) h = addH h sc.s := by
  unfold preSteps
  rw [runHandles_append, runHandles_append, runHandles_writeSteps]
  cases wl <;> simp [locPart, runHandles, Step.handles]

theorem runHandles_sigPart (hn : String) (sc : Scn) (d : Doc) (h : List Name) : runHandles (sigPart hn sc d) h = h := by
  unfold sigPart
  cases sc.sigChecked <;> cases d.sigOk <;> simp [runHandles, Step.handles]

theorem runHandles_hits (hs : List String) (h : List Name) : runHandles (hs.map Step.hit) h = h := by
  apply runHandles_inert
  intro st hst
  obtain ⟨x, _, e⟩ := List.mem_map.mp hst
  exact Or.inr (Or.inl ⟨x, e.symm⟩)

/-- What a complete load or refresh does to the set of open handles: nothing new stays open except the live store. -/
structure HShape (sc : Scn) (steps : List Step) : Prop where
  sub : ∀ h n, n ∈ runHandles steps h → n ∈ h ∨ n = sc.id

theorem hshape_temp_file (sc : Scn) (hs : List String) :
    HShape sc ([Step.mkFile sc.t, Step.writeFile sc.t] ++ hs.map Step.hit ++ [Step.rmFile sc.t]) := by
  refine ⟨fun h n hn => Or.inl ?_⟩
  rw [runHandles_append, runHandles_append, runHandles_hits] at hn
  simpa [runHandles, Step.handles] using hn

theorem hshape_abort (sc : Scn) (wl : Bool) (ws : List (DbKey × Nat)) (hs : List String) :
    HShape sc (preSteps "" sc ws wl ++ hs.map Step.hit ++ abortSteps sc) := by
  refine ⟨fun h n hn => Or.inl ?_⟩
  rw [runHandles_append, runHandles_append, runHandles_preSteps, runHandles_hits] at hn
  simp only [abortSteps, runHandles, List.foldl_cons, List.foldl_nil, Step.handles, List.mem_filter, mem_addH] at hn
  rcases hn.1 with e | e
  · simp [e] at hn
  · exact e

theorem hshape_accept (sc : Scn) (wl : Bool) (d : Doc) (a b c : String) :
    HShape sc (preSteps "" sc (readWrites d) wl ++ sigPart a sc d ++ postSteps b c sc) := by
  refine ⟨fun h n hn => ?_⟩
  rw [runHandles_append, runHandles_append, runHandles_preSteps, runHandles_sigPart] at hn
  simp only [postSteps, runHandles, List.foldl_cons, List.foldl_nil, Step.handles, List.mem_filter, mem_addH] at hn
  rcases hn with e | ⟨⟨e, _⟩, hs⟩
  · exact Or.inr e
  · rcases e with e | e
    · simp [e] at hs
    · exact Or.inl e

theorem load_hshape (sc : Scn) : HShape sc (loadSteps pathFacts sc) := by
  cases hd : sc.disk with
  | false => rw [loadSteps_memory sc hd]; exact hshape_temp_file sc _
  | true =>
    cases ho : sc.origin with
    | down => rw [loadSteps_down sc ho]; exact hshape_temp_file sc []
    | broken d j => rw [loadSteps_broken sc d j hd ho]; simpa using hshape_abort sc sc.hasLoc ((headWrites d).take j) []
    | doc d =>
      cases ha : accepted sc with
      | none => rw [loadSteps_rejected sc d hd ho ha]; simpa using hshape_abort sc sc.hasLoc (readWrites d) ["repo.load.sig-checked"]
      | some d' =>
        have hdd : d' = d := by
          rw [accepted_doc sc d ho] at ha
          split at ha <;> simp_all
        subst hdd
        rw [loadSteps_accepted sc d' hd ho ha]; exact hshape_accept sc _ d' _ _ _

theorem refresh_hshape (sc : Scn) : HShape sc (refreshSteps pathFacts sc) := by
  cases hd : sc.disk with
  | false => rw [refreshSteps_memory sc hd]; exact hshape_temp_file sc _
  | true =>
    cases ho : sc.origin with
    | down => rw [refreshSteps_down sc ho]; exact hshape_temp_file sc []
    | broken d j => rw [refreshSteps_broken sc d j hd ho]; simpa using hshape_abort sc true ((headWrites d).take j) []
    | doc d =>
      cases ha : accepted sc with
      | none => rw [refreshSteps_rejected sc d hd ho ha]; simpa using hshape_abort sc true (readWrites d) ["repo.refresh.sig-checked"]
      | some d' =>
        have hdd : d' = d := by
          rw [accepted_doc sc d ho] at ha
          split at ha <;> simp_all
        subst hdd
        rw [refreshSteps_accepted sc d' hd ho ha]; exact hshape_accept sc _ d' _ _ _

/-! ### what a repository operation may change -/

def HandlesOk (sys : Sys) : Prop := ∀ h ∈ sys.handles, hasEntry sys.inst.entries h = true

/-- `b` results from `a` by repository operations (entries added, loads, refreshes). -/
structure RepoStep (a b : Sys) : Prop where
  disk : b.disk = a.disk
  wd : b.wd = a.wd
  registered : b.registered = a.registered
  cfgSet : b.inst.cfgSet = a.inst.cfgSet
  repo : b.inst.repo = a.inst.repo
  ticker : b.inst.ticker = a.inst.ticker
  stop : b.inst.stop = a.inst.stop
  dropped : b.dropped = a.dropped
  entries : ∀ h, hasEntry a.inst.entries h = true → hasEntry b.inst.entries h = true
  handles : HandlesOk a → HandlesOk b
  temp : ∀ n, matchesTemp pathFacts n = true → Fs.get b.fs n = Fs.get a.fs n
  dirs : ∀ n img, Fs.get a.fs n = some (.dir img) → ∃ img', Fs.get b.fs n = some (.dir img')

theorem RepoStep.refl (a : Sys) : RepoStep a a :=
  ⟨rfl, rfl, rfl, rfl, rfl, rfl, rfl, rfl, fun _ h => h, fun h => h, fun _ _ => rfl, fun _ img h => ⟨img, h⟩⟩

theorem RepoStep.trans {a b c : Sys} (x : RepoStep a b) (y : RepoStep b c) : RepoStep a c :=
  ⟨y.disk.trans x.disk, y.wd.trans x.wd, y.registered.trans x.registered, y.cfgSet.trans x.cfgSet, y.repo.trans x.repo,
   y.ticker.trans x.ticker, y.stop.trans x.stop, y.dropped.trans x.dropped,
   fun h hh => y.entries h (x.entries h hh), fun h => y.handles (x.handles h),
   fun n hn => (y.temp n hn).trans (x.temp n hn),
   fun n img h => by obtain ⟨i, hi⟩ := x.dirs n img h; exact y.dirs n i hi⟩

theorem hasEntry_setLoaded (es : List (Name × Bool)) (id h : Name) (b : Bool) :
    hasEntry (setLoaded es id b) h = hasEntry es h := by
  induction es with
  | nil => rfl
  | cons e rest ih =>
    simp only [setLoaded, List.map_cons, hasEntry, List.any_cons] at ih ⊢
    rw [ih]
    by_cases he : e.1 = id <;> simp [he]

/-- Running the steps of a load / refresh with fresh names. -/
theorem repoStep_steps (sys : Sys) (sc : Scn) (wl : Bool) (steps : List Step) (S : Shape sc wl steps) (H : HShape sc steps)
    (hn : NamesOk sc (Fs.get sys.fs)) (hid : matchesTemp pathFacts sc.id = false)
    (he : sys.disk = true → hasEntry sys.inst.entries sc.id = true) (hdisk : sc.disk = sys.disk)
    (hh : sys.disk = false → runHandles steps sys.handles = sys.handles) :
    RepoStep sys (applySteps sys steps) := by
  have hfs : Fs.get (applySteps sys steps).fs = runF steps (Fs.get sys.fs) := get_run _ _
  refine ⟨rfl, rfl, rfl, rfl, rfl, rfl, rfl, rfl, fun _ h => h, ?_, ?_, ?_⟩
  · intro ok h hmem
    show hasEntry sys.inst.entries h = true
    cases hd : sys.disk with
    | false =>
      have : (applySteps sys steps).handles = sys.handles := hh hd
      rw [this] at hmem; exact ok h hmem
    | true =>
      rcases H.sub _ _ hmem with e | e
      · exact ok h e
      · rw [e]; exact he hd
  · intro n hn'
    rw [hfs]
    rcases S.full _ hn with e | ⟨d, _, _, e⟩
    · rw [e]
    · rw [e, upd_ne]
      intro e'; rw [e', hid] at hn'; cases hn'
  · intro n img h
    rw [hfs]
    rcases S.full _ hn with e | ⟨d, _, _, e⟩
    · rw [e]; exact ⟨img, h⟩
    · rw [e]
      by_cases hnid : n = sc.id
      · subst hnid; exact ⟨stagedOf sc d wl, by simp⟩
      · rw [upd_ne _ _ _ _ hnid]; exact ⟨img, h⟩

theorem runHandles_memory (sc : Scn) (hd : sc.disk = false) (h : List Name) :
    runHandles (loadSteps pathFacts sc) h = h ∧ runHandles (refreshSteps pathFacts sc) h = h := by
  rw [loadSteps_memory sc hd, refreshSteps_memory sc hd]
  constructor <;>
  · rw [runHandles_append, runHandles_append, runHandles_hits]
    simp [runHandles, Step.handles]

theorem repoStep_doLoad (v : Bool) (sys : Sys) (id : Name) (o : Origin) (hid : matchesTemp pathFacts id = false)
    (he : hasEntry sys.inst.entries id = true) : RepoStep sys (doLoad pathFacts v sys id o).1 := by
  have base := repoStep_steps sys (mkScn pathFacts sys v id o sys.disk) _ _ (load_shape _) (load_hshape _)
    (mkScn_namesOk sys v id o _ hid) hid (fun _ => he) rfl (fun hd => (runHandles_memory _ hd _).1)
  unfold doLoad
  simp only []
  split
  · refine RepoStep.trans base ⟨rfl, rfl, rfl, rfl, rfl, rfl, rfl, rfl, ?_, ?_, fun _ _ => rfl, fun _ img h => ⟨img, h⟩⟩
    · intro h hh; simpa [hasEntry_setLoaded] using hh
    · intro ok h hmem; simpa [hasEntry_setLoaded] using ok h hmem
  · exact base

theorem repoStep_doRefresh (v : Bool) (sys : Sys) (id : Name) (o : Origin) (hid : matchesTemp pathFacts id = false)
    (he : hasEntry sys.inst.entries id = true) : RepoStep sys (doRefresh pathFacts v sys id o).1 := by
  have base := repoStep_steps sys (mkScn pathFacts sys v id o true) _ _ (refresh_shape _) (refresh_hshape _)
    (mkScn_namesOk sys v id o _ hid) hid (fun _ => he) rfl (fun hd => (runHandles_memory _ hd _).2)
  unfold doRefresh
  simp only []
  split <;> exact base

theorem hasEntry_cons (es : List (Name × Bool)) (id h : Name) (b : Bool) :
    hasEntry ((id, b) :: es) h = (decide (id = h) || hasEntry es h) := by
  simp [hasEntry]

/-- Steps that only open the live store or write into it. -/
def LiveOnly (id : Name) (l : List Step) : Prop := ∀ st ∈ l, st = Step.openStore id ∨ ∃ k v, st = Step.put id k v

theorem liveOnly_frame (id : Name) (l : List Step) (hl : LiveOnly id l) (f : FsF) (n : Name) (hn : n ≠ id) :
    runF l f n = f n := by
  apply runF_frame
  intro st hst
  rcases hl st hst with e | ⟨k, v, e⟩ <;> subst e <;> simpa [Step.names] using hn

theorem liveOnly_dirs (id : Name) (l : List Step) (hl : LiveOnly id l) (f : FsF) (n : Name) (img : DbImage)
    (h : f n = some (.dir img)) : ∃ img', runF l f n = some (.dir img') := by
  induction l generalizing f img with
  | nil => exact ⟨img, h⟩
  | cons st l ih =>
    have hl' : LiveOnly id l := fun s hs => hl s (by simp [hs])
    simp only [runF_cons]
    have one : ∃ img', st.applyF f n = some (.dir img') := by
      by_cases hn : n = id
      · subst hn
        rcases hl st (by simp) with e | ⟨k, v, e⟩ <;> subst e
        · exact ⟨img, by simp [Step.applyF, h]⟩
        · exact ⟨img.put k v, by simp [Step.applyF, h]⟩
      · refine ⟨img, ?_⟩
        rw [applyF_frame _ _ _ _, h]
        rcases hl st (by simp) with e | ⟨k, v, e⟩ <;> subst e <;> simpa [Step.names] using hn
    obtain ⟨i, hi⟩ := one
    exact ih hl' _ i hi

theorem liveOnly_handles (id : Name) (l : List Step) (hl : LiveOnly id l) (hs : List Name) (h : Name)
    (hm : h ∈ runHandles l hs) : h = id ∨ h ∈ hs := by
  induction l generalizing hs with
  | nil => exact Or.inr hm
  | cons st l ih =>
    have hl' : LiveOnly id l := fun s hs => hl s (by simp [hs])
    simp only [runHandles, List.foldl_cons] at hm ih
    rcases ih hl' _ hm with e | e
    · exact Or.inl e
    · rcases hl st (by simp) with e' | ⟨k, v, e'⟩ <;> subst e'
      · simpa [Step.handles, mem_addH] using e
      · exact Or.inr (by simpa [Step.handles] using e)

/-- Adding an entry: the live store is opened (created) and possibly written, the entry appears in the repository. -/
theorem repoStep_entry (sys : Sys) (id : Name) (b : Bool) (l : List Step) (hl : LiveOnly id l)
    (hid : matchesTemp pathFacts id = false) :
    RepoStep sys { applySteps sys l with inst := { sys.inst with entries := (id, b) :: sys.inst.entries } } := by
  have hfs : Fs.get (applySteps sys l).fs = runF l (Fs.get sys.fs) := get_run _ _
  refine ⟨rfl, rfl, rfl, rfl, rfl, rfl, rfl, rfl, ?_, ?_, ?_, ?_⟩
  · intro h hh; simp [hasEntry_cons, hh]
  · intro ok h hmem
    have hmem' : h ∈ runHandles l sys.handles := hmem
    rcases liveOnly_handles id l hl _ _ hmem' with e | e
    · simp [hasEntry_cons, e]
    · simp [hasEntry_cons, ok h e]
  · intro n hn
    show Fs.get (applySteps sys l).fs n = _
    rw [hfs]
    exact liveOnly_frame id l hl _ n (fun e => by rw [e, hid] at hn; cases hn)
  · intro n img h
    show ∃ img', Fs.get (applySteps sys l).fs n = _
    rw [hfs]
    exact liveOnly_dirs id l hl _ n img h

theorem applySteps_append (sys : Sys) (a b : List Step) : applySteps (applySteps sys a) b = applySteps sys (a ++ b) := by
  simp [applySteps, run, runHandles, List.foldl_append]

theorem repoStep_addEntry (sys : Sys) (id : Name) (hid : matchesTemp pathFacts id = false) :
    RepoStep sys (addEntry sys id) ∧ hasEntry (addEntry sys id).inst.entries id = true := by
  unfold addEntry
  cases hex : hasEntry sys.inst.entries id with
  | true => simp only [↓reduceIte]; exact ⟨RepoStep.refl _, hex⟩
  | false =>
    simp only [Bool.false_eq_true, ↓reduceIte]
    cases hd : sys.disk with
    | false =>
      simp only [Bool.false_eq_true, ↓reduceIte, Bool.false_and, Bool.not_false, Bool.and_true]
      have := repoStep_entry sys id false [] (fun _ h => by cases h) hid
      exact ⟨by simpa [applySteps, run, runHandles] using this, by simp [hasEntry]⟩
    | true =>
      simp only [↓reduceIte, Bool.true_and]
      split
      · have := repoStep_entry sys id (imageLoaded (applySteps sys [Step.openStore id]).fs id)
          [Step.openStore id, Step.put id .locations 0]
          (by intro st h; simp at h; rcases h with e | e <;> subst e <;> simp) hid
        refine ⟨?_, by simp [hasEntry]⟩
        rw [applySteps_append sys [Step.openStore id] [Step.put id .locations 0]]
        exact this
      · have := repoStep_entry sys id (imageLoaded (applySteps sys [Step.openStore id]).fs id)
          [Step.openStore id] (by intro st h; simp at h; subst h; simp) hid
        exact ⟨this, by simp [hasEntry]⟩

end Crv.Paths
