import Crv.Ocsp
/-! Authenticity of accepted OCSP responses (C05): `parseOcsp` (canonical shape) accepts a body exactly when it is a
well-formed, successful response that carries a status for the certificate's serial and is signed by an issuer
candidate or by a responder that candidate authorised. -/
namespace Crv.Ocsp

variable (V : Key → Signed → Bool)

/-- The response contains a status for serial `n`. -/
def HasSerial (r : Resp) (n : Nat) : Prop := ∃ s ∈ r.singles, s.serial = n

/-- The response is signed by candidate `c` directly, or by an embedded responder certificate that `c` signed and that
is `c` itself or carries the OCSPSigning extended key usage. -/
def SignedFor (c : Cand) (r : Resp) : Prop :=
  (r.embedded = none ∧ V c.key r.signed = true) ∨
  (∃ e, r.embedded = some e ∧ V c.key e.certSigned = true ∧ (e.certId = c.certId ∨ e.ocspEku = true) ∧
        V e.key r.signed = true)

/-- C05's notion of an authentic answer for `cert` under the issuer candidates `cands`. -/
def Authentic (cert : Cert) (cands : List Cand) (r : Resp) : Prop :=
  r.respStatus = 0 ∧ HasSerial r cert.serial ∧ ∃ c ∈ cands, SignedFor V c r

/-- The first single response for the serial (the one the library reports). -/
def firstFor (r : Resp) (n : Nat) : Option Single := r.singles.find? (fun s => s.serial == n)

/-- Syntactic well-formedness the library additionally insists on (none of it is about who signed or for whom). -/
def WellFormed (r : Resp) (n : Nat) : Prop :=
  r.typeBasic = true ∧ r.basicParses = true ∧ r.responderIdOk = true ∧
  (∀ e, r.embedded = some e → e.parses = true) ∧
  (∀ s, firstFor r n = some s → s.criticalExt = false ∧ s.hashKnown = true)

theorem authorized_canon (k : Nat) (e : Embedded) (c : Cand) :
    authorized (canon k) e c = true ↔ (e.certId = c.certId ∨ e.ocspEku = true) := by
  simp [authorized, canon]

theorem parseForCert_some {b : Body} {n : Nat} {c : Cand} {p : Parsed}
    (h : parseForCert V b (some n) (some c) = some p) :
    ∃ r s, b = .resp r ∧ r.respStatus = 0 ∧ r.typeBasic = true ∧ r.basicParses = true ∧
      firstFor r n = some s ∧ r.responderIdOk = true ∧ sigChecks V r (some c) = true ∧
      s.criticalExt = false ∧ s.hashKnown = true ∧
      p = { status := s.status, nextUpdate := s.nextUpdate, embedded := r.embedded } := by
  cases b with
  | garbage => simp [parseForCert] at h
  | resp r =>
    simp only [parseForCert] at h
    split at h
    · rename_i h1
      simp only [selectSingle] at h
      cases hs : r.singles.find? (fun s => s.serial == n) with
      | none => simp [hs] at h
      | some s =>
        simp only [hs] at h
        split at h
        · rename_i h2
          refine ⟨r, s, rfl, h1.1, h1.2.1, h1.2.2, hs, h2.1, h2.2.1, h2.2.2.1, h2.2.2.2, ?_⟩
          exact (Option.some.inj h).symm
        · simp at h
    · simp at h

theorem parseForCert_of {r : Resp} {n : Nat} {c : Cand} {s : Single}
    (h0 : r.respStatus = 0) (h1 : r.typeBasic = true) (h2 : r.basicParses = true)
    (hs : firstFor r n = some s) (h3 : r.responderIdOk = true) (h4 : sigChecks V r (some c) = true)
    (h5 : s.criticalExt = false) (h6 : s.hashKnown = true) :
    parseForCert V (.resp r) (some n) (some c) =
      some { status := s.status, nextUpdate := s.nextUpdate, embedded := r.embedded } := by
  simp only [firstFor] at hs
  simp [parseForCert, selectSingle, h0, h1, h2, hs, h3, h4, h5, h6]

theorem firstFor_mem {r : Resp} {n : Nat} {s : Single} (h : firstFor r n = some s) :
    s ∈ r.singles ∧ s.serial = n := by
  simp only [firstFor] at h
  have h1 := List.mem_of_find?_eq_some h
  have h2 := List.find?_some h
  exact ⟨h1, by simpa using h2⟩

theorem hasSerial_firstFor {r : Resp} {n : Nat} (h : HasSerial r n) : ∃ s, firstFor r n = some s := by
  obtain ⟨s, hs, hn⟩ := h
  cases hf : firstFor r n with
  | some s' => exact ⟨s', rfl⟩
  | none =>
    simp only [firstFor, List.find?_eq_none] at hf
    have := hf s hs
    simp [hn] at this

/-- One candidate iteration of `parseOcspResponse` (canonical shape). -/
def candStep (k : Nat) (cert : Cert) (b : Body) (c : Cand) : Option Parsed :=
  match parseForCert V b (some cert.serial) (some c) with
  | none => none
  | some p =>
    match p.embedded with
    | some e => if true && !authorized (canon k) e c then none else some p
    | none => some p

theorem parseOcsp_canon (k : Nat) (cert : Cert) (cands : List Cand) (b : Body) :
    parseOcsp (canon k) V cert cands b = cands.findSome? (candStep V k cert b) := by
  show List.findSome? (fun a => attempt (canon k) V a cert cands b) (canon k).parseAttempts = _
  have h1 : (canon k).parseAttempts = [⟨true, true, true, true⟩] := rfl
  rw [h1]
  simp only [List.findSome?_cons, List.findSome?_nil]
  have h2 : attempt (canon k) V ⟨true, true, true, true⟩ cert cands b =
      cands.findSome? (candStep V k cert b) := rfl
  rw [h2]
  cases cands.findSome? (candStep V k cert b) <;> rfl

theorem candStep_some {k : Nat} {cert : Cert} {b : Body} {c : Cand} {p : Parsed}
    (h : candStep V k cert b c = some p) :
    ∃ r s, b = .resp r ∧ r.respStatus = 0 ∧ firstFor r cert.serial = some s ∧ SignedFor V c r ∧
      WellFormed r cert.serial ∧ p = { status := s.status, nextUpdate := s.nextUpdate, embedded := r.embedded } := by
  unfold candStep at h
  cases hp : parseForCert V b (some cert.serial) (some c) with
  | none => simp [hp] at h
  | some p' =>
    obtain ⟨r, s, hb, h0, h1, h2, hs, h3, h4, h5, h6, hp'⟩ := parseForCert_some V hp
    simp only [hp] at h
    have hemb : p'.embedded = r.embedded := by rw [hp']
    refine ⟨r, s, hb, h0, hs, ?_, ?_, ?_⟩
    · -- who signed
      cases he : r.embedded with
      | none =>
        left
        refine ⟨he, ?_⟩
        simpa [sigChecks, he] using h4
      | some e =>
        right
        rw [hemb, he] at h
        simp only [Bool.true_and] at h
        have hauth : authorized (canon k) e c = true := by
          cases ha : authorized (canon k) e c with
          | true => rfl
          | false => simp [ha] at h
        have h4' : (e.parses = true ∧ V e.key r.signed = true) ∧ V c.key e.certSigned = true := by
          simpa [sigChecks, he] using h4
        exact ⟨e, he, h4'.2, (authorized_canon k e c).mp hauth, h4'.1.2⟩
    · refine ⟨h1, h2, h3, ?_, ?_⟩
      · intro e he
        have h4' : (e.parses = true ∧ V e.key r.signed = true) ∧ V c.key e.certSigned = true := by
          simpa [sigChecks, he] using h4
        exact h4'.1.1
      · intro s' hs'
        rw [hs] at hs'
        cases hs'
        exact ⟨h5, h6⟩
    · -- p = p'
      cases he : p'.embedded with
      | none =>
        rw [he] at h
        simp only at h
        rw [← Option.some.inj h, hp']
      | some e =>
        rw [he] at h
        simp only [Bool.true_and] at h
        split at h
        · simp at h
        · rw [← Option.some.inj h, hp']

theorem candStep_of {k : Nat} {cert : Cert} {r : Resp} {c : Cand} {s : Single}
    (h0 : r.respStatus = 0) (hs : firstFor r cert.serial = some s) (hsig : SignedFor V c r)
    (hwf : WellFormed r cert.serial) :
    candStep V k cert (.resp r) c =
      some { status := s.status, nextUpdate := s.nextUpdate, embedded := r.embedded } := by
  obtain ⟨h1, h2, h3, hpar, hcrit⟩ := hwf
  obtain ⟨h5, h6⟩ := hcrit s hs
  have h4 : sigChecks V r (some c) = true := by
    rcases hsig with ⟨he, hv⟩ | ⟨e, he, hv1, _, hv2⟩
    · simp [sigChecks, he, hv]
    · simp [sigChecks, he, hv1, hv2, hpar e he]
  unfold candStep
  rw [parseForCert_of V h0 h1 h2 hs h3 h4 h5 h6]
  rcases hsig with ⟨he, _⟩ | ⟨e, he, _, ha, _⟩
  · simp [he]
  · have : authorized (canon k) e c = true := (authorized_canon k e c).mpr ha
    simp [he, this]

/-- Soundness: what `parseOcspResponse` accepts is authentic, and the reported status is that of the first single
response for the certificate's serial. -/
theorem parseOcsp_sound {k : Nat} {cert : Cert} {cands : List Cand} {b : Body} {p : Parsed}
    (h : parseOcsp (canon k) V cert cands b = some p) :
    ∃ r s, b = .resp r ∧ Authentic V cert cands r ∧ WellFormed r cert.serial ∧ firstFor r cert.serial = some s ∧
      p.status = s.status ∧ p.nextUpdate = s.nextUpdate := by
  rw [parseOcsp_canon] at h
  obtain ⟨c, hc, hstep⟩ := List.exists_of_findSome?_eq_some h
  obtain ⟨r, s, hb, h0, hs, hsig, hwf, hp⟩ := candStep_some V hstep
  obtain ⟨hmem, hser⟩ := firstFor_mem hs
  exact ⟨r, s, hb, ⟨h0, ⟨s, hmem, hser⟩, c, hc, hsig⟩, hwf, hs, by rw [hp], by rw [hp]⟩

/-- Completeness: an authentic, well-formed response is accepted. -/
theorem parseOcsp_complete {k : Nat} {cert : Cert} {cands : List Cand} {r : Resp}
    (ha : Authentic V cert cands r) (hwf : WellFormed r cert.serial) :
    ∃ p s, parseOcsp (canon k) V cert cands (.resp r) = some p ∧ firstFor r cert.serial = some s ∧
      p.status = s.status ∧ p.nextUpdate = s.nextUpdate := by
  obtain ⟨h0, hser, c, hc, hsig⟩ := ha
  obtain ⟨s, hs⟩ := hasSerial_firstFor hser
  have hstep := candStep_of V (k := k) h0 hs hsig hwf
  rw [parseOcsp_canon]
  cases hf : cands.findSome? (candStep V k cert (.resp r)) with
  | none =>
    rw [List.findSome?_eq_none_iff] at hf
    have := hf c hc
    rw [hstep] at this
    cases this
  | some p =>
    obtain ⟨c', _, hstep'⟩ := List.exists_of_findSome?_eq_some hf
    obtain ⟨r', s', hb, _, hs', _, _, hp⟩ := candStep_some V hstep'
    cases hb
    rw [hs] at hs'
    cases hs'
    exact ⟨p, s, rfl, hs, by rw [hp], by rw [hp]⟩

/-- Everything that is not a parsed response is no answer. -/
theorem parseOcsp_garbage (k : Nat) (cert : Cert) (cands : List Cand) :
    parseOcsp (canon k) V cert cands .garbage = none := by
  rw [parseOcsp_canon, List.findSome?_eq_none_iff]
  intro c _
  simp [candStep, parseForCert]

end Crv.Ocsp
