import Crv.Proofs.OcspLookup
/-! C02: decision lemmas for `lookup` in the canonical shape. -/
namespace Crv.Ocsp

variable (V : Key → Signed → Bool)

section
variable {k : Nat} {inst : Inst} {cert : Cert} {cands : List Cand} {answer : Str → Cand → Fetch} {now : Nat}
  {T T' : Table}

theorem scan_first {pre post : List (Str × Cand)} {q : Str × Cand} {p : Parsed}
    (hl : httpPairs (canon k) cert cands = pre ++ q :: post)
    (hpre : ∀ q' ∈ pre, NoAnswer V (canon k) cert cands answer q'.1 q'.2)
    (hq : Answers V (canon k) cert cands answer q.1 q.2 p) :
    scan V k cert cands answer = (pre ++ [q], .answer p) := by
  unfold scan
  rw [hl]
  have hq' : tryPair (canon k) V cert cands answer q.1 q.2 = .answer p := (tryPair_answer_iff V).mpr hq
  have := inner_first (fun p => tryPair (canon k) V cert cands answer p.1 p.2) pre q post
    (fun y hy => (tryPair_cont_iff V).mpr (hpre y hy)) (by simp [hq'])
  rw [this]
  simp only [hq']

/-- C02 (a): the first pair, in servers × candidates order, that delivers an accepted response decides. -/
theorem first_answer_decides {pre post : List (Str × Cand)} {q : Str × Cand} {p : Parsed}
    (hmiss : tryGet (canon k) T (mkKey (canon k) cert) now = (none, T'))
    (hl : httpPairs (canon k) cert cands = pre ++ q :: post)
    (hpre : ∀ q' ∈ pre, NoAnswer V (canon k) cert cands answer q'.1 q'.2)
    (hq : Answers V (canon k) cert cands answer q.1 q.2 p) :
    (lookup (canon k) V inst cert cands answer now T).result = verdictOf p ∧
    (lookup (canon k) V inst cert cands answer now T).requests = pre ++ [q] ∧
    (lookup (canon k) V inst cert cands answer now T).answered = some p ∧
    (lookup (canon k) V inst cert cands answer now T).hit = false := by
  rw [lookup_miss V hmiss, scan_first V hl hpre hq]
  simp [missOut]

theorem cache_hit_decides {rv : Bool}
    (hhit : tryGet (canon k) T (mkKey (canon k) cert) now = (some rv, T')) :
    (lookup (canon k) V inst cert cands answer now T).result = (if rv then .revoked else .good) ∧
    (lookup (canon k) V inst cert cands answer now T).requests = [] ∧
    (lookup (canon k) V inst cert cands answer now T).hit = true := by
  rw [lookup_hit V hhit]
  simp

/-- No pair answers: every pair is tried once, in order, nothing is cached, the tail decides. -/
theorem unanswered
    (hmiss : tryGet (canon k) T (mkKey (canon k) cert) now = (none, T'))
    (hall : ∀ q ∈ httpPairs (canon k) cert cands, NoAnswer V (canon k) cert cands answer q.1 q.2) :
    lookup (canon k) V inst cert cands answer now T =
      { result := if (!(filterHttp (canon k) cert.servers).isEmpty && inst.strict) then .error else .good,
        requests := httpPairs (canon k) cert cands, hit := false, answered := none, stored := none, table := T' } := by
  rw [lookup_miss V hmiss]
  have : scan V k cert cands answer = (httpPairs (canon k) cert cands, .cont) := by
    unfold scan
    exact inner_all_cont _ _ (fun y hy => (tryPair_cont_iff V).mpr (hall y hy))
  rw [this]
  simp [missOut]

end

/-- Summary of every possible lookup. -/
theorem lookup_cases (k : Nat) (inst : Inst) (cert : Cert) (cands : List Cand) (answer : Str → Cand → Fetch)
    (now : Nat) (T : Table) :
    let o := lookup (canon k) V inst cert cands answer now T
    (∃ rv T', tryGet (canon k) T (mkKey (canon k) cert) now = (some rv, T') ∧ o.hit = true ∧
        o.result = (if rv then .revoked else .good) ∧ o.requests = [] ∧ o.answered = none ∧ o.stored = none ∧
        o.table = T') ∨
    (∃ T', tryGet (canon k) T (mkKey (canon k) cert) now = (none, T') ∧ o.hit = false ∧
      ((∃ pre q post p, httpPairs (canon k) cert cands = pre ++ q :: post ∧
          (∀ q' ∈ pre, NoAnswer V (canon k) cert cands answer q'.1 q'.2) ∧
          Answers V (canon k) cert cands answer q.1 q.2 p ∧
          o.result = verdictOf p ∧ o.requests = pre ++ [q] ∧ o.answered = some p ∧ o.stored = stores k inst now p ∧
          o.table = (match stores k inst now p with
            | some life => Cache.add T' (mkKey (canon k) cert) life
                { revoked := decide (p.status = .revoked), validUntil := now + life } now
            | none => T')) ∨
       ((∀ q ∈ httpPairs (canon k) cert cands, NoAnswer V (canon k) cert cands answer q.1 q.2) ∧
          o.result = (if (!(filterHttp (canon k) cert.servers).isEmpty && inst.strict) then .error else .good) ∧
          o.requests = httpPairs (canon k) cert cands ∧ o.answered = none ∧ o.stored = none ∧ o.table = T'))) := by
  intro o
  rcases tryGet_cases k T (mkKey (canon k) cert) now with ⟨T', hm⟩ | ⟨rv, T', hh⟩
  · right
    refine ⟨T', hm, ?_⟩
    have ho : o = missOut k inst cert now T' (mkKey (canon k) cert) (scan V k cert cands answer) := lookup_miss V hm
    rcases scan_cases V k cert cands answer with ⟨hall, hs⟩ | ⟨pre, q, post, p, hl, hpre, hq, hs⟩
    · rw [hs] at ho
      refine ⟨by rw [ho]; rfl, Or.inr ⟨hall, ?_, ?_, ?_, ?_, ?_⟩⟩ <;> rw [ho] <;> rfl
    · rw [hs] at ho
      refine ⟨by rw [ho]; rfl, Or.inl ⟨pre, q, post, p, hl, hpre, hq, ?_, ?_, ?_, ?_, ?_⟩⟩ <;> rw [ho] <;> rfl
  · left
    have ho : o = _ := lookup_hit V (inst := inst) (cands := cands) (answer := answer) hh
    refine ⟨rv, T', hh, ?_, ?_, ?_, ?_, ?_, ?_⟩ <;> rw [ho]

/-- C02 (b). -/
theorem strict_accept_needs_answer (k : Nat) (inst : Inst) (cert : Cert) (cands : List Cand)
    (answer : Str → Cand → Fetch) (now : Nat) (T : Table)
    (hstrict : inst.strict = true) (hne : filterHttp (canon k) cert.servers ≠ [])
    (hok : (lookup (canon k) V inst cert cands answer now T).result ≠ .error) :
    (lookup (canon k) V inst cert cands answer now T).hit = true ∨
    ∃ q ∈ httpPairs (canon k) cert cands, ∃ p, Answers V (canon k) cert cands answer q.1 q.2 p ∧
      (lookup (canon k) V inst cert cands answer now T).answered = some p := by
  rcases lookup_cases V k inst cert cands answer now T with
    ⟨rv, T', _, hhit, _⟩ | ⟨T', _, _, ⟨pre, q, post, p, hl, _, hq, _, _, ha, _⟩ | ⟨_, hres, _⟩⟩
  · left; exact hhit
  · right
    refine ⟨q, ?_, p, hq, ha⟩
    rw [hl]; simp
  · exfalso
    apply hok
    rw [hres]
    have : (filterHttp (canon k) cert.servers).isEmpty = false := by
      cases h : filterHttp (canon k) cert.servers with
      | nil => exact absurd h hne
      | cons _ _ => rfl
    simp [this, hstrict]

/-- C02 (c): without strict mode nothing the responders do leads to an error. -/
theorem nonstrict_never_error (k : Nat) (inst : Inst) (cert : Cert) (cands : List Cand)
    (answer : Str → Cand → Fetch) (now : Nat) (T : Table) (hstrict : inst.strict = false) :
    (lookup (canon k) V inst cert cands answer now T).result ≠ .error := by
  rcases lookup_cases V k inst cert cands answer now T with
    ⟨rv, T', _, _, hres, _⟩ | ⟨T', _, _, ⟨pre, q, post, p, _, _, _, hres, _⟩ | ⟨_, hres, _⟩⟩
  · rw [hres]; cases rv <;> simp
  · rw [hres]; unfold verdictOf; split <;> simp
  · rw [hres]; simp [hstrict]

/-- A certificate without HTTP responder is never rejected for lack of an answer, strict or not. -/
theorem no_http_responder_never_error (k : Nat) (inst : Inst) (cert : Cert) (cands : List Cand)
    (answer : Str → Cand → Fetch) (now : Nat) (T : Table) (hnone : filterHttp (canon k) cert.servers = []) :
    (lookup (canon k) V inst cert cands answer now T).result ≠ .error := by
  rcases lookup_cases V k inst cert cands answer now T with
    ⟨rv, T', _, _, hres, _⟩ | ⟨T', _, _, ⟨pre, q, post, p, _, _, _, hres, _⟩ | ⟨_, hres, _⟩⟩
  · rw [hres]; cases rv <;> simp
  · rw [hres]; unfold verdictOf; split <;> simp
  · rw [hres]; simp [hnone]

/-- Requests are a prefix of the ordered HTTP pair list. -/
theorem requests_prefix (k : Nat) (inst : Inst) (cert : Cert) (cands : List Cand)
    (answer : Str → Cand → Fetch) (now : Nat) (T : Table) :
    (lookup (canon k) V inst cert cands answer now T).requests <+: httpPairs (canon k) cert cands := by
  rcases lookup_cases V k inst cert cands answer now T with
    ⟨rv, T', _, _, _, hreq, _⟩ | ⟨T', _, _, ⟨pre, q, post, p, hl, _, _, _, hreq, _⟩ | ⟨_, _, hreq, _⟩⟩
  · rw [hreq]; exact List.nil_prefix
  · rw [hreq, hl]
    exact ⟨post, by simp⟩
  · rw [hreq]; exact List.prefix_refl _

/-- Only HTTP(S) responders named by the certificate are ever contacted, and only with issuer candidates. -/
theorem requests_only_http (k : Nat) (inst : Inst) (cert : Cert) (cands : List Cand)
    (answer : Str → Cand → Fetch) (now : Nat) (T : Table) :
    ∀ q ∈ (lookup (canon k) V inst cert cands answer now T).requests,
      q.1 ∈ cert.servers ∧ isHttp (canon k) q.1 = true ∧ q.2 ∈ cands := by
  intro q hq
  have hmem : q ∈ httpPairs (canon k) cert cands :=
    (requests_prefix V k inst cert cands answer now T).subset hq
  unfold httpPairs at hmem
  rw [mem_pairs] at hmem
  obtain ⟨h1, h2⟩ := hmem
  unfold filterHttp at h1
  rw [List.mem_filter] at h1
  exact ⟨h1.1, h1.2, h2⟩

/-- C05 at the level of the whole lookup: the verdict comes from the cache, from the tail (no answer), or from a
requested pair whose body is an authentic response; only in the last case anything is written to the cache. -/
theorem influence_only_authentic (k : Nat) (inst : Inst) (cert : Cert) (cands : List Cand)
    (answer : Str → Cand → Fetch) (now : Nat) (T : Table) :
    let o := lookup (canon k) V inst cert cands answer now T
    (o.answered = none ∧ o.stored = none) ∨
    (∃ q ∈ o.requests, ∃ r s p, answer q.1 q.2 = .body (.resp r) ∧ Authentic V cert cands r ∧
       firstFor r cert.serial = some s ∧ p.status = s.status ∧ p.nextUpdate = s.nextUpdate ∧
       o.answered = some p ∧ o.result = verdictOf p ∧ o.hit = false) := by
  intro o
  rcases lookup_cases V k inst cert cands answer now T with
    ⟨rv, T', _, _, _, _, ha, hs, _⟩ | ⟨T', _, hh, ⟨pre, q, post, p, _, _, hq, hres, hreq, ha, _⟩ | ⟨_, _, _, ha, hs, _⟩⟩
  · left; exact ⟨ha, hs⟩
  · right
    obtain ⟨b, hb, hp⟩ := hq
    obtain ⟨r, s, hbr, haut, _, hs, h1, h2⟩ := parseOcsp_sound V hp
    refine ⟨q, ?_, r, s, p, ?_, haut, hs, h1, h2, ha, hres, hh⟩
    · show q ∈ o.requests
      rw [hreq]; simp
    · rw [hb, hbr]
  · left; exact ⟨ha, hs⟩

/-- Bodies that are not authentic responses count as no answer. -/
theorem unauthentic_no_answer {k : Nat} {cert : Cert} {cands : List Cand} {answer : Str → Cand → Fetch} {s : Str} {c : Cand}
    (h : ∀ r, answer s c = .body (.resp r) → ¬ Authentic V cert cands r) :
    NoAnswer V (canon k) cert cands answer s c := by
  unfold NoAnswer
  cases ha : answer s c with
  | error => left; rfl
  | body b =>
    right
    refine ⟨b, rfl, ?_⟩
    cases hp : parseOcsp (canon k) V cert cands b with
    | none => rfl
    | some p =>
      obtain ⟨r, _, hbr, haut, _⟩ := parseOcsp_sound V hp
      exact absurd haut (h r (by rw [ha, hbr]))

end Crv.Ocsp
