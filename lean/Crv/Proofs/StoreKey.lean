import Crv.Key
/-! Lemmas about `decimal`, `key` (injectivity, disjointness from the reserved keys). Reusable by C11/C01. -/
namespace Crv

instance (b : UInt8) : Decidable (IsDigit b) := by unfold IsDigit; infer_instance

theorem digit_toNat {d : Nat} (h : d < 10) : (digit d).toNat = 48 + d := by
  simp only [digit, UInt8.toNat_ofNat']
  omega

theorem digit_isDigit {d : Nat} (h : d < 10) : IsDigit (digit d) := by
  unfold IsDigit
  rw [digit_toNat h]
  omega

theorem decNatF_isDigit : ∀ (f n : Nat) (b : UInt8), b ∈ decNatF f n → IsDigit b
  | 0, _, b, h => by simp [decNatF] at h
  | f + 1, n, b, h => by
    unfold decNatF at h
    split at h
    · next h10 =>
      simp only [List.mem_singleton] at h
      subst h
      exact digit_isDigit h10
    · rw [List.mem_append] at h
      rcases h with h | h
      · exact decNatF_isDigit f _ b h
      · simp only [List.mem_singleton] at h
        subst h
        exact digit_isDigit (Nat.mod_lt _ (by omega))

theorem decNatF_ne_nil (f n : Nat) : decNatF (f + 1) n ≠ [] := by
  unfold decNatF
  split <;> simp

/-- Value of a digit string. -/
def decVal (bs : List UInt8) : Nat := bs.foldl (fun a b => 10 * a + (b.toNat - 48)) 0

theorem decVal_snoc (bs : List UInt8) (b : UInt8) : decVal (bs ++ [b]) = 10 * decVal bs + (b.toNat - 48) := by
  simp [decVal, List.foldl_append]

theorem decVal_decNatF : ∀ (f n : Nat), n < f → decVal (decNatF f n) = n
  | 0, n, h => by omega
  | f + 1, n, h => by
    unfold decNatF
    split
    · next h10 => simp [decVal, digit_toNat h10]
    · next h10 =>
      rw [decVal_snoc, decVal_decNatF f (n / 10) (by omega), digit_toNat (Nat.mod_lt _ (by omega))]
      omega

theorem decVal_decNat (n : Nat) : decVal (decNat n) = n := decVal_decNatF (n + 1) n (by omega)

theorem decNat_inj {a b : Nat} (h : decNat a = decNat b) : a = b := by
  have := congrArg decVal h
  rwa [decVal_decNat, decVal_decNat] at this

theorem decNat_ne_nil (n : Nat) : decNat n ≠ [] := decNatF_ne_nil n n

theorem decNat_isDigit (n : Nat) (b : UInt8) (h : b ∈ decNat n) : IsDigit b := decNatF_isDigit _ _ b h

/-- `decNat n` starts with a digit (so never with '-'). -/
theorem decNat_head (n : Nat) : ∃ d rest, decNat n = d :: rest ∧ IsDigit d := by
  cases h : decNat n with
  | nil => exact absurd h (decNat_ne_nil n)
  | cons d rest => exact ⟨d, rest, rfl, decNat_isDigit n d (by rw [h]; exact List.mem_cons_self)⟩

/-- **`big.Int.String()` is injective.** -/
theorem decimal_inj {a b : Int} (h : decimal a = decimal b) : a = b := by
  unfold decimal at h
  split at h <;> split at h
  · have := decNat_inj (List.cons.inj h).2
    omega
  · obtain ⟨d, rest, hd, hdig⟩ := decNat_head b.natAbs
    rw [hd] at h
    have : d = 45 := (List.cons.inj h).1.symm
    subst this
    exact absurd hdig (by decide)
  · obtain ⟨d, rest, hd, hdig⟩ := decNat_head a.natAbs
    rw [hd] at h
    have : d = 45 := (List.cons.inj h).1
    subst this
    exact absurd hdig (by decide)
  · have := decNat_inj h
    omega

theorem decimal_ne_nil (z : Int) : decimal z ≠ [] := by
  unfold decimal
  split
  · simp
  · exact decNat_ne_nil _

/-- Every byte of `decimal z` is '-' or a digit. -/
theorem decimal_bytes (z : Int) (b : UInt8) (h : b ∈ decimal z) : b = 45 ∨ IsDigit b := by
  unfold decimal at h
  split at h
  · rcases List.mem_cons.mp h with h | h
    · exact Or.inl h
    · exact Or.inr (decNat_isDigit _ b h)
  · exact Or.inr (decNat_isDigit _ b h)

/-- The separator '_' does not occur in `decimal z`. -/
theorem sep_not_mem_decimal (z : Int) : (95 : UInt8) ∉ decimal z := by
  intro h
  rcases decimal_bytes z 95 h with h | h
  · exact absurd h (by decide)
  · exact absurd h (by decide)

theorem getLast?_append_of_ne_nil' {α : Type} (l₁ : List α) {l₂ : List α} (h : l₂ ≠ []) :
    (l₁ ++ l₂).getLast? = l₂.getLast? := by
  rw [List.getLast?_append]
  cases h' : l₂.getLast? with
  | none => exact absurd (List.getLast?_eq_none_iff.mp h') h
  | some d => simp

/-- The last byte of `decimal z` is a digit. -/
theorem decimal_getLast (z : Int) : ∃ d, (decimal z).getLast? = some d ∧ IsDigit d := by
  have hl : ∀ n, ∃ d, (decNat n).getLast? = some d ∧ IsDigit d := by
    intro n
    cases h : (decNat n).getLast? with
    | none => exact absurd (List.getLast?_eq_none_iff.mp h) (decNat_ne_nil n)
    | some d => exact ⟨d, rfl, decNat_isDigit n d (List.mem_of_getLast? h)⟩
  unfold decimal
  split
  · obtain ⟨d, hd, hdig⟩ := hl z.natAbs
    refine ⟨d, ?_, hdig⟩
    have := getLast?_append_of_ne_nil' [(45 : UInt8)] (decNat_ne_nil z.natAbs)
    simpa [hd] using this
  · exact hl _

/-- Unique split at a separator that does not occur in the right part. -/
theorem split_unique {α : Type} {x : α} :
    ∀ {a a' b b' : List α}, x ∉ b → x ∉ b' → a ++ x :: b = a' ++ x :: b' → a = a' ∧ b = b'
  | [], [], b, b', _, _, h => by
    simp only [List.nil_append, List.cons.injEq, true_and] at h
    exact ⟨rfl, h⟩
  | [], y :: a', b, b', hb, _, h => by
    simp only [List.nil_append, List.cons_append, List.cons.injEq] at h
    exact absurd (by rw [h.2]; simp) hb
  | y :: a, [], b, b', _, hb', h => by
    simp only [List.nil_append, List.cons_append, List.cons.injEq] at h
    exact absurd (by rw [← h.2]; simp) hb'
  | y :: a, z :: a', b, b', hb, hb', h => by
    simp only [List.cons_append, List.cons.injEq] at h
    obtain ⟨rfl, ht⟩ := h
    obtain ⟨h1, h2⟩ := split_unique hb hb' ht
    exact ⟨by rw [h1], h2⟩

theorem keySep_eq : Generated.Store.keySep = [95] := rfl

theorem key_eq (i : List UInt8) (s : Int) : key i s = i ++ 95 :: decimal s := by
  simp [key, keySep_eq]

/-- **Key injectivity**: the issuer string may contain '_' itself, but the decimal part cannot, so the last
'_' splits the key uniquely. -/
theorem key_inj {i₁ i₂ : List UInt8} {s₁ s₂ : Int} (h : key i₁ s₁ = key i₂ s₂) : i₁ = i₂ ∧ s₁ = s₂ := by
  rw [key_eq, key_eq] at h
  obtain ⟨hi, hd⟩ := split_unique (sep_not_mem_decimal s₁) (sep_not_mem_decimal s₂) h
  exact ⟨hi, decimal_inj hd⟩

theorem key_inj_iff {i₁ i₂ : List UInt8} {s₁ s₂ : Int} : key i₁ s₁ = key i₂ s₂ ↔ i₁ = i₂ ∧ s₁ = s₂ :=
  ⟨key_inj, fun ⟨a, b⟩ => by rw [a, b]⟩

/-- The last byte of an entry key is a decimal digit. -/
theorem key_getLast (i : List UInt8) (s : Int) : ∃ d, (key i s).getLast? = some d ∧ IsDigit d := by
  obtain ⟨d, hd, hdig⟩ := decimal_getLast s
  refine ⟨d, ?_, hdig⟩
  unfold key
  rw [getLast?_append_of_ne_nil' _ (decimal_ne_nil s)]
  exact hd

theorem key_ne_of_last {r : List UInt8} {c : UInt8} (hr : r.getLast? = some c) (hc : ¬ IsDigit c)
    (i : List UInt8) (s : Int) : key i s ≠ r := by
  intro h
  obtain ⟨d, hd, hdig⟩ := key_getLast i s
  rw [h, hr] at hd
  exact hc (Option.some.inj hd ▸ hdig)

/-- **Entry keys never equal a reserved key** (string level; the reserved keys are regenerated from the
source and all end in a non-digit). -/
theorem key_ne_reserved (i : List UInt8) (s : Int) : ∀ r ∈ reservedKeys, key i s ≠ r := by
  intro r hr
  simp only [reservedKeys, List.mem_cons, List.not_mem_nil, or_false] at hr
  rcases hr with rfl | rfl | rfl | rfl
  · exact key_ne_of_last (c := 35) (by decide) (by decide) i s
  · exact key_ne_of_last (c := 84) (by decide) (by decide) i s
  · exact key_ne_of_last (c := 35) (by decide) (by decide) i s
  · exact key_ne_of_last (c := 35) (by decide) (by decide) i s

theorem key_ne_metaKey (i : List UInt8) (s : Int) : key i s ≠ Generated.Store.metaKey :=
  key_ne_reserved i s _ (by simp [reservedKeys])
theorem key_ne_extKey (i : List UInt8) (s : Int) : key i s ≠ Generated.Store.extKey :=
  key_ne_reserved i s _ (by simp [reservedKeys])
theorem key_ne_sigKey (i : List UInt8) (s : Int) : key i s ≠ Generated.Store.sigKey :=
  key_ne_reserved i s _ (by simp [reservedKeys])
theorem key_ne_locKey (i : List UInt8) (s : Int) : key i s ≠ Generated.Store.locKey :=
  key_ne_reserved i s _ (by simp [reservedKeys])

/-- The reserved keys are pairwise distinct. -/
theorem reservedKeys_nodup : reservedKeys.Nodup := by decide

theorem CollisionFree.subset {ks ks' : List (List UInt8)} (h : CollisionFree ks) (hs : ∀ k ∈ ks', k ∈ ks) :
    CollisionFree ks' := fun a ha b hb => h a (hs a ha) b (hs b hb)

/-- Under collision-freedom equal hashed keys mean the same (issuer, serial). -/
theorem hkey_key_inj {ks : List (List UInt8)} (hc : CollisionFree ks) {i₁ i₂ : List UInt8} {s₁ s₂ : Int}
    (h₁ : key i₁ s₁ ∈ ks) (h₂ : key i₂ s₂ ∈ ks) (h : hkey (key i₁ s₁) = hkey (key i₂ s₂)) :
    i₁ = i₂ ∧ s₁ = s₂ := key_inj (hc _ h₁ _ h₂ h)

-- sanity: the model agrees with Go on concrete values
example : decimal 0 = [48] := by decide
example : decimal (-15) = [45, 49, 53] := by decide
example : decimal 1234567890123 = [49,50,51,52,53,54,55,56,57,48,49,50,51] := by decide
example : key [67, 78, 61, 95] 7 = [67, 78, 61, 95, 95, 55] := by decide

end Crv
