import Crv.Ocsp
import Crv.Proofs.OcspLoop
import Crv.Proofs.OcspParse
/-! `lookup` (= `OCSPRevocationChecker.IsRevoked`) for the canonical shape: explicit case analysis used by C02/C05/C14. -/
namespace Crv.Ocsp

variable (V : Key → Signed → Bool)

@[simp] theorem canon_cacheFirst (k : Nat) : (canon k).cacheFirst = true := rfl
@[simp] theorem canon_validUntilChecked (k : Nat) : (canon k).validUntilChecked = true := rfl
@[simp] theorem canon_loopOrder (k : Nat) : (canon k).loopOrder = .serversOuter := rfl
@[simp] theorem canon_onFetchErr (k : Nat) : (canon k).onFetchErr = .cont := rfl
@[simp] theorem canon_onParseErr (k : Nat) : (canon k).onParseErr = .cont := rfl
@[simp] theorem canon_revokedIff (k : Nat) : (canon k).revokedIffStatusRevoked = true := rfl
@[simp] theorem canon_evictionUses (k : Nat) : (canon k).evictionUsesNextUpdate = true := rfl
@[simp] theorem canon_addGuard (k : Nat) : (canon k).addGuard = .evictionPositive := rfl
@[simp] theorem canon_validUntilIs (k : Nat) : (canon k).validUntilIsNowPlusEviction = true := rfl
@[simp] theorem canon_tailLenOf (k : Nat) : (canon k).tailLenOf = .filtered := rfl
@[simp] theorem canon_tailNeedsStrict (k : Nat) : (canon k).tailNeedsStrict = true := rfl
@[simp] theorem canon_maxClockSkew (k : Nat) : (canon k).maxClockSkew = k := rfl
@[simp] theorem canon_keyParts (k : Nat) : (canon k).keyParts = [.issuer, .lit ['_'], .serial] := rfl

/-- The responder at `s`, asked with candidate `c`, delivers a body that `parseOcspResponse` accepts as `p`. -/
def Answers (F : Facts) (cert : Cert) (cands : List Cand) (answer : Str → Cand → Fetch) (s : Str) (c : Cand)
    (p : Parsed) : Prop :=
  ∃ b, answer s c = .body b ∧ parseOcsp F V cert cands b = some p

/-- Fetch failed, or what came back is not accepted. -/
def NoAnswer (F : Facts) (cert : Cert) (cands : List Cand) (answer : Str → Cand → Fetch) (s : Str) (c : Cand) : Prop :=
  answer s c = .error ∨ ∃ b, answer s c = .body b ∧ parseOcsp F V cert cands b = none

theorem tryPair_canon (k : Nat) (cert : Cert) (cands : List Cand) (answer : Str → Cand → Fetch) (s : Str) (c : Cand) :
    tryPair (canon k) V cert cands answer s c =
      match answer s c with
      | .error => .cont
      | .body b =>
        match parseOcsp (canon k) V cert cands b with
        | none => .cont
        | some p => .answer p := rfl

theorem tryPair_cont_iff {k : Nat} {cert : Cert} {cands : List Cand} {answer : Str → Cand → Fetch} {s : Str} {c : Cand} :
    tryPair (canon k) V cert cands answer s c = .cont ↔ NoAnswer V (canon k) cert cands answer s c := by
  rw [tryPair_canon]
  unfold NoAnswer
  cases ha : answer s c with
  | error => simp
  | body b =>
    cases hp : parseOcsp (canon k) V cert cands b with
    | none => simp [hp]
    | some p => simp [hp]

theorem tryPair_answer_iff {k : Nat} {cert : Cert} {cands : List Cand} {answer : Str → Cand → Fetch} {s : Str} {c : Cand}
    {p : Parsed} :
    tryPair (canon k) V cert cands answer s c = .answer p ↔ Answers V (canon k) cert cands answer s c p := by
  rw [tryPair_canon]
  unfold Answers
  cases ha : answer s c with
  | error => simp
  | body b =>
    cases hp : parseOcsp (canon k) V cert cands b with
    | none => simp [hp]
    | some p' => simp [hp]

theorem tryPair_ne_brk (k : Nat) (cert : Cert) (cands : List Cand) (answer : Str → Cand → Fetch) (s : Str) (c : Cand) :
    tryPair (canon k) V cert cands answer s c ≠ .brk := by
  rw [tryPair_canon]
  cases answer s c with
  | error => simp
  | body b => cases hp : parseOcsp (canon k) V cert cands b <;> simp [hp]

theorem tryPair_ne_fail (k : Nat) (cert : Cert) (cands : List Cand) (answer : Str → Cand → Fetch) (s : Str) (c : Cand) :
    tryPair (canon k) V cert cands answer s c ≠ .fail := by
  rw [tryPair_canon]
  cases answer s c with
  | error => simp
  | body b => cases hp : parseOcsp (canon k) V cert cands b <;> simp [hp]

/-- The pairs the checker may contact, in order. -/
def httpPairs (F : Facts) (cert : Cert) (cands : List Cand) : List (Str × Cand) :=
  pairs (filterHttp F cert.servers) cands

/-- The double loop as one scan. -/
def scan (k : Nat) (cert : Cert) (cands : List Cand) (answer : Str → Cand → Fetch) : List (Str × Cand) × PairOut :=
  inner (fun p => tryPair (canon k) V cert cands answer p.1 p.2) (httpPairs (canon k) cert cands)

theorem loops_canon (k : Nat) (cert : Cert) (cands : List Cand) (answer : Str → Cand → Fetch) :
    loops (canon k) (tryPair (canon k) V cert cands answer) (filterHttp (canon k) cert.servers) cands =
      scan V k cert cands answer := by
  unfold loops scan httpPairs
  simp only [canon_loopOrder]
  exact outer_eq_inner_pairs _ (tryPair_ne_brk V k cert cands answer) _ _

/-- How a scan can end. -/
theorem scan_cases (k : Nat) (cert : Cert) (cands : List Cand) (answer : Str → Cand → Fetch) :
    ((∀ q ∈ httpPairs (canon k) cert cands, NoAnswer V (canon k) cert cands answer q.1 q.2) ∧
        scan V k cert cands answer = (httpPairs (canon k) cert cands, .cont)) ∨
    (∃ pre q post p, httpPairs (canon k) cert cands = pre ++ q :: post ∧
        (∀ q' ∈ pre, NoAnswer V (canon k) cert cands answer q'.1 q'.2) ∧ Answers V (canon k) cert cands answer q.1 q.2 p ∧
        scan V k cert cands answer = (pre ++ [q], .answer p)) := by
  unfold scan
  rcases inner_cases (fun p => tryPair (canon k) V cert cands answer p.1 p.2) (httpPairs (canon k) cert cands) with
    ⟨hall, h⟩ | ⟨pre, q, post, hl, hpre, hq, h⟩
  · left
    exact ⟨fun q hq => (tryPair_cont_iff V).mp (hall q hq), h⟩
  · right
    cases hout : tryPair (canon k) V cert cands answer q.1 q.2 with
    | cont => exact absurd hout hq
    | brk => exact absurd hout (tryPair_ne_brk V k cert cands answer q.1 q.2)
    | fail => exact absurd hout (tryPair_ne_fail V k cert cands answer q.1 q.2)
    | answer p =>
      refine ⟨pre, q, post, p, hl, fun q' hq' => (tryPair_cont_iff V).mp (hpre q' hq'),
        (tryPair_answer_iff V).mp hout, ?_⟩
      rw [h]
      simp only [hout]

/-- `calculateEvictionTime`, canonical. -/
theorem lifetime_canon (k d now : Nat) (nu : Option Nat) :
    lifetime (canon k) d now nu =
      match nu with
      | some n => if n > now then n - now + k else d
      | none => d := by
  unfold lifetime
  cases nu <;> simp

/-- What is written into the cache for an accepted response. -/
def stores (k : Nat) (inst : Inst) (now : Nat) (p : Parsed) : Option Nat :=
  if lifetime (canon k) inst.defaultDur now p.nextUpdate > 0 then some (lifetime (canon k) inst.defaultDur now p.nextUpdate)
  else none

def verdictOf (p : Parsed) : Result := if p.status = .revoked then .revoked else .good

/-- Result of a lookup that missed the cache, given how the scan ended. -/
def missOut (k : Nat) (inst : Inst) (cert : Cert) (now : Nat) (T' : Table) (key : Str)
    (lr : List (Str × Cand) × PairOut) : LookupOut :=
  match lr.2 with
  | .answer p =>
    { result := verdictOf p, requests := lr.1, hit := false, answered := some p, stored := stores k inst now p,
      table := match stores k inst now p with
        | some life => Cache.add T' key life { revoked := decide (p.status = .revoked), validUntil := now + life } now
        | none => T' }
  | _ =>
    { result := if (!(filterHttp (canon k) cert.servers).isEmpty && inst.strict) then .error else .good,
      requests := lr.1, hit := false, answered := none, stored := none, table := T' }

theorem lookup_hit {k : Nat} {inst : Inst} {cert : Cert} {cands : List Cand} {answer : Str → Cand → Fetch}
    {now : Nat} {T T' : Table} {rv : Bool}
    (h : tryGet (canon k) T (mkKey (canon k) cert) now = (some rv, T')) :
    lookup (canon k) V inst cert cands answer now T =
      { result := if rv then .revoked else .good, requests := [], hit := true, answered := none, stored := none,
        table := T' } := by
  simp only [lookup, canon_cacheFirst, ↓reduceIte, h]

theorem lookup_miss {k : Nat} {inst : Inst} {cert : Cert} {cands : List Cand} {answer : Str → Cand → Fetch}
    {now : Nat} {T T' : Table}
    (h : tryGet (canon k) T (mkKey (canon k) cert) now = (none, T')) :
    lookup (canon k) V inst cert cands answer now T =
      missOut k inst cert now T' (mkKey (canon k) cert) (scan V k cert cands answer) := by
  simp only [lookup, canon_cacheFirst, ↓reduceIte, h, loops_canon]
  rcases scan_cases V k cert cands answer with ⟨_, hs⟩ | ⟨pre, q, post, p, _, _, _, hs⟩
  · rw [hs]
    simp [missOut]
  · rw [hs]
    simp only [missOut, stores, verdictOf, canon_revokedIff, canon_addGuard, canon_validUntilIs, ↓reduceIte]
    have hb : (p.status == CertStatus.revoked) = decide (p.status = .revoked) := by
      cases p.status <;> rfl
    rw [hb]
    by_cases hl : lifetime (canon k) inst.defaultDur now p.nextUpdate > 0
    · by_cases hr : p.status = .revoked <;> simp [hl, hr]
    · by_cases hr : p.status = .revoked <;> simp [hl, hr]

/-- `tryGetResponseFromCache` either misses or hits, there is nothing else. -/
theorem tryGet_cases (k : Nat) (T : Table) (key : Str) (now : Nat) :
    (∃ T', tryGet (canon k) T key now = (none, T')) ∨ (∃ rv T', tryGet (canon k) T key now = (some rv, T')) := by
  cases h : tryGet (canon k) T key now with
  | mk a T' =>
    cases a with
    | none => left; exact ⟨T', rfl⟩
    | some rv => right; exact ⟨rv, T', rfl⟩

end Crv.Ocsp
