import Crv.Locks
/-!
Generic theorems about the lock semantics of `Crv.Locks`, proved once for every system of
programs: the annotation invariant, mutual exclusion, `progress` (ordered acquisition ⇒ no
deadlock, for any number of threads and any schedule) and `race_free` (lockset discipline ⇒
no two conflicting accesses are ever enabled together).
-/
namespace Crv.Locks

/-! ### small facts -/

theorem inst_cls (sc : Scope) (cls chk cur : Nat) : (inst sc cls chk cur).cls = cls := by
  cases sc <;> rfl

theorem lockInst_cls (S : Sys) (l chk cur : Nat) : (S.lockInst l chk cur).cls = l := inst_cls _ _ _ _

theorem fieldInst_cls (S : Sys) (f chk cur : Nat) : (S.fieldInst f chk cur).cls = f := inst_cls _ _ _ _

theorem inst_cur_irrel {sc : Scope} (h : sc ≠ .ent) (cls chk cur cur' : Nat) :
    inst sc cls chk cur = inst sc cls chk cur' := by
  cases sc <;> first | rfl | exact absurd rfl h

/-- A guard of coarser-or-equal scope is determined by the field instance. -/
theorem inst_scopeLe {sg sf : Scope} (h : scopeLe sg sf = true) {g f c1 e1 c2 e2 : Nat}
    (hf : inst sf f c1 e1 = inst sf f c2 e2) : inst sg g c1 e1 = inst sg g c2 e2 := by
  cases sg <;> cases sf <;> simp [scopeLe] at h <;> simp [inst] at hf ⊢
  all_goals first | exact hf | exact hf.1 | (obtain ⟨a, b⟩ := hf; exact ⟨a, b⟩) | skip

theorem node_some {S : Sys} {p pc : Nat} {n : Node} (h : S.node p pc = some n) :
    ∃ P, S.progs[p]? = some P ∧ P.nodes[pc]? = some n := by
  unfold Sys.node at h
  split at h
  · exact ⟨_, by assumption, h⟩
  · cases h

theorem node_of {S : Sys} {p pc : Nat} {P : Prog} {n : Node} (hP : S.progs[p]? = some P)
    (hn : P.nodes[pc]? = some n) : S.node p pc = some n := by
  unfold Sys.node; rw [hP]; exact hn

/-! ### what the static checks give -/

theorem cons_prog {S : Sys} (hc : S.consistent = true) {p : Nat} {P : Prog} (hP : S.progs[p]? = some P) :
    Prog.consistent S P = true := by
  unfold Sys.consistent at hc
  rw [List.all_eq_true] at hc
  exact hc P (List.mem_of_getElem? hP)

theorem cons_entry {S : Sys} (hc : S.consistent = true) {p : Nat} {P : Prog} (hP : S.progs[p]? = some P) :
    ∃ n, S.node p P.entry = some n ∧ n.held = [] := by
  have h := cons_prog hc hP
  unfold Prog.consistent at h
  rw [Bool.and_eq_true] at h
  have h1 := h.1
  cases hn : P.nodes[P.entry]? with
  | none => rw [hn] at h1; cases h1
  | some n =>
    rw [hn] at h1
    exact ⟨n, node_of hP hn, by simpa using h1⟩

theorem cons_node {S : Sys} (hc : S.consistent = true) {p pc : Nat} {n : Node} (hn : S.node p pc = some n) :
    ∃ h', transfer S n.instr n.held = some h' ∧
      ∀ s ∈ n.succ, ∃ n', S.node p s = some n' ∧ n'.held = h' := by
  obtain ⟨P, hP, hn'⟩ := node_some hn
  have h := cons_prog hc hP
  unfold Prog.consistent at h
  rw [Bool.and_eq_true] at h
  have h2 := h.2
  rw [List.all_eq_true] at h2
  have h3 := h2 n (List.mem_of_getElem? hn')
  cases ht : transfer S n.instr n.held with
  | none => rw [ht] at h3; cases h3
  | some h' =>
    rw [ht] at h3
    refine ⟨h', rfl, ?_⟩
    intro s hs
    simp only [List.all_eq_true] at h3
    have h4 := h3 s hs
    cases hs' : P.nodes[s]? with
    | none => rw [hs'] at h4; cases h4
    | some n' =>
      rw [hs'] at h4
      exact ⟨n', node_of hP hs', by simpa using h4⟩

theorem wf_node {S : Sys} (hw : S.wf = true) {p pc : Nat} {n : Node} (hn : S.node p pc = some n) :
    ∃ len, Node.wf S len n = true := by
  obtain ⟨P, hP, hn'⟩ := node_some hn
  unfold Sys.wf at hw
  rw [List.all_eq_true] at hw
  have h := hw P (List.mem_of_getElem? hP)
  unfold Prog.wf at h
  rw [Bool.and_eq_true, List.all_eq_true] at h
  exact ⟨_, h.2 n (List.mem_of_getElem? hn')⟩

theorem wf_succ_ne {S : Sys} (hw : S.wf = true) {p pc : Nat} {n : Node} (hn : S.node p pc = some n)
    (hr : n.instr ≠ .ret) : ∃ s, n.succ[0]? = some s := by
  obtain ⟨len, h⟩ := wf_node hw hn
  unfold Node.wf at h
  rw [Bool.and_eq_true] at h
  have h2 := h.2
  have hne : n.succ ≠ [] := by
    intro he
    cases hi : n.instr <;> simp [hi, he] at h2 hr
  cases hs : n.succ with
  | nil => exact absurd hs hne
  | cons a t => exact ⟨a, rfl⟩

theorem wf_spawn {S : Sys} (hw : S.wf = true) {p pc : Nat} {n : Node} (hn : S.node p pc = some n)
    {q : Nat} (hi : n.instr = .spawn q) : ∃ P, S.progs[q]? = some P := by
  obtain ⟨len, h⟩ := wf_node hw hn
  unfold Node.wf at h
  rw [Bool.and_eq_true] at h
  have h2 := h.2
  simp [hi] at h2
  exact ⟨S.progs[q], by simp [h2.2]⟩

/-! ### the annotation invariant -/

/-- class and mode of a held lock -/
def cm (h : Inst × Mode) : Nat × Mode := (h.1.cls, h.2)

/-- Thread `t` is at a node of its program, holds exactly what the node's annotation says, and each
held lock is the instance of its class for the thread's current (checker, entry). -/
def ThreadOk (S : Sys) (t : Thread) : Prop :=
  ∃ n, S.node t.prog t.pc = some n ∧ t.held.map cm = n.held ∧
    ∀ h ∈ t.held, h.1 = S.lockInst h.1.cls t.chk t.cur

def Inv (S : Sys) (c : Config) : Prop := ∀ t ∈ c, ThreadOk S t

theorem map_erase_resolved (R : Nat → Inst) (hR : ∀ l, (R l).cls = l) (l : Nat) (m : Mode) :
    ∀ (L : List (Inst × Mode)), (∀ h ∈ L, h.1 = R h.1.cls) →
      (L.erase (R l, m)).map cm = (L.map cm).erase (l, m)
  | [], _ => rfl
  | h :: L, hres => by
    by_cases he : h = (R l, m)
    · subst he
      have : cm (R l, m) = (l, m) := by simp [cm, hR]
      simp [this]
    · have hne : cm h ≠ (l, m) := by
        intro hc
        apply he
        have h1 : h.1.cls = l := by simpa [cm] using congrArg Prod.fst hc
        have h2 : h.2 = m := by simpa [cm] using congrArg Prod.snd hc
        have h3 := hres h (List.mem_cons_self ..)
        rw [h1] at h3
        exact Prod.ext h3 h2
      have ih := map_erase_resolved R hR l m L (fun x hx => hres x (List.mem_cons_of_mem _ hx))
      rw [List.erase_cons_tail (by simpa using he), List.map_cons, List.map_cons,
        List.erase_cons_tail (by simpa using hne), ih]

theorem mem_held_of_ann {S : Sys} {t : Thread} {n : Node} (hm : t.held.map cm = n.held)
    (hres : ∀ h ∈ t.held, h.1 = S.lockInst h.1.cls t.chk t.cur) {l : Nat} {m : Mode}
    (h : (l, m) ∈ n.held) : (S.lockInst l t.chk t.cur, m) ∈ t.held := by
  rw [← hm, List.mem_map] at h
  obtain ⟨x, hx, hxe⟩ := h
  have h1 : x.1.cls = l := by simpa [cm] using congrArg Prod.fst hxe
  have h2 : x.2 = m := by simpa [cm] using congrArg Prod.snd hxe
  have h3 := hres x hx
  rw [h1] at h3
  have : x = (S.lockInst l t.chk t.cur, m) := Prod.ext h3 h2
  rw [← this]; exact hx

theorem ann_of_mem_held {t : Thread} {n : Node} (hm : t.held.map cm = n.held)
    {h : Inst × Mode} (hh : h ∈ t.held) : (h.1.cls, h.2) ∈ n.held := by
  rw [← hm]; exact List.mem_map.mpr ⟨h, hh, rfl⟩

theorem stepThread_ok {S : Sys} (hc : S.consistent = true) {c : Config} {t t' : Thread} {u : Option Thread}
    {n : Node} {s pv : Nat} (hn : S.node t.prog t.pc = some n) (hok : ThreadOk S t) (hs : s ∈ n.succ)
    (hst : stepThread S c t n s pv = some (t', u)) :
    ThreadOk S t' ∧ ∀ u', u = some u' → ThreadOk S u' := by
  obtain ⟨n0, hn0, hm, hres⟩ := hok
  rw [hn] at hn0; cases hn0
  obtain ⟨h', htr, hsucc⟩ := cons_node hc hn
  obtain ⟨n', hn', hh'⟩ := hsucc s hs
  unfold stepThread at hst
  cases hi : n.instr with
  | acq l m =>
    rw [hi] at hst htr
    simp only at hst
    split at hst
    · cases hst
      refine ⟨⟨n', hn', ?_, ?_⟩, by intro u' hu; cases hu⟩
      · simp only [transfer] at htr; cases htr
        simp [hh', cm, lockInst_cls, hm]
      · intro h hh
        rcases List.mem_cons.mp hh with rfl | hh
        · simp [lockInst_cls]
        · exact hres h hh
    · cases hst
  | rel l m =>
    rw [hi] at hst htr
    simp only at hst
    split at hst
    · cases hst
      refine ⟨⟨n', hn', ?_, ?_⟩, by intro u' hu; cases hu⟩
      · simp only [transfer] at htr
        split at htr
        · cases htr
          rw [hh', ← hm]
          exact map_erase_resolved (fun k => S.lockInst k t.chk t.cur) (fun k => lockInst_cls S k _ _) l m t.held hres
        · cases htr
      · intro h hh
        exact hres h (List.mem_of_mem_erase hh)
    · cases hst
  | rd f =>
    rw [hi] at hst htr; cases hst
    simp only [transfer] at htr; cases htr
    exact ⟨⟨n', hn', by simpa [hh'] using hm, hres⟩, by intro u' hu; cases hu⟩
  | wr f =>
    rw [hi] at hst htr; cases hst
    simp only [transfer] at htr; cases htr
    exact ⟨⟨n', hn', by simpa [hh'] using hm, hres⟩, by intro u' hu; cases hu⟩
  | nop =>
    rw [hi] at hst htr; cases hst
    simp only [transfer] at htr; cases htr
    exact ⟨⟨n', hn', by simpa [hh'] using hm, hres⟩, by intro u' hu; cases hu⟩
  | pick =>
    rw [hi] at hst htr; cases hst
    simp only [transfer] at htr
    split at htr
    · rename_i hall
      cases htr
      refine ⟨⟨n', hn', by simpa [hh'] using hm, ?_⟩, by intro u' hu; cases hu⟩
      intro h hh
      have hsc : S.lscope h.1.cls ≠ .ent := by
        rw [List.all_eq_true] at hall
        have := hall _ (ann_of_mem_held hm hh)
        simpa using this
      have := hres h hh
      show h.1 = inst (S.lscope h.1.cls) h.1.cls t.chk pv
      rw [inst_cur_irrel hsc h.1.cls t.chk pv t.cur]
      exact this
    · cases htr
  | spawn q =>
    rw [hi] at hst htr
    simp only at hst
    split at hst
    · rename_i P hP
      cases hst
      simp only [transfer] at htr; cases htr
      refine ⟨⟨n', hn', by simpa [hh'] using hm, hres⟩, ?_⟩
      intro u' hu; cases hu
      obtain ⟨ne, hne, hhe⟩ := cons_entry hc hP
      exact ⟨ne, hne, by simp [hhe], by intro h hh; cases hh⟩
    · cases hst
  | ret =>
    rw [hi] at hst; cases hst

/-- What one `exec` step is made of. -/
theorem exec_some {S : Sys} {c c' : Config} {i ch pv : Nat} (h : exec S c i ch pv = some c') :
    ∃ t n s t' u, c[i]? = some t ∧ S.node t.prog t.pc = some n ∧ n.succ[ch]? = some s ∧
      stepThread S c t n s pv = some (t', u) ∧
      c' = match u with | none => c.set i t' | some u' => c.set i t' ++ [u'] := by
  unfold exec at h
  cases hci : c[i]? with
  | none => rw [hci] at h; cases h
  | some t =>
    rw [hci] at h; simp only at h
    cases hn : S.node t.prog t.pc with
    | none => rw [hn] at h; cases h
    | some n =>
      rw [hn] at h; simp only at h
      cases hs : n.succ[ch]? with
      | none => rw [hs] at h; cases h
      | some s =>
        rw [hs] at h; simp only at h
        cases hst : stepThread S c t n s pv with
        | none => rw [hst] at h; cases h
        | some r =>
          obtain ⟨t', u⟩ := r
          rw [hst] at h
          cases u with
          | none => cases h; exact ⟨t, n, s, t', none, rfl, hn, hs, hst, rfl⟩
          | some u' => cases h; exact ⟨t, n, s, t', some u', rfl, hn, hs, hst, rfl⟩

theorem exec_inv {S : Sys} (hc : S.consistent = true) {c c' : Config} {i ch pv : Nat}
    (hinv : Inv S c) (h : exec S c i ch pv = some c') : Inv S c' := by
  obtain ⟨t, n, s, t', u, hci, hn, hs, hst, rfl⟩ := exec_some h
  have hok := hinv t (List.mem_of_getElem? hci)
  have hsm : s ∈ n.succ := List.mem_of_getElem? hs
  obtain ⟨h1, h2⟩ := stepThread_ok hc hn hok hsm hst
  intro x hx
  cases u with
  | none =>
    rcases List.mem_or_eq_of_mem_set hx with hx | rfl
    · exact hinv x hx
    · exact h1
  | some u' =>
    rcases List.mem_append.mp hx with hx | hx
    · rcases List.mem_or_eq_of_mem_set hx with hx | rfl
      · exact hinv x hx
      · exact h1
    · rw [List.mem_singleton] at hx; subst hx
      exact h2 _ rfl

theorem init_inv {S : Sys} (hc : S.consistent = true) {c : Config} (hi : Init S c) : Inv S c := by
  intro t ht
  obtain ⟨hh, P, hP, hpc⟩ := hi t ht
  obtain ⟨n, hn, hne⟩ := cons_entry hc hP
  exact ⟨n, by rw [hpc]; exact hn, by simp [hh, hne], by intro h hm; rw [hh] at hm; cases hm⟩

theorem reachable_inv {S : Sys} (hc : S.consistent = true) {c : Config} (hr : Reachable S c) : Inv S c := by
  induction hr with
  | init hi => exact init_inv hc hi
  | step _ hs ih =>
    obtain ⟨i, ch, pv, h⟩ := hs
    exact exec_inv hc ih h

/-! ### mutual exclusion -/

def heldOf (c : Config) (j : Nat) : List (Inst × Mode) :=
  match c[j]? with
  | some t => t.held
  | none => []

/-- Two distinct threads hold the same lock instance only if both hold it for reading. -/
def Excl (c : Config) : Prop :=
  ∀ i j, i ≠ j → ∀ h ∈ heldOf c i, ∀ h' ∈ heldOf c j, h.1 = h'.1 → h.2 = .r ∧ h'.2 = .r

theorem heldOf_set (c : Config) (i j : Nat) (t t' : Thread) (hci : c[i]? = some t) :
    heldOf (c.set i t') j = if j = i then t'.held else heldOf c j := by
  unfold heldOf
  by_cases hji : j = i
  · subst hji
    have hlt : j < c.length := by
      rcases Nat.lt_or_ge j c.length with h | h
      · exact h
      · rw [List.getElem?_eq_none h] at hci; cases hci
    simp [hlt]
  · have : i ≠ j := fun h => hji h.symm
    simp [this, hji]

theorem heldOf_append_idle (c : Config) (u : Thread) (hu : u.held = []) (j : Nat) :
    heldOf (c ++ [u]) j = heldOf c j := by
  unfold heldOf
  rcases Nat.lt_trichotomy j c.length with h | h | h
  · rw [List.getElem?_append_left h]
  · subst h
    simp [hu]
  · have h1 : (c ++ [u])[j]? = none := by
      apply List.getElem?_eq_none; simp; omega
    have h2 : c[j]? = none := List.getElem?_eq_none (by omega)
    rw [h1, h2]

theorem free_w {c : Config} {lid : Inst} (h : free c lid .w = true) {t : Thread} (ht : t ∈ c)
    {x : Inst × Mode} (hx : x ∈ t.held) : x.1 ≠ lid := by
  simp only [free, List.all_eq_true] at h
  simpa using h t ht x hx

theorem free_r {c : Config} {lid : Inst} (h : free c lid .r = true) {t : Thread} (ht : t ∈ c)
    {x : Inst × Mode} (hx : x ∈ t.held) : ¬ (x.1 = lid ∧ x.2 = .w) := by
  simp only [free, List.all_eq_true] at h
  have := h t ht x hx
  intro ⟨h1, h2⟩
  simp [h1, h2] at this

theorem heldOf_mem {c : Config} {j : Nat} {x : Inst × Mode} (hx : x ∈ heldOf c j) :
    ∃ t, c[j]? = some t ∧ t ∈ c ∧ x ∈ t.held := by
  unfold heldOf at hx
  cases hj : c[j]? with
  | none => rw [hj] at hx; cases hx
  | some t => rw [hj] at hx; exact ⟨t, rfl, List.mem_of_getElem? hj, hx⟩

/-- Changing one thread's holdings to a subset, or adding one lock that is free, keeps exclusion. -/
theorem excl_update {c c' : Config} {i : Nat} {t : Thread} (hci : c[i]? = some t) (hex : Excl c)
    (hoth : ∀ j, j ≠ i → heldOf c' j = heldOf c j)
    (hnew : (∀ x ∈ heldOf c' i, x ∈ t.held) ∨
      ∃ lid m, free c lid m = true ∧ ∀ x ∈ heldOf c' i, x = (lid, m) ∨ x ∈ t.held) : Excl c' := by
  have hti : heldOf c i = t.held := by unfold heldOf; rw [hci]
  -- a new holding of thread i against an old holding of another thread j
  have key : ∀ j, j ≠ i → ∀ x ∈ heldOf c' i, ∀ y ∈ heldOf c j, x.1 = y.1 → x.2 = .r ∧ y.2 = .r := by
    intro j hji x hx y hy hxy
    rcases hnew with hsub | ⟨lid, m, hfree, hor⟩
    · exact hex i j (fun h => hji h.symm) x (hti ▸ hsub x hx) y hy hxy
    · rcases hor x hx with rfl | hold
      · obtain ⟨tj, _, htj, hyj⟩ := heldOf_mem hy
        cases m with
        | w => exact absurd hxy.symm (free_w hfree htj hyj)
        | r =>
          refine ⟨rfl, ?_⟩
          cases hy2 : y.2 with
          | r => rfl
          | w => exact absurd ⟨hxy.symm, hy2⟩ (free_r hfree htj hyj)
      · exact hex i j (fun h => hji h.symm) x (hti ▸ hold) y hy hxy
  intro a b hab x hx y hy hxy
  by_cases hai : a = i
  · subst hai
    have hb : b ≠ a := fun h => hab h.symm
    rw [hoth b hb] at hy
    exact key b hb x hx y hy hxy
  · by_cases hbi : b = i
    · subst hbi
      rw [hoth a hai] at hx
      have := key a hai y hy x hx hxy.symm
      exact ⟨this.2, this.1⟩
    · rw [hoth a hai] at hx; rw [hoth b hbi] at hy
      exact hex a b hab x hx y hy hxy

theorem exec_excl {S : Sys} {c c' : Config} {i ch pv : Nat} (hex : Excl c)
    (h : exec S c i ch pv = some c') : Excl c' := by
  obtain ⟨t, n, s, t', u, hci, hn, hs, hst, rfl⟩ := exec_some h
  -- holdings of the stepped thread
  have hheld : (t'.held = t.held ∨ (∃ x, t'.held = t.held.erase x)) ∨
      ∃ lid m, free c lid m = true ∧ t'.held = (lid, m) :: t.held := by
    unfold stepThread at hst
    cases hi : n.instr with
    | acq l m =>
      rw [hi] at hst; simp only at hst
      split at hst
      · rename_i hf
        cases hst; exact Or.inr ⟨_, _, hf, rfl⟩
      · cases hst
    | rel l m =>
      rw [hi] at hst; simp only at hst
      split at hst
      · cases hst; exact Or.inl (Or.inr ⟨_, rfl⟩)
      · cases hst
    | rd f => rw [hi] at hst; cases hst; exact Or.inl (Or.inl rfl)
    | wr f => rw [hi] at hst; cases hst; exact Or.inl (Or.inl rfl)
    | nop => rw [hi] at hst; cases hst; exact Or.inl (Or.inl rfl)
    | pick => rw [hi] at hst; cases hst; exact Or.inl (Or.inl rfl)
    | spawn q =>
      rw [hi] at hst; simp only at hst
      split at hst
      · cases hst; exact Or.inl (Or.inl rfl)
      · cases hst
    | ret => rw [hi] at hst; cases hst
  have hu : ∀ u', u = some u' → u'.held = [] := by
    intro u' hu'
    subst hu'
    unfold stepThread at hst
    cases hi : n.instr with
    | spawn q =>
      rw [hi] at hst; simp only at hst
      split at hst
      · cases hst; rfl
      · cases hst
    | acq l m => rw [hi] at hst; simp only at hst; split at hst <;> cases hst
    | rel l m => rw [hi] at hst; simp only at hst; split at hst <;> cases hst
    | rd f => rw [hi] at hst; cases hst
    | wr f => rw [hi] at hst; cases hst
    | nop => rw [hi] at hst; cases hst
    | pick => rw [hi] at hst; cases hst
    | ret => rw [hi] at hst; cases hst
  have hset : ∀ j, heldOf (match u with | none => c.set i t' | some u' => c.set i t' ++ [u']) j
      = if j = i then t'.held else heldOf c j := by
    intro j
    cases u with
    | none => exact heldOf_set c i j t t' hci
    | some u' =>
      show heldOf (c.set i t' ++ [u']) j = _
      rw [heldOf_append_idle _ _ (hu u' rfl)]
      exact heldOf_set c i j t t' hci
  apply excl_update hci hex
  · intro j hji; rw [hset j, if_neg hji]
  · rw [hset i, if_pos rfl]
    rcases hheld with (he | ⟨x, he⟩) | ⟨lid, m, hf, he⟩
    · left; intro y hy; rw [he] at hy; exact hy
    · left; intro y hy; rw [he] at hy; exact List.mem_of_mem_erase hy
    · right; refine ⟨lid, m, hf, ?_⟩
      intro y hy; rw [he] at hy
      exact List.mem_cons.mp hy

theorem init_excl {S : Sys} {c : Config} (hi : Init S c) : Excl c := by
  intro i j _ x hx
  obtain ⟨t, _, ht, hxt⟩ := heldOf_mem hx
  rw [(hi t ht).1] at hxt; cases hxt

theorem reachable_excl {S : Sys} {c : Config} (hr : Reachable S c) : Excl c := by
  induction hr with
  | init hi => exact init_excl hi
  | step _ hs ih =>
    obtain ⟨i, ch, pv, h⟩ := hs
    exact exec_excl ih h

end Crv.Locks
