import Crv.Proofs.ReaderDet
/-!
The round trip `readCRL O (enc d)` for every document of the supported profile (C06, used by C01/C04/C17).
-/
namespace Crv
open Crv.Generated

/-- What follows the optional nextUpdate starts with SEQUENCE or [0], never with UTCTime. -/
theorem tail_not_utc (en : Option (List Bytes)) (ex : Option Bytes) (y t : Bytes) :
    ∃ tag t', encList en ++ (encExts ex ++ (seqOf y ++ t)) = tag :: t' ∧ (tag == 23) = false := by
  cases en with
  | some l => exact ⟨0x30, _, rfl, by decide⟩
  | none =>
    cases ex with
    | some x => exact ⟨0xA0, _, rfl, by decide⟩
    | none => exact ⟨0x30, _, rfl, by decide⟩

def rest2 (d : Doc) : Bytes := seqOf d.outerAlg ++ encSig d

def bodyOf (d : Doc) : Bytes := encTbs d ++ rest2 d

theorem enc_eq (d : Doc) : enc d = seqOf (bodyOf d) := rfl

/-- Length facts that follow from `(enc d).length < 2^32`. -/
structure Sizes (d : Doc) : Prop where
  body : (bodyOf d).length < 2 ^ 32
  tbs : (tbsContent d).length < 2 ^ 32
  tbsFrame : (encTbs d).length < 2 ^ 32
  list : (encList d.entries).length < 2 ^ 32
  exts : ∀ x, d.exts = some x → (seqOf x).length < 2 ^ 32

theorem sizes_of (d : Doc) (h : (enc d).length < 2 ^ 32) : Sizes d := by
  have h1 : (bodyOf d).length < 2 ^ 32 := by
    rw [enc_eq, seqOf, tlv_length] at h; omega
  have h2 : (encTbs d).length < 2 ^ 32 := by
    simp only [bodyOf, List.length_append] at h1; omega
  have h3 : (tbsContent d).length < 2 ^ 32 := by
    rw [encTbs, seqOf, tlv_length] at h2; omega
  have h4 : (encList d.entries).length + (encExts d.exts).length < 2 ^ 32 := by
    simp only [tbsContent, List.length_append] at h3; omega
  refine ⟨h1, h3, h2, by omega, ?_⟩
  intro x hx
  rw [hx] at h4
  simp only [encExts] at h4
  rw [tlv_length] at h4
  omega

/-- The expected result of reading `enc d`. -/
def resultOf (d : Doc) (oid : List Nat) (h : HashAlg) (es : Option (List Ext)) : ReadResult :=
  { algOid := oid, hashAlg := h, issuer := seqOf d.issuer, exts := es, sig := ⟨d.sig, d.sig.length * 8⟩,
    hashRegion := encTbs d, hashFrom := 1 + (encLen (bodyOf d).length).length }

theorem det_prescan (O : Oracle) (d : Doc) (oid : List Nat) (h : HashAlg) (es : Option (List Ext)) (num : Option Nat)
    (wf : WF O d oid h es num) :
    ∃ c', Det (prescan O) ⟨enc d, 0, false, [], 0, []⟩ (oid, seqOf d.outerAlg) c' := by
  have sz := sizes_of d wf.total
  let c0 : Core := ⟨enc d, 0, false, [], 0, []⟩
  have h0 : c0.rest = tlv 0x30 (bodyOf d) ++ [] := by simp [c0, enc_eq, seqOf]
  let c1 := c0.after (0x30 :: encLen (bodyOf d).length) (bodyOf d ++ [])
  have hc1 : c1.rest = (0x30 : UInt8) :: (encLen (tbsContent d).length ++ (tbsContent d ++ (rest2 d ++ []))) := by
    simp only [c1, Core.after, bodyOf, encTbs, seqOf, tlv, List.append_assoc, List.cons_append]
  have hc1' : c1.rest = encTbs d ++ (rest2 d ++ []) := by
    simp only [c1, Core.after, bodyOf, List.append_assoc]
  let c2 := c1.after (encTbs d) (rest2 d ++ [])
  refine ⟨c2.after (seqOf d.outerAlg) (encSig d ++ []), ?_⟩
  unfold Crv.prescan
  refine det_bind (det_header c0 0x30 (bodyOf d) [] sz.body h0) ?_
  refine det_bind (det_expectTag _ 0x30) ?_
  refine det_bind (det_peekTL c1 0x30 (tbsContent d).length _ sz.tbs hc1) ?_
  -- discard the whole tbsCertList
  have hlen : (⟨0x30, (tbsContent d).length, (encLen (tbsContent d).length).length⟩ : TL).tlvLen = (encTbs d).length := by
    simp only [TL.tlvLen, encTbs, seqOf, tlv_length]
  rw [hlen, narrow64_small (by have := sz.tbsFrame; omega)]
  have hd := det_discard c1 (encTbs d).length rfl (by rw [hc1']; simp)
  rw [consume_seg c1 (encTbs d) (rest2 d ++ []) hc1'] at hd
  refine det_bind hd ?_
  have hc2 : c2.rest = seqOf d.outerAlg ++ (encSig d ++ []) := by
    simp only [c2, Core.after, rest2, List.append_assoc]
  refine det_bind (det_seqFrame c2 d.outerAlg _ wf.outerLen hc2) ?_
  refine det_bind (det_logQuery _ _ _) ?_
  simp only [wf.algOk]
  exact det_pure _ _

end Crv

namespace Crv
open Crv.Generated

/-- Everything of tbsCertList after the version and the inner AlgorithmIdentifier … used to name rests. -/
def afterNext (d : Doc) : Bytes := encList d.entries ++ (encExts d.exts ++ (seqOf d.outerAlg ++ (encSig d ++ [])))

theorem tbsContent_rest (d : Doc) :
    tbsContent d ++ (rest2 d ++ []) =
      encVersion d.version ++ (seqOf d.innerAlg ++ (seqOf d.issuer ++ (tlv 23 d.thisUpdate ++
        (encOptTime d.nextUpdate ++ afterNext d)))) := by
  simp only [tbsContent, rest2, afterNext, List.append_assoc]

theorem det_readBody (O : Oracle) (d : Doc) (oid : List Nat) (h : HashAlg) (es : Option (List Ext)) (num : Option Nat)
    (wf : WF O d oid h es num) :
    Det (readBody O oid (seqOf d.outerAlg)) ⟨enc d, 0, false, [], 0, []⟩ (resultOf d oid h es)
      ⟨[], (enc d).length, false, encTbs d, 1 + (encLen (bodyOf d).length).length, eventsOf d num⟩ := by
  have sz := sizes_of d wf.total
  have htot := wf.total
  let c0 : Core := ⟨enc d, 0, false, [], 0, []⟩
  have h0 : c0.rest = tlv 0x30 (bodyOf d) ++ [] := by simp [c0, enc_eq, seqOf]
  let H : Bytes := 0x30 :: encLen (bodyOf d).length
  let c1 := c0.after H (bodyOf d ++ [])
  let c2 : Core := { c1 with hashing := true, hashed := [], hashFrom := c1.pos }
  have hc2 : c2.rest = tlv 0x30 (tbsContent d) ++ (rest2 d ++ []) := by
    simp only [c2, c1, Core.after, bodyOf, encTbs, seqOf, List.append_assoc]
  let HT : Bytes := 0x30 :: encLen (tbsContent d).length
  let c3 := c2.after HT (tbsContent d ++ (rest2 d ++ []))
  have hc3 : c3.rest = encVersion d.version ++ (seqOf d.innerAlg ++ (seqOf d.issuer ++ (tlv 23 d.thisUpdate ++
        (encOptTime d.nextUpdate ++ afterNext d)))) := by
    simp only [c3, Core.after]; exact tbsContent_rest d
  let c4 := c3.after (encVersion d.version) (seqOf d.innerAlg ++ (seqOf d.issuer ++ (tlv 23 d.thisUpdate ++
        (encOptTime d.nextUpdate ++ afterNext d))))
  let c5 := c4.after (seqOf d.innerAlg) (seqOf d.issuer ++ (tlv 23 d.thisUpdate ++ (encOptTime d.nextUpdate ++ afterNext d)))
  let c6 := c5.after (seqOf d.issuer) (tlv 23 d.thisUpdate ++ (encOptTime d.nextUpdate ++ afterNext d))
  let c7 := c6.after (tlv 23 d.thisUpdate) (encOptTime d.nextUpdate ++ afterNext d)
  obtain ⟨tag, tl, htail, htag⟩ := tail_not_utc d.entries d.exts d.outerAlg (encSig d ++ [])
  have hafter : afterNext d = tag :: tl := htail
  let c8 := c7.after (encOptTime d.nextUpdate) (afterNext d)
  let c9 : Core := { c8 with events := c8.events ++ [.start (seqOf d.issuer) d.thisUpdate d.nextUpdate] }
  let c10 : Core := { (c9.after (encList d.entries) (encExts d.exts ++ (seqOf d.outerAlg ++ (encSig d ++ [])))) with
      events := c9.events ++ (match d.entries with | none => [] | some l => entryEvents l) }
  let c11 := c10.after (encExts d.exts) (seqOf d.outerAlg ++ (encSig d ++ []))
  let c12 : Core := { c11 with events := c11.events ++ [.extMeta num] }
  let c13 : Core := { c12 with hashing := false }
  let c14 := c13.after (seqOf d.outerAlg) (encSig d ++ [])
  let c15 := c14.after (encSig d) []
  -- sizes needed below
  have hinner : d.innerAlg.length < 2 ^ 32 := by have := wf.innerLen; omega
  have houter : d.outerAlg.length < 2 ^ 32 := by have := wf.outerLen; omega
  -- tbsEnd in terms of later positions
  have hT : (tbsContent d).length = (encVersion d.version).length + (seqOf d.innerAlg).length + (seqOf d.issuer).length +
      (tlv 23 d.thisUpdate).length + (encOptTime d.nextUpdate).length + (encList d.entries).length + (encExts d.exts).length := by
    simp only [tbsContent, List.length_append]; omega
  have hp3 : c3.pos = H.length + HT.length := by simp [c3, c2, c1, c0, Core.after]
  have hHlen : H.length ≤ 6 := by have := encLen_length_le (bodyOf d).length; simp only [H, List.length_cons]; omega
  have hHTlen : HT.length ≤ 6 := by have := encLen_length_le (tbsContent d).length; simp only [HT, List.length_cons]; omega
  have hp9 : c9.pos = c3.pos + ((encVersion d.version).length + (seqOf d.innerAlg).length + (seqOf d.issuer).length +
      (tlv 23 d.thisUpdate).length + (encOptTime d.nextUpdate).length) := by
    simp only [c9, c8, c7, c6, c5, c4, Core.after]; omega
  have hend9 : c3.pos + (tbsContent d).length = c9.pos + (encList d.entries ++ encExts d.exts).length := by
    rw [hp9, hT, List.length_append]; omega
  have hp10 : c10.pos = c9.pos + (encList d.entries).length := by simp only [c10, Core.after]
  have hend10 : c3.pos + (tbsContent d).length = c10.pos + (encExts d.exts).length := by
    rw [hp10, hp9, hT]; omega
  have hsmall : c3.pos + (tbsContent d).length < 2 ^ 63 := by have := sz.tbs; omega
  unfold Crv.readBody
  refine det_bind (det_header c0 0x30 (bodyOf d) [] sz.body h0) ?_
  refine det_bind (det_expectTag _ 0x30) ?_
  simp only [outerLengthChecked, ↓reduceIte]
  have hp1 : c1.pos = H.length := by simp [c1, c0, Core.after]
  have hencLen : (enc d).length = H.length + (bodyOf d).length := by
    simp only [enc_eq, seqOf, tlv, H, List.length_cons, List.length_append]; omega
  refine det_bind (det_endPosition c1 (bodyOf d).length (by rw [hp1, ← hencLen]; omega)) ?_
  refine det_bind (det_lookupHashM oid h wf.hashOk _) ?_
  refine det_bind (det_setHashing c1 true) ?_
  refine det_bind (det_header c2 0x30 (tbsContent d) _ sz.tbs hc2) ?_
  refine det_bind (det_expectTag _ 0x30) ?_
  refine det_bind (det_endPosition c3 _ hsmall) ?_
  refine det_bind (det_version c3 d.version d.innerAlg _ hinner hc3) ?_
  have hver : ¬ verOf d.version > maxVersion := by
    have := wf.versionOk; unfold docVersion at this; exact Nat.not_lt.mpr this
  simp only [hver, ↓reduceIte]
  refine det_bind (det_readInnerAlg O c4 (seqOf d.outerAlg) d.innerAlg _ wf.innerLen rfl
    (by rw [wf.algSame, wf.algOk]; rfl) (by rw [wf.algSame])) ?_
  refine det_bind (det_seqStruct c5 .rdn O.rdnOk d.issuer _ wf.issuerLen rfl wf.issuerOk) ?_
  refine det_bind (det_utc O c6 d.thisUpdate _ wf.thisLen rfl wf.thisOk) ?_
  have hc7 : c7.rest = encOptTime d.nextUpdate ++ (tag :: tl) := by simp only [c7, Core.after, hafter]
  have hnu := det_nextUpdate O c7 d.nextUpdate tag tl wf.nextLen wf.nextOk htag hc7
  rw [← hafter] at hnu
  refine det_bind hnu ?_
  refine det_bind (det_emit c8 _) ?_
  -- revokedCertificates
  have hel := det_entryList O c9 d.entries d.exts d.outerAlg (encSig d ++ [])
    (fun l hl e he => ⟨wf.entryLen l hl e he, wf.entriesOk l hl e he⟩) sz.list sz.exts houter
    (by
      have : c9.pos + (encList d.entries).length ≤ c3.pos + (tbsContent d).length := by rw [hp9, hT]; omega
      omega) rfl
  rw [← hend9] at hel
  refine det_bind hel ?_
  -- crlExtensions
  have hex := det_extensions O c10 d.exts d.outerAlg (encSig d ++ []) (verOf d.version)
    es num wf.extsLen (by intro hs; have := wf.extsV2 hs; unfold docVersion at this; exact this) houter wf.extsOk rfl
  rw [← hend10] at hex
  refine det_bind hex ?_
  simp only
  refine det_bind (det_emit c11 _) ?_
  have hgate : Det (checkGate es) c12 () c12 := by
    have := wf.extsOk
    cases hde : d.exts with
    | none => rw [hde] at this; rw [this.1]; exact det_checkGate_none _
    | some x =>
      rw [hde] at this
      obtain ⟨l, _, h2, h3, _⟩ := this
      rw [h2]; exact det_checkGate_some l h3 _
  refine det_bind hgate ?_
  refine det_bind (det_getHashed c12) ?_
  refine det_bind (det_getHashFrom c12) ?_
  have hsh := det_setHashing c12 false
  refine det_bind hsh ?_
  show Det _ c13 _ _
  refine det_bind (det_ignoreErr (det_seqFrame c13 d.outerAlg _ wf.outerLen rfl)) ?_
  have hsig := det_parseBitString c14 d.sig [] wf.sigLen rfl
  refine det_bind hsig ?_
  -- the final state and result
  have hres : (ReadResult.mk oid h (seqOf d.issuer) es ⟨d.sig, d.sig.length * 8⟩ c12.hashed c12.hashFrom) =
      resultOf d oid h es := by
    simp only [resultOf, ReadResult.mk.injEq, true_and]
    refine ⟨?_, ?_⟩
    · simp only [c12, c11, c10, c9, c8, c7, c6, c5, c4, c3, c2, Core.after, ↓reduceIte, List.nil_append, HT,
        encTbs, seqOf, tlv, tbsContent, List.append_assoc, List.cons_append]
    · simp only [c12, c11, c10, c9, c8, c7, c6, c5, c4, c3, c2, c1, c0, Core.after, H, List.length_cons]
      omega
  have hfin : c14.after (tlv 3 (0 :: d.sig)) [] =
      ⟨[], (enc d).length, false, encTbs d, 1 + (encLen (bodyOf d).length).length, eventsOf d num⟩ := by
    simp only [c14, c13, c12, c11, c10, c9, c8, c7, c6, c5, c4, c3, c2, c1, c0, Core.after, ↓reduceIte,
      Bool.false_eq_true, List.nil_append, Core.mk.injEq, true_and, List.append_nil]
    refine ⟨?_, ?_, ?_, ?_⟩
    · have hE : (enc d).length = H.length + (HT.length + ((tbsContent d).length +
          ((seqOf d.outerAlg).length + (tlv 3 (0 :: d.sig)).length))) := by
        simp only [enc_eq, seqOf, tlv, bodyOf, encTbs, rest2, encSig, H, HT, List.length_cons, List.length_append]
        omega
      rw [hE, hT]
      simp only [seqOf, tlv_length]
      omega
    · simp only [HT, encTbs, seqOf, tlv, tbsContent, List.append_assoc, List.cons_append]
    · simp only [H, List.length_cons]; omega
    · simp only [eventsOf, List.nil_append, List.cons_append]
      rfl
  rw [hres]
  have : tlv 3 ((0 : UInt8) :: d.sig) = encSig d := rfl
  rw [← hfin]
  refine det_bind (det_checkEnvelope _ _ _ (Nat.mul_mod_left _ _) ?_) (det_pure _ _)
  rw [hfin, hp1, hencLen]

end Crv
