import Crv.Proofs.Config
import Crv.Generated.Config
/-!
Helper lemmas for C19 over the regenerated facts (`Crv.Generated.configFacts`): what the Caddyfile
parser makes of rendered settings, and closed forms of parseCRLConfig / parseOCSPConfig /
validateConfig / Provision / UnmarshalCaddyfile as the current step lists define them.
Every `rfl`/`decide` here re-checks against the tables regenerated from /repo on each run.
-/
namespace Crv.Config.Closed


open Crv Crv.Config Crv.Generated

abbrev K := caddyFacts
abbrev L := loadFacts
abbrev Fx := configFacts

/-! ### The regenerated step lists (revocation.go, configparser.go), as the proofs below expect them -/

theorem L_provisionSteps : L.provisionSteps =
    [.allocCrlIfEnabled, .allocOcsp, .parseConfig, .validate, .crlProvisionIfEnabled, .ocspProvision] := rfl
theorem L_parseSteps : L.parseSteps = [.crl, .ocsp true, .mode] := rfl
theorem L_unmarshalSteps : L.unmarshalSteps = [.copyOcsp, .copyCrl, .copyMode, .parseMode, .validate] := rfl
theorem L_crlSteps : L.crlSteps = [.sigMode, .storage, .interval, .signers, .cdp] := rfl
theorem L_ocspSteps : L.ocspSteps = [.cacheDuration, .responders] := rfl
theorem L_crlEnabled : L.crlEnabled = crlEnabled := rfl
theorem L_parseMode : L.parseMode = parseMode := rfl
theorem L_modeZero : L.modeZero = .preferOCSP := rfl

theorem foldl_urls (l : List String) (c : RawCrl) :
    l.foldl (fun s v => assign K.crl ((crlSetters K).append .urls v) s) c = { c with urls := c.urls ++ l } := by
  induction l generalizing c with
  | nil => simp
  | cons v vs ih =>
    rw [List.foldl_cons, ih]
    simp [assign, crlSetters, K, caddyFacts, crlBlock]

theorem parse_render_cdp (c : CdpCfg) : parseBlock K.cdp cdpSetters (renderCdp c) {} = .ok (jsonOfCdp c) := by
  have h1 : lookupKey "crl_fetch_mode" K.cdp.keys = some (.str .fetchMode) := by decide
  have h2 : lookupKey "crl_cdp_strict" K.cdp.keys = some (.parsedBool .strict) := by decide
  unfold renderCdp
  rw [parseBlock_optLine_str _ _ h1]
  have := parseBlock_optLine_bool K.cdp cdpSetters h2 c.strict []
  simp only [List.append_nil] at this
  rw [this]
  rcases c with ⟨_ | f, _ | b⟩ <;> rfl


theorem foldl_files (l : List String) (c : RawCrl) :
    l.foldl (fun s v => assign K.crl ((crlSetters K).append .files v) s) c = { c with files := c.files ++ l } := by
  induction l generalizing c with
  | nil => simp
  | cons v vs ih =>
    rw [List.foldl_cons, ih]
    simp [assign, crlSetters, K, caddyFacts, crlBlock]

theorem foldl_signers (l : List String) (c : RawCrl) :
    l.foldl (fun s v => assign K.crl ((crlSetters K).append .signers v) s) c = { c with signers := c.signers ++ l } := by
  induction l generalizing c with
  | nil => simp
  | cons v vs ih =>
    rw [List.foldl_cons, ih]
    simp [assign, crlSetters, K, caddyFacts, crlBlock]

theorem foldl_responders (l : List String) (c : RawOcsp) :
    l.foldl (fun s v => assign K.ocsp (ocspSetters.append .responders v) s) c = { c with responders := c.responders ++ l } := by
  induction l generalizing c with
  | nil => simp
  | cons v vs ih =>
    rw [List.foldl_cons, ih]
    simp [assign, ocspSetters, K, caddyFacts, ocspBlock]

theorem parse_render_ocsp (c : OcspCfg) : parseBlock K.ocsp ocspSetters (renderOcsp c) {} = .ok (jsonOfOcsp c) := by
  have h1 : lookupKey "default_cache_duration" K.ocsp.keys = some (.str .cacheDuration) := by decide
  have h2 : lookupKey "trusted_responder_cert_file" K.ocsp.keys = some (.append .responders) := by decide
  have h3 : lookupKey "ocsp_aia_strict" K.ocsp.keys = some (.parsedBool .aiaStrict) := by decide
  unfold renderOcsp
  rw [List.append_assoc, parseBlock_optLine_str _ _ h1, parseBlock_lines_append _ _ h2, foldl_responders]
  have := parseBlock_optLine_bool K.ocsp ocspSetters h3 c.aiaStrict []
  simp only [List.append_nil] at this
  rw [this]
  rcases c with ⟨_ | f, r, _ | b⟩ <;> simp [parseBlock, jsonOfOcsp, assign, ocspSetters, K, caddyFacts, ocspBlock]

theorem parse_render_crl (c : CrlCfg) : parseBlock K.crl (crlSetters K) (renderCrl c) {} = .ok (jsonOfCrl c) := by
  have h1 : lookupKey "work_dir" K.crl.keys = some (.str .workDir) := by decide
  have h2 : lookupKey "storage_type" K.crl.keys = some (.str .storage) := by decide
  have h3 : lookupKey "update_interval" K.crl.keys = some (.str .interval) := by decide
  have h4 : lookupKey "signature_validation_mode" K.crl.keys = some (.str .sigMode) := by decide
  have h5 : lookupKey "crl_url" K.crl.keys = some (.append .urls) := by decide
  have h6 : lookupKey "crl_file" K.crl.keys = some (.append .files) := by decide
  have h7 : lookupKey "trusted_signature_cert_file" K.crl.keys = some (.append .signers) := by decide
  have h8 : lookupKey "cdp_config" K.crl.keys = some (.sub .cdp) := by decide
  unfold renderCrl
  simp only [List.append_assoc]
  rw [parseBlock_optLine_str _ _ h1, parseBlock_optLine_str _ _ h2, parseBlock_optLine_str _ _ h3,
    parseBlock_optLine_str _ _ h4, parseBlock_lines_append _ _ h5, foldl_urls, parseBlock_lines_append _ _ h6, foldl_files,
    parseBlock_lines_append _ _ h7, foldl_signers]
  have hsub : ∀ blk, (crlSetters K).sub .cdp blk =
      (parseBlock K.cdp cdpSetters blk {}).map (fun r c => { c with cdp := some r }) := fun _ => rfl
  rcases c with ⟨wd, st, iv, sg, urls, files, signers, _ | cdp⟩
  · rcases wd with _ | wd <;> rcases st with _ | st <;> rcases iv with _ | iv <;> rcases sg with _ | sg <;>
      simp [parseBlock, jsonOfCrl, assign, crlSetters, K, caddyFacts, crlBlock]
  · simp only [parseBlock_cons, procEntry_block _ _ h8, hsub, parse_render_cdp, Res.map_ok, Res.bind_ok, parseBlock]
    rcases wd with _ | wd <;> rcases st with _ | st <;> rcases iv with _ | iv <;> rcases sg with _ | sg <;>
      simp [jsonOfCrl, assign, crlSetters, K, caddyFacts, crlBlock]


/-- What the Caddyfile parser builds for the settings `c`: as the JSON form, except that an absent
`crl_config` / `ocsp_config` leaves the parser's initial (non-nil, empty) structs. -/
def caddyOf (c : Cfg) : RawCfg :=
  { mode := c.mode.getD ""
    crl := some (match c.crl with | none => { cdp := some {} } | some d => jsonOfCrl d)
    ocsp := some (match c.ocsp with | none => {} | some o => jsonOfOcsp o) }

theorem parse_render (c : Cfg) : parseCaddyfile K (renderCaddyfile c) = .ok (caddyOf c) := by
  have h1 : lookupKey "mode" K.top.keys = some (.str .mode) := by decide
  have h2 : lookupKey "crl_config" K.top.keys = some (.sub .crl) := by decide
  have h3 : lookupKey "ocsp_config" K.top.keys = some (.sub .ocsp) := by decide
  have hs2 : ∀ blk, (topSetters K).sub .crl blk =
      (parseBlock K.crl (crlSetters K) blk {}).map (fun r c => { c with crl := some r }) := fun _ => rfl
  have hs3 : ∀ blk, (topSetters K).sub .ocsp blk =
      (parseBlock K.ocsp ocspSetters blk {}).map (fun r c => { c with ocsp := some r }) := fun _ => rfl
  unfold parseCaddyfile renderCaddyfile
  rw [List.append_assoc, parseBlock_optLine_str _ _ h1]
  rcases c with ⟨m, _ | crl, _ | ocsp⟩ <;>
    simp only [List.nil_append, List.cons_append, parseBlock_cons, procEntry_block _ _ h2, procEntry_block _ _ h3, hs2, hs3,
      parse_render_crl, parse_render_ocsp, Res.map_ok, Res.bind_ok, parseBlock] <;>
    rcases m with _ | m <;> simp [caddyOf, topInit, assign, topSetters, K, caddyFacts, topBlock]


/-- `validateConfig` reads the configured part and `ModeParsed` only. -/
def validateRaw (env : Env) (raw : RawCfg) (m : Mode) : Res Unit := validate L env { raw := raw, modeParsed := m }

theorem validate_eq (env : Env) (st : VState) : validate L env st = validateRaw env st.raw st.modeParsed := rfl


/-! ### Closed forms of the value parsers and of validateConfig -/


/-- Closed form of parseCRLConfig. -/
def crlSpec (env : Env) (raw : RawCrl) : Res EffCrl :=
  (optRes (parseSignatureValidationMode raw.sigMode)).bind fun sg =>
  (optRes (parseStorageType raw.storage)).bind fun st =>
  (parseDurationField env raw.interval 1800000000000 true).bind fun iv =>
  (if raw.signers.all env.certOk then Res.ok () else Res.error).bind fun _ =>
  (match raw.cdp with
   | some c => (optRes (parseCRLFetchMode c.fetchMode)).map fun m => ({ fetchMode := m, strict := c.strict } : EffCdp)
   | none => Res.ok { fetchMode := .actively, strict := false }).map fun cdp =>
  { workDir := raw.workDir, storage := st, intervalNs := iv, sigMode := sg, urls := raw.urls, files := raw.files,
    signers := raw.signers, cdp := some cdp }

theorem parseCrl_closed (env : Env) (raw : RawCrl) : parseCrl L env raw = crlSpec env raw := by
  unfold crlSpec
  simp only [parseCrl, L_crlSteps, runCrlSteps, crlStep, crlUnparsed,
    show L.parseSigMode = parseSignatureValidationMode from rfl, show L.parseStorage = parseStorageType from rfl,
    show L.parseFetchMode = parseCRLFetchMode from rfl, show L.defaultIntervalNs = 1800000000000 from rfl, show L.intervalMustBePositive = true from rfl,
    show L.nilCdpDefault = { fetchMode := .actively, strict := false } from rfl]
  cases parseSignatureValidationMode raw.sigMode <;> simp only [optRes, Res.map_ok, Res.map_error, Res.bind_ok, Res.bind_error]
  cases parseStorageType raw.storage <;> simp only [optRes, Res.map_ok, Res.map_error, Res.bind_ok, Res.bind_error]
  cases parseDurationField env raw.interval 1800000000000 true <;> simp only [Res.map_ok, Res.map_error, Res.map_panic, Res.bind_ok, Res.bind_error, Res.bind_panic]
  cases raw.signers.all env.certOk <;> simp only [if_true, if_false, Bool.false_eq_true, Res.bind_ok, Res.bind_error]
  rcases raw.cdp with _ | c <;> simp only [Res.map_ok]
  cases parseCRLFetchMode c.fetchMode <;> simp only [optRes, Res.map_ok, Res.map_error]



def validateSpec (env : Env) (raw : RawCfg) (m : Mode) : Res Unit :=
  if crlEnabled m then
    match raw.crl with
    | none => .error
    | some c => if c.workDir = "" then .error else
      match env.path c.workDir with
      | .dir => .ok ()
      | _ => .error
  else .ok ()

theorem validate_closed (env : Env) (raw : RawCfg) (m : Mode) : validateRaw env raw m = validateSpec env raw m := by
  unfold validateRaw validateSpec validate
  simp only [show L.validateDisabledShortcut = true from rfl, show L.validateGuarded = true from rfl,
    show L.crlEnabled = crlEnabled from rfl, show L.validateChecks = [.crlNil, .workDirEmpty, .statErr, .notDir] from rfl]
  cases m <;> simp [crlEnabled, runChecks]
  all_goals (rcases raw.crl with _ | c <;> simp only [])
  all_goals (by_cases hw : c.workDir = "" <;> simp only [hw, if_true, if_false])
  all_goals (cases env.path c.workDir <;> simp)

def ocspSpec (env : Env) (raw : RawOcsp) : Res EffOcsp :=
  (parseDurationField env raw.cacheDuration 0 false).bind fun cd =>
  (if raw.responders.all env.certOk then Res.ok () else Res.error).map fun _ =>
  { cacheNs := cd, responders := raw.responders, aiaStrict := raw.aiaStrict }

theorem parseOcsp_closed (env : Env) (raw : RawOcsp) : parseOcsp L env raw = ocspSpec env raw := by
  unfold ocspSpec
  simp only [parseOcsp, show L.ocspSteps = [.cacheDuration, .responders] from rfl, runOcspSteps, ocspStep,
    show L.defaultCacheNs = 0 from rfl, show L.cacheMustBePositive = false from rfl]
  cases parseDurationField env raw.cacheDuration 0 false <;> simp only [Res.map_ok, Res.map_error, Res.map_panic, Res.bind_ok, Res.bind_error, Res.bind_panic]
  cases raw.responders.all env.certOk <;> simp

theorem parseDurationField_ne_panic (env : Env) (s : String) (d : Int) (pos : Bool) :
    parseDurationField env s d pos ≠ .panic := by
  unfold parseDurationField
  split
  · cases env.dur s
    · simp
    · simp only; split <;> simp
  · simp

/-! ### Closed form of Provision and of the two load paths -/

/-- Closed form of `Provision` on the regenerated step lists. `chk`: a CRL checker object exists. -/
def provisionSpec (env : Env) (raw : RawCfg) (chk : Bool) : Res Effective :=
  (match raw.crl with | some c => (parseCrl L env c).map some | none => .ok none).bind fun crlP =>
  (match raw.ocsp with | some o => (parseOcsp L env o).map some | none => .ok (some L.nilOcspDefault)).bind fun ocspP =>
  (optRes (parseMode raw.mode)).bind fun m =>
  (validateRaw env raw m).bind fun _ =>
  (if crlEnabled m then
     (if chk then (match crlP with | none => Res.panic | some e => crlProvision env e) else Res.panic)
   else Res.ok ()).map fun _ =>
  { mode := m, crl := crlP, ocsp := ocspP }


local macro "c19_unfold_provision" : tactic => `(tactic|
  simp only [provision, L_provisionSteps, L_parseSteps, L_crlEnabled, L_parseMode, runPSteps, pStep, parseConfig,
    runParseSteps, parseStep, optRes, validate_eq, Bool.false_eq_true, if_false, if_true, *,
    Res.map_ok, Res.map_error, Res.map_panic, Res.bind_ok, Res.bind_error, Res.bind_panic])

local macro "c19_res" : tactic => `(tactic| try
  simp only [*, Res.map_ok, Res.map_error, Res.map_panic, Res.bind_ok, Res.bind_error, Res.bind_panic, if_true, if_false,
    Bool.false_eq_true, Bool.not_true, Bool.not_false, VState.effective])

theorem provision_closed (env : Env) (raw : RawCfg) (early : Mode) :
    (provision L env { raw := raw, modeParsed := early }).map VState.effective =
      provisionSpec env raw (crlEnabled early) := by
  unfold provisionSpec
  rcases raw with ⟨mode, crl, ocsp⟩
  rcases crl with _ | crl
  · cases hce : crlEnabled early <;> rcases hm : parseMode mode with _ | m <;> rcases ocsp with _ | ocsp <;>
      c19_unfold_provision <;>
      (first | (cases ho : parseOcsp L env ocsp) | skip) <;> c19_res <;>
      (first | (cases hv : validateRaw env _ m) | skip) <;> c19_res <;>
      (first | (cases hcm : crlEnabled m) | skip) <;> c19_res
  · rcases hc : parseCrl L env crl with e | _ | _ <;>
      cases hce : crlEnabled early <;> rcases hm : parseMode mode with _ | m <;> rcases ocsp with _ | ocsp <;>
      c19_unfold_provision <;>
      (first | (cases ho : parseOcsp L env ocsp) | skip) <;> c19_res <;>
      (first | (cases hv : validateRaw env _ m) | skip) <;> c19_res <;>
      (first | (cases hcm : crlEnabled m) | skip) <;> c19_res <;>
      (first | (cases hp : crlProvision env e) | skip) <;> c19_res


theorem loadJSON_closed (env : Env) (raw : RawCfg) : loadJSON L env raw = provisionSpec env raw true := by
  have := provision_closed env raw .preferOCSP
  rw [show crlEnabled .preferOCSP = true from by decide] at this
  simpa [loadJSON, VState.zero, L_modeZero] using this

theorem unmarshal_closed (env : Env) (parsed : RawCfg) :
    runUSteps L env parsed L.unmarshalSteps (VState.zero L) =
      (optRes (parseMode parsed.mode)).bind fun m =>
        (validateRaw env parsed m).map fun _ => { raw := parsed, modeParsed := m } := by
  rcases parsed with ⟨mode, crl, ocsp⟩
  rcases hm : parseMode mode with _ | m <;>
    simp only [L_unmarshalSteps, runUSteps, uStep, VState.zero, L_parseMode, L_modeZero, optRes, validate_eq, hm,
      Res.map_ok, Res.map_error, Res.bind_ok, Res.bind_error]
  cases validateRaw env _ m <;> rfl

theorem loadCaddyfile_render (env : Env) (c : Cfg) :
    loadCaddyfile Fx env (renderCaddyfile c) =
      (optRes (parseMode (c.mode.getD ""))).bind fun m =>
        (validateRaw env (caddyOf c) m).bind fun _ => provisionSpec env (caddyOf c) (crlEnabled m) := by
  unfold loadCaddyfile unmarshalCaddyfile
  rw [show Fx.caddy = K from rfl, parse_render, show Fx.load = L from rfl]
  simp only [unmarshal_closed]
  rcases hm : parseMode (caddyOf c).mode with _ | m <;>
    simp only [show (caddyOf c).mode = c.mode.getD "" from rfl] at hm <;>
    simp only [show (caddyOf c).mode = c.mode.getD "" from rfl, hm, optRes, Res.bind_ok, Res.bind_error]
  cases hv : validateRaw env (caddyOf c) m <;> simp only [Res.map_ok, Res.map_error, Res.map_panic, Res.bind_ok, Res.bind_error, Res.bind_panic]
  exact provision_closed env (caddyOf c) m



theorem crlSpec_ne_panic (env : Env) (raw : RawCrl) : crlSpec env raw ≠ .panic := by
  unfold crlSpec
  cases parseSignatureValidationMode raw.sigMode <;> simp only [optRes, Res.bind_ok, Res.bind_error, ne_eq, reduceCtorEq, not_false_eq_true]
  cases parseStorageType raw.storage <;> simp only [optRes, Res.bind_ok, Res.bind_error, ne_eq, reduceCtorEq, not_false_eq_true]
  have := parseDurationField_ne_panic env raw.interval 1800000000000 true
  rcases hd : parseDurationField env raw.interval 1800000000000 true with d | _ | _
  · simp only [Res.bind_ok]
    cases raw.signers.all env.certOk
    · simp
    · rcases raw.cdp with _ | c
      · simp
      · cases hf : parseCRLFetchMode c.fetchMode <;> simp [optRes, hf]
  · simp
  · exact absurd hd this

theorem ocspSpec_ne_panic (env : Env) (raw : RawOcsp) : ocspSpec env raw ≠ .panic := by
  unfold ocspSpec
  have := parseDurationField_ne_panic env raw.cacheDuration 0 false
  rcases hd : parseDurationField env raw.cacheDuration 0 false with d | _ | _
  · cases raw.responders.all env.certOk <;> simp
  · simp
  · exact absurd hd this

/-- The CRL configuration the Caddyfile path ends up with when no `crl_config` block is given. -/
def initCrlEff : EffCrl :=
  { workDir := "", storage := .disk, intervalNs := 1800000000000, sigMode := .verify, urls := [], files := [], signers := [],
    cdp := some { fetchMode := .actively, strict := false } }

theorem crlSpec_init (env : Env) : crlSpec env { cdp := some {} } = .ok initCrlEff := by
  simp [crlSpec, parseDurationField, optRes, parseSignatureValidationMode, parseStorageType, parseCRLFetchMode, initCrlEff]

theorem ocspSpec_empty (env : Env) : ocspSpec env {} = .ok { cacheNs := 0, responders := [], aiaStrict := false } := by
  simp [ocspSpec, parseDurationField]




/-! ### Success of a load, characterised; auxiliary predicates of the C19 statements -/

theorem length_pos_iff_ne_empty (s : String) : s.length > 0 ↔ s ≠ "" := by
  constructor
  · intro h he; subst he; simp at h
  · intro h
    rcases Nat.eq_zero_or_pos s.length with hz | hp
    · exact absurd (String.length_eq_zero_iff.mp hz) h
    · exact hp

theorem parseDurationField_ok_iff (env : Env) (s : String) (dflt d : Int) (pos : Bool) :
    parseDurationField env s dflt pos = .ok d ↔
      (s = "" ∧ d = dflt) ∨ (s ≠ "" ∧ env.dur s = some d ∧ (pos = true → 0 < d)) := by
  unfold parseDurationField
  by_cases h : s = ""
  · subst h; simp [eq_comm]
  · have : s.length > 0 := (length_pos_iff_ne_empty s).mpr h
    simp only [this, if_true, h, false_and, false_or, ne_eq, not_false_eq_true, true_and]
    cases hd : env.dur s with
    | none => simp
    | some d' =>
      cases pos
      · simp
      · by_cases hp : d' ≤ 0
        · simp only [Bool.true_and, hp, decide_true, if_true, Option.some.injEq, forall_const]
          constructor
          · intro h; cases h
          · rintro ⟨rfl, h⟩; omega
        · simp only [Bool.true_and, hp, decide_false, Bool.false_eq_true, if_false, Res.ok.injEq, Option.some.injEq, forall_const]
          constructor
          · rintro rfl; exact ⟨rfl, by omega⟩
          · rintro ⟨rfl, _⟩; rfl


theorem optRes_eq_ok {α : Type} (o : Option α) (a : α) : optRes o = .ok a ↔ o = some a := by
  cases o <;> simp [optRes]

/-- parseCRLConfig succeeded: every value was valid and is what the parsed fields hold; omitted values took the defaults. -/
theorem crlSpec_ok (env : Env) (raw : RawCrl) (ec : EffCrl) (h : crlSpec env raw = .ok ec) :
    ec.workDir = raw.workDir ∧ ec.urls = raw.urls ∧ ec.files = raw.files ∧ ec.signers = raw.signers ∧
    parseSignatureValidationMode raw.sigMode = some ec.sigMode ∧ parseStorageType raw.storage = some ec.storage ∧
    ((raw.interval = "" ∧ ec.intervalNs = 1800000000000) ∨
      (raw.interval ≠ "" ∧ env.dur raw.interval = some ec.intervalNs ∧ 0 < ec.intervalNs)) ∧
    raw.signers.all env.certOk = true ∧
    (match raw.cdp with
     | none => ec.cdp = some ⟨.actively, false⟩
     | some d => ∃ m, parseCRLFetchMode d.fetchMode = some m ∧ ec.cdp = some ⟨m, d.strict⟩) := by
  unfold crlSpec at h
  simp only [Res.bind_eq_ok, Res.map_eq_ok, optRes_eq_ok, parseDurationField_ok_iff, forall_const] at h
  obtain ⟨sg, hsg, st, hst, iv, hiv, u, hu, cdp, hcdp, rfl⟩ := h
  refine ⟨rfl, rfl, rfl, rfl, hsg, hst, hiv, ?_, ?_⟩
  · cases hc : raw.signers.all env.certOk <;> simp_all
  · rcases hr : raw.cdp with _ | d <;> simp_all [Res.map_eq_ok, optRes_eq_ok]
    obtain ⟨a, ha, rfl⟩ := hcdp
    exact ⟨a, ha, rfl⟩

theorem ocspSpec_ok (env : Env) (raw : RawOcsp) (eo : EffOcsp) (h : ocspSpec env raw = .ok eo) :
    eo.responders = raw.responders ∧ eo.aiaStrict = raw.aiaStrict ∧
    ((raw.cacheDuration = "" ∧ eo.cacheNs = 0) ∨ (raw.cacheDuration ≠ "" ∧ env.dur raw.cacheDuration = some eo.cacheNs)) ∧
    raw.responders.all env.certOk = true := by
  unfold ocspSpec at h
  simp only [Res.bind_eq_ok, Res.map_eq_ok, parseDurationField_ok_iff, Bool.false_eq_true, false_imp_iff, and_true] at h
  obtain ⟨cd, hcd, u, hu, rfl⟩ := h
  refine ⟨rfl, rfl, hcd, ?_⟩
  cases hc : raw.responders.all env.certOk <;> simp_all


/-- `e` is the documented reading of the configured structs `raw`, and everything the documentation
requires for CRL checking is in place. -/
structure Loaded (env : Env) (raw : RawCfg) (e : Effective) : Prop where
  mode : parseMode raw.mode = some e.mode
  crl : match raw.crl with
    | none => e.crl = none
    | some c => ∃ ec, e.crl = some ec ∧ crlSpec env c = .ok ec
  ocsp : match raw.ocsp with
    | none => e.ocsp = some ⟨0, [], false⟩
    | some o => ∃ eo, e.ocsp = some eo ∧ ocspSpec env o = .ok eo
  workDir : crlEnabled e.mode = true → ∃ c, raw.crl = some c ∧ c.workDir ≠ "" ∧ env.path c.workDir = .dir
  crls : crlEnabled e.mode = true → ∀ ec, e.crl = some ec →
    ec.urls.all env.crlOk = true ∧ ec.files.all env.crlOk = true ∧ 0 < ec.intervalNs

theorem validateSpec_ok_iff (env : Env) (raw : RawCfg) (m : Mode) :
    validateSpec env raw m = .ok () ↔
      (crlEnabled m = true → ∃ c, raw.crl = some c ∧ c.workDir ≠ "" ∧ env.path c.workDir = .dir) := by
  unfold validateSpec
  cases crlEnabled m <;> simp
  rcases raw.crl with _ | c <;> simp
  by_cases hw : c.workDir = "" <;> simp [hw]
  cases env.path c.workDir <;> simp

theorem crlProvision_ok_iff (env : Env) (ec : EffCrl) :
    crlProvision env ec = .ok () ↔ (ec.urls.all env.crlOk = true ∧ ec.files.all env.crlOk = true ∧ 0 < ec.intervalNs) := by
  unfold crlProvision
  cases hu : ec.urls.all env.crlOk <;> cases hf : ec.files.all env.crlOk <;> simp

/-- Success of `Provision`, characterised. -/
theorem provisionSpec_ok_iff (env : Env) (raw : RawCfg) (chk : Bool) (e : Effective) :
    provisionSpec env raw chk = .ok e ↔ (Loaded env raw e ∧ (crlEnabled e.mode = true → chk = true)) := by
  unfold provisionSpec
  simp only [validate_closed, parseCrl_closed, parseOcsp_closed, Res.bind_eq_ok, Res.map_eq_ok, optRes_eq_ok,
    show L.nilOcspDefault = { cacheNs := 0, responders := [], aiaStrict := false } from rfl]
  constructor
  · rintro ⟨crlP, hc, ocspP, ho, m, hm, u, hv, u', hp, rfl⟩
    rw [validateSpec_ok_iff] at hv
    refine ⟨⟨hm, ?_, ?_, hv, ?_⟩, ?_⟩
    · rcases hr : raw.crl with _ | c <;> rw [hr] at hc <;> simp only [Res.map_eq_ok, Res.ok.injEq] at hc
      · exact hc.symm
      · obtain ⟨a, ha, rfl⟩ := hc
        exact ⟨a, rfl, ha⟩
    · rcases hr : raw.ocsp with _ | o <;> rw [hr] at ho <;> simp only [Res.map_eq_ok, Res.ok.injEq] at ho
      · exact ho.symm
      · obtain ⟨a, ha, rfl⟩ := ho
        exact ⟨a, rfl, ha⟩
    · intro hce ec hec
      simp only at hce hec
      subst hec
      simp only [hce, if_true] at hp
      cases chk
      · simp at hp
      · exact (crlProvision_ok_iff env ec).mp hp
    · intro hce
      simp only at hce
      simp only [hce, if_true] at hp
      cases chk
      · simp at hp
      · rfl
  · rintro ⟨⟨hm, hc, ho, hw, hcr⟩, hchk⟩
    refine ⟨e.crl, ?_, e.ocsp, ?_, e.mode, hm, (), (validateSpec_ok_iff _ _ _).mpr hw, (), ?_, rfl⟩
    · rcases hr : raw.crl with _ | c <;> rw [hr] at hc <;> simp only at hc
      · rw [hc]
      · obtain ⟨ec, h1, h2⟩ := hc
        rw [h1]; simp only [h2, Res.map_ok]
    · rcases hr : raw.ocsp with _ | o <;> rw [hr] at ho <;> simp only at ho
      · rw [ho]
      · obtain ⟨eo, h1, h2⟩ := ho
        rw [h1]; simp only [h2, Res.map_ok]
    · cases hce : crlEnabled e.mode
      · simp
      · simp only [if_true, hchk hce]
        obtain ⟨c, hrc, _, _⟩ := hw hce
        rw [hrc] at hc
        obtain ⟨ec, h1, _⟩ := hc
        rw [h1]
        exact (crlProvision_ok_iff env ec).mpr (hcr hce ec h1)


/-- A configured value no parser accepts: wrong enum string, unparsable duration, update interval that is not
positive, unreadable certificate file. -/
def InvalidValue (env : Env) (raw : RawCfg) : Prop :=
  parseMode raw.mode = none ∨
  (∃ c, raw.crl = some c ∧
    (parseStorageType c.storage = none ∨ parseSignatureValidationMode c.sigMode = none ∨
     (c.interval ≠ "" ∧ ∀ d, env.dur c.interval = some d → d ≤ 0) ∨ c.signers.all env.certOk = false ∨
     ∃ d, c.cdp = some d ∧ parseCRLFetchMode d.fetchMode = none)) ∨
  (∃ o, raw.ocsp = some o ∧ ((o.cacheDuration ≠ "" ∧ env.dur o.cacheDuration = none) ∨ o.responders.all env.certOk = false))

theorem invalid_not_loaded (env : Env) (raw : RawCfg) (e : Effective) (hi : InvalidValue env raw) : ¬ Loaded env raw e := by
  intro h
  rcases hi with hm | ⟨c, hc, hv⟩ | ⟨o, ho, hv⟩
  · have := h.mode; rw [hm] at this; exact absurd this (by simp)
  · have := h.crl
    rw [hc] at this
    obtain ⟨ec, _, h2⟩ := this
    obtain ⟨_, _, _, _, a5, a6, a7, a8, a9⟩ := crlSpec_ok env c ec h2
    rcases hv with hv | hv | ⟨hne, hv⟩ | hv | ⟨d, hd, hv⟩
    · rw [hv] at a6; exact absurd a6 (by simp)
    · rw [hv] at a5; exact absurd a5 (by simp)
    · rcases a7 with ⟨he, _⟩ | ⟨_, hs, hp⟩
      · exact hne he
      · have := hv _ hs; omega
    · rw [hv] at a8; exact absurd a8 (by simp)
    · rw [hd] at a9
      obtain ⟨m, hm, _⟩ := a9
      rw [hv] at hm; exact absurd hm (by simp)
  · have := h.ocsp
    rw [ho] at this
    obtain ⟨eo, _, h2⟩ := this
    obtain ⟨_, _, a3, a4⟩ := ocspSpec_ok env o eo h2
    rcases hv with ⟨hne, hv⟩ | hv
    · rcases a3 with ⟨he, _⟩ | ⟨_, hs⟩
      · exact hne he
      · rw [hv] at hs; exact absurd hs (by simp)
    · rw [hv] at a4; exact absurd a4 (by simp)

theorem invalidValue_caddyOf (env : Env) (c : Cfg) (hi : InvalidValue env (jsonOf c)) : InvalidValue env (caddyOf c) := by
  rcases c with ⟨mode, crl, ocsp⟩
  rcases hi with hm | ⟨d, hc, hv⟩ | ⟨o, ho, hv⟩
  · exact .inl hm
  · rcases crl with _ | k
    · simp [jsonOf] at hc
    · exact .inr (.inl ⟨d, by simpa [jsonOf, caddyOf] using hc, hv⟩)
  · rcases ocsp with _ | k
    · simp [jsonOf] at ho
    · exact .inr (.inr ⟨o, by simpa [jsonOf, caddyOf] using ho, hv⟩)

theorem unmarshal_not_ok_of_parse (env : Env) (toks : List Tok) (h : ¬ (parseCaddyfile K toks).isOk) :
    ¬ (unmarshalCaddyfile Fx env toks).isOk := by
  unfold unmarshalCaddyfile
  rw [show Fx.caddy = K from rfl]
  cases hp : parseCaddyfile K toks <;> simp_all [Res.isOk]

theorem load_not_ok_of_parse (env : Env) (toks : List Tok) (h : ¬ (parseCaddyfile K toks).isOk) :
    ¬ (loadCaddyfile Fx env toks).isOk := by
  have := unmarshal_not_ok_of_parse env toks h
  unfold loadCaddyfile
  cases hu : unmarshalCaddyfile Fx env toks <;> simp_all [Res.isOk]

theorem crl_block_not_ok (pre post : List Tok) (key : String) (args : List String) (blk : Option (List Tok))
    (h : key ∉ ["work_dir", "cdp_config", "storage_type", "update_interval", "signature_validation_mode", "crl_url",
      "crl_file", "trusted_signature_cert_file"]) (s : RawCrl) :
    ¬ (parseBlock K.crl (crlSetters K) (pre ++ .entry key args blk :: post) s).isOk := by
  apply parseBlock_not_ok_of_entry
  intro s
  rw [procEntry_unknown K.crl _ (lookupKey_none key _ (by simpa [K, caddyFacts, crlBlock] using h)) rfl]
  simp [Res.isOk]

theorem top_not_ok_of_sub (env : Env) (pre post : List Tok) (k : String) (f : TopField) (blk : List Tok)
    (hk : lookupKey k K.top.keys = some (.sub f)) (hs : ¬ ((topSetters K).sub f blk).isOk) :
    ¬ (loadCaddyfile Fx env (pre ++ .entry k [] (some blk) :: post)).isOk := by
  apply load_not_ok_of_parse
  unfold parseCaddyfile
  apply parseBlock_not_ok_of_entry
  intro s
  exact procEntry_block_not_ok K.top _ hk blk hs s

/-- A one-argument line of `crl_config` whose key is a scalar or list option. -/
def crlLeaf (k : String) : Option (Act CrlField) :=
  match lookupKey k K.crl.keys with
  | some (.str f) => some (.str f)
  | some (.append f) => some (.append f)
  | _ => none

def actField : Act CrlField → CrlField
  | .str f | .append f | .parsedBool f | .constBool f _ | .sub f => f

def applyLeaf (a : Act CrlField) (v : String) (s : RawCrl) : RawCrl :=
  match a with
  | .str f => (crlSetters K).setStr f v s
  | .append f => (crlSetters K).append f v s
  | _ => s

theorem procEntry_leaf {k : String} {a : Act CrlField} (h : crlLeaf k = some a) (v : String) (s : RawCrl) :
    procEntry K.crl (crlSetters K) (line k v) s = .ok (applyLeaf a v s) := by
  unfold crlLeaf at h
  split at h
  · rename_i f hl; cases h; exact procEntry_line_str K.crl _ hl v s
  · rename_i f hl; cases h; exact procEntry_line_append K.crl _ hl v s
  · cases h

/-- Different options never share a field (so their lines commute). -/
theorem crl_keys_distinct_fields (k1 k2 : String) (a1 a2 : Act CrlField)
    (h1 : crlLeaf k1 = some a1) (h2 : crlLeaf k2 = some a2) (hk : k1 ≠ k2) : actField a1 ≠ actField a2 := by
  have key : ∀ k a, crlLeaf k = some a →
      (k = "work_dir" ∧ a = .str .workDir) ∨ (k = "storage_type" ∧ a = .str .storage) ∨
      (k = "update_interval" ∧ a = .str .interval) ∨ (k = "signature_validation_mode" ∧ a = .str .sigMode) ∨
      (k = "crl_url" ∧ a = .append .urls) ∨ (k = "crl_file" ∧ a = .append .files) ∨
      (k = "trusted_signature_cert_file" ∧ a = .append .signers) := by
    intro k a h
    by_cases e0 : k = "work_dir"
    · subst e0
      have : crlLeaf "work_dir" = some (.str .workDir) := by decide
      rw [this] at h; cases h; simp
    by_cases e1 : k = "storage_type"
    · subst e1
      have : crlLeaf "storage_type" = some (.str .storage) := by decide
      rw [this] at h; cases h; simp
    by_cases e2 : k = "update_interval"
    · subst e2
      have : crlLeaf "update_interval" = some (.str .interval) := by decide
      rw [this] at h; cases h; simp
    by_cases e3 : k = "signature_validation_mode"
    · subst e3
      have : crlLeaf "signature_validation_mode" = some (.str .sigMode) := by decide
      rw [this] at h; cases h; simp
    by_cases e4 : k = "crl_url"
    · subst e4
      have : crlLeaf "crl_url" = some (.append .urls) := by decide
      rw [this] at h; cases h; simp
    by_cases e5 : k = "crl_file"
    · subst e5
      have : crlLeaf "crl_file" = some (.append .files) := by decide
      rw [this] at h; cases h; simp
    by_cases e6 : k = "trusted_signature_cert_file"
    · subst e6
      have : crlLeaf "trusted_signature_cert_file" = some (.append .signers) := by decide
      rw [this] at h; cases h; simp
    by_cases ec : k = "cdp_config"
    · subst ec
      have : crlLeaf "cdp_config" = none := by decide
      rw [this] at h; cases h
    simp [crlLeaf, K, caddyFacts, crlBlock, lookupKey, *] at h
  rcases key k1 a1 h1 with h | h | h | h | h | h | h <;> rcases key k2 a2 h2 with g | g | g | g | g | g | g <;>
    obtain ⟨rfl, rfl⟩ := h <;> obtain ⟨rfl, rfl⟩ := g <;> first | exact absurd rfl hk | (simp [actField])

theorem applyLeaf_comm (a1 a2 : Act CrlField) (hf : actField a1 ≠ actField a2) (v1 v2 : String) (s : RawCrl) :
    applyLeaf a2 v2 (applyLeaf a1 v1 s) = applyLeaf a1 v1 (applyLeaf a2 v2 s) := by
  rcases a1 with f1 | f1 | f1 | ⟨f1, b1⟩ | f1 <;> rcases a2 with f2 | f2 | f2 | ⟨f2, b2⟩ | f2 <;>
    cases f1 <;> cases f2 <;> first | rfl | exact absurd rfl hf

def ValidCrl (env : Env) (c : RawCrl) : Prop :=
  parseStorageType c.storage ≠ none ∧ parseSignatureValidationMode c.sigMode ≠ none ∧
  (c.interval = "" ∨ ∃ d, env.dur c.interval = some d ∧ 0 < d) ∧ c.signers.all env.certOk = true ∧
  (∀ d, c.cdp = some d → parseCRLFetchMode d.fetchMode ≠ none)

def ValidOcsp (env : Env) (o : RawOcsp) : Prop :=
  (o.cacheDuration = "" ∨ env.dur o.cacheDuration ≠ none) ∧ o.responders.all env.certOk = true

theorem parseDurationField_isOk (env : Env) (s : String) (dflt : Int) (pos : Bool)
    (h : s = "" ∨ ∃ d, env.dur s = some d ∧ (pos = true → 0 < d)) :
    ∃ d, parseDurationField env s dflt pos = .ok d := by
  by_cases he : s = ""
  · exact ⟨dflt, (parseDurationField_ok_iff env s dflt dflt pos).mpr (.inl ⟨he, rfl⟩)⟩
  · rcases h with h | ⟨d, hd, hp⟩
    · exact absurd h he
    · exact ⟨d, (parseDurationField_ok_iff env s dflt d pos).mpr (.inr ⟨he, hd, hp⟩)⟩

theorem crlSpec_ok_of_valid (env : Env) (c : RawCrl) (h : ValidCrl env c) : ∃ ec, crlSpec env c = .ok ec := by
  obtain ⟨h1, h2, h3, h4, h5⟩ := h
  obtain ⟨st, hst⟩ := Option.ne_none_iff_exists'.mp h1
  obtain ⟨sg, hsg⟩ := Option.ne_none_iff_exists'.mp h2
  obtain ⟨iv, hiv⟩ := parseDurationField_isOk env c.interval 1800000000000 true
    (h3.imp id (fun ⟨d, hd, hp⟩ => ⟨d, hd, fun _ => hp⟩))
  unfold crlSpec
  simp only [hst, hsg, hiv, h4, optRes, Res.bind_ok, if_true]
  rcases hc : c.cdp with _ | d
  · exact ⟨_, rfl⟩
  · obtain ⟨m, hm⟩ := Option.ne_none_iff_exists'.mp (h5 d hc)
    simp only [hm, Res.map_ok]
    exact ⟨_, rfl⟩

theorem ocspSpec_ok_of_valid (env : Env) (o : RawOcsp) (h : ValidOcsp env o) : ∃ eo, ocspSpec env o = .ok eo := by
  obtain ⟨h1, h2⟩ := h
  obtain ⟨cd, hcd⟩ := parseDurationField_isOk env o.cacheDuration 0 false
    (h1.imp id (fun h => by
      obtain ⟨d, hd⟩ := Option.ne_none_iff_exists'.mp h
      exact ⟨d, hd, fun hf => absurd hf (by simp)⟩))
  unfold ocspSpec
  simp only [hcd, h2, Res.bind_ok, if_true, Res.map_ok]
  exact ⟨_, rfl⟩

/-- What CRL checking needs (README): a `crl_config` with an existing `work_dir`, acceptable configured CRLs. -/
def CrlReady (env : Env) (raw : RawCfg) : Prop :=
  ∃ c, raw.crl = some c ∧ c.workDir ≠ "" ∧ env.path c.workDir = .dir ∧
    c.urls.all env.crlOk = true ∧ c.files.all env.crlOk = true



/-! ### No panic -/

theorem crlSpec_interval_pos (env : Env) (c : RawCrl) (ec : EffCrl) (h : crlSpec env c = .ok ec) : 0 < ec.intervalNs := by
  obtain ⟨_, _, _, _, _, _, a7, _, _⟩ := crlSpec_ok env c ec h
  rcases a7 with ⟨_, h⟩ | ⟨_, _, hp⟩
  · rw [h]; decide
  · exact hp

theorem validateSpec_ne_panic (env : Env) (raw : RawCfg) (m : Mode) : validateSpec env raw m ≠ .panic := by
  unfold validateSpec
  cases crlEnabled m <;> simp
  rcases raw.crl with _ | c <;> simp
  by_cases hw : c.workDir = "" <;> simp [hw]
  cases env.path c.workDir <;> simp

theorem crlProvision_ne_panic (env : Env) (ec : EffCrl) (h : 0 < ec.intervalNs) : crlProvision env ec ≠ .panic := by
  unfold crlProvision
  split
  · simp
  · split
    · omega
    · simp

/-- With a CRL checker object in place (JSON path always; Caddyfile path whenever the mode enables CRL checking),
`Provision` never panics. -/
theorem provisionSpec_ne_panic (env : Env) (raw : RawCfg) : provisionSpec env raw true ≠ .panic := by
  unfold provisionSpec
  simp only [validate_closed, parseCrl_closed, parseOcsp_closed]
  apply Res.bind_ne_panic
  · rcases raw.crl with _ | c
    · simp
    · exact Res.map_ne_panic _ _ (crlSpec_ne_panic env c)
  intro crlP hA
  apply Res.bind_ne_panic
  · rcases raw.ocsp with _ | o
    · simp
    · exact Res.map_ne_panic _ _ (ocspSpec_ne_panic env o)
  intro ocspP _
  apply Res.bind_ne_panic
  · cases parseMode raw.mode <;> simp [optRes]
  intro m _
  apply Res.bind_ne_panic _ _ (validateSpec_ne_panic env raw m)
  intro u hv
  apply Res.map_ne_panic
  cases hce : crlEnabled m
  · simp
  · simp only [if_true]
    obtain ⟨c, hc, _, _⟩ := (validateSpec_ok_iff env raw m).mp hv hce
    rw [hc] at hA
    simp only [Res.map_eq_ok] at hA
    obtain ⟨ec, hec, rfl⟩ := hA
    exact crlProvision_ne_panic env ec (crlSpec_interval_pos env c ec hec)

end Crv.Config.Closed
