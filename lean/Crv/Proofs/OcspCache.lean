import Crv.Proofs.OcspDecide
import Crv.Proofs.OcspKey
/-! C14: invariants of histories of lookups against the shared cache table (sliding expiry of cache2go included). -/
namespace Crv.Cache

variable {κ α : Type}

/-- The part of an item `KeepAlive` never changes. -/
def SameStatic (a b : Item α) : Prop := a.data = b.data ∧ a.lifeSpan = b.lifeSpan ∧ a.createdOn = b.createdOn

theorem find?_mem [DecidableEq κ] {T : Table κ α} {k : κ} {it : Item α} (h : find? T k = some it) : (k, it) ∈ T := by
  induction T with
  | nil => simp [find?] at h
  | cons p rest ih =>
    obtain ⟨k', it'⟩ := p
    simp only [find?] at h
    split at h
    · rename_i hk
      cases h
      rw [hk]
      exact List.mem_cons_self
    · exact List.mem_cons_of_mem _ (ih h)

theorem mem_delete [DecidableEq κ] {T : Table κ α} {k : κ} {p : κ × Item α} (h : p ∈ delete T k) : p ∈ T :=
  (List.mem_filter.mp h).1

theorem mem_sweep {T : Table κ α} {now : Nat} {p : κ × Item α} (h : p ∈ sweep T now) : p ∈ T :=
  (List.mem_filter.mp h).1

theorem mem_touch [DecidableEq κ] {T : Table κ α} {k : κ} {now : Nat} {p : κ × Item α} (h : p ∈ touch T k now) :
    ∃ q ∈ T, q.1 = p.1 ∧ SameStatic q.2 p.2 := by
  unfold touch at h
  rw [List.mem_map] at h
  obtain ⟨q, hq, hp⟩ := h
  refine ⟨q, hq, ?_⟩
  split at hp
  · rw [← hp]; exact ⟨rfl, rfl, rfl, rfl⟩
  · rw [← hp]; exact ⟨rfl, rfl, rfl, rfl⟩

theorem mem_add [DecidableEq κ] {T : Table κ α} {k : κ} {life now : Nat} {d : α} {p : κ × Item α} (h : p ∈ add T k life d now) :
    p = (k, { data := d, lifeSpan := life, createdOn := now, accessedOn := now }) ∨ p ∈ T := by
  unfold add at h
  rcases List.mem_cons.mp h with h | h
  · left; exact h
  · right; exact mem_delete h

/-- After a sweep at `now` every remaining item with a finite life span was accessed less than a life span ago. -/
theorem sweep_fresh {T : Table κ α} {now : Nat} {p : κ × Item α} (h : p ∈ sweep T now) :
    p.2.lifeSpan = 0 ∨ now - p.2.accessedOn < p.2.lifeSpan := by
  have := (List.mem_filter.mp h).2
  simp only [expired, Bool.not_and, Bool.or_eq_true, Bool.not_eq_true', bne_eq_false_iff_eq,
    decide_eq_false_iff_not, Nat.not_le] at this
  simpa using this

end Crv.Cache

namespace Crv.Ocsp
open Crv.Cache

variable (V : Key → Signed → Bool)

/-- What `tryGetResponseFromCache` does to the table and when it reports a hit. -/
theorem tryGet_spec (k : Nat) (T : Table) (key : Str) (now : Nat) :
    (∀ p ∈ (tryGet (canon k) T key now).2, ∃ q ∈ T, q.1 = p.1 ∧ SameStatic q.2 p.2) ∧
    (∀ rv, (tryGet (canon k) T key now).1 = some rv →
      ∃ it, (key, it) ∈ T ∧ rv = it.data.revoked ∧ now ≤ it.data.validUntil) := by
  unfold tryGet Cache.value
  cases hf : Cache.find? T key with
  | none =>
    refine ⟨fun p hp => ⟨p, hp, rfl, rfl, rfl, rfl⟩, fun rv h => by simp at h⟩
  | some it =>
    simp only [canon_validUntilChecked, Bool.true_and]
    by_cases hv : now > it.data.validUntil
    · simp only [hv, decide_true, ↓reduceIte]
      refine ⟨fun p hp => mem_touch (mem_delete hp), fun rv h => by simp at h⟩
    · simp only [hv, decide_false, Bool.false_eq_true, ↓reduceIte]
      refine ⟨fun p hp => mem_touch hp, fun rv h => ?_⟩
      refine ⟨it, find?_mem hf, ?_, Nat.le_of_not_gt hv⟩
      simpa using h.symm

/-- The entry was written by a miss of an earlier observation `o` for the same key and has the absolute expiry
`storedAt + lifeSpan`. -/
def ItemOk (F : Facts) (obs : List Obs) (key : Str) (it : Item Cached) : Prop :=
  ∃ o ∈ obs, mkKey F o.cert = key ∧ o.stored = some it.lifeSpan ∧ o.t = it.createdOn ∧ o.hit = false ∧
    it.data.validUntil = it.createdOn + it.lifeSpan ∧
    o.result = (if it.data.revoked then .revoked else .good)

theorem ItemOk.static {F : Facts} {obs : List Obs} {key : Str} {a b : Item Cached}
    (h : ItemOk F obs key a) (hs : SameStatic a b) : ItemOk F obs key b := by
  obtain ⟨o, ho, h1, h2, h3, h4, h5, h6⟩ := h
  obtain ⟨hd, hl, hc⟩ := hs
  exact ⟨o, ho, h1, by rw [← hl]; exact h2, by rw [← hc]; exact h3, h4, by rw [← hd, ← hl, ← hc]; exact h5,
    by rw [← hd]; exact h6⟩

theorem ItemOk.mono {F : Facts} {obs obs' : List Obs} {key : Str} {a : Item Cached}
    (h : ItemOk F obs key a) (hsub : ∀ o ∈ obs, o ∈ obs') : ItemOk F obs' key a := by
  obtain ⟨o, ho, rest⟩ := h
  exact ⟨o, hsub o ho, rest⟩

/-- State invariant. -/
def Inv (F : Facts) (w : World) (obs : List Obs) : Prop :=
  (∀ p ∈ w.table, ItemOk F obs p.1 p.2) ∧ (∀ o ∈ obs, o.seq < w.count ∧ o.t ≤ w.now)

/-- Per-observation facts (relative to the observations made so far). -/
def ObsOk (F : Facts) (obs : List Obs) (o : Obs) : Prop :=
  -- a hit is served from an earlier miss for the same key, within that entry's fixed lifetime
  (o.hit = true → ∃ o' ∈ obs, o'.seq < o.seq ∧ o'.hit = false ∧ mkKey F o'.cert = mkKey F o.cert ∧
      ∃ L, o'.stored = some L ∧ o'.t ≤ o.t ∧ o.t ≤ o'.t + L ∧ o.result = o'.result) ∧
  -- something is stored only for an accepted response, with the life time computed from it
  (∀ L, o.stored = some L → ∃ p, o.answered = some p ∧ o.hit = false ∧
      L = lifetime F o.inst.defaultDur o.t p.nextUpdate ∧ 0 < L ∧ o.result = verdictOf p) ∧
  (o.answered = none → o.stored = none)

theorem ObsOk.mono {F : Facts} {obs obs' : List Obs} {o : Obs} (h : ObsOk F obs o) (hsub : ∀ x ∈ obs, x ∈ obs') :
    ObsOk F obs' o := by
  obtain ⟨h1, h2, h3⟩ := h
  refine ⟨fun hh => ?_, h2, h3⟩
  obtain ⟨o', ho', rest⟩ := h1 hh
  exact ⟨o', hsub o' ho', rest⟩

/-- One event preserves the invariant and yields an observation satisfying `ObsOk`. -/
theorem step_inv (k : Nat) (w : World) (obs : List Obs) (e : Event) (hinv : Inv (canon k) w obs) :
    Inv (canon k) (step (canon k) V w e).1 (obs ++ (step (canon k) V w e).2.toList) ∧
    (∀ o ∈ (step (canon k) V w e).2.toList, ObsOk (canon k) (obs ++ (step (canon k) V w e).2.toList) o) := by
  obtain ⟨htab, hobs⟩ := hinv
  cases e with
  | advance dt =>
    simp only [step, Option.toList_none, List.append_nil, List.not_mem_nil, false_imp_iff, implies_true, and_true]
    exact ⟨htab, fun o ho => ⟨(hobs o ho).1, Nat.le_trans (hobs o ho).2 (Nat.le_add_right _ _)⟩⟩
  | sweep =>
    simp only [step, Option.toList_none, List.append_nil, List.not_mem_nil, false_imp_iff, implies_true, and_true]
    exact ⟨fun p hp => htab p (mem_sweep hp), hobs⟩
  | flush =>
    simp only [step, Option.toList_none, List.append_nil, List.not_mem_nil, false_imp_iff, implies_true, and_true]
    exact ⟨fun p hp => by simp [Cache.flush] at hp, hobs⟩
  | look inst cert cands answer =>
    simp only [step, Option.toList_some]
    generalize hob : obsOf w inst cert (lookup (canon k) V inst cert cands answer w.now w.table) = ob
    have e_seq : ob.seq = w.count := by rw [← hob]; rfl
    have e_t : ob.t = w.now := by rw [← hob]; rfl
    have e_cert : ob.cert = cert := by rw [← hob]; rfl
    have e_inst : ob.inst = inst := by rw [← hob]; rfl
    have e_res : ob.result = (lookup (canon k) V inst cert cands answer w.now w.table).result := by rw [← hob]; rfl
    have e_hit : ob.hit = (lookup (canon k) V inst cert cands answer w.now w.table).hit := by rw [← hob]; rfl
    have e_ans : ob.answered = (lookup (canon k) V inst cert cands answer w.now w.table).answered := by rw [← hob]; rfl
    have e_sto : ob.stored = (lookup (canon k) V inst cert cands answer w.now w.table).stored := by rw [← hob]; rfl
    have hsub : ∀ x ∈ obs, x ∈ obs ++ [ob] := fun x hx => List.mem_append_left _ hx
    have hobmem : ob ∈ obs ++ [ob] := List.mem_append_right _ List.mem_cons_self
    have hobs' : ∀ o ∈ obs ++ [ob], o.seq < w.count + 1 ∧ o.t ≤ w.now := by
      intro o ho
      rcases List.mem_append.mp ho with h | h
      · exact ⟨Nat.lt_succ_of_lt (hobs o h).1, (hobs o h).2⟩
      · rw [List.mem_singleton] at h
        rw [h, e_seq, e_t]
        exact ⟨Nat.lt_succ_self _, Nat.le_refl _⟩
    obtain ⟨hg1, hg2⟩ := tryGet_spec k w.table (mkKey (canon k) cert) w.now
    have hold : ∀ T' : Table, (tryGet (canon k) w.table (mkKey (canon k) cert) w.now).2 = T' →
        ∀ x ∈ T', ItemOk (canon k) (obs ++ [ob]) x.1 x.2 := by
      intro T' hT x hx
      rw [← hT] at hx
      obtain ⟨y, hy, hk, hs⟩ := hg1 x hx
      exact ((hk ▸ htab y hy).static hs).mono hsub
    rcases lookup_cases V k inst cert cands answer w.now w.table with
      ⟨rv, T', hget, hhit, hres, hreq, hans, hsto, htbl⟩ |
      ⟨T', hget, hhit, ⟨pre, q, post, p, hl, hpre, hq, hres, hreq, hans, hsto, htbl⟩ | ⟨hall, hres, hreq, hans, hsto, htbl⟩⟩
    · -- cache hit
      refine ⟨⟨?_, hobs'⟩, ?_⟩
      · intro x hx
        change x ∈ (lookup (canon k) V inst cert cands answer w.now w.table).table at hx
        rw [htbl] at hx
        exact hold T' (by rw [hget]) x hx
      · intro o ho
        rw [List.mem_singleton] at ho
        subst ho
        obtain ⟨it, hit, hrv, hvu⟩ := hg2 rv (by rw [hget])
        obtain ⟨o', ho', h1, h2, h3, h4, h5, h6⟩ := htab _ hit
        refine ⟨fun _ => ⟨o', hsub o' ho', ?_, h4, ?_, it.lifeSpan, h2, ?_, ?_, ?_⟩, ?_, ?_⟩
        · rw [e_seq]; exact (hobs o' ho').1
        · rw [e_cert]; exact h1
        · rw [e_t]; exact (hobs o' ho').2
        · rw [e_t, h3, ← h5]; exact hvu
        · rw [e_res, hres, h6, hrv]
        · intro L hL
          rw [e_sto, hsto] at hL
          cases hL
        · intro _
          rw [e_sto]; exact hsto
    · -- miss, some pair answered
      refine ⟨⟨?_, hobs'⟩, ?_⟩
      · intro x hx
        change x ∈ (lookup (canon k) V inst cert cands answer w.now w.table).table at hx
        rw [htbl] at hx
        cases hst : stores k inst w.now p with
        | none =>
          rw [hst] at hx
          exact hold T' (by rw [hget]) x hx
        | some life =>
          rw [hst] at hx
          rcases mem_add hx with hnew | hold'
          · rw [hnew]
            refine ⟨ob, hobmem, ?_, ?_, ?_, ?_, rfl, ?_⟩
            · rw [e_cert]
            · rw [e_sto, hsto, hst]
            · rw [e_t]
            · rw [e_hit]; exact hhit
            · rw [e_res, hres]
              unfold verdictOf
              by_cases hr : p.status = .revoked <;> simp [hr]
          · exact hold T' (by rw [hget]) x hold'
      · intro o ho
        rw [List.mem_singleton] at ho
        subst ho
        refine ⟨fun hh => ?_, ?_, ?_⟩
        · rw [e_hit, hhit] at hh
          cases hh
        · intro L hL
          rw [e_sto, hsto] at hL
          refine ⟨p, by rw [e_ans]; exact hans, by rw [e_hit]; exact hhit, ?_, ?_, by rw [e_res]; exact hres⟩
          · unfold stores at hL
            split at hL
            · rw [e_inst, e_t]; exact (Option.some.inj hL).symm
            · cases hL
          · unfold stores at hL
            split at hL
            · rename_i hpos
              rw [← Option.some.inj hL]; exact hpos
            · cases hL
        · intro hnone
          rw [e_ans, hans] at hnone
          cases hnone
    · -- miss, nobody answered
      refine ⟨⟨?_, hobs'⟩, ?_⟩
      · intro x hx
        change x ∈ (lookup (canon k) V inst cert cands answer w.now w.table).table at hx
        rw [htbl] at hx
        exact hold T' (by rw [hget]) x hx
      · intro o ho
        rw [List.mem_singleton] at ho
        subst ho
        refine ⟨fun hh => ?_, ?_, ?_⟩
        · rw [e_hit, hhit] at hh
          cases hh
        · intro L hL
          rw [e_sto, hsto] at hL
          cases hL
        · intro _
          rw [e_sto]; exact hsto

/-- Histories: by induction over the event list. -/
theorem exec_inv (k : Nat) : ∀ (evs : List Event) (w : World) (prior : List Obs),
    Inv (canon k) w prior → (∀ o ∈ prior, ObsOk (canon k) prior o) →
    Inv (canon k) (exec (canon k) V w evs).1 (prior ++ (exec (canon k) V w evs).2) ∧
    (∀ o ∈ prior ++ (exec (canon k) V w evs).2, ObsOk (canon k) (prior ++ (exec (canon k) V w evs).2) o)
  | [], w, prior, hinv, hok => by
    simp only [exec, List.append_nil]
    exact ⟨hinv, hok⟩
  | e :: es, w, prior, hinv, hok => by
    obtain ⟨hinv', hnew⟩ := step_inv V k w prior e hinv
    have hok' : ∀ o ∈ prior ++ (step (canon k) V w e).2.toList,
        ObsOk (canon k) (prior ++ (step (canon k) V w e).2.toList) o := by
      intro o ho
      rcases List.mem_append.mp ho with h | h
      · exact (hok o h).mono (fun x hx => List.mem_append_left _ hx)
      · exact hnew o h
    have ih := exec_inv k es (step (canon k) V w e).1 (prior ++ (step (canon k) V w e).2.toList) hinv' hok'
    simp only [exec, ← List.append_assoc]
    exact ih

theorem inv_init (F : Facts) : Inv F {} [] := by
  constructor
  · intro p hp; exact (List.not_mem_nil hp).elim
  · intro o ho; exact (List.not_mem_nil ho).elim

/-- Every observation of a run from the empty world satisfies `ObsOk`. -/
theorem run_ok (k : Nat) (evs : List Event) :
    ∀ o ∈ (exec (canon k) V {} evs).2, ObsOk (canon k) (exec (canon k) V {} evs).2 o := by
  have := (exec_inv V k evs {} [] (inv_init _) (fun o ho => by cases ho)).2
  simpa using this

end Crv.Ocsp
