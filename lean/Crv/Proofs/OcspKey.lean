import Crv.Ocsp
/-! Cache key injectivity (C14): `issuer ++ "_" ++ decimal serial` determines issuer and serial, because the decimal
rendering contains no underscore (so the *last* underscore is the separator) and is injective. A local version of the
lemma DESIGN §4.3 plans for `Crv/Key.lean`. -/
namespace Crv.Ocsp

theorem split_unique {sep : Char} : ∀ {xs ys u v : List Char}, sep ∉ xs → sep ∉ ys →
    xs ++ sep :: u = ys ++ sep :: v → xs = ys ∧ u = v
  | [], [], _, _, _, _, h => by
    simp only [List.nil_append, List.cons.injEq, true_and] at h
    exact ⟨rfl, h⟩
  | [], y :: ys, _, _, _, hy, h => by
    simp only [List.nil_append, List.cons_append, List.cons.injEq] at h
    exact absurd (h.1 ▸ List.mem_cons_self) hy
  | x :: xs, [], _, _, hx, _, h => by
    simp only [List.nil_append, List.cons_append, List.cons.injEq] at h
    exact absurd (h.1 ▸ List.mem_cons_self) hx
  | x :: xs, y :: ys, u, v, hx, hy, h => by
    simp only [List.cons_append, List.cons.injEq] at h
    have := split_unique (xs := xs) (ys := ys) (fun hm => hx (List.mem_cons_of_mem _ hm))
      (fun hm => hy (List.mem_cons_of_mem _ hm)) h.2
    exact ⟨by rw [h.1, this.1], this.2⟩

theorem toDigits_inj {m n : Nat} (h : Nat.toDigits 10 m = Nat.toDigits 10 n) : m = n := by
  have hm := @Nat.ofDigitChars_ten_toDigits m
  have hn := @Nat.ofDigitChars_ten_toDigits n
  rw [h] at hm
  rw [← hm, hn]

/-- `a ++ "_" ++ decimal m = b ++ "_" ++ decimal n` only for `a = b` and `m = n`. -/
theorem key_inj {a b : Str} {m n : Nat}
    (h : a ++ '_' :: Nat.toDigits 10 m = b ++ '_' :: Nat.toDigits 10 n) : a = b ∧ m = n := by
  have hr := congrArg List.reverse h
  simp only [List.reverse_append, List.reverse_cons, List.append_assoc, List.singleton_append] at hr
  have h1 : '_' ∉ (Nat.toDigits 10 m).reverse := by
    rw [List.mem_reverse]; exact Nat.underscore_not_in_toDigits
  have h2 : '_' ∉ (Nat.toDigits 10 n).reverse := by
    rw [List.mem_reverse]; exact Nat.underscore_not_in_toDigits
  obtain ⟨hd, ha⟩ := split_unique h1 h2 hr
  exact ⟨List.reverse_inj.mp ha, toDigits_inj (List.reverse_inj.mp hd)⟩

theorem mkKey_canon (k : Nat) (cert : Cert) :
    mkKey (canon k) cert = cert.issuer ++ '_' :: Nat.toDigits 10 cert.serial := by
  simp [mkKey, canon, keyPart]

/-- Two certificates share a cache key iff they have the same issuer string and the same serial number. -/
theorem mkKey_canon_inj {k : Nat} {c₁ c₂ : Cert} :
    mkKey (canon k) c₁ = mkKey (canon k) c₂ ↔ (c₁.issuer = c₂.issuer ∧ c₁.serial = c₂.serial) := by
  rw [mkKey_canon, mkKey_canon]
  constructor
  · exact key_inj
  · rintro ⟨h1, h2⟩; rw [h1, h2]

end Crv.Ocsp
