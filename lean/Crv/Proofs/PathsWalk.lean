import Crv.PathsWalk
/-!
The start-up clean-up as a `filepath.Walk` (`walkSweep`) against the idealised filter (`sweep`): with the callback shape of
the source the walk visits every child of work_dir and the two agree; with a callback that returns `SkipDir` for files, or
one that descends into directories it has just removed, they do not.
-/
namespace Crv.Paths
open Crv.Generated

/-! ### the visiting order -/

theorem nameLe_refl : ∀ a : Name, nameLe a a = true
  | [] => rfl
  | a :: as => by simp [nameLe, nameLe_refl as]

theorem nameLe_total : ∀ a b : Name, (nameLe a b || nameLe b a) = true
  | [], _ => by simp [nameLe]
  | _ :: _, [] => by simp [nameLe]
  | a :: as, b :: bs => by
    have ih := nameLe_total as bs
    simp only [nameLe]
    by_cases h1 : a < b
    · simp [h1]
    · by_cases h2 : a = b
      · subst h2; simpa [h1] using ih
      · have h3 : b < a := by
          rcases UInt8.lt_or_lt_of_ne h2 with h | h
          · exact absurd h h1
          · exact h
        simp [h1, h2, h3]

theorem nameLe_trans : ∀ a b c : Name, nameLe a b = true → nameLe b c = true → nameLe a c = true
  | [], _, _, _, _ => by simp [nameLe]
  | _ :: _, [], _, h, _ => by simp [nameLe] at h
  | _ :: _, _ :: _, [], _, h => by simp [nameLe] at h
  | a :: as, b :: bs, c :: cs, hab, hbc => by
    have ih := nameLe_trans as bs cs
    simp only [nameLe] at hab hbc ⊢
    by_cases h1 : a < b
    · by_cases h2 : b < c
      · simp [UInt8.lt_trans h1 h2]
      · by_cases h3 : b = c
        · subst h3; simp [h1]
        · simp [h2, h3] at hbc
    · by_cases h1' : a = b
      · subst h1'
        by_cases h2 : a < c
        · simp [h2]
        · by_cases h3 : a = c
          · subst h3
            simp only [h1, if_false, if_true] at hab hbc
            simp [h1, ih hab hbc]
          · simp [h2, h3] at hbc
      · simp [h1, h1'] at hab

/-- Walk visits the children of work_dir: the same entries (with multiplicity) as the listing … -/
theorem sortedChildren_perm (fs : Fs) : (sortedChildren fs).Perm fs := List.mergeSort_perm fs entryLe

theorem mem_sortedChildren {fs : Fs} {e : Name × Node} : e ∈ sortedChildren fs ↔ e ∈ fs := List.mem_mergeSort

/-- … in byte-wise lexical order of their names. -/
theorem sortedChildren_sorted (fs : Fs) : (sortedChildren fs).Pairwise (fun a b => nameLe a.1 b.1 = true) :=
  List.pairwise_mergeSort (le := entryLe) (fun a b c => nameLe_trans a.1 b.1 c.1) (fun a b => nameLe_total a.1 b.1) fs

/-! ### the callback of the source: nothing is skipped -/

theorem guard_nonroot (x : Node) : guardApplies "nonroot" x = true := by simp [guardApplies]
theorem guard_dir_nonroot (x : Node) : guardApplies "dir-nonroot" x = !x.isFile := by simp [guardApplies]
theorem guard_never (x : Node) : guardApplies "never" x = false := by simp [guardApplies]

/-- With the guards "nonroot" / "dir-nonroot" the walk never stops early: every child is visited, and exactly the children
whose name matches the pattern are removed. -/
theorem walk_visits_every_child (F : Facts) (l : List (Name × Node)) :
    walkDeleted "nonroot" "dir-nonroot" F l = (l.filter (fun e => matchesTemp F e.1)).map (·.1) := by
  induction l with
  | nil => rfl
  | cons e rest ih =>
    obtain ⟨n, x⟩ := e
    simp only [walkDeleted, guard_nonroot, guard_dir_nonroot, ih, Bool.true_and, List.filter_cons]
    cases x <;> cases hm : matchesTemp F n <;> simp [Node.isFile]

/-- Whenever a callback shape removes exactly the matching children, the walk is the idealised filter. -/
theorem walkSweep_eq_sweep (d s : String) (F : Facts)
    (h : ∀ l, walkDeleted d s F l = (l.filter (fun e => matchesTemp F e.1)).map (·.1)) (fs : Fs) :
    walkSweep d s F fs = sweep F fs := by
  unfold walkSweep sweep
  apply List.filter_congr
  intro e he
  rw [h]
  congr 1
  cases hm : matchesTemp F e.1 with
  | true =>
    rw [List.contains_iff_mem]
    exact List.mem_map.mpr ⟨e, List.mem_filter.mpr ⟨mem_sortedChildren.mpr he, hm⟩, rfl⟩
  | false =>
    cases hc : List.contains (List.map (·.1) (List.filter (fun e => matchesTemp F e.1) (sortedChildren fs))) e.1 with
    | false => rfl
    | true =>
      obtain ⟨e', he', e1⟩ := List.mem_map.mp (List.contains_iff_mem.mp hc)
      have := (List.mem_filter.mp he').2
      rw [e1, hm] at this
      cases this

theorem walk_guards_canonical : walkDeleteGuard = "nonroot" ∧ walkSkipGuard = "dir-nonroot" := ⟨rfl, rfl⟩

/-- The walk with the regenerated callback shape is the idealised filter. -/
theorem startup_walk_is_sweep (F : Facts) (fs : Fs) : startupSweep F fs = sweep F fs := by
  unfold startupSweep
  rw [walk_guards_canonical.1, walk_guards_canonical.2]
  exact walkSweep_eq_sweep _ _ F (walk_visits_every_child F) fs

/-! ### other callback shapes -/

/-- A callback that never returns `SkipDir` (Walk descends into every directory) still removes every matching child as
long as no *directory* in work_dir carries a temp name. -/
theorem walk_never_skip_without_temp_dirs (F : Facts) (l : List (Name × Node))
    (hd : ∀ e ∈ l, matchesTemp F e.1 = true → e.2.isFile = true) :
    walkDeleted "nonroot" "never" F l = (l.filter (fun e => matchesTemp F e.1)).map (·.1) := by
  induction l with
  | nil => rfl
  | cons e rest ih =>
    obtain ⟨n, x⟩ := e
    have ih' := ih (fun e he => hd e (List.mem_cons_of_mem _ he))
    have h0 := hd (n, x) (List.mem_cons_self ..)
    simp only [walkDeleted, guard_nonroot, guard_never, ih', Bool.true_and, List.filter_cons]
    cases x <;> cases hm : matchesTemp F n <;> simp_all [Node.isFile]

def residueFs : Fs :=
  [([97], .file),                                                  -- "a"
   ([99, 114, 108, 95, 120, 95, 116, 109, 112], .dir [])]          -- "crl_x_tmp"

theorem residueFs_sorted : sortedChildren residueFs = residueFs :=
  List.mergeSort_of_pairwise (by decide)

/-- A callback that returns `SkipDir` for every entry: the plain file "a" is visited first and ends the walk, the
temp-named directory "crl_x_tmp" behind it survives. -/
theorem skip_on_files_leaves_residue :
    walkSweep "nonroot" "nonroot" pathFacts residueFs = residueFs ∧
    walkSweep "nonroot" "nonroot" pathFacts residueFs ≠ sweep pathFacts residueFs := by
  unfold walkSweep
  rw [residueFs_sorted]
  decide

def abortFs : Fs :=
  [([99, 114, 108, 95, 97, 95, 116, 109, 112], .dir []),           -- "crl_a_tmp"
   ([99, 114, 108, 95, 98, 95, 116, 109, 112], .file)]             -- "crl_b_tmp"

theorem abortFs_sorted : sortedChildren abortFs = abortFs :=
  List.mergeSort_of_pairwise (by decide)

/-- A callback that never returns `SkipDir`: the temp-named directory is removed, Walk descends into it, `lstat` fails,
the callback returns the error and the walk is over — the temp-named file behind it survives. -/
theorem descent_into_removed_dir_leaves_residue :
    walkSweep "nonroot" "never" pathFacts abortFs = [([99, 114, 108, 95, 98, 95, 116, 109, 112], .file)] ∧
    sweep pathFacts abortFs = [] := by
  unfold walkSweep
  rw [abortFs_sorted]
  decide

/-- A callback that removes directories only leaves temp-named files. -/
theorem delete_dirs_only_leaves_files :
    walkSweep "dir-nonroot" "dir-nonroot" pathFacts abortFs = [([99, 114, 108, 95, 98, 95, 116, 109, 112], .file)] := by
  unfold walkSweep
  rw [abortFs_sorted]
  decide

end Crv.Paths
