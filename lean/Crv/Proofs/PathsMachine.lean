import Crv.Proofs.PathsLife
/-! Provision / Cleanup / events of the lifecycle machine with the regenerated operation lists. -/
namespace Crv.Paths
open Crv.Generated

theorem repoStep_addConfigured (v : Bool) (sys : Sys) (l : Location) (hid : matchesTemp pathFacts l.id = false) :
    RepoStep sys (addConfigured pathFacts v sys l).1 := by
  obtain ⟨r1, e1⟩ := repoStep_addEntry sys l.id hid
  unfold addConfigured
  simp only []
  cases hl : isLoaded (addEntry sys l.id).inst.entries l.id with
  | true =>
    simp only [↓reduceIte, Bool.false_eq_true]
    exact r1.trans (repoStep_doRefresh v _ l.id l.update hid e1)
  | false =>
    simp only [Bool.false_eq_true, ↓reduceIte]
    have r2 := repoStep_doLoad v (addEntry sys l.id) l.id l.first hid e1
    cases hf : (doLoad pathFacts v (addEntry sys l.id) l.id l.first).2 with
    | true => simp only [↓reduceIte]; exact r1.trans r2
    | false =>
      simp only [Bool.false_eq_true, ↓reduceIte]
      exact (r1.trans r2).trans (repoStep_doRefresh v _ l.id l.update hid (r2.entries _ e1))

theorem repoStep_addAll (v : Bool) (sys : Sys) (ls : List Location) (hids : ∀ l ∈ ls, matchesTemp pathFacts l.id = false) :
    RepoStep sys (addAll pathFacts v sys ls).1 := by
  induction ls generalizing sys with
  | nil => exact RepoStep.refl _
  | cons l ls ih =>
    have r1 := repoStep_addConfigured v sys l (hids l (by simp))
    unfold addAll
    split
    · next sys' he => rw [he] at r1; exact r1
    · next sys' he => rw [he] at r1; exact r1.trans (ih sys' (fun x hx => hids x (by simp [hx])))

/-! ### Cleanup, field by field -/

theorem cleanup_registered (sys : Sys) :
    (cleanup pathFacts sys).registered = if sys.inst.cfgSet then sys.registered.filter (· ≠ sys.wd) else sys.registered := by
  obtain ⟨disk, wd, fs, reg, hnd, ⟨cfg, repo, es, tick, stop⟩, dr⟩ := sys
  cases cfg <;> cases repo <;> cases tick <;> cases stop <;> simp [cleanup, cleanupOp, pathFacts]

theorem cleanup_handles (sys : Sys) :
    (cleanup pathFacts sys).handles =
      if sys.inst.repo then sys.handles.filter (fun h => !hasEntry sys.inst.entries h) else sys.handles := by
  obtain ⟨disk, wd, fs, reg, hnd, ⟨cfg, repo, es, tick, stop⟩, dr⟩ := sys
  cases cfg <;> cases repo <;> cases tick <;> cases stop <;> simp [cleanup, cleanupOp, pathFacts]

theorem cleanup_flags (sys : Sys) :
    (cleanup pathFacts sys).inst.ticker = false ∧ (cleanup pathFacts sys).inst.stop = false ∧
    (cleanup pathFacts sys).inst.cfgSet = sys.inst.cfgSet ∧ (cleanup pathFacts sys).inst.repo = sys.inst.repo := by
  obtain ⟨disk, wd, fs, reg, hnd, ⟨cfg, repo, es, tick, stop⟩, dr⟩ := sys
  cases cfg <;> cases repo <;> cases tick <;> cases stop <;> simp [cleanup, cleanupOp, pathFacts]

theorem cleanup_rest (sys : Sys) :
    (cleanup pathFacts sys).fs = sys.fs ∧ (cleanup pathFacts sys).dropped = sys.dropped ∧
    (cleanup pathFacts sys).wd = sys.wd ∧ (cleanup pathFacts sys).disk = sys.disk := by
  obtain ⟨disk, wd, fs, reg, hnd, ⟨cfg, repo, es, tick, stop⟩, dr⟩ := sys
  cases cfg <;> cases repo <;> cases tick <;> cases stop <;> simp [cleanup, cleanupOp, pathFacts]

theorem filter_handles_nil (sys : Sys) (ok : HandlesOk sys) :
    sys.handles.filter (fun h => !hasEntry sys.inst.entries h) = [] := by
  apply List.filter_eq_nil_iff.mpr
  intro h hm
  simp [ok h hm]

/-! ### States between events -/

/-- Nothing of this checker is held by the process: `regs` are the registrations of other instances. -/
structure Idle (sys : Sys) (regs : List Name) : Prop where
  registered : sys.registered = regs
  handles : sys.handles = []
  ticker : sys.inst.ticker = false
  stop : sys.inst.stop = false

/-- The checker holds its work_dir and a repository (fully or half provisioned). -/
structure Held (sys : Sys) (regs : List Name) : Prop where
  registered : sys.registered = sys.wd :: regs
  cfgSet : sys.inst.cfgSet = true
  repo : sys.inst.repo = true
  handles : HandlesOk sys

/-- The checker is provisioned. -/
structure Live (sys : Sys) (regs : List Name) : Prop extends Held sys regs where
  ticker : sys.inst.ticker = true
  stop : sys.inst.stop = true

theorem filter_ne_self (regs : List Name) (wd : Name) (h : wd ∉ regs) : regs.filter (· ≠ wd) = regs := by
  apply List.filter_eq_self.mpr
  intro a ha
  simp only [ne_eq, decide_eq_true_eq]
  intro e; exact h (e ▸ ha)

theorem cleanup_of_held (sys : Sys) (regs : List Name) (hwd : sys.wd ∉ regs) (L : Held sys regs) :
    Idle (cleanup pathFacts sys) regs := by
  refine ⟨?_, ?_, (cleanup_flags sys).1, (cleanup_flags sys).2.1⟩
  · rw [cleanup_registered, L.cfgSet, L.registered]
    simp only [↓reduceIte, ne_eq, List.filter_cons, not_true_eq_false, decide_false, Bool.false_eq_true]
    exact filter_ne_self regs sys.wd hwd
  · rw [cleanup_handles, L.repo]
    simpa using filter_handles_nil sys L.handles

theorem cleanup_of_idle (sys : Sys) (regs : List Name) (hwd : sys.wd ∉ regs) (I : Idle sys regs) :
    Idle (cleanup pathFacts sys) regs := by
  refine ⟨?_, ?_, (cleanup_flags sys).1, (cleanup_flags sys).2.1⟩
  · rw [cleanup_registered, I.registered]
    split
    · exact filter_ne_self regs sys.wd hwd
    · rfl
  · rw [cleanup_handles, I.handles]; split <;> rfl

/-- The state `Provision` works on once registration has succeeded: registered, config and repository set, swept. -/
def afterSweep (sys : Sys) : Sys :=
  { sys with inst := { cfgSet := true, repo := true }, registered := sys.wd :: sys.registered, fs := sweep pathFacts sys.fs }

theorem provisionOps_eq : pathFacts.provisionOps =
    [ProvisionOp.register, ProvisionOp.setConfig, ProvisionOp.newRepository, ProvisionOp.sweep,
     ProvisionOp.addUrls, ProvisionOp.addFiles, ProvisionOp.initTicker] := rfl

/-- `Provision` on a fresh checker object, by outcome. -/
theorem provision_spec (v : Bool) (urls files : List Location) (sys : Sys)
    (hu : ∀ l ∈ urls, matchesTemp pathFacts l.id = false) (hf : ∀ l ∈ files, matchesTemp pathFacts l.id = false) :
    (sys.wd ∈ sys.registered → provision pathFacts v urls files sys = ({ sys with inst := {} }, false)) ∧
    (sys.wd ∉ sys.registered → ∃ mid, RepoStep (afterSweep sys) mid ∧
      (provision pathFacts v urls files sys = ({ mid with inst := { mid.inst with ticker := true, stop := true } }, true) ∨
       provision pathFacts v urls files sys = (cleanup pathFacts mid, false))) := by
  constructor
  · intro hbusy
    have hc : cleanup pathFacts { sys with inst := {} } = { sys with inst := {} } := by
      simp [cleanup, cleanupOp, pathFacts]
    simp only [provision, provisionOps_eq, List.foldl_cons, List.foldl_nil, provisionOp, Bool.false_eq_true, ↓reduceIte, hbusy]
    exact congrArg (·, false) hc
  · intro hfree
    have r1 := repoStep_addAll v (afterSweep sys) urls hu
    have e4 : [ProvisionOp.register, ProvisionOp.setConfig, ProvisionOp.newRepository, ProvisionOp.sweep].foldl
        (provisionOp pathFacts v urls files) ({ sys with inst := {} }, false) = (afterSweep sys, false) := by
      simp [provisionOp, hfree, afterSweep]
    have split7 : pathFacts.provisionOps =
        [ProvisionOp.register, ProvisionOp.setConfig, ProvisionOp.newRepository, ProvisionOp.sweep] ++
        [ProvisionOp.addUrls, ProvisionOp.addFiles, ProvisionOp.initTicker] := rfl
    unfold provision
    simp only []
    rw [split7, List.foldl_append, e4]
    simp only [List.foldl_cons, List.foldl_nil]
    have e5 : provisionOp pathFacts v urls files (afterSweep sys, false) ProvisionOp.addUrls
        = addAll pathFacts v (afterSweep sys) urls := by simp [provisionOp]
    simp only [e5]
    cases h1 : (addAll pathFacts v (afterSweep sys) urls).2 with
    | true =>
      refine ⟨_, r1, Or.inr ?_⟩
      simp [provisionOp, h1]
    | false =>
      have r2 := repoStep_addAll v (addAll pathFacts v (afterSweep sys) urls).1 files hf
      have e6 : provisionOp pathFacts v urls files (addAll pathFacts v (afterSweep sys) urls) ProvisionOp.addFiles
          = addAll pathFacts v (addAll pathFacts v (afterSweep sys) urls).1 files := by simp [provisionOp, h1]
      simp only [e6]
      cases h2 : (addAll pathFacts v (addAll pathFacts v (afterSweep sys) urls).1 files).2 with
      | true =>
        refine ⟨_, r1.trans r2, Or.inr ?_⟩
        simp [provisionOp, h2]
      | false =>
        refine ⟨_, r1.trans r2, Or.inl ?_⟩
        simp [provisionOp, h2]

theorem held_of_repoStep (sys mid : Sys) (regs : List Name) (hreg : sys.registered = regs) (hh : sys.handles = [])
    (r : RepoStep (afterSweep sys) mid) : Held mid regs := by
  have ok1 : HandlesOk (afterSweep sys) := by
    intro h hm
    rw [show (afterSweep sys).handles = sys.handles from rfl, hh] at hm; cases hm
  refine ⟨?_, r.cfgSet, r.repo, r.handles ok1⟩
  rw [r.registered, r.wd]; simp [afterSweep, hreg]

/-! ### events -/

def EvOk : Ev → Prop
  | .provision _ urls files =>
    (∀ l ∈ urls, matchesTemp pathFacts l.id = false) ∧ (∀ l ∈ files, matchesTemp pathFacts l.id = false)
  | .handshake _ id _ => matchesTemp pathFacts id = false
  | .refresh _ id _ => matchesTemp pathFacts id = false
  | .cleanup => True
  | .foreign _ _ => True

instance : DecidablePred EvOk := fun ev => by
  cases ev <;> unfold EvOk <;> exact inferInstance

/-- Every temp-pattern name in work_dir was put there by somebody else. -/
def TempOk (sys : Sys) : Prop := ∀ n, matchesTemp pathFacts n = true → Fs.get sys.fs n ≠ none → n ∈ sys.dropped

/-- What one event may do to work_dir. -/
structure FsStep (a b : Sys) : Prop where
  wd : b.wd = a.wd
  temp : TempOk a → TempOk b
  dirs : ∀ n img, matchesTemp pathFacts n = false → Fs.get a.fs n = some (.dir img) → ∃ img', Fs.get b.fs n = some (.dir img')

theorem FsStep.refl (a : Sys) : FsStep a a := ⟨rfl, fun h => h, fun _ img _ h => ⟨img, h⟩⟩

theorem fsStep_of_repoStep {a b : Sys} (r : RepoStep a b) : FsStep a b := by
  refine ⟨r.wd, ?_, fun n img _ h => r.dirs n img h⟩
  intro ok n hn hne
  rw [r.dropped]
  rw [r.temp n hn] at hne
  exact ok n hn hne

theorem get_afterSweep (sys : Sys) (n : Name) :
    Fs.get (afterSweep sys).fs n = if matchesTemp pathFacts n then none else Fs.get sys.fs n := by
  show Fs.get (sweep pathFacts sys.fs) n = _
  rw [get_sweep]; rfl

/-- Work_dir after `Provision` got past the registration (whether it then succeeds or not): swept. -/
theorem provision_fs (sys mid : Sys) (r : RepoStep (afterSweep sys) mid) :
    (∀ n, matchesTemp pathFacts n = true → Fs.get mid.fs n = none) ∧
    (∀ n img, matchesTemp pathFacts n = false → Fs.get sys.fs n = some (.dir img) → ∃ img', Fs.get mid.fs n = some (.dir img')) := by
  constructor
  · intro n hn
    rw [r.temp n hn, get_afterSweep, hn]; rfl
  · intro n img hn h
    apply r.dirs n img
    rw [get_afterSweep, hn]; exact h

theorem stepEv_fs (sys : Sys) (ev : Ev) (hok : EvOk ev) : FsStep sys (stepEv pathFacts sys ev) := by
  cases ev with
  | provision v urls files =>
    obtain ⟨hu, hf⟩ := hok
    obtain ⟨pb, pf⟩ := provision_spec v urls files sys hu hf
    simp only [stepEv]
    by_cases hbusy : sys.wd ∈ sys.registered
    · rw [if_pos hbusy, pb hbusy]; exact FsStep.refl sys
    · rw [if_neg hbusy]
      obtain ⟨mid, r, e | e⟩ := pf hbusy
      · rw [e]
        obtain ⟨h1, h2⟩ := provision_fs sys mid r
        refine ⟨r.wd, fun _ n hn hne => absurd (h1 n hn) hne, h2⟩
      · rw [e]
        obtain ⟨h1, h2⟩ := provision_fs sys mid r
        obtain ⟨cf, _, cw, _⟩ := cleanup_rest mid
        refine ⟨cw.trans r.wd, fun _ n hn hne => ?_, fun n img hn h => by rw [cf]; exact h2 n img hn h⟩
        rw [cf] at hne; exact absurd (h1 n hn) hne
  | handshake v id o =>
    simp only [stepEv]
    split
    · obtain ⟨r1, e1⟩ := repoStep_addEntry sys id hok
      split
      · exact fsStep_of_repoStep r1
      · exact fsStep_of_repoStep (r1.trans (repoStep_doLoad v _ id o hok e1))
    · exact FsStep.refl sys
  | refresh v id o =>
    simp only [stepEv]
    split
    · next h =>
      have he : hasEntry sys.inst.entries id = true := by simp at h; exact h.2
      split
      · exact fsStep_of_repoStep (repoStep_doRefresh v sys id o hok he)
      · exact fsStep_of_repoStep (repoStep_doLoad v sys id o hok he)
    · exact FsStep.refl sys
  | cleanup =>
    obtain ⟨cf, cd, cw, _⟩ := cleanup_rest sys
    simp only [stepEv]
    refine ⟨cw, ?_, fun n img _ h => by rw [cf]; exact ⟨img, h⟩⟩
    intro ok n hn hne
    rw [cd]; rw [cf] at hne; exact ok n hn hne
  | «foreign» m x =>
    simp only [stepEv]
    cases hg : Fs.get sys.fs m with
    | some y => exact FsStep.refl sys
    | none =>
      simp only []
      refine ⟨rfl, ?_, ?_⟩
      · intro ok n hn hne
        show n ∈ m :: sys.dropped
        by_cases hnm : n = m
        · simp [hnm]
        · have : Fs.get (sys.fs.set m x) n = Fs.get sys.fs n := by rw [get_set, upd_ne _ _ _ _ hnm]
          have hne' : Fs.get sys.fs n ≠ none := by rw [← this]; exact hne
          exact List.mem_cons_of_mem _ (ok n hn hne')
      · intro n img _ h
        have hnm : n ≠ m := fun e => by rw [e, hg] at h; cases h
        exact ⟨img, by show Fs.get (sys.fs.set m x) n = _; rw [get_set, upd_ne _ _ _ _ hnm]; exact h⟩

/-- Between events the checker is either idle or live; `regs` (other instances' work_dirs) never changes. -/
theorem stepEv_state (sys : Sys) (regs : List Name) (ev : Ev) (hok : EvOk ev) (hwd : sys.wd ∉ regs)
    (h : Idle sys regs ∨ Live sys regs) :
    Idle (stepEv pathFacts sys ev) regs ∨ Live (stepEv pathFacts sys ev) regs := by
  have liveOf : ∀ b, RepoStep sys b → Live sys regs → Live b regs := by
    intro b r L
    exact ⟨⟨by rw [r.registered, r.wd]; exact L.registered, r.cfgSet.trans L.cfgSet, r.repo.trans L.repo, r.handles L.handles⟩,
           r.ticker.trans L.ticker, r.stop.trans L.stop⟩
  have notProv : Idle sys regs → provisioned sys = false := by
    intro I; simp [provisioned, I.stop]
  cases ev with
  | provision v urls files =>
    obtain ⟨hu, hf⟩ := hok
    obtain ⟨pb, pf⟩ := provision_spec v urls files sys hu hf
    simp only [stepEv]
    by_cases hbusy : sys.wd ∈ sys.registered
    · rw [if_pos hbusy, pb hbusy]; exact h
    · rw [if_neg hbusy]
      have I : Idle sys regs := by
        rcases h with I | L
        · exact I
        · exact absurd (by rw [L.registered]; simp) hbusy
      obtain ⟨mid, r, e | e⟩ := pf hbusy
      · right
        rw [e]
        have H := held_of_repoStep sys mid regs I.registered I.handles r
        exact ⟨⟨H.registered, H.cfgSet, H.repo, H.handles⟩, rfl, rfl⟩
      · left
        rw [e]
        have H := held_of_repoStep sys mid regs I.registered I.handles r
        exact cleanup_of_held mid regs (by rw [r.wd]; exact hwd) H
  | handshake v id o =>
    simp only [stepEv]
    rcases h with I | L
    · rw [notProv I]; exact Or.inl I
    · split
      · obtain ⟨r1, e1⟩ := repoStep_addEntry sys id hok
        split
        · exact Or.inr (liveOf _ r1 L)
        · exact Or.inr (liveOf _ (r1.trans (repoStep_doLoad v _ id o hok e1)) L)
      · exact Or.inr L
  | refresh v id o =>
    simp only [stepEv]
    rcases h with I | L
    · rw [notProv I]; exact Or.inl I
    · split
      · next hc =>
        have he : hasEntry sys.inst.entries id = true := by simp at hc; exact hc.2
        split
        · exact Or.inr (liveOf _ (repoStep_doRefresh v sys id o hok he) L)
        · exact Or.inr (liveOf _ (repoStep_doLoad v sys id o hok he) L)
      · exact Or.inr L
  | cleanup =>
    simp only [stepEv]
    rcases h with I | L
    · exact Or.inl (cleanup_of_idle sys regs hwd I)
    · exact Or.inl (cleanup_of_held sys regs hwd L.toHeld)
  | «foreign» m x =>
    simp only [stepEv]
    cases hg : Fs.get sys.fs m with
    | some y => exact h
    | none =>
      rcases h with I | L
      · exact Or.inl ⟨I.registered, I.handles, I.ticker, I.stop⟩
      · exact Or.inr ⟨⟨L.registered, L.cfgSet, L.repo, L.handles⟩, L.ticker, L.stop⟩

end Crv.Paths
