import Crv.Loader
/-! Helper lemmas for `Crv/Props/C10Loader.lean` (loader layer: `utils.Retry`, factory, multi-scheme loader). -/
namespace Crv.Loader
open Crv.Generated.Loader

/-! ### retry -/

/-- Everything about the loop from index `i` with `fuel` rounds left after this one. -/
theorem retryFrom_spec (out : Nat → Bool) (fuel i : Nat) :
    i + 1 ≤ (retryFrom out fuel i).2 ∧ (retryFrom out fuel i).2 ≤ i + fuel + 1 ∧
    (retryFrom out fuel i).1 = out ((retryFrom out fuel i).2 - 1) ∧
    (∀ k, i ≤ k → k < (retryFrom out fuel i).2 - 1 → out k = false) ∧
    ((retryFrom out fuel i).1 = false → (retryFrom out fuel i).2 = i + fuel + 1) := by
  induction fuel generalizing i with
  | zero =>
    simp only [retryFrom, retryCallsBeforeTest, ↓reduceIte, Nat.add_sub_cancel, Nat.add_zero, Nat.le_refl,
      true_and, implies_true, and_true]
    intro k h1 h2; omega
  | succ f ih =>
    unfold retryFrom
    by_cases h : out i = true
    · simp only [h, ↓reduceIte, Nat.add_sub_cancel, Nat.le_refl, true_and]
      refine ⟨by omega, ?_, ?_⟩
      · intro k h1 h2; omega
      · intro hf; cases hf
    · simp only [h, Bool.false_eq_true, ↓reduceIte]
      obtain ⟨a, b, c, d, e⟩ := ih (i + 1)
      refine ⟨by omega, by omega, c, ?_, ?_⟩
      · intro k h1 h2
        by_cases hk : k = i
        · subst hk; simpa using h
        · exact d k (by omega) h2
      · intro hf; have := e hf; omega

theorem retryBound_eq (a : Int) : retryBound a + 1 = (max a 1).toNat := by
  simp only [retryBound, retryBoundIsAttemptsMinusOne, ↓reduceIte]
  omega

/-! ### factory -/

theorem prefixBytes_eq : prefixBytes = [0x68, 0x74, 0x74, 0x70] := by decide

theorem lowerByte_eq_lower (b : UInt8) (c : Nat) (hc1 : 0x61 ≤ c) (hc2 : c ≤ 0x7A) :
    lowerByte b = UInt8.ofNat c ↔ (b = UInt8.ofNat c ∨ b = UInt8.ofNat (c - 0x20)) := by
  unfold lowerByte
  have hb := b.toNat_lt
  split
  · rename_i h
    simp only [← UInt8.toNat_inj, UInt8.toNat_ofNat']
    omega
  · rename_i h
    simp only [← UInt8.toNat_inj, UInt8.toNat_ofNat']
    omega

theorem lowerByte_h (b : UInt8) : lowerByte b = 0x68 ↔ (b = 0x68 ∨ b = 0x48) :=
  lowerByte_eq_lower b 0x68 (by decide) (by decide)
theorem lowerByte_t (b : UInt8) : lowerByte b = 0x74 ↔ (b = 0x74 ∨ b = 0x54) :=
  lowerByte_eq_lower b 0x74 (by decide) (by decide)
theorem lowerByte_p (b : UInt8) : lowerByte b = 0x70 ↔ (b = 0x70 ∨ b = 0x50) :=
  lowerByte_eq_lower b 0x70 (by decide) (by decide)

/-- Full characterisation of the `http` test. -/
theorem httpPrefixed_iff (s : List UInt8) :
    httpPrefixed s = true ↔ ∃ a b c d rest, s = a :: b :: c :: d :: rest ∧
      (a = 0x68 ∨ a = 0x48) ∧ (b = 0x74 ∨ b = 0x54) ∧ (c = 0x74 ∨ c = 0x54) ∧ (d = 0x70 ∨ d = 0x50) := by
  unfold httpPrefixed
  rw [prefixBytes_eq]
  simp only [cdpPrefixLowered, ↓reduceIte]
  match s with
  | [] => simp
  | [_] => simp
  | [_, _] => simp
  | [_, _, _] => simp
  | a :: b :: c :: d :: rest =>
    simp only [List.map_cons, List.isPrefixOf, Bool.and_eq_true, beq_iff_eq, List.cons.injEq]
    constructor
    · rintro ⟨ha, hb, hc, hd, -⟩
      exact ⟨a, b, c, d, rest, ⟨rfl, rfl, rfl, rfl, rfl⟩, (lowerByte_h a).mp ha.symm, (lowerByte_t b).mp hb.symm,
        (lowerByte_t c).mp hc.symm, (lowerByte_p d).mp hd.symm⟩
    · rintro ⟨a', b', c', d', rest', ⟨rfl, rfl, rfl, rfl, rfl⟩, ha, hb, hc, hd⟩
      exact ⟨((lowerByte_h _).mpr ha).symm, ((lowerByte_t _).mpr hb).symm, ((lowerByte_t _).mpr hc).symm,
        ((lowerByte_p _).mpr hd).symm, by cases rest <;> trivial⟩

theorem tryKind_url (l : Locs) : tryKind l "url" = if l.url.length > 0 then some (.url l.url) else none := by
  simp [tryKind]

theorem tryKind_file (l : Locs) : tryKind l "file" = if l.file.length > 0 then some (.file l.file) else none := by
  simp [tryKind]

theorem tryKind_cdp (l : Locs) : tryKind l "cdp" =
    if (l.cdps.filter httpPrefixed).length = 0 then some .error else some (.multi (l.cdps.filter httpPrefixed)) := by
  simp [tryKind, factoryEmptyIsError]

/-- The factory, flattened. -/
theorem create_eq (l : Locs) : create l =
    if l.url ≠ [] then .url l.url
    else if l.file ≠ [] then .file l.file
    else if l.cdps.filter httpPrefixed = [] then .error
    else .multi (l.cdps.filter httpPrefixed) := by
  unfold create
  simp only [factoryOrder, List.findSome?, tryKind_url, tryKind_file, tryKind_cdp]
  cases hu : l.url with
  | cons a as => simp
  | nil =>
    cases hf : l.file with
    | cons a as => simp
    | nil =>
      cases hc : l.cdps.filter httpPrefixed with
      | nil => simp
      | cons a as => simp

/-! ### multi-scheme loader -/

theorem wf_iff (m : Multi) : m.wf = true ↔ ∀ l, m.last = some l → l < m.n := by
  unfold Multi.wf
  cases m.last <;> simp

/-- The indices the loop looks at and does not skip. -/
def kept (skip : Option Nat) (js : List Nat) : List Nat := js.filter (fun x => !(skip == some x))

theorem scan_sublist (out : Nat → Bool) (skip : Option Nat) (js : List Nat) :
    (scan out skip js).2.Sublist (kept skip js) := by
  induction js with
  | nil => simp [scan, kept]
  | cons j js ih =>
    unfold scan
    simp only [multiSkipsLastSuccessfulInLoop, Bool.true_and]
    by_cases hs : (skip == some j) = true
    · simp only [hs, ↓reduceIte]
      simpa [kept, List.filter_cons, hs] using ih
    · simp only [hs, Bool.false_eq_true, ↓reduceIte]
      have hk : kept skip (j :: js) = j :: kept skip js := by simp [kept, hs]
      rw [hk]
      by_cases ho : out j = true
      · simp only [ho, ↓reduceIte]
        exact List.Sublist.cons_cons j (List.nil_sublist _)
      · simp only [ho, Bool.false_eq_true, ↓reduceIte]
        exact List.Sublist.cons_cons j ih

theorem scan_some (out : Nat → Bool) (skip : Option Nat) (js : List Nat) (j : Nat)
    (h : (scan out skip js).1 = some j) :
    out j = true ∧ (scan out skip js).2.getLast? = some j ∧ ∀ x ∈ (scan out skip js).2.dropLast, out x = false := by
  induction js with
  | nil => simp [scan] at h
  | cons a js ih =>
    unfold scan at h ⊢
    simp only [multiSkipsLastSuccessfulInLoop, Bool.true_and] at h ⊢
    by_cases hs : (skip == some a) = true
    · simp only [hs, ↓reduceIte] at h ⊢
      exact ih h
    · simp only [hs, Bool.false_eq_true, ↓reduceIte] at h ⊢
      by_cases ho : out a = true
      · simp only [ho, ↓reduceIte] at h ⊢
        cases h
        simp [ho]
      · simp only [ho, Bool.false_eq_true, ↓reduceIte] at h ⊢
        obtain ⟨h1, h2, h3⟩ := ih h
        refine ⟨h1, ?_, ?_⟩
        · rw [List.getLast?_cons, h2]; rfl
        · have hne : (scan out skip js).2 ≠ [] := by
            intro he; rw [he] at h2; simp at h2
          rw [List.dropLast_cons_of_ne_nil hne]
          intro x hx
          cases hx with
          | head => simpa using ho
          | tail _ hx => exact h3 x hx

theorem scan_none (out : Nat → Bool) (skip : Option Nat) (js : List Nat)
    (h : (scan out skip js).1 = none) :
    (scan out skip js).2 = kept skip js ∧ ∀ x ∈ kept skip js, out x = false := by
  induction js with
  | nil => simp [scan, kept]
  | cons a js ih =>
    unfold scan at h ⊢
    simp only [multiSkipsLastSuccessfulInLoop, Bool.true_and] at h ⊢
    by_cases hs : (skip == some a) = true
    · simp only [hs, ↓reduceIte] at h ⊢
      have hk : kept skip (a :: js) = kept skip js := by simp [kept, hs]
      rw [hk]; exact ih h
    · simp only [hs, Bool.false_eq_true, ↓reduceIte] at h ⊢
      have hk : kept skip (a :: js) = a :: kept skip js := by simp [kept, hs]
      rw [hk]
      by_cases ho : out a = true
      · simp only [ho, ↓reduceIte] at h; cases h
      · simp only [ho, Bool.false_eq_true, ↓reduceIte] at h ⊢
        obtain ⟨h1, h2⟩ := ih h
        refine ⟨by rw [h1], ?_⟩
        intro x hx
        cases hx with
        | head => simpa using ho
        | tail _ hx => exact h2 x hx

/-- The loop finds nothing exactly when every loader it does not skip fails. -/
theorem scan_none_iff (out : Nat → Bool) (skip : Option Nat) (js : List Nat) :
    (scan out skip js).1 = none ↔ ∀ x ∈ kept skip js, out x = false := by
  constructor
  · exact fun h => (scan_none out skip js h).2
  · intro hall
    cases hr : (scan out skip js).1 with
    | none => rfl
    | some j =>
      obtain ⟨h1, h2, -⟩ := scan_some out skip js j hr
      have hj : j ∈ (scan out skip js).2 := List.mem_of_getLast? h2
      have := hall j ((scan_sublist out skip js).subset hj)
      rw [h1] at this; cases this

theorem mem_kept {skip : Option Nat} {js : List Nat} {x : Nat} :
    x ∈ kept skip js ↔ x ∈ js ∧ skip ≠ some x := by
  simp [kept]

theorem kept_nodup (skip : Option Nat) (n : Nat) : (kept skip (List.range n)).Nodup :=
  (List.filter_sublist (l := List.range n)).nodup List.nodup_range

theorem kept_none (js : List Nat) : kept none js = js := by
  simp [kept]

/-- `load`, flattened: the three shapes a call can take. -/
theorem load_none (m : Multi) (out : Nat → Bool) (h : m.last = none) :
    load m out = (remember m (scan out none (List.range m.n)).1, loopResult m (scan out none (List.range m.n)).1,
      (scan out none (List.range m.n)).2) := by
  simp [load, h]

theorem load_some_ok (m : Multi) (out : Nat → Bool) (l : Nat) (h : m.last = some l) (ho : out l = true) :
    load m out = (m, some l, [l]) := by
  simp [load, h, ho, multiTriesLastSuccessfulFirst]

theorem load_some_fail (m : Multi) (out : Nat → Bool) (l : Nat) (h : m.last = some l) (ho : out l = false) :
    load m out = (remember m (scan out (some l) (List.range m.n)).1,
      loopResult m (scan out (some l) (List.range m.n)).1, l :: (scan out (some l) (List.range m.n)).2) := by
  simp [load, h, ho, multiTriesLastSuccessfulFirst]

theorem loopResult_eq (m : Multi) (r : Option Nat) : loopResult m r = r := by
  cases r <;> simp [loopResult, multiAllFailedIsError]

theorem remember_last (m : Multi) (r : Option Nat) : (remember m r).last = r.or m.last := by
  cases r <;> simp [remember, multiRemembersSuccess]

theorem remember_n (m : Multi) (r : Option Nat) : (remember m r).n = m.n := by
  cases r <;> simp [remember, multiRemembersSuccess]

/-- One statement from which all per-call properties follow: the trace, split at its last element. -/
structure CallSpec (m : Multi) (out : Nat → Bool) : Prop where
  n_eq : (load m out).1.n = m.n
  nodup : (load m out).2.2.Nodup
  range : ∀ x ∈ (load m out).2.2, x < m.n ∨ m.last = some x
  ok : ∀ j, (load m out).2.1 = some j →
    out j = true ∧ (load m out).2.2.getLast? = some j ∧ (∀ x ∈ (load m out).2.2.dropLast, out x = false) ∧
    (load m out).1.last = some j
  fail : (load m out).2.1 = none →
    (load m out).1.last = m.last ∧ (∀ x ∈ (load m out).2.2, out x = false) ∧ (∀ x, x < m.n → x ∈ (load m out).2.2) ∧
    (load m out).2.2 = (match m.last with | none => List.range m.n | some l => l :: (List.range m.n).filter (· ≠ l))

theorem callSpec (m : Multi) (out : Nat → Bool) : CallSpec m out := by
  cases hl : m.last with
  | none =>
    have hload := load_none m out hl
    have hsub := scan_sublist out none (List.range m.n)
    rw [kept_none] at hsub
    refine ⟨?_, ?_, ?_, ?_, ?_⟩
    · rw [hload]; exact remember_n _ _
    · rw [hload]; exact hsub.nodup List.nodup_range
    · rw [hload]; intro x hx; exact Or.inl (List.mem_range.mp (hsub.subset hx))
    · rw [hload]; simp only [loopResult_eq]
      intro j hj
      obtain ⟨h1, h2, h3⟩ := scan_some _ _ _ _ hj
      refine ⟨h1, h2, h3, ?_⟩
      rw [remember_last, hj]; rfl
    · rw [hload]; simp only [loopResult_eq]
      intro hn
      obtain ⟨h1, h2⟩ := scan_none _ _ _ hn
      rw [kept_none] at h1 h2
      refine ⟨?_, ?_, ?_, ?_⟩
      · rw [remember_last, hn, hl]; rfl
      · rw [h1]; exact h2
      · rw [h1]; intro x hx; exact List.mem_range.mpr hx
      · simp only [hl]; exact h1
  | some l =>
    by_cases ho : out l = true
    · have hload := load_some_ok m out l hl ho
      refine ⟨?_, ?_, ?_, ?_, ?_⟩
      · rw [hload]
      · rw [hload]; simp
      · rw [hload]; intro x hx; simp at hx; exact Or.inr (by rw [hx]; exact hl)
      · rw [hload]; intro j hj
        simp only [Option.some.injEq] at hj
        subst hj
        simp [ho, hl]
      · rw [hload]; intro hn; cases hn
    · have ho' : out l = false := by simpa using ho
      have hload := load_some_fail m out l hl ho'
      have hsub := scan_sublist out (some l) (List.range m.n)
      have hnot : l ∉ (scan out (some l) (List.range m.n)).2 := by
        intro hmem
        have := mem_kept.mp (hsub.subset hmem)
        exact this.2 rfl
      refine ⟨?_, ?_, ?_, ?_, ?_⟩
      · rw [hload]; exact remember_n _ _
      · rw [hload]; exact List.nodup_cons.mpr ⟨hnot, hsub.nodup (kept_nodup _ _)⟩
      · rw [hload]; intro x hx
        cases hx with
        | head => exact Or.inr hl
        | tail _ hx => exact Or.inl (List.mem_range.mp (mem_kept.mp (hsub.subset hx)).1)
      · rw [hload]; simp only [loopResult_eq]
        intro j hj
        obtain ⟨h1, h2, h3⟩ := scan_some _ _ _ _ hj
        have hne : (scan out (some l) (List.range m.n)).2 ≠ [] := by
          intro he; rw [he] at h2; simp at h2
        refine ⟨h1, ?_, ?_, ?_⟩
        · rw [List.getLast?_cons, h2]; rfl
        · rw [List.dropLast_cons_of_ne_nil hne]
          intro x hx
          cases hx with
          | head => exact ho'
          | tail _ hx => exact h3 x hx
        · rw [remember_last, hj]; rfl
      · rw [hload]; simp only [loopResult_eq]
        intro hn
        obtain ⟨h1, h2⟩ := scan_none _ _ _ hn
        refine ⟨?_, ?_, ?_, ?_⟩
        · rw [remember_last, hn, hl]; rfl
        · intro x hx
          cases hx with
          | head => exact ho'
          | tail _ hx => rw [h1] at hx; exact h2 x hx
        · intro x hx
          by_cases hxl : x = l
          · subst hxl; exact List.mem_cons_self
          · refine List.mem_cons_of_mem _ ?_
            rw [h1]
            exact mem_kept.mpr ⟨List.mem_range.mpr hx, fun h => hxl (Option.some.inj h).symm⟩
        · rw [h1]
          simp only [hl, kept, List.cons.injEq, true_and]
          apply List.filter_congr
          intro x _
          by_cases hxl : x = l
          · subst hxl; simp
          · have : ¬ l = x := fun h => hxl h.symm
            simp [hxl, this]

/-- The invariant is kept by every call. -/
theorem load_wf (m : Multi) (out : Nat → Bool) (h : m.wf = true) : (load m out).1.wf = true := by
  have sp := callSpec m out
  rw [wf_iff] at h ⊢
  rw [sp.n_eq]
  intro l hl
  cases hr : (load m out).2.1 with
  | none => exact h l (by rw [← (sp.fail hr).1]; exact hl)
  | some j =>
    obtain ⟨-, h2, -, h4⟩ := sp.ok j hr
    have hjl : j = l := Option.some.inj (h4.symm.trans hl)
    rw [← hjl]
    cases sp.range j (List.mem_of_getLast? h2) with
    | inl hlt => exact hlt
    | inr hlast => exact h j hlast

theorem runCalls_wf (m : Multi) (hist : List (Nat → Bool)) (h : m.wf = true) :
    (runCalls m hist).wf = true ∧ (runCalls m hist).n = m.n := by
  induction hist generalizing m with
  | nil => exact ⟨h, rfl⟩
  | cons o os ih =>
    have := ih (load m o).1 (load_wf m o h)
    exact ⟨this.1, by rw [runCalls, this.2, (callSpec m o).n_eq]⟩

end Crv.Loader
