import Crv.Generated.Paths
import Crv.Proofs.PathsFs
/-!
`loadCRL` / `updateCrlEntry` as regenerated from the source (`Crv.Generated.pathFacts`): the shape of their step
lists in every scenario, the state after the staging part, and what a complete run leaves behind.
-/
namespace Crv.Paths
open Crv.Generated

/-- Names of one operation: pairwise different, and the three temporary ones are not in the listing yet. -/
structure NamesOk (sc : Scn) (f : FsF) : Prop where
  ts : sc.t ≠ sc.s
  ta : sc.t ≠ sc.a
  sa : sc.s ≠ sc.a
  tid : sc.t ≠ sc.id
  sid : sc.s ≠ sc.id
  aid : sc.a ≠ sc.id
  ft : f sc.t = none
  fs : f sc.s = none
  fa : f sc.a = none

def locPart (sc : Scn) (withLoc : Bool) : List Step := if withLoc then [Step.put sc.s .locations sc.loc] else []

def sigPart (hitName : String) (sc : Scn) (d : Doc) : List Step :=
  if sc.sigChecked then Step.hit hitName :: (if d.sigOk then [Step.put sc.s .signer sc.loc] else []) else []

/-- Everything up to (excluding) the swap: download file, staged store, its records. -/
def preSteps (_hitName : String) (sc : Scn) (ws : List (DbKey × Nat)) (withLoc : Bool) : List Step :=
  [Step.mkFile sc.t, Step.writeFile sc.t, Step.mkStore sc.s] ++ locPart sc withLoc ++ writeSteps pathFacts sc.s ws

/-- The swap and what follows it. -/
def postSteps (h1 h2 : String) (sc : Scn) : List Step :=
  [Step.hit h1, Step.closeDb sc.id, Step.hit "ldb.update.closed-old", Step.closeDb sc.s, Step.hit "ldb.update.closed-new",
   Step.rename sc.id sc.a, Step.hit "ldb.update.moved-old", Step.rename sc.s sc.id, Step.hit "ldb.update.moved-new",
   Step.rmAll sc.a, Step.hit "ldb.update.removed-old", Step.openStore sc.id, Step.hit "ldb.update.reopened",
   Step.hit h2, Step.rmFile sc.t]

/-- The deferred calls of a failing run. -/
def abortSteps (sc : Scn) : List Step := [Step.rmFile sc.t, Step.closeDb sc.s, Step.rmAll sc.s]

theorem accepted_doc (sc : Scn) (d : Doc) (ho : sc.origin = .doc d) :
    accepted sc = if sc.sigChecked && sc.sigRequired && !d.sigOk then none else some d := by
  simp [accepted, ho]

/-! ### shapes -/

theorem loadSteps_accepted (sc : Scn) (d : Doc) (hd : sc.disk = true) (ho : sc.origin = .doc d)
    (ha : accepted sc = some d) :
    loadSteps pathFacts sc = preSteps "" sc (readWrites d) sc.hasLoc ++ sigPart "repo.load.sig-checked" sc d ++
      postSteps "repo.load.before-swap" "repo.load.after-swap" sc := by
  rw [accepted_doc sc d ho] at ha
  cases hc : sc.sigChecked <;> cases hr : sc.sigRequired <;> cases hs : d.sigOk <;> cases hl : sc.hasLoc <;>
    simp [hc, hr, hs] at ha <;>
    simp [loadSteps, compile, pathFacts, onDisk, hd, ho, hc, hr, hs, hl, runDefers, targetDir, swapSteps, updStep,
      preSteps, sigPart, postSteps, locPart]

theorem refreshSteps_accepted (sc : Scn) (d : Doc) (hd : sc.disk = true) (ho : sc.origin = .doc d)
    (ha : accepted sc = some d) :
    refreshSteps pathFacts sc = preSteps "" sc (readWrites d) true ++ sigPart "repo.refresh.sig-checked" sc d ++
      postSteps "repo.refresh.before-swap" "repo.refresh.after-swap" sc := by
  rw [accepted_doc sc d ho] at ha
  cases hc : sc.sigChecked <;> cases hr : sc.sigRequired <;> cases hs : d.sigOk <;>
    simp [hc, hr, hs] at ha <;>
    simp [refreshSteps, compile, pathFacts, onDisk, hd, ho, hc, hr, hs, runDefers, targetDir, swapSteps, updStep,
      preSteps, sigPart, postSteps, locPart]

theorem loadSteps_down (sc : Scn) (ho : sc.origin = .down) :
    loadSteps pathFacts sc = [Step.mkFile sc.t, Step.writeFile sc.t, Step.rmFile sc.t] := by
  cases hd : sc.disk <;> simp [loadSteps, compile, pathFacts, onDisk, hd, ho, runDefers]

theorem refreshSteps_down (sc : Scn) (ho : sc.origin = .down) :
    refreshSteps pathFacts sc = [Step.mkFile sc.t, Step.writeFile sc.t, Step.rmFile sc.t] := by
  cases hd : sc.disk <;> simp [refreshSteps, compile, pathFacts, onDisk, hd, ho, runDefers]

theorem loadSteps_broken (sc : Scn) (d : Doc) (j : Nat) (hd : sc.disk = true) (ho : sc.origin = .broken d j) :
    loadSteps pathFacts sc = preSteps "" sc ((headWrites d).take j) sc.hasLoc ++ abortSteps sc := by
  cases hl : sc.hasLoc <;>
    simp [loadSteps, compile, pathFacts, onDisk, hd, ho, hl, runDefers, targetDir, preSteps, abortSteps, locPart]

theorem refreshSteps_broken (sc : Scn) (d : Doc) (j : Nat) (hd : sc.disk = true) (ho : sc.origin = .broken d j) :
    refreshSteps pathFacts sc = preSteps "" sc ((headWrites d).take j) true ++ abortSteps sc := by
  simp [refreshSteps, compile, pathFacts, onDisk, hd, ho, runDefers, targetDir, preSteps, abortSteps, locPart]

theorem loadSteps_rejected (sc : Scn) (d : Doc) (hd : sc.disk = true) (ho : sc.origin = .doc d)
    (ha : accepted sc = none) :
    loadSteps pathFacts sc = preSteps "" sc (readWrites d) sc.hasLoc ++ [Step.hit "repo.load.sig-checked"] ++ abortSteps sc := by
  rw [accepted_doc sc d ho] at ha
  cases hc : sc.sigChecked <;> cases hr : sc.sigRequired <;> cases hs : d.sigOk <;> cases hl : sc.hasLoc <;>
    simp [hc, hr, hs] at ha <;>
    simp [loadSteps, compile, pathFacts, onDisk, hd, ho, hc, hr, hs, hl, runDefers, targetDir, preSteps, abortSteps, locPart]

theorem refreshSteps_rejected (sc : Scn) (d : Doc) (hd : sc.disk = true) (ho : sc.origin = .doc d)
    (ha : accepted sc = none) :
    refreshSteps pathFacts sc = preSteps "" sc (readWrites d) true ++ [Step.hit "repo.refresh.sig-checked"] ++ abortSteps sc := by
  rw [accepted_doc sc d ho] at ha
  cases hc : sc.sigChecked <;> cases hr : sc.sigRequired <;> cases hs : d.sigOk <;>
    simp [hc, hr, hs] at ha <;>
    simp [refreshSteps, compile, pathFacts, onDisk, hd, ho, hc, hr, hs, runDefers, targetDir, preSteps, abortSteps, locPart]

/-- Hook hits of a run that never touches a store on disk. -/
def memHits (a b c : String) (sc : Scn) : List String :=
  match sc.origin with
  | .doc d =>
    (if sc.sigChecked then [a] else []) ++
      (if sc.sigChecked && sc.sigRequired && !d.sigOk then [] else [b, c])
  | _ => []

/-- Memory storage: the only things that ever touch work_dir are the download file and hook hits. -/
theorem loadSteps_memory (sc : Scn) (hd : sc.disk = false) :
    loadSteps pathFacts sc = [Step.mkFile sc.t, Step.writeFile sc.t] ++
      (memHits "repo.load.sig-checked" "repo.load.before-swap" "repo.load.after-swap" sc).map Step.hit ++ [Step.rmFile sc.t] := by
  cases ho : sc.origin with
  | down => simp [loadSteps_down sc ho, memHits, ho]
  | broken d j => simp [loadSteps, compile, pathFacts, onDisk, hd, ho, runDefers, memHits]
  | doc d =>
    cases hc : sc.sigChecked <;> cases hr : sc.sigRequired <;> cases hs : d.sigOk <;>
      simp [loadSteps, compile, pathFacts, onDisk, hd, ho, hc, hr, hs, runDefers, memHits]

theorem refreshSteps_memory (sc : Scn) (hd : sc.disk = false) :
    refreshSteps pathFacts sc = [Step.mkFile sc.t, Step.writeFile sc.t] ++
      (memHits "repo.refresh.sig-checked" "repo.refresh.before-swap" "repo.refresh.after-swap" sc).map Step.hit ++ [Step.rmFile sc.t] := by
  cases ho : sc.origin with
  | down => simp [refreshSteps_down sc ho, memHits, ho]
  | broken d j => simp [refreshSteps, compile, pathFacts, onDisk, hd, ho, runDefers, memHits]
  | doc d =>
    cases hc : sc.sigChecked <;> cases hr : sc.sigRequired <;> cases hs : d.sigOk <;>
      simp [refreshSteps, compile, pathFacts, onDisk, hd, ho, hc, hr, hs, runDefers, memHits]

/-! ### the staging part -/

/-- Image of the staged store after the locations record. -/
def img0 (sc : Scn) (withLoc : Bool) : DbImage := if withLoc then DbImage.put [] .locations sc.loc else []

theorem runF_preSteps (hn : String) (sc : Scn) (ws : List (DbKey × Nat)) (withLoc : Bool) (f : FsF) :
    runF (preSteps hn sc ws withLoc) f =
      upd (upd f sc.t (some .file)) sc.s (some (.dir (writeAll (img0 sc withLoc) ws))) := by
  unfold preSteps
  rw [runF_append, runF_append]
  have h1 : runF [Step.mkFile sc.t, Step.writeFile sc.t, Step.mkStore sc.s] f
      = upd (upd f sc.t (some .file)) sc.s (some (.dir [])) := by
    simp [Step.applyF]
  have h2 : runF (locPart sc withLoc) (upd (upd f sc.t (some .file)) sc.s (some (.dir [])))
      = upd (upd f sc.t (some .file)) sc.s (some (.dir (img0 sc withLoc))) := by
    cases withLoc <;> simp [locPart, img0, Step.applyF]
  rw [h1, h2, runF_writeSteps pathFacts sc.s ws _ (img0 sc withLoc) (by simp)]
  simp

theorem preSteps_names (hn : String) (sc : Scn) (ws : List (DbKey × Nat)) (withLoc : Bool) :
    ∀ st ∈ preSteps hn sc ws withLoc, st.names ⊆ [sc.t, sc.s] := by
  intro st h
  simp only [preSteps, List.mem_append, List.mem_cons, List.not_mem_nil, or_false] at h
  rcases h with (((h | h | h) | h) | h)
  · subst h; simp [Step.names]
  · subst h; simp [Step.names]
  · subst h; simp [Step.names]
  · cases withLoc <;> simp [locPart] at h
    subst h; simp [Step.names]
  · intro x hx
    have := mem_writeSteps _ _ _ _ h hx
    simp at this; simp [this]

theorem sigPart_names (hn : String) (sc : Scn) (d : Doc) : ∀ st ∈ sigPart hn sc d, st.names ⊆ [sc.t, sc.s] := by
  intro st h
  unfold sigPart at h
  cases hc : sc.sigChecked <;> cases hs : d.sigOk <;> simp [hc, hs] at h
  · subst h; simp [Step.names]
  · rcases h with h | h <;> subst h <;> simp [Step.names]

theorem abortSteps_names (sc : Scn) : ∀ st ∈ abortSteps sc, st.names ⊆ [sc.t, sc.s] := by
  intro st h
  simp only [abortSteps, List.mem_cons, List.not_mem_nil, or_false] at h
  rcases h with h | h | h <;> subst h <;> simp [Step.names]

/-- The staged store right before the swap. -/
def stagedOf (sc : Scn) (d : Doc) (withLoc : Bool) : DbImage := stagedImage sc d withLoc (sc.sigChecked && d.sigOk)

theorem runF_pre_sig (hn hn' : String) (sc : Scn) (d : Doc) (withLoc : Bool) (f : FsF) :
    runF (preSteps hn sc (readWrites d) withLoc ++ sigPart hn' sc d) f =
      upd (upd f sc.t (some .file)) sc.s (some (.dir (stagedOf sc d withLoc))) := by
  rw [runF_append, runF_preSteps]
  cases hc : sc.sigChecked <;> cases hs : d.sigOk <;>
    simp [sigPart, stagedOf, stagedImage, hc, hs, Step.applyF, writeAll, img0]

/-! ### complete runs -/

theorem runF_abort (sc : Scn) (f : FsF) (x : Option Node) (hts : sc.t ≠ sc.s) (ft : f sc.t = none) (fs : f sc.s = none) :
    runF (abortSteps sc) (upd (upd f sc.t (some .file)) sc.s x) = f := by
  have e1 : (upd (upd f sc.t (some .file)) sc.s x) sc.t = some .file := by
    rw [upd_ne _ _ _ _ hts]; simp
  simp only [abortSteps, runF_cons, runF_nil, Step.applyF, e1]
  funext m
  by_cases h1 : m = sc.s
  · subst h1; simp [fs]
  · by_cases h2 : m = sc.t
    · subst h2; simp [upd, h1, ft]
    · simp [upd, h1, h2]

/-- All prefixes of the swap part, evaluated on the live store name. -/
theorem runF_post_prefix (h1 h2 : String) (sc : Scn) (g : FsF) (old staged : Node)
    (hsid : sc.s ≠ sc.id) (haid : sc.a ≠ sc.id) (hsa : sc.s ≠ sc.a) (htid : sc.t ≠ sc.id) (hts : sc.t ≠ sc.s) (hta : sc.t ≠ sc.a)
    (gid : g sc.id = some old) (gs : g sc.s = some staged) (gt : g sc.t = some .file) (p : List Step) (hp : p ∈ inits (postSteps h1 h2 sc)) :
    runF p g sc.id = some old ∨ runF p g sc.id = none ∨ runF p g sc.id = some staged := by
  have hids : sc.id ≠ sc.s := fun e => hsid e.symm
  have hida : sc.id ≠ sc.a := fun e => haid e.symm
  have hidt : sc.id ≠ sc.t := fun e => htid e.symm
  have gs' : upd (upd g sc.id none) sc.a (some old) sc.s = some staged := by
    rw [upd_ne _ _ _ _ hsa, upd_ne _ _ _ _ hsid]; exact gs
  simp only [postSteps, inits, List.map_cons, List.map_nil, List.mem_cons, List.not_mem_nil, or_false] at hp
  rcases hp with hp | hp | hp | hp | hp | hp | hp | hp | hp | hp | hp | hp | hp | hp | hp | hp <;> subst hp
  all_goals simp [Step.applyF, gid, gs, gs', gt, upd_ne, hids, hida, hidt, hsid, haid, hts, hta, htid]

theorem postSteps_names (h1 h2 : String) (sc : Scn) :
    ∀ st ∈ postSteps h1 h2 sc, st.names ⊆ [sc.t, sc.s, sc.a, sc.id] := by
  intro st h
  simp only [postSteps, List.mem_cons, List.not_mem_nil, or_false] at h
  rcases h with h | h | h | h | h | h | h | h | h | h | h | h | h | h | h <;> subst h <;> simp [Step.names]

/-- The complete swap part from the state the staging part leaves. -/
theorem runF_post_full (h1 h2 : String) (sc : Scn) (f : FsF) (staged : Node) (h : NamesOk sc f) :
    runF (postSteps h1 h2 sc) (upd (upd f sc.t (some .file)) sc.s (some staged)) = upd f sc.id (some staged) := by
  obtain ⟨hts, hta, hsa, htid, hsid, haid, ft, fs, fa⟩ := h
  have hids : sc.id ≠ sc.s := fun e => hsid e.symm
  have hida : sc.id ≠ sc.a := fun e => haid e.symm
  have hidt : sc.id ≠ sc.t := fun e => htid e.symm
  have hst : sc.s ≠ sc.t := fun e => hts e.symm
  have hat : sc.a ≠ sc.t := fun e => hta e.symm
  have has : sc.a ≠ sc.s := fun e => hsa e.symm
  cases hfid : f sc.id with
  | none =>
    simp [postSteps, Step.applyF, hfid, upd_ne, hids, hida, hidt, hsid, haid, hts, hta, htid, hsa, hst, hat, has]
    funext m
    by_cases m1 : m = sc.id
    · subst m1; simp [upd, hids, hida, hidt]
    · by_cases m2 : m = sc.t
      · subst m2; simp [upd, m1, hta, hts, ft]
      · by_cases m3 : m = sc.s
        · subst m3; simp [upd, m1, m2, hsa, fs]
        · by_cases m4 : m = sc.a
          · subst m4; simp [upd, m1, m2, m3, fa]
          · simp [upd, m1, m2, m3, m4]
  | some old =>
    simp [postSteps, Step.applyF, hfid, upd_ne, hids, hida, hidt, hsid, haid, hts, hta, htid, hsa, hst, hat, has]
    funext m
    by_cases m1 : m = sc.id
    · subst m1; simp [upd, hids, hida, hidt]
    · by_cases m2 : m = sc.t
      · subst m2; simp [upd, m1, hta, hts, ft]
      · by_cases m3 : m = sc.s
        · subst m3; simp [upd, m1, m2, hsa, fs]
        · by_cases m4 : m = sc.a
          · subst m4; simp [upd, m1, m2, m3, fa]
          · simp [upd, m1, m2, m3, m4]

/-! ### one shape for every scenario -/

/-- A step list is "staging then maybe swap": a part that touches only the two temporary names, followed either by
nothing or by the swap part; in the latter case the scenario is an accepted document on disk and the staging part has
built the complete image. -/
structure Shape (sc : Scn) (withLoc : Bool) (steps : List Step) : Prop where
  split : ∃ A B, steps = A ++ B ∧ (∀ st ∈ A, st.names ⊆ [sc.t, sc.s]) ∧
    ((B = [] ∧ ∀ f, NamesOk sc f → runF A f = f) ∨
     (∃ d h1 h2, sc.disk = true ∧ accepted sc = some d ∧ B = postSteps h1 h2 sc ∧
        ∀ f, runF A f = upd (upd f sc.t (some .file)) sc.s (some (.dir (stagedOf sc d withLoc)))))

theorem runF_temp_file (sc : Scn) (hs : List String) (f : FsF) (ft : f sc.t = none) :
    runF ([Step.mkFile sc.t, Step.writeFile sc.t] ++ hs.map Step.hit ++ [Step.rmFile sc.t]) f = f := by
  rw [runF_append, runF_append, runF_hits]
  simp [Step.applyF, upd_self _ _ _ ft]

theorem names_temp_file (sc : Scn) (hs : List String) :
    ∀ st ∈ [Step.mkFile sc.t, Step.writeFile sc.t] ++ hs.map Step.hit ++ [Step.rmFile sc.t], st.names ⊆ [sc.t, sc.s] := by
  intro st h
  simp only [List.mem_append, List.mem_cons, List.not_mem_nil, or_false, List.mem_map] at h
  rcases h with ((h | h) | ⟨x, _, h⟩) | h <;> subst h <;> simp [Step.names]

theorem shape_of_abort (sc : Scn) (withLoc : Bool) (ws : List (DbKey × Nat)) (hs : List String) :
    Shape sc withLoc (preSteps "" sc ws withLoc ++ hs.map Step.hit ++ abortSteps sc) := by
  refine ⟨_, [], (List.append_nil _).symm, ?_, Or.inl ⟨rfl, ?_⟩⟩
  · intro st h
    simp only [List.mem_append, List.mem_map] at h
    rcases h with (h | ⟨x, _, h⟩) | h
    · exact preSteps_names _ _ _ _ _ h
    · subst h; simp [Step.names]
    · exact abortSteps_names _ _ h
  · intro f h
    rw [runF_append, runF_append, runF_preSteps, runF_hits, runF_abort sc f _ h.ts h.ft h.fs]

theorem load_shape (sc : Scn) : Shape sc sc.hasLoc (loadSteps pathFacts sc) := by
  cases hd : sc.disk with
  | false =>
    rw [loadSteps_memory sc hd]
    exact ⟨_, [], (List.append_nil _).symm, names_temp_file sc _, Or.inl ⟨rfl, fun f h => runF_temp_file sc _ f h.ft⟩⟩
  | true =>
    cases ho : sc.origin with
    | down =>
      rw [loadSteps_down sc ho]
      exact ⟨_, [], (List.append_nil _).symm, names_temp_file sc [], Or.inl ⟨rfl, fun f h => runF_temp_file sc [] f h.ft⟩⟩
    | broken d j =>
      rw [loadSteps_broken sc d j hd ho]
      simpa using shape_of_abort sc sc.hasLoc ((headWrites d).take j) []
    | doc d =>
      cases ha : accepted sc with
      | none =>
        rw [loadSteps_rejected sc d hd ho ha]
        simpa using shape_of_abort sc sc.hasLoc (readWrites d) ["repo.load.sig-checked"]
      | some d' =>
        have hdd : d' = d := by
          rw [accepted_doc sc d ho] at ha
          split at ha <;> simp_all
        subst hdd
        rw [loadSteps_accepted sc d' hd ho ha]
        refine ⟨_, _, rfl, ?_, Or.inr ⟨d', _, _, hd, ha, rfl, fun f => runF_pre_sig _ _ sc d' sc.hasLoc f⟩⟩
        intro st h
        rcases List.mem_append.mp h with h | h
        · exact preSteps_names _ _ _ _ _ h
        · exact sigPart_names _ _ _ _ h

theorem refresh_shape (sc : Scn) : Shape sc true (refreshSteps pathFacts sc) := by
  cases hd : sc.disk with
  | false =>
    rw [refreshSteps_memory sc hd]
    exact ⟨_, [], (List.append_nil _).symm, names_temp_file sc _, Or.inl ⟨rfl, fun f h => runF_temp_file sc _ f h.ft⟩⟩
  | true =>
    cases ho : sc.origin with
    | down =>
      rw [refreshSteps_down sc ho]
      exact ⟨_, [], (List.append_nil _).symm, names_temp_file sc [], Or.inl ⟨rfl, fun f h => runF_temp_file sc [] f h.ft⟩⟩
    | broken d j =>
      rw [refreshSteps_broken sc d j hd ho]
      simpa using shape_of_abort sc true ((headWrites d).take j) []
    | doc d =>
      cases ha : accepted sc with
      | none =>
        rw [refreshSteps_rejected sc d hd ho ha]
        simpa using shape_of_abort sc true (readWrites d) ["repo.refresh.sig-checked"]
      | some d' =>
        have hdd : d' = d := by
          rw [accepted_doc sc d ho] at ha
          split at ha <;> simp_all
        subst hdd
        rw [refreshSteps_accepted sc d' hd ho ha]
        refine ⟨_, _, rfl, ?_, Or.inr ⟨d', _, _, hd, ha, rfl, fun f => runF_pre_sig _ _ sc d' true f⟩⟩
        intro st h
        rcases List.mem_append.mp h with h | h
        · exact preSteps_names _ _ _ _ _ h
        · exact sigPart_names _ _ _ _ h

/-! ### consequences of the shape -/

/-- Complete run: nothing changes, or the live store is replaced by the complete staged image of the accepted document. -/
theorem Shape.full {sc : Scn} {withLoc : Bool} {steps : List Step} (S : Shape sc withLoc steps) (f : FsF) (h : NamesOk sc f) :
    runF steps f = f ∨
    (∃ d, sc.disk = true ∧ accepted sc = some d ∧ runF steps f = upd f sc.id (some (.dir (stagedOf sc d withLoc)))) := by
  obtain ⟨A, B, rfl, _, hB | ⟨d, h1, h2, hd, ha, rfl, hA⟩⟩ := S.split
  · left; rw [hB.1, List.append_nil]; exact hB.2 f h
  · right; exact ⟨d, hd, ha, by rw [runF_append, hA, runF_post_full _ _ _ _ _ h]⟩

/-- Every prefix (= every crash point): names other than the four of the operation are untouched. -/
theorem Shape.prefix_others {sc : Scn} {withLoc : Bool} {steps : List Step} (S : Shape sc withLoc steps) (f : FsF) (k : Nat)
    (n : Name) (hn : n ∉ [sc.t, sc.s, sc.a, sc.id]) : runF (steps.take k) f n = f n := by
  obtain ⟨A, B, rfl, hA, hB⟩ := S.split
  apply runF_frame
  intro st hst hmem
  have hst' := List.mem_of_mem_take hst
  rcases List.mem_append.mp hst' with h | h
  · have := hA st h hmem
    simp only [List.mem_cons, List.not_mem_nil, or_false] at this hn
    rcases this with e | e <;> simp [e] at hn
  · rcases hB with ⟨e, _⟩ | ⟨d, h1, h2, _, _, e, _⟩
    · subst e; cases h
    · subst e; exact hn (postSteps_names _ _ _ st h hmem)

/-- Every prefix: the live store name holds the old node, nothing, or the complete staged image of the accepted document. -/
theorem Shape.prefix_live {sc : Scn} {withLoc : Bool} {steps : List Step} (S : Shape sc withLoc steps) (f : FsF)
    (h : NamesOk sc f) (old : Node) (hid : f sc.id = some old) (k : Nat) :
    runF (steps.take k) f sc.id = some old ∨ runF (steps.take k) f sc.id = none ∨
    (∃ d, sc.disk = true ∧ accepted sc = some d ∧ runF (steps.take k) f sc.id = some (.dir (stagedOf sc d withLoc))) := by
  obtain ⟨A, B, rfl, hA, hB⟩ := S.split
  have hidA : ∀ l, (∀ st ∈ l, st ∈ A) → runF l f sc.id = some old := by
    intro l hl
    rw [runF_frame l f sc.id, hid]
    intro st hst hmem
    have := hA st (hl st hst) hmem
    simp only [List.mem_cons, List.not_mem_nil, or_false] at this
    rcases this with e | e
    · exact h.tid e.symm
    · exact h.sid e.symm
  rcases take_append_cases A B k with e | ⟨j, e⟩
  · left; rw [e]; exact hidA _ (fun st hst => List.mem_of_mem_take hst)
  · rw [e]
    rcases hB with ⟨eB, _⟩ | ⟨d, h1, h2, hd, ha, eB, hAf⟩
    · subst eB; left; simp only [List.take_nil, List.append_nil]; exact hidA _ (fun st hst => hst)
    · subst eB
      rw [runF_append, hAf]
      have hids : sc.id ≠ sc.s := fun e => h.sid e.symm
      have hidt : sc.id ≠ sc.t := fun e => h.tid e.symm
      have g1 : upd (upd f sc.t (some .file)) sc.s (some (.dir (stagedOf sc d withLoc))) sc.id = some old := by
        rw [upd_ne _ _ _ _ hids, upd_ne _ _ _ _ hidt]; exact hid
      have g2 : upd (upd f sc.t (some .file)) sc.s (some (.dir (stagedOf sc d withLoc))) sc.s = some (.dir (stagedOf sc d withLoc)) := by simp
      have g3 : upd (upd f sc.t (some .file)) sc.s (some (.dir (stagedOf sc d withLoc))) sc.t = some .file := by
        rw [upd_ne _ _ _ _ h.ts]; simp
      rcases runF_post_prefix h1 h2 sc _ old _ h.sid h.aid h.sa h.tid h.ts h.ta g1 g2 g3 _ (take_mem_inits _ j) with r | r | r
      · exact Or.inl r
      · exact Or.inr (Or.inl r)
      · exact Or.inr (Or.inr ⟨d, hd, ha, r⟩)

/-- A scenario that does not end in acceptance never touches anything but its two temporary names, at any prefix. -/
theorem Shape.prefix_rejected {sc : Scn} {withLoc : Bool} {steps : List Step} (S : Shape sc withLoc steps)
    (ha : accepted sc = none) (f : FsF) (k : Nat) (n : Name) (hn : n ∉ [sc.t, sc.s]) : runF (steps.take k) f n = f n := by
  obtain ⟨A, B, rfl, hA, hB⟩ := S.split
  rcases hB with ⟨e, _⟩ | ⟨d, _, _, _, ha', _, _⟩
  · subst e
    apply runF_frame
    intro st hst hmem
    have hst' : st ∈ A := by simpa using List.mem_of_mem_take hst
    exact hn (hA st hst' hmem)
  · rw [ha] at ha'; cases ha'

end Crv.Paths
