import Crv.Paths
/-! Lemmas about names (Part A of `Crv.Paths`): hex, Clean/Join, the temp pattern, block concatenation. -/
namespace Crv.Paths

/-! ### hex -/

theorem hexDigit_isHex (n : Nat) (h : n < 16) : isHexDigit (hexDigit n) = true := by
  have := (by decide : ∀ n : Fin 16, isHexDigit (hexDigit n.val) = true)
  exact this ⟨n, h⟩

theorem hexDigit_inj (a b : Nat) (ha : a < 16) (hb : b < 16) (h : hexDigit a = hexDigit b) : a = b := by
  have := (by decide : ∀ a b : Fin 16, hexDigit a.val = hexDigit b.val → a = b)
  have h2 := this ⟨a, ha⟩ ⟨b, hb⟩ h
  exact Fin.mk.inj_iff.mp h2

theorem hex_length (bs : List UInt8) : (hex bs).length = 2 * bs.length := by
  induction bs with
  | nil => rfl
  | cons b bs ih => simp only [hex, List.length_cons, ih]; omega

theorem hex_all (bs : List UInt8) : ∀ c ∈ hex bs, isHexDigit c = true := by
  induction bs with
  | nil => intro c hc; cases hc
  | cons b bs ih =>
    intro c hc
    simp only [hex, List.mem_cons] at hc
    have hb := UInt8.toNat_lt b
    rcases hc with h | h | h
    · subst h; exact hexDigit_isHex _ (by omega)
    · subst h; exact hexDigit_isHex _ (by omega)
    · exact ih c h

theorem hex_inj (a b : List UInt8) (h : hex a = hex b) : a = b := by
  induction a generalizing b with
  | nil =>
    cases b with
    | nil => rfl
    | cons y ys => simp [hex] at h
  | cons x xs ih =>
    cases b with
    | nil => simp [hex] at h
    | cons y ys =>
      simp only [hex, List.cons.injEq] at h
      obtain ⟨h1, h2, h3⟩ := h
      have hx := UInt8.toNat_lt x
      have hy := UInt8.toNat_lt y
      have e1 := hexDigit_inj _ _ (by omega) (by omega) h1
      have e2 := hexDigit_inj _ _ (by omega) (by omega) h2
      have : x.toNat = y.toNat := by omega
      rw [UInt8.toNat_inj.mp this, ih ys h3]

/-- The hex alphabet contains no '/', no '.', no newline. -/
theorem isHexDigit_ne {c : UInt8} (h : isHexDigit c = true) : c ≠ 47 ∧ c ≠ 46 ∧ c ≠ 10 ∧ c ≠ 114 ∧ c ≠ 95 := by
  refine ⟨?_, ?_, ?_, ?_, ?_⟩ <;> (intro e; subst e; revert h; decide)

theorem hex_normal (bs : List UInt8) (h : bs ≠ []) : normalComponent (hex bs) := by
  have hall := hex_all bs
  cases bs with
  | nil => exact absurd rfl h
  | cons b bs =>
    refine ⟨by simp [hex], ?_, ?_, ?_⟩
    · simp [hex]
    · intro e
      have : (46 : UInt8) ∈ hex (b :: bs) := by rw [e]; simp
      exact (isHexDigit_ne (hall _ this)).2.1 rfl
    · intro hm
      exact (isHexDigit_ne (hall _ hm)).1 rfl

/-! ### Clean / Join -/

theorem splitOn_ne_nil (sep : UInt8) (n : Name) : splitOn sep n ≠ [] := by
  induction n with
  | nil => simp [splitOn]
  | cons c cs ih =>
    simp only [splitOn]
    split
    · simp
    · split <;> simp

theorem splitOn_append_sep (sep : UInt8) (a b : Name) :
    splitOn sep (a ++ sep :: b) = splitOn sep a ++ splitOn sep b := by
  induction a with
  | nil => simp [splitOn]
  | cons c cs ih =>
    simp only [List.cons_append, splitOn]
    split
    · simp [ih]
    · rw [ih]
      have hne := splitOn_ne_nil sep cs
      cases hs : splitOn sep cs with
      | nil => exact absurd hs hne
      | cons h t => simp

theorem splitOn_noSep (sep : UInt8) (n : Name) (h : sep ∉ n) : splitOn sep n = [n] := by
  induction n with
  | nil => rfl
  | cons c cs ih =>
    simp only [List.mem_cons, not_or] at h
    simp only [splitOn]
    rw [if_neg (fun e => h.1 e.symm), ih h.2]

theorem pushComp_normal (rooted : Bool) (acc : List Name) (c : Name) (h : normalComponent c) :
    pushComp rooted acc c = acc ++ [c] := by
  obtain ⟨h1, h2, h3, _⟩ := h
  simp [pushComp, h1, h2, h3]

theorem isRooted_append (a b : Name) (h : a ≠ []) : isRooted (a ++ b) = isRooted a := by
  cases a with
  | nil => exact absurd rfl h
  | cons x xs => simp [isRooted]

/-- `filepath.Join(workDir, name)` is the cleaned `workDir` with exactly one more element, `name`. -/
theorem join_child (wd name : Name) (hwd : wd ≠ []) (hn : normalComponent name) :
    join wd name = { rooted := (clean wd).rooted, comps := (clean wd).comps ++ [name] } := by
  have hne : name ≠ [] := hn.1
  simp only [join, if_neg hwd, if_neg hne, clean]
  rw [isRooted_append _ _ hwd, splitOn_append_sep, splitOn_noSep 47 name hn.2.2.2, List.foldl_append]
  simp only [List.foldl_cons, List.foldl_nil, pushComp_normal _ _ _ hn]

/-! ### The temp pattern -/

theorem stripPrefix_append (p r : Name) : stripPrefix p (p ++ r) = some r := by
  induction p with
  | nil => rfl
  | cons x xs ih => simp [stripPrefix, ih]

theorem stripPrefix_some (p n r : Name) (h : stripPrefix p n = some r) : n = p ++ r := by
  induction p generalizing n with
  | nil => simp [stripPrefix] at h; simp [h]
  | cons x xs ih =>
    cases n with
    | nil => simp [stripPrefix] at h
    | cons c cs =>
      simp only [stripPrefix] at h
      split at h
      · next e => subst e; simp [ih cs h]
      · cases h

theorem matchesPattern_iff (P S n : Name) :
    matchesPattern P S n = true ↔ ∃ u, n = P ++ u ++ S ∧ (10 : UInt8) ∉ u := by
  constructor
  · intro h
    unfold matchesPattern at h
    split at h
    · cases h
    · next r hr =>
      split at h
      · cases h
      · next m hm =>
        have e1 := stripPrefix_some _ _ _ hr
        have e2 := stripPrefix_some _ _ _ hm
        refine ⟨m.reverse, ?_, ?_⟩
        · have : r = m.reverse ++ S := by
            have := congrArg List.reverse e2
            simpa using this
          rw [e1, this, List.append_assoc]
        · intro hmem
          have := List.all_eq_true.mp h 10 (List.mem_reverse.mp hmem)
          simp at this
  · rintro ⟨u, rfl, hu⟩
    unfold matchesPattern
    rw [List.append_assoc, stripPrefix_append]
    simp only [List.reverse_append, stripPrefix_append]
    apply List.all_eq_true.mpr
    intro x hx
    have : x ≠ 10 := fun e => hu (e ▸ List.mem_reverse.mp hx)
    simpa using this

/-- A name made of hex digits only never matches, as soon as the literal prefix holds a byte that is no hex digit. -/
theorem matchesPattern_hex_false (P S n : Name) (hP : ∃ c ∈ P, isHexDigit c = false)
    (hn : ∀ c ∈ n, isHexDigit c = true) : matchesPattern P S n = false := by
  cases hm : matchesPattern P S n with
  | false => rfl
  | true =>
    obtain ⟨u, rfl, _⟩ := (matchesPattern_iff P S _).mp hm
    obtain ⟨c, hc, hf⟩ := hP
    have := hn c (by simp [hc])
    rw [hf] at this
    cases this

/-! ### Block concatenation -/

/-- Equal concatenations of blocks of one fixed positive width come from equal block lists. -/
theorem flatten_blocks_inj {α} (w : Nat) (hw : 0 < w) (xs ys : List (List α))
    (hx : ∀ x ∈ xs, x.length = w) (hy : ∀ y ∈ ys, y.length = w) (h : xs.flatten = ys.flatten) : xs = ys := by
  induction xs generalizing ys with
  | nil =>
    cases ys with
    | nil => rfl
    | cons y ys =>
      have hl := hy y (by simp)
      have := congrArg List.length h
      simp at this
      omega
  | cons x xs ih =>
    cases ys with
    | nil =>
      have hl := hx x (by simp)
      have h' : x ++ xs.flatten = [] := by simpa using h
      have : x = [] := (List.append_eq_nil_iff.mp h').1
      subst this
      simp at hl
      omega
    | cons y ys =>
      simp only [List.flatten_cons] at h
      have hlx := hx x (by simp)
      have hly := hy y (by simp)
      obtain ⟨e1, e2⟩ := List.append_inj h (by omega)
      rw [e1, ih ys (fun a ha => hx a (by simp [ha])) (fun a ha => hy a (by simp [ha])) e2]

theorem mapOpt_some_map {α β} (f : α → Option β) (l : List α) (r : List β) (h : mapOpt f l = some r) :
    l.map f = r.map some := by
  induction l generalizing r with
  | nil => simp [mapOpt] at h; subst h; rfl
  | cons a as ih =>
    simp only [mapOpt] at h
    split at h
    · next b bs hb hbs => cases h; simp [hb, ih bs hbs]
    · cases h

theorem mapOpt_mem {α β} (f : α → Option β) (l : List α) (r : List β) (h : mapOpt f l = some r) :
    ∀ b ∈ r, ∃ a ∈ l, f a = some b := by
  induction l generalizing r with
  | nil => simp [mapOpt] at h; subst h; intro b hb; cases hb
  | cons a as ih =>
    simp only [mapOpt] at h
    split at h
    · next b bs hb hbs =>
      cases h
      intro c hc
      rcases List.mem_cons.mp hc with e | e
      · exact ⟨a, by simp, e ▸ hb⟩
      · obtain ⟨a', ha', hf⟩ := ih bs hbs c e
        exact ⟨a', by simp [ha'], hf⟩
    · cases h

end Crv.Paths
