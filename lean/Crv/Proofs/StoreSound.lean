import Crv.Proofs.StoreLdb
/-! Soundness lemmas that need no collision hypothesis, IsEmpty, and the meaning of the abstract fill. -/
namespace Crv.Store
open Crv

/-- A hashed key that was written is bound afterwards (possibly to the value of a colliding later write). -/
theorem aget_afill_isSome : ∀ (ws : List (AKey × Val)) (m : Assoc) (hk : HKey),
    ((aget m hk).isSome ∨ ∃ w ∈ ws, hkey w.1.str = hk) → (aget (afill m ws) hk).isSome
  | [], m, hk, h => by
    rcases h with h | ⟨w, hw, _⟩
    · exact h
    · simp at hw
  | w :: ws, m, hk, h => by
    simp only [afill, List.foldl_cons]
    apply aget_afill_isSome ws
    by_cases he : hkey w.1.str = hk
    · left; simp [aget, he]
    · rcases h with h | ⟨w', hw', hw'k⟩
      · left; simpa [aget, he] using h
      · rcases List.mem_cons.mp hw' with rfl | hw'
        · exact absurd hw'k he
        · right; exact ⟨w', hw', hw'k⟩

theorem MapStore.lookup_ne_absent_of_bound (dec : Kind → Val → Bool) (m : Assoc) (i : List UInt8) (n : Int)
    (h : (aget m (hkey (key i n))).isSome) : MapStore.lookup dec { map := some m } i n ≠ .absent := by
  simp only [MapStore.lookup, MapStore.rawGet]
  cases hg : aget m (hkey (key i n)) with
  | none => simp [hg] at h
  | some v =>
    simp only [retOf, Generated.Store.mapOnOk, Generated.Store.mapOnDecodeErr]
    split <;> simp

theorem Ldb.lookup_ne_absent_of_bound (dec : Kind → Val → Bool) (d : Disk) (o : Ldb) (ho : o.isOpen = true)
    (hf : o.fault = none) {m : Assoc} (hm : d.dirs o.path = some m) (i : List UInt8) (n : Int)
    (h : (aget m (hkey (key i n))).isSome) : o.lookup dec d i n ≠ .absent := by
  cases hg : aget m (hkey (key i n)) with
  | none => simp [hg] at h
  | some v =>
    simp only [Ldb.lookup, Ldb.dbGet_some d o ho hf hm hg, retOf, Generated.Store.ldbOnOk, Generated.Store.ldbOnDecodeErr]
    split <;> simp

/-- Value of the last write to `k` in `ws`, starting from `init`. -/
def lastWrite (k : AKey) (init : Option Val) (ws : List (AKey × Val)) : Option Val :=
  ws.foldl (fun acc w => if w.1 = k then some w.2 else acc) init

theorem Abs.fill_get : ∀ (ws : List (AKey × Val)) (a : Abs) (k : AKey),
    (a.fill ws).get k = lastWrite k (a.get k) ws
  | [], _, _ => rfl
  | w :: ws, a, k => by
    simp only [Abs.fill, List.foldl_cons, lastWrite]
    have := Abs.fill_get ws (a.set w.1 w.2) k
    simp only [Abs.fill, lastWrite, Abs.get_set] at this
    exact this

theorem MapStore.isEmpty_new : MapStore.new.isEmpty = true := rfl

theorem afill_isEmpty (m : Assoc) (ws : List (AKey × Val)) : (afill m ws).isEmpty = (m.isEmpty && ws.isEmpty) := by
  induction ws generalizing m with
  | nil => simp [afill]
  | cons w ws ih => simp [afill, List.foldl_cons] at ih ⊢

end Crv.Store
