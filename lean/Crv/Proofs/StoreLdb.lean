import Crv.Proofs.StoreRefine
/-! Refinement of the disk backend (C18): invariant over the file-system model, preserved by every operation. -/
namespace Crv.Store
open Crv

@[simp] theorem Disk.setDir_dirs_same (d : Disk) (p : Path) (c : Option Assoc) : (d.setDir p c).dirs p = c := by
  simp [Disk.setDir]

theorem Disk.setDir_dirs_ne (d : Disk) {p q : Path} (c : Option Assoc) (h : q ≠ p) : (d.setDir p c).dirs q = d.dirs q := by
  simp [Disk.setDir, h]

@[simp] theorem Disk.setDir_locked (d : Disk) (p : Path) (c : Option Assoc) : (d.setDir p c).locked = d.locked := rfl
@[simp] theorem Disk.setDir_next (d : Disk) (p : Path) (c : Option Assoc) : (d.setDir p c).next = d.next := rfl
@[simp] theorem Disk.setLock_dirs (d : Disk) (p : Path) (b : Bool) : (d.setLock p b).dirs = d.dirs := rfl
@[simp] theorem Disk.setLock_next (d : Disk) (p : Path) (b : Bool) : (d.setLock p b).next = d.next := rfl
@[simp] theorem Disk.setLock_locked_same (d : Disk) (p : Path) (b : Bool) : (d.setLock p b).locked p = b := by
  simp [Disk.setLock]
theorem Disk.setLock_locked_ne (d : Disk) {p q : Path} (b : Bool) (h : q ≠ p) : (d.setLock p b).locked q = d.locked q := by
  simp [Disk.setLock, h]

theorem Disk.setDir_setDir (d : Disk) (p : Path) (c c' : Option Assoc) : (d.setDir p c).setDir p c' = d.setDir p c' := by
  simp only [Disk.setDir]
  congr
  funext q
  split <;> rfl

/-- Writes through an open, fault-free handle whose directory exists. -/
theorem Ldb.put_ok (d : Disk) (o : Ldb) (ho : o.isOpen = true) (hf : o.fault = none) {m : Assoc}
    (hm : d.dirs o.path = some m) (k : List UInt8) (v : Val) :
    o.put d k v = (d.setDir o.path (some ((hkey k, v) :: m)), .ok) := by
  simp [Ldb.put, Ldb.dbPut, ho, hf, hm]

theorem Ldb.fill_eq (o : Ldb) (ho : o.isOpen = true) (hf : o.fault = none) :
    ∀ (ws : List (AKey × Val)) (d : Disk) (m : Assoc), d.dirs o.path = some m →
      o.fill d ws = d.setDir o.path (some (afill m ws))
  | [], d, m, hm => by
    simp only [Ldb.fill, afill, List.foldl_nil, Disk.setDir]
    cases d
    congr
    funext q
    split
    · next h => subst h; exact hm
    · rfl
  | w :: ws, d, m, hm => by
    simp only [Ldb.fill, Ldb.put_ok d o ho hf hm]
    rw [Ldb.fill_eq o ho hf ws _ _ (Disk.setDir_dirs_same _ _ _), Disk.setDir_setDir]
    rfl

theorem Ldb.dbGet_none (d : Disk) (o : Ldb) (ho : o.isOpen = true) (hf : o.fault = none) {m : Assoc}
    (hm : d.dirs o.path = some m) {hk : HKey} (hg : aget m hk = none) : o.dbGet d hk = .notFound := by
  simp [Ldb.dbGet, ho, hf, hm, hg]

theorem Ldb.dbGet_some (d : Disk) (o : Ldb) (ho : o.isOpen = true) (hf : o.fault = none) {m : Assoc}
    (hm : d.dirs o.path = some m) {hk : HKey} {v : Val} (hg : aget m hk = some v) : o.dbGet d hk = .found v := by
  simp [Ldb.dbGet, ho, hf, hm, hg]

/-- Invariant of the disk refinement: the handle is the open, fault-free store of `BasePath/ident`, whose
directory content represents `a`; temporary names from the counter on are unused. -/
structure LInv (K : List (List UInt8)) (d : Disk) (h : Ldb) (a : Abs) : Prop where
  path : h.path = .final h.ident
  isOpen : h.isOpen = true
  fault : h.fault = none
  locked : d.locked h.path = true
  content : ∃ m, d.dirs h.path = some m ∧ Rel K m a
  fresh : ∀ n, d.next ≤ n → d.dirs (.temp n) = none

theorem linv_fresh (K : List (List UInt8)) (ident : Nat) : LInv K (Ldb.fresh ident).1 (Ldb.fresh ident).2 Abs.empty where
  path := rfl
  isOpen := rfl
  fault := rfl
  locked := by simp [Ldb.fresh]
  content := ⟨[], by simp [Ldb.fresh], rel_empty K⟩
  fresh := by intro n _; simp [Ldb.fresh, Disk.setDir, Disk.empty]

theorem Ldb.read_eq (dec : Kind → Val → Bool) {K : List (List UInt8)} {d : Disk} {h : Ldb} {a : Abs} (inv : LInv K d h a)
    (k : AKey) (hk : k.str ∈ K) : h.read dec d k = a.read dec k := by
  obtain ⟨m, hm, hr⟩ := inv.content
  have hg := hr k hk
  cases k with
  | ent i s =>
    simp only [AKey.str, Abs.get] at hg
    simp only [Ldb.read, Abs.read, Ldb.lookup, Abs.lookup]
    cases he : a.ent i s with
    | none =>
      rw [he] at hg
      rw [Ldb.dbGet_none d h inv.isOpen inv.fault hm hg]
      rfl
    | some v =>
      rw [he] at hg
      rw [Ldb.dbGet_some d h inv.isOpen inv.fault hm hg]
      simp only [retOf, Generated.Store.ldbOnOk, Generated.Store.ldbOnDecodeErr]
  | minfo | ext | sig | loc =>
    simp only [Ldb.read, Abs.read, Ldb.slot, Abs.slot]
    cases he : Abs.get a _ with
    | none =>
      rw [he] at hg
      rw [Ldb.dbGet_none d h inv.isOpen inv.fault hm hg]
    | some v =>
      rw [he] at hg
      rw [Ldb.dbGet_some d h inv.isOpen inv.fault hm hg]

theorem ldb_step_w {K : List (List UInt8)} (hc : CollisionFree K) (dec : Kind → Val → Bool) {d : Disk} {h : Ldb} {a : Abs}
    (inv : LInv K d h a) (k : AKey) (hk : k.str ∈ K) (v : Val) :
    ∃ d', h.step dec d (.w k v) = (d', h, .w .ok) ∧ LInv K d' h (a.set k v) := by
  obtain ⟨m, hm, hr⟩ := inv.content
  refine ⟨d.setDir h.path (some ((hkey k.str, v) :: m)), by simp only [Ldb.step, Ldb.put_ok d h inv.isOpen inv.fault hm], ?_⟩
  exact { path := inv.path, isOpen := inv.isOpen, fault := inv.fault
          locked := by simpa using inv.locked
          content := ⟨_, Disk.setDir_dirs_same _ _ _, rel_put hc hr k hk v⟩
          fresh := by
            intro n hn
            rw [Disk.setDir_dirs_ne _ _ (by rw [inv.path]; simp)]
            exact inv.fresh n (by simpa using hn) }

theorem ldb_step_reopen {K : List (List UInt8)} (dec : Kind → Val → Bool) {d : Disk} {h : Ldb} {a : Abs}
    (inv : LInv K d h a) :
    ∃ d', h.step dec d .reopen = (d', h, .w .ok) ∧ LInv K d' h a := by
  obtain ⟨m, hm, hr⟩ := inv.content
  obtain ⟨path, ident, isOpen, fault⟩ := h
  have hp := inv.path; have ho := inv.isOpen; have hf := inv.fault
  simp only at hp ho hf
  subst hp ho hf
  simp only at hm
  refine ⟨((d.setLock (.final ident) false).setDir (.final ident) (some m)).setLock (.final ident) true,
    by simp [Ldb.step, Ldb.close, Ldb.create, hm], ?_⟩
  exact { path := rfl, isOpen := rfl, fault := rfl
          locked := by simp
          content := ⟨m, by simp, hr⟩
          fresh := by
            intro n hn
            simp only [Disk.setLock_dirs, Disk.setLock_next, Disk.setDir_next] at hn ⊢
            rw [Disk.setDir_dirs_ne _ _ (by simp)]
            exact inv.fresh n hn }

/-- The file system after a successful `Update` of the store at `p` with the store at `t`. -/
def updDisk (d : Disk) (p t : Path) (old content : Assoc) : Disk :=
  let d2 := (d.setLock p false).setLock t false
  let tmp := Path.temp d2.next
  let d3 : Disk := { (d2.setDir p none).setDir tmp (some old) with next := d2.next + 1 }
  let d4 := (d3.setDir t none).setDir p (some content)
  (d4.setDir tmp none).setLock p true

theorem Ldb.update_ok (d : Disk) (ident n : Nat) (f : Option Fault) (nid : Nat) (nf : Option Fault) {old content : Assoc}
    (hold : d.dirs (.final ident) = some old) (hnew : d.dirs (.temp n) = some content) (hn : n < d.next) :
    Ldb.update d { path := .final ident, ident := ident, isOpen := true, fault := f }
        { path := .temp n, ident := nid, isOpen := true, fault := nf } =
      (updDisk d (.final ident) (.temp n) old content,
       { path := .final ident, ident := ident, isOpen := true, fault := f },
       { path := .temp n, ident := nid, isOpen := false, fault := nf }, .ok) := by
  have hne : n ≠ d.next := Nat.ne_of_lt hn
  simp [Ldb.update, Ldb.close, updDisk, Disk.setDir, Disk.setLock, hold, hnew, hne]

/-- `replace ws` on the disk backend: succeeds, and afterwards the store's directory holds exactly the writes `ws`
(no hypothesis about collisions is needed for this). -/
theorem ldb_step_replace_content {K : List (List UInt8)} (dec : Kind → Val → Bool) {d : Disk} {h : Ldb} {a : Abs}
    (inv : LInv K d h a) (ws : List (AKey × Val)) :
    ∃ d', h.step dec d (.replace ws) = (d', h, .w .ok) ∧ d'.dirs h.path = some (afill [] ws) ∧
      ∀ (K' : List (List UInt8)) (a' : Abs), Rel K' (afill [] ws) a' → LInv K' d' h a' := by
  obtain ⟨m, hm, _⟩ := inv.content
  obtain ⟨path, ident, isOpen, fault⟩ := h
  have hp := inv.path; have ho := inv.isOpen; have hf := inv.fault
  simp only at hp ho hf
  subst hp ho hf
  simp only at hm
  have hfr := inv.fresh d.next (Nat.le_refl _)
  -- the file system after CreateStore(identifier, temporary = true)
  let d1 : Disk := (({ d with next := d.next + 1 } : Disk).setDir (.temp d.next) (some [])).setLock (.temp d.next) true
  let other : Ldb := { path := .temp d.next, ident := ident, isOpen := true, fault := none }
  have hcreate : Ldb.create d ident true = (d1, some other) := by
    simp [Ldb.create, hfr, d1, other]
  have hd1t : d1.dirs other.path = some [] := by simp [d1, other]
  have hfill := Ldb.fill_eq other rfl rfl ws d1 [] hd1t
  let d2 : Disk := d1.setDir (.temp d.next) (some (afill [] ws))
  have hd2p : d2.dirs (.final ident) = some m := by
    simp only [d2, d1]
    rw [Disk.setDir_dirs_ne _ _ (by simp), Disk.setLock_dirs, Disk.setDir_dirs_ne _ _ (by simp)]
    exact hm
  have hupd := Ldb.update_ok d2 ident d.next none ident none hd2p (Disk.setDir_dirs_same d1 _ (some (afill [] ws))) (by simp [d2, d1])
  have hcontent : (updDisk d2 (.final ident) (.temp d.next) m (afill [] ws)).dirs (.final ident) = some (afill [] ws) := by
    simp [updDisk, Disk.setDir, Disk.setLock]
  refine ⟨updDisk d2 (.final ident) (.temp d.next) m (afill [] ws), ?_, hcontent, ?_⟩
  · simp only [Ldb.step, hcreate, hfill]
    rw [show other.path = Path.temp d.next from rfl, hupd]
  · intro K' a' hrel
    exact { path := rfl, isOpen := rfl, fault := rfl
            locked := by simp [updDisk]
            content := ⟨afill [] ws, hcontent, hrel⟩
            fresh := by
              intro n hn
              have hn' : d.next + 2 ≤ n := by simpa [updDisk, d2, d1, Nat.add_assoc] using hn
              have h1 : n ≠ d.next := by omega
              have h2 : n ≠ d.next + 1 := by omega
              have := inv.fresh n (by omega)
              simp [updDisk, d2, d1, Disk.setDir, Disk.setLock, h1, h2, this] }

theorem ldb_step_replace {K : List (List UInt8)} (hc : CollisionFree K) (dec : Kind → Val → Bool) {d : Disk} {h : Ldb} {a : Abs}
    (inv : LInv K d h a) (ws : List (AKey × Val)) (hw : ∀ w ∈ ws, w.1.str ∈ K) :
    ∃ d', h.step dec d (.replace ws) = (d', h, .w .ok) ∧ LInv K d' h (Abs.empty.fill ws) := by
  obtain ⟨d', hs, _, hinv⟩ := ldb_step_replace_content dec inv ws
  exact ⟨d', hs, hinv K _ (rel_fill hc ws (rel_empty K) hw)⟩

theorem ldb_refines_aux (dec : Kind → Val → Bool) {K : List (List UInt8)} (hc : CollisionFree K) :
    ∀ (ops : List Op) (d : Disk) (h : Ldb) (a : Abs), LInv K d h a → (∀ k ∈ ops.flatMap opKeys, k ∈ K) →
      (runLdb dec d h ops).2 = (runAbs dec a ops).2
  | [], _, _, _, _, _ => rfl
  | op :: ops, d, h, a, inv, hk => by
    have hk0 : ∀ k ∈ opKeys op, k ∈ K := fun k h => hk k (by simp [List.flatMap_cons, h])
    have hk1 : ∀ k ∈ ops.flatMap opKeys, k ∈ K := fun k h => hk k (by simp only [List.flatMap_cons, List.mem_append]; exact Or.inr h)
    cases op with
    | w k v =>
      obtain ⟨d', hs, inv'⟩ := ldb_step_w hc dec inv k (hk0 _ (by simp [opKeys])) v
      have := ldb_refines_aux dec hc ops _ _ _ inv' hk1
      simp only [runLdb, runAbs, hs, Abs.step]
      rw [this]
    | rd k =>
      have := ldb_refines_aux dec hc ops _ _ _ inv hk1
      simp only [runLdb, runAbs, Ldb.step, Abs.step]
      rw [this, Ldb.read_eq dec inv k (hk0 _ (by simp [opKeys]))]
    | replace ws =>
      have hw : ∀ w ∈ ws, w.1.str ∈ K := fun w hw => hk0 _ (by simp only [opKeys, List.mem_map]; exact ⟨w, hw, rfl⟩)
      obtain ⟨d', hs, inv'⟩ := ldb_step_replace hc dec inv ws hw
      have := ldb_refines_aux dec hc ops _ _ _ inv' hk1
      simp only [runLdb, runAbs, hs, Abs.step]
      rw [this]
    | reopen =>
      obtain ⟨d', hs, inv'⟩ := ldb_step_reopen dec inv
      have := ldb_refines_aux dec hc ops _ _ _ inv' hk1
      simp only [runLdb, runAbs, hs, Abs.step]
      rw [this]

end Crv.Store
