import Crv.Generated.Skeleton
/-!
The sources the hand-written models were transcribed from, by fingerprint (see tools/extract/skeleton.go).
`Generated.skeleton*` is recomputed from /repo on every run; these theorems fail when one of the functions changed,
whatever the change: the models of this directory then have to be re-read against the new source
(`tools/skeleton_expect.py` rewrites this file; skeleton.expected.txt holds the normalised text for diffing).
-/
namespace Crv.Skeleton
open Crv.Generated

def expectedPem : List (String × String) := [
  ("pemreader/const:pemMaxLineLength", "a59a99ede121b3d7"),
  ("pemreader/var:pemPaddingRegEx", "febc208f0be7ec4f"),
  ("pemreader/PemReader.Read", "c31007fa44a6b20b"),
  ("pemreader/PemReader.readNextBase64Line", "cda5592b4fbafaa0"),
  ("pemreader/IsPemFile", "75b6fb83f220a4c7"),
  ("crlreader/newHashingCRLReader", "0eaf8228894e31e5"),
  ("crlreader/newHashingPEMCRLReader", "3fce46d4231481f9"),
  ("crlreader/newHashingDERCRLReader", "51bf5434f53ba07b")
]

theorem pem_sources_as_transcribed : skeletonPem = expectedPem := rfl

def expectedChunk : List (String × String) := [
  ("hashing/HashingReaderWrapper.Read", "d5ac543d23bcfe2b"),
  ("hashing/HashingReaderWrapper.Peek", "c2f0b5652f6e307f"),
  ("hashing/HashingReaderWrapper.Discard", "b83acc4cd623511e"),
  ("hashing/HashingReaderWrapper.Position", "8725a03f02cfbe06"),
  ("hashing/HashingReaderWrapper.StartHashCalculation", "eba62ff26d557ace"),
  ("hashing/HashingReaderWrapper.FinishHashCalculation", "0b307c7c28382e9d"),
  ("asn1parser/ReadExpectedBytes", "b41b97eabace54e3"),
  ("asn1parser/ReadExpectedBytesRecursive", "182a2ca10189e861"),
  ("asn1parser/copyBytes", "df8aabc6c872f6cc"),
  ("asn1parser/PeekExpectedBytes", "7f07d391f08d4ad1")
]

theorem chunk_sources_as_transcribed : skeletonChunk = expectedChunk := rfl

def expectedReader : List (String × String) := [
  ("asn1parser/const:maxPrimitiveValueLength", "dd00cfe1c937d075"),
  ("asn1parser/ReadTag", "85c8fe7b7d8912b2"),
  ("asn1parser/PeekTag", "6db62139be10f6b0"),
  ("asn1parser/ReadLength", "15a5d2e2180df8e9"),
  ("asn1parser/PeekLength", "ca8d01ac80ab242c"),
  ("asn1parser/expectSupportedLengthForm", "02fb87e5326c8d42"),
  ("asn1parser/ReadTagLength", "63ce7aff9a202702"),
  ("asn1parser/PeekTagLength", "1486c80f8f54eb30"),
  ("asn1parser/ExpectTag", "ccac53df164fa0a9"),
  ("asn1parser/ReadUint8", "a9c70bef6a1df5c2"),
  ("asn1parser/PeekUint8", "efa8bd77bfa78ba9"),
  ("asn1parser/ReadExpectedBigInt", "bf9c3936ae536deb"),
  ("asn1parser/PeekExpectedBigInt", "122dde12b091459c"),
  ("asn1parser/ReadStruct", "f1908dd776e5eea4"),
  ("asn1parser/ReadTVLBytesWithLimit", "59a133e6cf569bb1"),
  ("asn1parser/ReadValueBytesWithLimit", "dc5f61eb88a31b2f"),
  ("asn1parser/CalculateWholeTLVLength", "5c90689f41c72a07"),
  ("asn1parser/ExpectLengthNotGreater", "62ed966aa04fb3af"),
  ("asn1parser/ReadUtcTime", "58c3cdf9272869e5"),
  ("asn1parser/ParseUTCTime", "ed6ed51eff5bc986"),
  ("asn1parser/ParseBitString", "9babebb033055c57"),
  ("asn1parser/ParseOctetString", "f17bafbb3164c946"),
  ("asn1parser/ReadBigInt", "bc0141e681f88d43"),
  ("asn1parser/TagLength.CalculateTLVLength", "7e2c03e6d119b0d9"),
  ("asn1parser/IsContextSpecificTagWithId", "765809fd5d19ab53"),
  ("asn1parser/IsContextSpecificTag", "4a696b17360ca763"),
  ("asn1parser/GetContextSpecificTagId", "67b11ecd57c0f2a5"),
  ("crlreader/StreamingCRLFileReader.ReadCRL", "0fab4b6a06216ae5"),
  ("crlreader/findAlgorithmIdentifierInCRL", "190d64ce1aa019d5"),
  ("crlreader/readAlgorithmIdentifier", "802e75d73fe397c1"),
  ("crlreader/seekToCRLBegin", "54ef1598f05cc146"),
  ("crlreader/parseVersion", "f4d62a7e148a0917"),
  ("crlreader/versionExists", "353d97ef91313dd0"),
  ("crlreader/nextUpdateTimeExists", "29042818fa7a18ff"),
  ("crlreader/revokedCertificateListExists", "3af851f424dc5ed2"),
  ("crlreader/parseRevokedCertificateList", "448b3c649c8d993a"),
  ("crlreader/extensionsExists", "2e0179b8175d92a6"),
  ("crlreader/parseExtensions", "1888c4acdbe42150"),
  ("crlreader/parseCRlNumberIfExists", "9df44b588daa568d"),
  ("crlreader/calculateEndPosition", "a2f2c5f586b2e4e2"),
  ("extensionsupport/CheckForCriticalUnhandledCRLExtensions", "b90f5189d3e71317"),
  ("extensionsupport/FindExtension", "d618276e5705060f")
]

theorem reader_sources_as_transcribed : skeletonReader = expectedReader := rfl

def expectedRepo : List (String × String) := [
  ("asn1parser/ParseIssuerRDNSequence", "8f2bf8792cba77b1"),
  ("asn1parser/ParseSubjectRDNSequence", "72777f1fd27bd47d"),
  ("asn1parser/ParseRDNSequence", "ad1cb8dc8504f246"),
  ("crlrepository/NewCRLRepository", "1dcfe26e482fce93"),
  ("crlrepository/Repository.AddCRL", "eb2c4207a8192a4f"),
  ("crlrepository/Repository.storeCRLLocationsIfNotLoaded", "24163ff77f9f9a4b"),
  ("crlrepository/Repository.isEntryLoaded", "b37b39c6a979ebf5"),
  ("crlrepository/Repository.getOrAddEntry", "c9a485b99b2b662e"),
  ("crlrepository/Repository.tryUpdateSignatureCertFromChain", "baa010a2c1f20d59"),
  ("crlrepository/Repository.loadCRL", "d627ca0f36fe24a5"),
  ("crlrepository/Repository.addNewEmptyEntry", "f8c51786787b92b1"),
  ("crlrepository/Repository.createTempFile", "e1a7447dff0eb084"),
  ("crlrepository/Repository.IsRevoked", "32b6bb842c2b62a4"),
  ("crlrepository/Repository.checkCrl", "16ebd174983878d0"),
  ("crlrepository/Repository.getCurrentIdentifiers", "d10e19b63b6bbe1d"),
  ("crlrepository/Repository.UpdateCRLs", "1e3910b74a7a4d3a"),
  ("crlrepository/Repository.updateCRL", "a1966ef101448d9a"),
  ("crlrepository/Repository.updateCrlEntry", "56be6d3da4415662"),
  ("crlrepository/Repository.resetLastSignatureVerifyFailed", "d29b3e649ad26064"),
  ("crlrepository/Repository.setLastSignatureVerifyFailed", "e750ab0ea5f72f39"),
  ("crlrepository/Repository.getCrlUpdateInformation", "80510b19decff52e"),
  ("crlrepository/Repository.updateEntry", "a3f746942d175a8a"),
  ("crlrepository/Repository.getStoredCertAsChain", "69752d751cbaa2c5"),
  ("crlrepository/verifyCRLSignature", "29d5d673c65abfea"),
  ("crlrepository/Repository.DeleteTempFilesIfExist", "e6170e4bf1098726"),
  ("crlrepository/Repository.deleteIfTempFileOrDir", "3a84e6c37f263238"),
  ("crlrepository/Repository.getEntrySync", "b1e1108e37c459ee"),
  ("crlrepository/Repository.deleteEntrySync", "140f6809457ce57f"),
  ("crlrepository/Repository.isEntryPresentAndLoaded", "3a8b787182b4fde1"),
  ("crlrepository/Repository.loadActively", "4cc52d1172647a26"),
  ("crlrepository/Repository.UpdateCRL", "5dd16cd00865eb74"),
  ("crlrepository/Repository.Close", "1c594870de733b90"),
  ("crlrepository/Repository.closeRepositoryEntry", "db6331e4d33a6ac9"),
  ("crl/CRLRevocationChecker.IsRevoked", "23c9787c335dff3a"),
  ("crl/issuerChains", "01c8752b29aff144"),
  ("crl/CRLRevocationChecker.Provision", "2d44b24e4fd01d4d"),
  ("crl/CRLRevocationChecker.Cleanup", "96b06fd97881c86e"),
  ("crl/CRLRevocationChecker.addCrlUrlsFromConfig", "c2991b1276bf4bd3"),
  ("crl/CRLRevocationChecker.addCrlFilesFromConfig", "a3898c60eb484560"),
  ("crl/CRLRevocationChecker.initCRLUpdateTicker", "b0a59308ff803eff"),
  ("crl/CRLRevocationChecker.updateCRLsRecovering", "1348386e28c223b4"),
  ("crl/CRLRevocationChecker.updateCRLs", "d4c7bb7c28549a2c"),
  ("crl/CRLRevocationChecker.updateWasRecentlyFinished", "930915b5df541bc9"),
  ("crl/RegisterCRLWorkDirUsage", "f6cfb6afb7bc4807"),
  ("crl/DeregisterCRLWorkDirUsage", "8b49febdc9719053")
]

theorem repo_sources_as_transcribed : skeletonRepo = expectedRepo := rfl

def expectedOcsp : List (String × String) := [
  ("asn1parser/ParseIssuerRDNSequence", "8f2bf8792cba77b1"),
  ("asn1parser/ParseRDNSequence", "ad1cb8dc8504f246"),
  ("ocsp/OCSPRevocationChecker.IsRevoked", "567cbca0eb970371"),
  ("ocsp/issuerChains", "561b44831fd5c14b"),
  ("ocsp/OCSPRevocationChecker.calculateEvictionTime", "b5946c13033b5650"),
  ("ocsp/OCSPRevocationChecker.parseOcspResponse", "772832c5bda9d417"),
  ("ocsp/isAuthorizedResponder", "e663a212c32711d1"),
  ("ocsp/OCSPRevocationChecker.Provision", "ec13edbc63c5c180"),
  ("ocsp/OCSPRevocationChecker.Cleanup", "5eb4d685762654d8"),
  ("ocsp/OCSPRevocationChecker.executeHttpRequest", "d6820bea998e6946"),
  ("ocsp/OCSPRevocationChecker.prepareHttpRequest", "1cafe0d6fe8b1bdf"),
  ("ocsp/OCSPRevocationChecker.filterHTTPOCSPServers", "4b8bc63d83ea2fc1"),
  ("ocsp/OCSPRevocationChecker.tryGetResponseFromCache", "75daa0937ef4a247")
]

theorem ocsp_sources_as_transcribed : skeletonOcsp = expectedOcsp := rfl

def expectedCand : List (String × String) := [
  ("asn1parser/ParseIssuerRDNSequence", "8f2bf8792cba77b1"),
  ("asn1parser/ParseSubjectRDNSequence", "72777f1fd27bd47d"),
  ("asn1parser/ParseRDNSequence", "ad1cb8dc8504f246"),
  ("extensionsupport/GeneralName.GetGeneralNameType", "18d8f4e078279fba"),
  ("extensionsupport/findLastRecursiveContextSpecificTagInOrder", "d6f60b1b1b571fed"),
  ("extensionsupport/FindExtension", "d618276e5705060f"),
  ("extensionsupport/CheckForCriticalUnhandledCRLExtensions", "b90f5189d3e71317"),
  ("crlrepository/verifyCRLSignature", "29d5d673c65abfea"),
  ("signatureverify/LookupHashAndVerifyStrategies", "2af9b4a2e1b6db3f"),
  ("signatureverify/getHashAlgorithmFromOID", "ce39baf31cf2cda4"),
  ("signatureverify/getVerifyStrategyFromOID", "e8d9af5c05d5f88d"),
  ("signatureverify/RSASignatureVerifyStrategy.VerifySignature", "2068ba985278b887"),
  ("signatureverify/RSASignatureVerifyStrategy.GetAlgorithmID", "cc3252c2bff9d2c5"),
  ("signatureverify/ECDSASignatureVerifyStrategy.VerifySignature", "b7046d3f366d99db"),
  ("signatureverify/ECDSASignatureVerifyStrategy.GetAlgorithmID", "f5b41d9801f0891c"),
  ("core/CertificateChains.AddCertificateChain", "5700cc3175366bca"),
  ("core/CertificateChain.AddCertificateChainEntry", "9d81fc8f6b38c73a"),
  ("core/NewCertificateChains", "f24bcd55d0e9f940"),
  ("core/NewCertificateChainsFromEntry", "794a29b106b42d04"),
  ("core/FindCertificateIssuerCandidates", "1c5d82ca783f83a2"),
  ("core/findCertificateCandidatesFromKeyIdentifier", "f7c489ae23cb4e93"),
  ("core/findCertificateBySerialAndIssuer", "891d0bdd20e63e4c"),
  ("core/findCertificateCandidatesByIssuerAndAlgorithm", "cca0df9d75dd09c8"),
  ("core/parseKeyIdentifierFromExtension", "8bb6ae0293685d2b")
]

theorem cand_sources_as_transcribed : skeletonCand = expectedCand := rfl

def expectedLoader : List (String × String) := [
  ("crlloader/URLLoader.LoadCRL", "8a22bff03ef51825"),
  ("crlloader/URLLoader.DownloadFromUrlWithRetries", "8e70a0e3296cae2e"),
  ("crlloader/URLLoader.GetCRLLocationIdentifier", "9eec9de02a6fa48e"),
  ("crlloader/URLLoader.GetDescription", "384c8d931ef4573f"),
  ("crlloader/URLLoader.downloadCRL", "dc8f27b31faef0e1"),
  ("crlloader/URLLoader.normalizeUrl", "c82cb1a394b94107"),
  ("crlloader/FileLoader.LoadCRL", "37f34628168f17bc"),
  ("crlloader/FileLoader.copyToTargetFile", "a8e0486145ab1153"),
  ("crlloader/FileLoader.GetCRLLocationIdentifier", "200b9fe42d4f7b01"),
  ("crlloader/FileLoader.GetDescription", "0c713262fac761ef"),
  ("crlloader/MultiSchemesCRLLoader.LoadCRL", "67a263ba957752c5"),
  ("crlloader/MultiSchemesCRLLoader.GetCRLLocationIdentifier", "b72ddb0ce74d71ad"),
  ("crlloader/MultiSchemesCRLLoader.GetDescription", "416d668b4f94ebda"),
  ("crlloader/DefaultCRLLoaderFactory.CreatePreferredCrlLoader", "890de9092781c8d0"),
  ("crlloader/calculateHashHexString", "3dee547bae05a8d9"),
  ("utils/Retry", "38c3b097b44216ce"),
  ("utils/CloseWithErrorHandling", "588d1f8739c24b60")
]

theorem loader_sources_as_transcribed : skeletonLoader = expectedLoader := rfl

def expectedStore : List (String × String) := [
  ("crlstore/MapStore.StartUpdateCrl", "0c238c501d8563e1"),
  ("crlstore/MapStore.InsertRevokedCert", "87c0e9e17d3b9fd4"),
  ("crlstore/MapStore.GetCertRevocationStatus", "2486d4b3a3ab109c"),
  ("crlstore/MapStore.GetCRLMetaInfo", "1d90faffd6624b24"),
  ("crlstore/MapStore.GetCRLExtMetaInfo", "e6a66d4026c8bbf3"),
  ("crlstore/MapStore.UpdateExtendedMetaInfo", "bcdbdc4e049c4f6d"),
  ("crlstore/MapStore.UpdateSignatureCertificate", "7bed46a1cbe0ac4d"),
  ("crlstore/MapStore.GetCRLSignatureCert", "4d9f0e3b03de9284"),
  ("crlstore/MapStore.UpdateCRLLocations", "6a11aa958ff25665"),
  ("crlstore/MapStore.GetCRLLocations", "68084754c7956557"),
  ("crlstore/MapStore.IsEmpty", "b6c037e2d1d4659f"),
  ("crlstore/MapStore.Update", "a26e2f249d5a5acc"),
  ("crlstore/MapStore.Close", "918e23bff5968520"),
  ("crlstore/MapStore.Delete", "e6eb639bd357b84d"),
  ("crlstore/MapStore.set", "f346c808681e5d93"),
  ("crlstore/MapStore.get", "55030ad36682b740"),
  ("crlstore/MapStore.close", "50314cbddf07bbfa"),
  ("crlstore/MapStoreFactory.CreateStore", "9903fa82a22d9c16"),
  ("crlstore/LevelDbStore.StartUpdateCrl", "5718c6426ae27e1b"),
  ("crlstore/LevelDbStore.InsertRevokedCert", "f7decf747f9e7662"),
  ("crlstore/LevelDbStore.GetCertRevocationStatus", "e0b93600ccf2d780"),
  ("crlstore/LevelDbStore.GetCRLMetaInfo", "8533825829426005"),
  ("crlstore/LevelDbStore.GetCRLExtMetaInfo", "95e138f6db304899"),
  ("crlstore/LevelDbStore.UpdateExtendedMetaInfo", "32ca9dd7aaee1a10"),
  ("crlstore/LevelDbStore.UpdateSignatureCertificate", "6da44c59854a3bb4"),
  ("crlstore/LevelDbStore.GetCRLSignatureCert", "264f43e83743dc0d"),
  ("crlstore/LevelDbStore.UpdateCRLLocations", "f1f84aedbe0cdcb6"),
  ("crlstore/LevelDbStore.GetCRLLocations", "77859b80bcc7b430"),
  ("crlstore/LevelDbStore.IsEmpty", "f21fdf3fc0d6c473"),
  ("crlstore/LevelDbStore.Update", "f14d6ff82f3434a2"),
  ("crlstore/LevelDbStore.closeDbWithRetries", "e1d0622db9a9e56e"),
  ("crlstore/LevelDbStore.removeWithRetries", "2613060511398908"),
  ("crlstore/LevelDbStore.renameWithRetries", "a2a6e34c26e35fdf"),
  ("crlstore/LevelDbStore.renameWithRetriesToTempDir", "e7cb68031e81789f"),
  ("crlstore/createRandomFileName", "53bb686173ee5797"),
  ("crlstore/LevelDbStore.Close", "859b8b7a72fead91"),
  ("crlstore/LevelDbStore.Delete", "1a401c989db6c51b"),
  ("crlstore/LevelDbStoreFactory.CreateStore", "78186e2a02908bb2"),
  ("crlstore/createTempDirWithRetries", "c8737e08d8679df4"),
  ("crlstore/openDbWithRetries", "12c36badb1951d95"),
  ("crlstore/CRLPersisterProcessor.StartUpdateCrl", "bc2f4775a9a6abff"),
  ("crlstore/CRLPersisterProcessor.InsertRevokedCertificate", "361f438c774645b2"),
  ("crlstore/CRLPersisterProcessor.UpdateExtendedMetaInfo", "3ae68c839fe6f16c"),
  ("crlstore/CRLPersisterProcessor.UpdateSignatureCertificate", "c33ae6ff8b635870"),
  ("crlstore/CRLPersisterProcessor.UpdateCRLLocations", "9e70fce0b729ba4d"),
  ("crlstore/ASN1Serializer.DeserializeMetaInfo", "871f7d390d4c0f98"),
  ("crlstore/ASN1Serializer.SerializeMetaInfo", "9582d0b3a7aa075f"),
  ("crlstore/ASN1Serializer.DeserializeRevokedCert", "8101b3f4f1f3a393"),
  ("crlstore/ASN1Serializer.SerializeRevokedCert", "ff8b8b1b1ca1da52"),
  ("crlstore/ASN1Serializer.SerializeMetaInfoExt", "15314abf8fed2090"),
  ("crlstore/ASN1Serializer.DeserializeMetaInfoExt", "c143eaf77eb06041"),
  ("crlstore/ASN1Serializer.SerializeSignatureCert", "c03e7e7180ee3ef9"),
  ("crlstore/ASN1Serializer.DeserializeSignatureCert", "6ff6eead2437a2e9"),
  ("crlstore/ASN1Serializer.SerializeCRLLocations", "cc87a19c6aa4267a"),
  ("crlstore/ASN1Serializer.DeserializeCRLLocations", "1eae63214ef05632"),
  ("hashing/Sum64", "8e2bac8846f2cf45")
]

theorem store_sources_as_transcribed : skeletonStore = expectedStore := rfl

def expectedMode : List (String × String) := [
  ("./init", "778fc18a6e184ac0"),
  ("./CertRevocationValidator.CaddyModule", "d6eb8cf9ab37d04e"),
  ("./CertRevocationValidator.Provision", "f4f3917a384b366e"),
  ("./validateConfig", "149296f8dc361966"),
  ("./CertRevocationValidator.Cleanup", "204633020b7b7635"),
  ("./CertRevocationValidator.UnmarshalCaddyfile", "2c87bf82403f8a72"),
  ("./CertRevocationValidator.VerifyClientCertificate", "de151cbfcd98ef3b"),
  ("./isOCSPCheckingEnabled", "3f7b8343896b1b3b"),
  ("./isCRLCheckingEnabled", "fbd86c43bb16631b")
]

theorem mode_sources_as_transcribed : skeletonMode = expectedMode := rfl

end Crv.Skeleton
