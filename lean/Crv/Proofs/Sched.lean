import Crv.Sched
/-!
Lemmas about the refresh-scheduling model (`Crv.Sched`), for any `Model` whose `updateCRLs` behaves like
"run unless (not forced and recently finished); stamp exactly when it ran" and whose stamp is per instance.
-/
namespace Crv.Sched

/-- The behaviour of `updateCRLs` the theorems need (proved for the generated statement list by evaluation). -/
def TickSpec (M : Model) : Prop :=
  ∀ f r, runTick M.prog f r = { ran := f || !r, stamped := f || !r, unlocked := true }

theorem stepEv_spec {M : Model} (hs : TickSpec M) (I : Nat → Nat) (last : Nat → Nat) (e : Ev) :
    stepEv M I last e =
      if e.forced || !M.recent (last (M.slot e.inst)) e.time (I e.inst) then
        (upd last (M.slot e.inst) (e.time + e.dur), some ⟨e.inst, e.time, e.time + e.dur⟩)
      else (last, none) := by
  unfold stepEv
  rw [hs]
  cases h : (e.forced || !M.recent (last (M.slot e.inst)) e.time (I e.inst)) <;> simp

/-- the decision of one call -/
def runs (M : Model) (I : Nat → Nat) (last : Nat → Nat) (e : Ev) : Bool :=
  e.forced || !M.recent (last (M.slot e.inst)) e.time (I e.inst)

def runOf (e : Ev) : Run := ⟨e.inst, e.time, e.time + e.dur⟩

theorem stepEv_run {M : Model} (hs : TickSpec M) {I : Nat → Nat} {last : Nat → Nat} {e : Ev}
    (h : runs M I last e = true) :
    stepEv M I last e = (upd last (M.slot e.inst) (e.time + e.dur), some (runOf e)) := by
  rw [stepEv_spec hs]; unfold runs at h; rw [if_pos h]; rfl

theorem stepEv_skip {M : Model} (hs : TickSpec M) {I : Nat → Nat} {last : Nat → Nat} {e : Ev}
    (h : runs M I last e = false) : stepEv M I last e = (last, none) := by
  rw [stepEv_spec hs]; unfold runs at h; rw [if_neg (by simp [h])]

theorem exec_cons_run {M : Model} (hs : TickSpec M) {I : Nat → Nat} {last : Nat → Nat} {e : Ev} (es : List Ev)
    (h : runs M I last e = true) :
    exec M I last (e :: es) = runOf e :: exec M I (upd last (M.slot e.inst) (e.time + e.dur)) es := by
  simp only [exec, stepEv_run hs h]

theorem exec_cons_skip {M : Model} (hs : TickSpec M) {I : Nat → Nat} {last : Nat → Nat} {e : Ev} (es : List Ev)
    (h : runs M I last e = false) : exec M I last (e :: es) = exec M I last es := by
  simp only [exec, stepEv_skip hs h]

theorem finalLast_cons_run {M : Model} (hs : TickSpec M) {I : Nat → Nat} {last : Nat → Nat} {e : Ev} (es : List Ev)
    (h : runs M I last e = true) :
    finalLast M I last (e :: es) = finalLast M I (upd last (M.slot e.inst) (e.time + e.dur)) es := by
  simp only [finalLast, stepEv_run hs h]

theorem finalLast_cons_skip {M : Model} (hs : TickSpec M) {I : Nat → Nat} {last : Nat → Nat} {e : Ev} (es : List Ev)
    (h : runs M I last e = false) : finalLast M I last (e :: es) = finalLast M I last es := by
  simp only [finalLast, stepEv_skip hs h]

theorem exec_append (M : Model) (I : Nat → Nat) : ∀ (pre post : List Ev) (last : Nat → Nat),
    exec M I last (pre ++ post) = exec M I last pre ++ exec M I (finalLast M I last pre) post
  | [], _, _ => rfl
  | e :: pre, post, last => by
    simp only [List.cons_append, exec, finalLast]
    cases h : stepEv M I last e with
    | mk l' o =>
      cases o with
      | none => simp only []; exact exec_append M I pre post l'
      | some r => simp only [List.cons_append]; rw [exec_append M I pre post l']

/-- Every run comes from an event: same instance, starts at the event's time, lasts the event's duration. -/
theorem exec_run_of_event {M : Model} (hs : TickSpec M) (I : Nat → Nat) : ∀ (evs : List Ev) (last : Nat → Nat) (r : Run),
    r ∈ exec M I last evs → ∃ e ∈ evs, r.inst = e.inst ∧ r.start = e.time ∧ r.finish = e.time + e.dur
  | [], _, r, h => by cases h
  | e :: es, last, r, h => by
    cases hc : runs M I last e with
    | true =>
      rw [exec_cons_run hs es hc, List.mem_cons] at h
      rcases h with rfl | h
      · exact ⟨e, List.mem_cons_self .., rfl, rfl, rfl⟩
      · obtain ⟨e', he', h'⟩ := exec_run_of_event hs I es _ r h
        exact ⟨e', List.mem_cons_of_mem _ he', h'⟩
    | false =>
      rw [exec_cons_skip hs es hc] at h
      obtain ⟨e', he', h'⟩ := exec_run_of_event hs I es _ r h
      exact ⟨e', List.mem_cons_of_mem _ he', h'⟩

/-- With a per-instance stamp, the stamp of instance `i` is either what it was or the finish time of one
of `i`'s own runs. -/
theorem stamp_origin {M : Model} (hs : TickSpec M) (hg : M.global = false) (I : Nat → Nat) (i : Nat) :
    ∀ (evs : List Ev) (last : Nat → Nat),
      finalLast M I last evs i = last i ∨
        ∃ r ∈ exec M I last evs, r.inst = i ∧ r.finish = finalLast M I last evs i
  | [], _ => Or.inl rfl
  | e :: es, last => by
    have hslot : M.slot e.inst = e.inst := by simp [Model.slot, hg]
    cases hc : runs M I last e with
    | true =>
      rw [exec_cons_run hs es hc, finalLast_cons_run hs es hc]
      rcases stamp_origin hs hg I i es (upd last (M.slot e.inst) (e.time + e.dur)) with h | ⟨r, hr, hri, hrf⟩
      · by_cases hei : e.inst = i
        · right
          refine ⟨runOf e, List.mem_cons_self .., hei, ?_⟩
          rw [h, hslot, hei]; simp [upd, runOf]
        · left
          rw [h, hslot]
          have : ¬ i = e.inst := fun hc => hei hc.symm
          simp [upd, this]
      · exact Or.inr ⟨r, List.mem_cons_of_mem _ hr, hri, hrf⟩
    | false =>
      rw [exec_cons_skip hs es hc, finalLast_cons_skip hs es hc]
      exact stamp_origin hs hg I i es last

/-- **Non-interference.** With a per-instance stamp the runs of instance `i` are determined by `i`'s own
events (other instances only influence *when* `i`'s calls get the mutex, which is part of `i`'s events). -/
theorem noninterference {M : Model} (hs : TickSpec M) (hg : M.global = false) (I : Nat → Nat) (i : Nat) :
    ∀ (evs : List Ev) (last last' : Nat → Nat), last i = last' i →
      (exec M I last evs).filter (·.inst == i) = exec M I last' (evs.filter (·.inst == i))
  | [], _, _, _ => rfl
  | e :: es, last, last', hl => by
    have hslot : M.slot e.inst = e.inst := by simp [Model.slot, hg]
    by_cases hei : e.inst = i
    · have hf : (e :: es).filter (·.inst == i) = e :: es.filter (·.inst == i) := by simp [hei]
      rw [hf]
      have hsame : runs M I last' e = runs M I last e := by unfold runs; rw [hslot, hei, hl]
      cases hc : runs M I last e with
      | true =>
        rw [exec_cons_run hs es hc, exec_cons_run hs _ (hsame.trans hc)]
        have hp : ((runOf e).inst == i) = true := by simp [runOf, hei]
        simp only [List.filter_cons, hp, if_true]
        rw [noninterference hs hg I i es (upd last (M.slot e.inst) (e.time + e.dur))
          (upd last' (M.slot e.inst) (e.time + e.dur)) (by simp [upd, hl])]
      | false =>
        rw [exec_cons_skip hs es hc, exec_cons_skip hs _ (hsame.trans hc)]
        exact noninterference hs hg I i es _ _ hl
    · have hf : (e :: es).filter (·.inst == i) = es.filter (·.inst == i) := by simp [hei]
      rw [hf]
      have hne : ¬ i = e.inst := fun hc => hei hc.symm
      cases hc : runs M I last e with
      | true =>
        rw [exec_cons_run hs es hc]
        have hp : ((runOf e).inst == i) = false := by simp [runOf, hei]
        simp only [List.filter_cons, hp, Bool.false_eq_true, if_false]
        exact noninterference hs hg I i es _ _ (by simp [upd, hslot, hne]; exact hl)
      | false =>
        rw [exec_cons_skip hs es hc]
        exact noninterference hs hg I i es _ _ hl

/-- The heart of `bounded_refresh`: whenever a tick of instance `i` decides at `e.time`, a run of `i` has
started in `(e.time − I/k − D, e.time]` — either this tick runs, or it is skipped because one of `i`'s own
runs finished less than `I/k` ago, and that run took at most `D`. -/
theorem tick_has_recent_run {M : Model} (hs : TickSpec M) (hg : M.global = false)
    (k : Nat) (hrec : ∀ l n iv, M.recent l n iv = (l != 0 && decide (n - l < iv / k)))
    (I : Nat → Nat) (i D : Nat) (pre post : List Ev) (e : Ev) (last0 : Nat → Nat)
    (h0 : last0 i = 0) (hei : e.inst = i)
    (hD : ∀ e' ∈ pre ++ e :: post, e'.dur ≤ D)
    (hser : finalLast M I last0 pre i ≤ e.time) (t : Nat) (ht : t + I i / k + D < e.time) :
    ∃ r ∈ exec M I last0 (pre ++ e :: post), r.inst = i ∧ t < r.start ∧ r.start ≤ e.time ∧ r.finish ≤ e.time + D := by
  rw [exec_append]
  generalize hh : I i / k = h at ht
  have hslot : M.slot e.inst = e.inst := by simp [Model.slot, hg]
  cases hc : runs M I (finalLast M I last0 pre) e with
  | true =>
    rw [exec_cons_run hs post hc]
    have hd := hD e (List.mem_append_right _ (List.mem_cons_self ..))
    refine ⟨runOf e, List.mem_append_right _ (List.mem_cons_self ..), hei, ?_, Nat.le_refl _, ?_⟩
    · show t < e.time; omega
    · show e.time + e.dur ≤ e.time + D; omega
  | false =>
    unfold runs at hc
    simp only [Bool.or_eq_false_iff, Bool.not_eq_false'] at hc
    have hr := hc.2
    rw [hslot, hei, hrec, hh] at hr
    simp only [Bool.and_eq_true, bne_iff_ne, ne_eq, decide_eq_true_eq] at hr
    obtain ⟨hne, hlt⟩ := hr
    rcases stamp_origin hs hg I i pre last0 with h | ⟨r, hrm, hri, hrf⟩
    · rw [h0] at h; exact absurd h hne
    · obtain ⟨e', he', _, hst, hfi⟩ := exec_run_of_event hs I pre last0 r hrm
      have hd := hD e' (List.mem_append_left _ he')
      refine ⟨r, List.mem_append_left _ hrm, hri, ?_, ?_, ?_⟩ <;> omega

/-- A tick instant `φ + j·I` falls in `(x, x + I]` for every `x ≥ φ − …` (here: `φ ≤ x`). -/
theorem exists_tick (φ I x : Nat) (hI : 0 < I) (hx : φ ≤ x) : ∃ j, x < φ + j * I ∧ φ + j * I ≤ x + I := by
  refine ⟨(x - φ) / I + 1, ?_, ?_⟩
  · have := Nat.lt_div_mul_add (a := x - φ) hI
    rw [Nat.add_mul, Nat.one_mul]; omega
  · have := Nat.div_mul_le_self (x - φ) I
    rw [Nat.add_mul, Nat.one_mul]; omega

theorem attempted_all (ok : Nat → Bool) : ∀ locs, attempted true ok locs = locs
  | [] => rfl
  | l :: ls => by simp [attempted, attempted_all ok ls]

theorem inForce_fail_then_ok (pub : Nat → Nat) (ok : Nat → Bool) (v0 k : Nat)
    (hok : ok k = true) : inForce pub ok v0 (k + 1) = pub k := by
  simp [inForce, hok]

theorem inForce_all_fail (pub : Nat → Nat) (ok : Nat → Bool) (v0 : Nat) :
    ∀ k, (∀ j, j < k → ok j = false) → inForce pub ok v0 k = v0
  | 0, _ => rfl
  | k + 1, h => by
    simp only [inForce, h k (Nat.lt_succ_self k), Bool.false_eq_true, if_false]
    exact inForce_all_fail pub ok v0 k (fun j hj => h j (Nat.lt_succ_of_lt hj))

end Crv.Sched
