import Crv.Pem
/-!
Helper lemmas for the PEM pipeline model `Crv.Pem` (core only):

* base64: alphabet facts, `decodeQuads (b64Encode bs) = (bs, true)`, prefixes of encodings
  (`b64Encode_split`), and `b64Chunks_encode`: however a valid encoding is cut into chunks, the stream decoder
  returns the encoded bytes and ends with EOF;
* lines: `splitLines` is the iteration of `nextLine`, behaviour on complete lines (`IsLine`) and on an
  unterminated tail;
* armour: shape of armour lines, BEGIN/END lines are armour for labels in `[A-Z0-9 ]*`;
* the round trip through `pemEncode`, PEM detection, a size bound.
-/
namespace Crv.Pem

theorem b64Char_spec : ∀ n, n < 64 →
    (b64Val (b64Char n) = some n ∧ b64Char n ≠ 10 ∧ b64Char n ≠ 13 ∧ b64Char n ≠ 45) := by decide

theorem b64Val_b64Char {n : Nat} (h : n < 64) : b64Val (b64Char n) = some n := (b64Char_spec n h).1

theorem b64Val_pad : b64Val pad = none := by decide

theorem val_enc1 (a : UInt8) : b64Val (enc1 a) = some (a.toNat / 4) := by
  have := a.toNat_lt; exact b64Val_b64Char (by omega)
theorem val_enc2 (a b : UInt8) : b64Val (enc2 a b) = some (a.toNat % 4 * 16 + b.toNat / 16) := by
  have := a.toNat_lt; have := b.toNat_lt; exact b64Val_b64Char (by omega)
theorem val_enc3 (a b : UInt8) : b64Val (enc3 a b) = some (a.toNat % 16 * 4 + b.toNat / 64) := by
  have := a.toNat_lt; have := b.toNat_lt; exact b64Val_b64Char (by omega)
theorem val_enc4 (a : UInt8) : b64Val (enc4 a) = some (a.toNat % 64) := by
  have := a.toNat_lt; exact b64Val_b64Char (by omega)

theorem dec1_enc (a b : UInt8) : dec1 (a.toNat / 4) (a.toNat % 4 * 16 + b.toNat / 16) = a := by
  have := a.toNat_lt; have := b.toNat_lt
  have h : a.toNat / 4 * 4 + (a.toNat % 4 * 16 + b.toNat / 16) / 16 = a.toNat := by omega
  unfold dec1; rw [h]; exact UInt8.ofNat_toNat
theorem dec2_enc (a b c : UInt8) :
    dec2 (a.toNat % 4 * 16 + b.toNat / 16) (b.toNat % 16 * 4 + c.toNat / 64) = b := by
  have := a.toNat_lt; have := b.toNat_lt; have := c.toNat_lt
  have h : (a.toNat % 4 * 16 + b.toNat / 16) % 16 * 16 + (b.toNat % 16 * 4 + c.toNat / 64) / 4 = b.toNat := by omega
  unfold dec2; rw [h]; exact UInt8.ofNat_toNat
theorem dec3_enc (b c : UInt8) : dec3 (b.toNat % 16 * 4 + c.toNat / 64) (c.toNat % 64) = c := by
  have := b.toNat_lt; have := c.toNat_lt
  have h : (b.toNat % 16 * 4 + c.toNat / 64) % 4 * 64 + c.toNat % 64 = c.toNat := by omega
  unfold dec3; rw [h]; exact UInt8.ofNat_toNat

theorem decodeQuads_encode (bs : List UInt8) : decodeQuads (b64Encode bs) = (bs, true) := by
  induction bs using b64Encode.induct with
  | case1 a b c rest ih =>
    simp [b64Encode, decodeQuads, val_enc1, val_enc2, val_enc3, val_enc4, ih, dec1_enc, dec2_enc, dec3_enc]
  | case2 a b =>
    have h0 : (0 : UInt8).toNat = 0 := rfl
    have := dec2_enc a b 0
    simp [h0] at this
    simp [b64Encode, decodeQuads, val_enc1, val_enc2, val_enc3, b64Val_pad, dec1_enc, h0, this]
  | case3 a =>
    have h0 : (0 : UInt8).toNat = 0 := rfl
    have := dec1_enc a 0
    simp [h0] at this
    simp [b64Encode, decodeQuads, val_enc1, val_enc2, b64Val_pad, h0, this]
  | case4 => simp [b64Encode, decodeQuads]


theorem b64Encode_length (bs : List UInt8) : (b64Encode bs).length % 4 = 0 := by
  induction bs using b64Encode.induct with
  | case1 a b c rest ih => simp [b64Encode]; omega
  | case2 a b => simp [b64Encode]
  | case3 a => simp [b64Encode]
  | case4 => simp [b64Encode]

theorem b64Encode_eq_nil {bs : List UInt8} (h : b64Encode bs = []) : bs = [] := by
  match bs, h with
  | [], _ => rfl
  | [_], h => simp [b64Encode] at h
  | [_, _], h => simp [b64Encode] at h
  | _ :: _ :: _ :: _, h => simp [b64Encode] at h

/-- A prefix of an encoding whose length is a multiple of 4 is the encoding of a prefix. -/
theorem b64Encode_split : ∀ (n : Nat) (p q bs : List UInt8), p.length = 4 * n → p ++ q = b64Encode bs →
    ∃ b1 b2, bs = b1 ++ b2 ∧ p = b64Encode b1 ∧ q = b64Encode b2 := by
  intro n
  induction n with
  | zero =>
    intro p q bs hp h
    have : p = [] := List.eq_nil_of_length_eq_zero (by omega)
    subst this
    exact ⟨[], bs, by simp, by simp [b64Encode], by simpa using h⟩
  | succ n ih =>
    intro p q bs hp h
    match p, hp with
    | x1 :: x2 :: x3 :: x4 :: p', hp =>
      match bs, h with
      | [], h => simp [b64Encode] at h
      | [a], h =>
        simp [b64Encode] at h
        obtain ⟨h1, h2, h3, h4, h5, h6⟩ := h
        subst h1 h2 h3 h4 h5 h6
        exact ⟨[a], [], by simp, by simp [b64Encode], by simp [b64Encode]⟩
      | [a, b], h =>
        simp [b64Encode] at h
        obtain ⟨h1, h2, h3, h4, h5, h6⟩ := h
        subst h1 h2 h3 h4 h5 h6
        exact ⟨[a, b], [], by simp, by simp [b64Encode], by simp [b64Encode]⟩
      | a :: b :: c :: rest, h =>
        simp [b64Encode] at h
        obtain ⟨h1, h2, h3, h4, h5⟩ := h
        have hp' : p'.length = 4 * n := by simp at hp; omega
        obtain ⟨b1, b2, e, e1, e2⟩ := ih p' q rest hp' h5
        exact ⟨a :: b :: c :: b1, b2, by simp [e], by simp [b64Encode, h1, h2, h3, h4, e1], e2⟩


/-- Whatever way a valid encoding is cut into chunks, the stream decoder returns the encoded bytes. -/
theorem b64Chunks_encode : ∀ (cs : List (List UInt8)) (carry bs : List UInt8), carry.length < 4 →
    carry ++ cs.flatten = b64Encode bs → b64Chunks carry cs = (bs, .eof) := by
  intro cs
  induction cs with
  | nil =>
    intro carry bs hc h
    simp at h
    have hl := b64Encode_length bs
    rw [← h] at hl
    have : carry = [] := List.eq_nil_of_length_eq_zero (by omega)
    subst this
    have := b64Encode_eq_nil h.symm
    subst this
    simp [b64Chunks]
  | cons c cs ih =>
    intro carry bs hc h
    simp only [b64Chunks]
    split
    · rename_i hlt
      exact ih (carry ++ c) bs hlt (by simpa using h)
    · rename_i hge
      have hlen : ((carry ++ c).take ((carry ++ c).length / 4 * 4)).length = 4 * ((carry ++ c).length / 4) := by
        rw [List.length_take]; omega
      have hcat : (carry ++ c).take ((carry ++ c).length / 4 * 4) ++
          ((carry ++ c).drop ((carry ++ c).length / 4 * 4) ++ cs.flatten) = b64Encode bs := by
        rw [← List.append_assoc, List.take_append_drop]; simpa using h
      obtain ⟨b1, b2, e, e1, e2⟩ := b64Encode_split _ _ _ _ hlen hcat
      have hdrop : ((carry ++ c).drop ((carry ++ c).length / 4 * 4)).length < 4 := by
        rw [List.length_drop]; omega
      rw [e1, decodeQuads_encode, ih _ b2 hdrop e2]
      simp [e]


theorem chunksOfAux_flatten (n : Nat) (hn : 0 < n) : ∀ (fuel : Nat) (l : List UInt8), l.length ≤ fuel →
    (chunksOfAux n fuel l).flatten = l := by
  intro fuel
  induction fuel with
  | zero => intro l h; have : l = [] := List.eq_nil_of_length_eq_zero (by omega); subst this; simp [chunksOfAux]
  | succ f ih =>
    intro l h
    simp only [chunksOfAux]
    split
    · rename_i he; simp at he; simp [he]
    · rename_i he
      have hl : 0 < l.length := by cases l <;> simp_all
      have : (l.drop n).length ≤ f := by rw [List.length_drop]; omega
      simp [ih _ this]

theorem chunksOf_flatten (n : Nat) (hn : 0 < n) (l : List UInt8) : (chunksOf n l).flatten = l :=
  chunksOfAux_flatten n hn _ _ (Nat.le_refl _)

theorem chunksOfAux_mem (n : Nat) (hn : 0 < n) : ∀ (fuel : Nat) (l c : List UInt8), c ∈ chunksOfAux n fuel l →
    c ≠ [] ∧ c.length ≤ n ∧ ∀ x ∈ c, x ∈ l := by
  intro fuel
  induction fuel with
  | zero => intro l c h; simp [chunksOfAux] at h
  | succ f ih =>
    intro l c h
    simp only [chunksOfAux] at h
    split at h
    · simp at h
    · rename_i he
      simp at h
      rcases h with h | h
      · subst h
        refine ⟨?_, by simp [List.length_take]; omega, fun x hx => List.mem_of_mem_take hx⟩
        cases l with
        | nil => simp at he
        | cons a t => cases n with
          | zero => omega
          | succ m => simp
      · obtain ⟨h1, h2, h3⟩ := ih _ _ h
        exact ⟨h1, h2, fun x hx => List.mem_of_mem_drop (h3 x hx)⟩

theorem chunksOf_mem {n : Nat} (hn : 0 < n) {l c : List UInt8} (h : c ∈ chunksOf n l) :
    c ≠ [] ∧ c.length ≤ n ∧ ∀ x ∈ c, x ∈ l := chunksOfAux_mem n hn _ _ _ h

theorem b64_round_trip' (bs : List UInt8) : b64DecodeStream (b64Encode bs) = (bs, .eof) :=
  b64Chunks_encode _ [] bs (by simp) (by simp [chunksOf_flatten 1024 (by omega)])


/-- A complete line: text without `\n`, then `\n`. -/
def IsLine (l : List UInt8) : Prop := ∃ b, l = b ++ [10] ∧ (10 : UInt8) ∉ b

theorem splitLines_line {l : List UInt8} (hl : IsLine l) (rest : List UInt8) :
    splitLines (l ++ rest) = (l :: (splitLines rest).1, (splitLines rest).2) := by
  obtain ⟨b, rfl, hb⟩ := hl
  induction b with
  | nil => simp [splitLines]
  | cons c b ih =>
    have hc : c ≠ 10 := fun h => hb (by simp [h])
    have hb' : (10 : UInt8) ∉ b := fun h => hb (by simp [h])
    have := ih hb'
    simp only [List.append_assoc, List.singleton_append] at this
    simp [splitLines, hc, this]

theorem splitLines_flatten (ls : List (List UInt8)) (h : ∀ l ∈ ls, IsLine l) :
    splitLines ls.flatten = (ls, []) := by
  induction ls with
  | nil => simp [splitLines]
  | cons l ls ih =>
    have := ih (fun x hx => h x (by simp [hx]))
    simp [splitLines_line (h l (by simp)), this]

theorem nextLine_line {l : List UInt8} (hl : IsLine l) (rest : List UInt8) :
    nextLine (l ++ rest) = some (l, rest) := by
  obtain ⟨b, rfl, hb⟩ := hl
  induction b with
  | nil => simp [nextLine]
  | cons c b ih =>
    have hc : c ≠ 10 := fun h => hb (by simp [h])
    have hb' : (10 : UInt8) ∉ b := fun h => hb (by simp [h])
    have := ih hb'
    simp only [List.append_assoc, List.singleton_append] at this
    simp [nextLine, hc, this]

/-- `nextLine` cuts a prefix off; it is a complete line. -/
theorem nextLine_some {s l rest : List UInt8} (h : nextLine s = some (l, rest)) : s = l ++ rest ∧ IsLine l := by
  induction s generalizing l with
  | nil => simp [nextLine] at h
  | cons c cs ih =>
    simp only [nextLine] at h
    split at h
    · rename_i hc
      simp at h
      obtain ⟨rfl, rfl⟩ := h
      exact ⟨by simp [hc], [], by simp, by simp⟩
    · rename_i hc
      split at h
      · simp at h
      · rename_i l' rest' hn
        simp at h
        obtain ⟨rfl, rfl⟩ := h
        obtain ⟨e, b, eb, hb⟩ := ih hn
        refine ⟨by simp [e], c :: b, by simp [eb], ?_⟩
        intro hm
        simp at hm
        rcases hm with hm | hm
        · exact hc hm.symm
        · exact hb hm

/-- `splitLines` is the iteration of `nextLine` (= of `ReadString('\n')`). -/
theorem splitLines_of_nextLine_some {s l rest : List UInt8} (h : nextLine s = some (l, rest)) :
    splitLines s = (l :: (splitLines rest).1, (splitLines rest).2) := by
  obtain ⟨rfl, hl⟩ := nextLine_some h
  exact splitLines_line hl rest

theorem splitLines_of_nextLine_none {s : List UInt8} (h : nextLine s = none) : splitLines s = ([], s) := by
  induction s with
  | nil => simp [splitLines]
  | cons c cs ih =>
    simp only [nextLine] at h
    split at h
    · simp at h
    · rename_i hc
      split at h
      · rename_i hn; simp [splitLines, hc, ih hn]
      · simp at h

/-- Text without `\n` at the end of the input never becomes a line. -/
theorem splitLines_append_unterminated (text tail : List UInt8) (ht : (10 : UInt8) ∉ tail) :
    (splitLines (text ++ tail)).1 = (splitLines text).1 := by
  induction text with
  | nil =>
    simp only [List.nil_append, splitLines]
    induction tail with
    | nil => simp [splitLines]
    | cons c t ih =>
      have hc : c ≠ 10 := fun h => ht (by simp [h])
      have := ih (fun h => ht (by simp [h]))
      simp [splitLines, hc, this]
  | cons c cs ih =>
    simp only [List.cons_append, splitLines]
    split
    · simp [ih]
    · rw [ih]
      split <;> simp


theorem isEol_eol (crlf : Bool) : isEol (eol crlf) = true := by cases crlf <;> decide

theorem armourTail_mid (mid e : List UInt8) (hm : ∀ c ∈ mid, isLabelChar c = true) (he : isEol e = true) :
    armourTail (mid ++ (dashes ++ e)) = true := by
  induction mid with
  | nil =>
    have h45 : isLabelChar 45 = false := by decide
    simp [dashes, armourTail, h45, closes, he]
  | cons c mid ih =>
    simp [armourTail, hm c (by simp), ih (fun x hx => hm x (by simp [hx]))]

theorem isArmour_mid (mid e : List UInt8) (hm : ∀ c ∈ mid, isLabelChar c = true) (he : isEol e = true) :
    isArmour (dashes ++ mid ++ dashes ++ e) = true := by
  have := armourTail_mid mid e hm he
  simp only [List.append_assoc]
  simp [isArmour, dashes] at this ⊢
  exact this

theorem beginWord_ok : ∀ c ∈ beginWord, isLabelChar c = true := by decide
theorem endWord_ok : ∀ c ∈ endWord, isLabelChar c = true := by decide

theorem isArmour_beginLine {label : List UInt8} (h : labelOk label) (e : List UInt8) (he : isEol e = true) :
    isArmour (beginLine label ++ e) = true := by
  unfold beginLine
  apply isArmour_mid _ _ _ he
  intro c hc
  rcases List.mem_append.1 hc with hc | hc
  · exact beginWord_ok c hc
  · exact h c hc

theorem isArmour_endLine {label : List UInt8} (h : labelOk label) (e : List UInt8) (he : isEol e = true) :
    isArmour (endLine label ++ e) = true := by
  unfold endLine
  apply isArmour_mid _ _ _ he
  intro c hc
  rcases List.mem_append.1 hc with hc | hc
  · exact endWord_ok c hc
  · exact h c hc

theorem isLabelChar_ne_nl {c : UInt8} (h : isLabelChar c = true) : c ≠ 10 := by
  intro e; subst e; revert h; decide

theorem isArmour_head {l : List UInt8} (h : isArmour l = true) : ∃ t, l = 45 :: t := by
  match l, h with
  | [], h => simp [isArmour, dashes] at h
  | c :: t, h =>
    simp [isArmour, dashes] at h
    exact ⟨t, by simp [h.1.1]⟩

theorem isArmour_false_of_head {c : UInt8} (t : List UInt8) (hc : c ≠ 45) : isArmour (c :: t) = false := by
  cases h : isArmour (c :: t) with
  | false => rfl
  | true => obtain ⟨t', e⟩ := isArmour_head h; simp at e; exact absurd e.1 hc

theorem not_mem_dashes : (10 : UInt8) ∉ dashes := by decide

theorem line_of_parts (x : List UInt8) (crlf : Bool) (hx : (10 : UInt8) ∉ x) : IsLine (x ++ eol crlf) := by
  cases crlf with
  | false => exact ⟨x, by simp [eol], hx⟩
  | true =>
    refine ⟨x ++ [13], by simp [eol], ?_⟩
    intro h
    rcases List.mem_append.1 h with h | h
    · exact hx h
    · simp at h

theorem beginLine_no_nl {label : List UInt8} (h : labelOk label) : (10 : UInt8) ∉ beginLine label := by
  intro hm
  simp only [beginLine, List.mem_append] at hm
  rcases hm with (hm | hm | hm) | hm
  · exact not_mem_dashes hm
  · exact isLabelChar_ne_nl (beginWord_ok _ hm) rfl
  · exact isLabelChar_ne_nl (h _ hm) rfl
  · exact not_mem_dashes hm

theorem endLine_no_nl {label : List UInt8} (h : labelOk label) : (10 : UInt8) ∉ endLine label := by
  intro hm
  simp only [endLine, List.mem_append] at hm
  rcases hm with (hm | hm | hm) | hm
  · exact not_mem_dashes hm
  · exact isLabelChar_ne_nl (endWord_ok _ hm) rfl
  · exact isLabelChar_ne_nl (h _ hm) rfl
  · exact not_mem_dashes hm

/-- Lines which are no armour and short enough are handed on. -/
theorem deliver_pass (ls tail : List (List UInt8)) (h : ∀ l ∈ ls, isArmour l = false ∧ l.length ≤ maxLine) :
    deliver (ls ++ tail) = (ls ++ (deliver tail).1, (deliver tail).2) := by
  induction ls with
  | nil => simp
  | cons l ls ih =>
    obtain ⟨h1, h2⟩ := h l (by simp)
    have := ih (fun x hx => h x (by simp [hx]))
    simp [deliver, h1, Nat.not_lt.2 h2, this]


/-- No character of an encoding is a line break or a dash. -/
def plainChar (x : UInt8) : Prop := x ≠ 10 ∧ x ≠ 13 ∧ x ≠ 45

theorem plain_b64Char {n : Nat} (h : n < 64) : plainChar (b64Char n) := (b64Char_spec n h).2
theorem plain_pad : plainChar pad := by unfold plainChar; decide
theorem plain_enc1 (a : UInt8) : plainChar (enc1 a) := by
  have := a.toNat_lt; exact plain_b64Char (by omega)
theorem plain_enc2 (a b : UInt8) : plainChar (enc2 a b) := by
  have := a.toNat_lt; have := b.toNat_lt; exact plain_b64Char (by omega)
theorem plain_enc3 (a b : UInt8) : plainChar (enc3 a b) := by
  have := a.toNat_lt; have := b.toNat_lt; exact plain_b64Char (by omega)
theorem plain_enc4 (a : UInt8) : plainChar (enc4 a) := by
  have := a.toNat_lt; exact plain_b64Char (by omega)

theorem b64Encode_plain (bs : List UInt8) : ∀ x ∈ b64Encode bs, plainChar x := by
  induction bs using b64Encode.induct with
  | case1 a b c rest ih =>
    intro x hx
    simp only [b64Encode, List.mem_cons] at hx
    rcases hx with rfl | rfl | rfl | rfl | hx
    · exact plain_enc1 _
    · exact plain_enc2 _ _
    · exact plain_enc3 _ _
    · exact plain_enc4 _
    · exact ih x hx
  | case2 a b =>
    intro x hx
    simp only [b64Encode, List.mem_cons, List.not_mem_nil, or_false] at hx
    rcases hx with rfl | rfl | rfl | rfl
    · exact plain_enc1 _
    · exact plain_enc2 _ _
    · exact plain_enc3 _ _
    · exact plain_pad
  | case3 a =>
    intro x hx
    simp only [b64Encode, List.mem_cons, List.not_mem_nil, or_false] at hx
    rcases hx with rfl | rfl | rfl | rfl
    · exact plain_enc1 _
    · exact plain_enc2 _ _
    · exact plain_pad
    · exact plain_pad
  | case4 => intro x hx; simp [b64Encode] at hx

theorem filterNl_plain (c : List UInt8) (h : ∀ x ∈ c, plainChar x) : filterNl c = c := by
  unfold filterNl
  rw [List.filter_eq_self]
  intro x hx
  obtain ⟨h1, h2, _⟩ := h x hx
  simp [h1, h2]

theorem filterNl_eol (crlf : Bool) : filterNl (eol crlf) = [] := by cases crlf <;> decide

theorem filterNl_append (a b : List UInt8) : filterNl (a ++ b) = filterNl a ++ filterNl b := by
  simp [filterNl]

/-- What the reader sees of a body line: the line is complete, no armour, short enough, and the filter
leaves the base64 text. -/
theorem bodyLine_facts (crlf : Bool) (der c : List UInt8) (hc : c ∈ chunksOf 64 (b64Encode der)) :
    IsLine (c ++ eol crlf) ∧ isArmour (c ++ eol crlf) = false ∧ (c ++ eol crlf).length ≤ maxLine ∧
      filterNl (c ++ eol crlf) = c := by
  obtain ⟨hne, hlen, hmem⟩ := chunksOf_mem (by omega) hc
  have hplain : ∀ x ∈ c, plainChar x := fun x hx => b64Encode_plain der x (hmem x hx)
  refine ⟨line_of_parts c crlf (fun h => (hplain _ h).1 rfl), ?_, ?_, ?_⟩
  · match c, hne with
    | x :: t, _ => exact isArmour_false_of_head _ (hplain x (by simp)).2.2
  · have : (eol crlf).length ≤ 2 := by cases crlf <;> decide
    simp only [List.length_append, maxLine]; omega
  · rw [filterNl_append, filterNl_plain c hplain, filterNl_eol]; simp

theorem pemEncode_lines (crlf : Bool) (label der : List UInt8) :
    pemEncode crlf label der =
      ([beginLine label ++ eol crlf] ++ (bodyLines crlf der ++ [endLine label ++ eol crlf])).flatten := by
  simp [pemEncode]

theorem pemLines_pemEncode (crlf : Bool) (label der : List UInt8) (h : labelOk label) :
    pemLines (pemEncode crlf label der) = (bodyLines crlf der, .eof) := by
  have hbody : ∀ l ∈ bodyLines crlf der, IsLine l ∧ isArmour l = false ∧ l.length ≤ maxLine := by
    intro l hl
    simp only [bodyLines, List.mem_map] at hl
    obtain ⟨c, hc, rfl⟩ := hl
    have := bodyLine_facts crlf der c hc
    exact ⟨this.1, this.2.1, this.2.2.1⟩
  have hlines : ∀ l ∈ [beginLine label ++ eol crlf] ++ (bodyLines crlf der ++ [endLine label ++ eol crlf]),
      IsLine l := by
    intro l hl
    simp only [List.mem_append, List.mem_singleton] at hl
    rcases hl with rfl | hl | rfl
    · exact line_of_parts _ _ (beginLine_no_nl h)
    · exact (hbody l hl).1
    · exact line_of_parts _ _ (endLine_no_nl h)
  rw [pemLines, pemEncode_lines, splitLines_flatten _ hlines]
  simp only [List.singleton_append, deliver, isArmour_beginLine h _ (isEol_eol crlf), if_true]
  rw [deliver_pass _ _ (fun l hl => (hbody l hl).2)]
  simp [deliver, isArmour_endLine h _ (isEol_eol crlf)]

theorem map_filterNl_bodyLines (crlf : Bool) (der : List UInt8) :
    (bodyLines crlf der).map filterNl = chunksOf 64 (b64Encode der) := by
  unfold bodyLines
  rw [List.map_map]
  conv => rhs; rw [← List.map_id (chunksOf 64 (b64Encode der))]
  apply List.map_congr_left
  intro c hc
  simpa using (bodyLine_facts crlf der c hc).2.2.2

theorem pemDecode_pemEncode (crlf : Bool) (label der : List UInt8) (h : labelOk label) :
    pemDecode (pemEncode crlf label der) = (der, .eof) := by
  simp only [pemDecode, pemLines_pemEncode crlf label der h, map_filterNl_bodyLines]
  rw [b64Chunks_encode _ [] der (by simp) (by simp [chunksOf_flatten 64 (by omega)])]
  rfl


/-! ### PEM detection -/

theorem stripEol_prefix (l : List UInt8) : ∃ t, l = stripEol l ++ t := by
  unfold stripEol
  split
  · rename_i r h
    refine ⟨[13, 10], ?_⟩
    have := congrArg List.reverse h
    simpa using this
  · rename_i r _ h
    refine ⟨[10], ?_⟩
    have := congrArg List.reverse h
    simpa using this
  · exact ⟨[], by simp⟩

/-- A file is taken for PEM only if it starts with a dash. -/
theorem isPemFile_head {input : List UInt8} (h : isPemFile input = true) : ∃ t, input = 45 :: t := by
  unfold isPemFile at h
  split at h
  · simp at h
  · split at h
    · rename_i l rest hn
      obtain ⟨t1, e1⟩ := isArmour_head h
      obtain ⟨t2, e2⟩ := stripEol_prefix l
      obtain ⟨e3, _⟩ := nextLine_some hn
      have e4 := List.take_append_drop bufSize input
      rw [e3, e2, e1] at e4
      exact ⟨t1 ++ t2 ++ rest ++ List.drop bufSize input, by simpa using e4.symm⟩
    · split at h
      · simp at h
      · exact isArmour_head h

theorem stripEol_lf (b : List UInt8) (hb : b.getLast? ≠ some 13) : stripEol (b ++ [10]) = b := by
  unfold stripEol
  split
  · rename_i r h
    simp at h
    rw [List.getLast?_eq_head?_reverse, h] at hb
    simp at hb
  · rename_i r _ h
    simp at h
    have := congrArg List.reverse h
    exact (by simpa using this : b = r.reverse).symm
  · rename_i h1 h2
    simp at h2

theorem stripEol_crlf (b : List UInt8) : stripEol (b ++ [13, 10]) = b := by
  unfold stripEol
  split
  · rename_i r h
    simp at h
    have := congrArg List.reverse h
    exact (by simpa using this : b = r.reverse).symm
  · rename_i r h1 h
    simp at h
    exact absurd h.symm (h1 _)
  · rename_i h1 h2
    simp at h1

theorem beginLine_getLast (label : List UInt8) : (beginLine label).getLast? ≠ some 13 := by
  have : beginLine label = (dashes ++ (beginWord ++ label) ++ [45, 45, 45, 45]) ++ [45] := by
    simp [beginLine, dashes]
  rw [this, List.getLast?_concat]
  decide

theorem stripEol_beginLine (crlf : Bool) (label : List UInt8) :
    stripEol (beginLine label ++ eol crlf) = beginLine label := by
  cases crlf with
  | false => exact stripEol_lf _ (beginLine_getLast label)
  | true => exact stripEol_crlf _

theorem isPemFile_pemEncode (crlf : Bool) (label der : List UInt8) (h : labelOk label)
    (hlen : label.length ≤ 4078) : isPemFile (pemEncode crlf label der) = true := by
  have hline : IsLine (beginLine label ++ eol crlf) := line_of_parts _ _ (beginLine_no_nl h)
  have hl : (beginLine label ++ eol crlf).length ≤ bufSize := by
    have : (eol crlf).length ≤ 2 := by cases crlf <;> decide
    simp [beginLine, dashes, beginWord, bufSize] at *; omega
  have hne : (pemEncode crlf label der).isEmpty = false := by
    simp [pemEncode, beginLine, dashes]
  unfold isPemFile
  rw [hne]
  simp only [Bool.false_eq_true, if_false]
  have htake : (pemEncode crlf label der).take bufSize =
      (beginLine label ++ eol crlf) ++
        ((bodyLines crlf der).flatten ++ (endLine label ++ eol crlf)).take (bufSize - (beginLine label ++ eol crlf).length) := by
    unfold pemEncode
    rw [List.take_append, List.take_of_length_le hl]
  rw [htake, nextLine_line hline]
  simp only [stripEol_beginLine]
  have := isArmour_beginLine h [] (by decide)
  simpa using this


/-! ### Armour lines are skipped; unterminated text is dropped -/

theorem pemLines_armour_line {a : List UInt8} (hl : IsLine a) (ha : isArmour a = true) (text : List UInt8) :
    pemLines (a ++ text) = pemLines text := by
  simp [pemLines, splitLines_line hl, deliver, ha]

theorem isEol_cases {e : List UInt8} (h : isEol e = true) : e = [] ∨ e = [10] ∨ e = [13, 10] := by
  simpa [isEol, or_assoc] using h

/-- An armour line has no `\n` except possibly as its last character. -/
theorem armourTail_shape : ∀ (l : List UInt8), armourTail l = true →
    (10 : UInt8) ∉ l ∨ ∃ b, l = b ++ [10] ∧ (10 : UInt8) ∉ b := by
  intro l
  induction l with
  | nil => intro h; simp [armourTail] at h
  | cons c cs ih =>
    intro h
    simp only [armourTail] at h
    split at h
    · rename_i hc
      have hne := isLabelChar_ne_nl hc
      rcases ih h with h1 | ⟨b, rfl, hb⟩
      · left; intro hm; simp at hm; rcases hm with hm | hm
        · exact hne hm.symm
        · exact h1 hm
      · right; refine ⟨c :: b, by simp, ?_⟩
        intro hm; simp at hm; rcases hm with hm | hm
        · exact hne hm.symm
        · exact hb hm
    · simp only [closes, Bool.and_eq_true, beq_iff_eq] at h
      obtain ⟨h1, h2⟩ := h
      have e := List.take_append_drop 5 (c :: cs)
      rw [h1] at e
      rcases isEol_cases h2 with h3 | h3 | h3 <;> rw [h3] at e <;> rw [← e]
      · left; decide
      · right; exact ⟨dashes, rfl, by decide⟩
      · right; exact ⟨dashes ++ [13], by simp, by decide⟩

theorem isArmour_isLine {a : List UInt8} (ha : isArmour a = true) (hlast : a.getLast? = some 10) : IsLine a := by
  simp only [isArmour, Bool.and_eq_true, beq_iff_eq] at ha
  obtain ⟨h1, h2⟩ := ha
  have e := List.take_append_drop 5 a
  rw [h1] at e
  rcases armourTail_shape _ h2 with h3 | ⟨b, hb, hn⟩
  · exfalso
    have : (10 : UInt8) ∈ a := List.mem_of_getLast? hlast
    rw [← e] at this
    rcases List.mem_append.1 this with h | h
    · exact not_mem_dashes h
    · exact h3 h
  · refine ⟨dashes ++ b, by rw [← e, hb]; simp, ?_⟩
    intro h
    rcases List.mem_append.1 h with h | h
    · exact not_mem_dashes h
    · exact hn h

theorem pemLines_armour_lines (as : List (List UInt8))
    (h : ∀ a ∈ as, isArmour a = true ∧ a.getLast? = some 10) (text : List UInt8) :
    pemLines (as.flatten ++ text) = pemLines text := by
  induction as with
  | nil => simp
  | cons a as ih =>
    obtain ⟨h1, h2⟩ := h a (by simp)
    simp only [List.flatten_cons, List.append_assoc]
    rw [pemLines_armour_line (isArmour_isLine h1 h2) h1, ih (fun x hx => h x (by simp [hx]))]

theorem pemLines_unterminated (text tail : List UInt8) (ht : (10 : UInt8) ∉ tail) :
    pemLines (text ++ tail) = pemLines text := by
  simp [pemLines, splitLines_append_unterminated text tail ht]

/-! ### Size: the pipeline never delivers more bytes than the file holds -/

theorem decodeQuads_length : ∀ (n : Nat) (l : List UInt8), l.length ≤ n → (decodeQuads l).1.length ≤ l.length := by
  intro n
  induction n using Nat.strongRecOn with
  | _ n ih =>
    intro l hl
    match l with
    | [] => simp [decodeQuads]
    | [_] => simp [decodeQuads]
    | [_, _] => simp [decodeQuads]
    | [_, _, _] => simp [decodeQuads]
    | a :: b :: c :: d :: rest =>
      have := ih (n - 4) (by simp at hl; omega) rest (by simp at hl; omega)
      simp only [decodeQuads]
      split
      · split
        · split
          · simp; omega
          · split <;> simp
        · split <;> simp
      · simp

theorem b64Chunks_length : ∀ (cs : List (List UInt8)) (carry : List UInt8),
    (b64Chunks carry cs).1.length ≤ carry.length + cs.flatten.length := by
  intro cs
  induction cs with
  | nil => intro carry; simp [b64Chunks]
  | cons c cs ih =>
    intro carry
    simp only [b64Chunks]
    split
    · have := ih (carry ++ c); simp at this ⊢; omega
    · have h1 := decodeQuads_length _ ((carry ++ c).take ((carry ++ c).length / 4 * 4)) (Nat.le_refl _)
      have h2 := ih ((carry ++ c).drop ((carry ++ c).length / 4 * 4))
      rw [List.length_take] at h1
      rw [List.length_drop] at h2
      split
      · simp at h1 h2 ⊢; omega
      · simp at h1 ⊢; omega

theorem filterNl_length (l : List UInt8) : (filterNl l).length ≤ l.length := List.length_filter_le _ _

theorem map_filterNl_length (ls : List (List UInt8)) : (ls.map filterNl).flatten.length ≤ ls.flatten.length := by
  induction ls with
  | nil => simp
  | cons l ls ih => have := filterNl_length l; simp at ih ⊢; omega

theorem deliver_length (ls : List (List UInt8)) : (deliver ls).1.flatten.length ≤ ls.flatten.length := by
  induction ls with
  | nil => simp [deliver]
  | cons l ls ih =>
    simp only [deliver]
    split
    · simp at ih ⊢; omega
    · split
      · simp
      · simp at ih ⊢; omega

theorem splitLines_length (s : List UInt8) :
    (splitLines s).1.flatten.length + (splitLines s).2.length = s.length := by
  induction s with
  | nil => simp [splitLines]
  | cons c cs ih =>
    simp only [splitLines]
    split
    · simp at ih ⊢; omega
    · split
      · rename_i h; rw [h] at ih; simp at ih ⊢; omega
      · rename_i l ls h; rw [h] at ih; simp at ih ⊢; omega

theorem pemDecode_length (input : List UInt8) : (pemDecode input).1.length ≤ input.length := by
  have h1 := b64Chunks_length ((pemLines input).1.map filterNl) []
  have h2 := map_filterNl_length (pemLines input).1
  have h3 := deliver_length (splitLines input).1
  have h4 := splitLines_length input
  simp only [pemDecode, pemLines, List.length_nil, Nat.zero_add] at *
  omega


/-- BEGIN line, body lines, then any armour lines (the END line, or none at all). -/
theorem pemLines_armoured (crlf : Bool) (label der : List UInt8) (h : labelOk label) (post : List (List UInt8))
    (hpost : ∀ l ∈ post, IsLine l ∧ isArmour l = true) :
    pemLines ((beginLine label ++ eol crlf) ++ ((bodyLines crlf der).flatten ++ post.flatten)) =
      (bodyLines crlf der, .eof) := by
  have hbody : ∀ l ∈ bodyLines crlf der, IsLine l ∧ isArmour l = false ∧ l.length ≤ maxLine := by
    intro l hl
    simp only [bodyLines, List.mem_map] at hl
    obtain ⟨c, hc, rfl⟩ := hl
    have := bodyLine_facts crlf der c hc
    exact ⟨this.1, this.2.1, this.2.2.1⟩
  have hlines : ∀ l ∈ [beginLine label ++ eol crlf] ++ (bodyLines crlf der ++ post), IsLine l := by
    intro l hl
    simp only [List.mem_append, List.mem_singleton] at hl
    rcases hl with rfl | hl | hl
    · exact line_of_parts _ _ (beginLine_no_nl h)
    · exact (hbody l hl).1
    · exact (hpost l hl).1
  have e : (beginLine label ++ eol crlf) ++ ((bodyLines crlf der).flatten ++ post.flatten) =
      ([beginLine label ++ eol crlf] ++ (bodyLines crlf der ++ post)).flatten := by simp
  rw [pemLines, e, splitLines_flatten _ hlines]
  simp only [List.singleton_append, deliver, isArmour_beginLine h _ (isEol_eol crlf), if_true]
  rw [deliver_pass _ _ (fun l hl => (hbody l hl).2)]
  have hp : deliver post = ([], .eof) := by
    clear e hlines
    induction post with
    | nil => rfl
    | cons a post ih =>
      simp [deliver, (hpost a (by simp)).2, ih (fun l hl => hpost l (by simp [hl]))]
  simp [hp]

theorem pemDecode_armoured (crlf : Bool) (label der : List UInt8) (h : labelOk label) (post : List (List UInt8))
    (hpost : ∀ l ∈ post, IsLine l ∧ isArmour l = true) :
    pemDecode ((beginLine label ++ eol crlf) ++ ((bodyLines crlf der).flatten ++ post.flatten)) = (der, .eof) := by
  simp only [pemDecode, pemLines_armoured crlf label der h post hpost, map_filterNl_bodyLines]
  rw [b64Chunks_encode _ [] der (by simp) (by simp [chunksOf_flatten 64 (by omega)])]
  rfl

end Crv.Pem
